"""C14 — Denied fields never reach the client and denied mutations never reach a subgraph.

Pipeline (design.d/C14.md):
  1. TLC model-checks the reference model of spec/resolve/Authz.tla (MC_Authz: the four properties hold on the reference
     execution over an abstract response tree for every non-null assignment x Deny set x mode x kind; three negative
     configurations must be rejected = the properties are not vacuous).
  2. TLC prints the menu of operations (Gen_Authz, PHASE=menu); harness/cmd/authz -mode shape computes with gqlparser the
     selection shape + coordinate families each operation touches; TLC (Gen_Authz, PHASE=cases) enumerates
     P (<= MaxP families) x d : P -> {allow,deny} x mode {post, batch} x delivery {sync, defer}.
  3. harness/cmd/authz -mode run replays every case into a real federated engine (internal/fedenv): planner configuration
     with HasAuthorizationRule on exactly P, authorizers implemented from d; records all frames, cumulative payloads, error
     paths and subgraph requests.  The same operation without any authorizer gives the base payload.
  4. TLC (Trace_Authz) judges every case: NoDeniedValue, DenialReported, NullPropagates (+ exact data for complete query
     responses), PrefetchRule.  On a failure Trace_Authz_report lists every failing case so that each gets its own key.
  5. Python: raw substring scan of ALL bytes written to the client for the values the base payload has under denied positions
     (only values that occur nowhere else legitimately), panics.
"""
import json
import os
import random
import re

import lib

DENY_REASON = "policy-says-no"
WINDOW = 12
NOISE = [DENY_REASON, "Unauthorized to load field", "Unauthorized request to Subgraph", "Unauthorized Subgraph request", "Reason:",
         "UNAUTHORIZED_FIELD_OR_TYPE", "Cannot return null for non-nullable field", "Failed to fetch from Subgraph", "at Path",
         "extensions", "message", "incremental", "completed", "pending", "hasNext", "subPath", "errors", "data", "locations",
         "unable to merge results from subgraph", "differing types"]


# ------------------------------------------------------------------------------------------ python mirror of Authz.tla
# (used for keys, diagnostics and the raw scan only -- verdicts come from TLC)
def untag(v):
    t = v["t"]
    if t == "n":
        return None
    if t == "o":
        return {"__o": list(zip(v["k"], [untag(x) for x in v["v"]]))}
    if t == "l":
        return [untag(x) for x in v["v"]]
    return (t, v["v"])


def key_idx(o, key):
    for i, k in enumerate(o["k"]):
        if k == key:
            return i
    return -1


def variant_of(obj, o):
    vs = obj["v"]
    if not vs:
        return None
    if len(vs) == 1:
        return vs[0]
    i = key_idx(o, "__typename")
    tn = o["v"][i]["v"] if i >= 0 and o["v"][i]["t"] == "s" else ""
    for v in vs:
        if tn in v["types"]:
            return v
    return None


def positions(shape, data):
    """list of dicts path, fam, null, nonnull, val (tagged)"""
    out = []

    def pos_obj(obj, o, path):
        var = variant_of(obj, o)
        if var is None:
            return
        for f in var["fields"]:
            i = key_idx(o, f["key"])
            if i >= 0:
                pos_val(f, 0, o["v"][i], path + [f["key"]])

    def pos_val(f, lvl, x, path):
        out.append({"path": path, "fam": f["fam"] if lvl == 0 else "", "rc": f.get("rc", f["fam"]) if lvl == 0 else "",
                    "null": x["t"] == "n", "nonnull": f["nn"][lvl], "val": x})
        if x["t"] == "n":
            return
        if lvl < len(f["nn"]) - 1:
            if x["t"] == "l":
                for i, e in enumerate(x["v"]):
                    pos_val(f, lvl + 1, e, path + ["#%d" % i])
            return
        if f["leaf"] or x["t"] != "o":
            return
        pos_obj(f["obj"], x, path)

    if data["t"] == "o":
        pos_obj(shape, data, [])
    return out


def leaves(v, out):
    t = v["t"]
    if t == "o":
        for k, x in zip(v["k"], v["v"]):
            if k != "__typename":
                leaves(x, out)
    elif t == "l":
        for x in v["v"]:
            leaves(x, out)
    elif t in ("s", "i", "f"):
        out.append(v["v"])


def redact(v, shape_positions_denied_paths, path=()):
    """compact JSON text of v with the subtrees at the given paths replaced by null"""
    if tuple(path) in shape_positions_denied_paths:
        return "null"
    t = v["t"]
    if t == "n":
        return "null"
    if t == "o":
        return "{" + ",".join(json.dumps(k) + ":" + redact(x, shape_positions_denied_paths, path + (k,)) for k, x in zip(v["k"], v["v"])) + "}"
    if t == "l":
        return "[" + ",".join(redact(x, shape_positions_denied_paths, path + ("#%d" % i,)) for i, x in enumerate(v["v"])) + "]"
    if t == "s":
        return json.dumps(v["v"])
    return v["v"]


def denied(p, deny):
    return p["fam"] in deny or p["rc"] in deny


def is_prefix(p, q):
    return len(p) <= len(q) and list(q[:len(p)]) == list(p)


def strip_idx(path):
    return ".".join(p for p in path if not p.startswith("#"))


# ------------------------------------------------------------------------------------------ keys for failing cases
def keys_for(prop, case, res, op, base_cum):
    """Specific keys (one per distinct way the case fails `prop`); python only names what TLC decided."""
    shape = op["shape"]
    deny = set(case["deny_fams"])
    mode, delivery, oid = case["mode"], case["delivery"], case["op"]
    keys = []
    if prop == "NoDeniedValue":
        fams = set()
        for cum in res["cum"] + res["orph"]:
            for p in positions(shape, cum):
                if denied(p, deny) and not p["null"]:
                    fams.add(p["fam"] if p["fam"] in deny else "split=" + p["rc"])
        for f in sorted(fams) or ["?"]:
            cls = ("partial-family:" if case.get("partial") else "split-family:") if f.startswith("split=") else ""
            keys.append(("NoDeniedValue:%s:%s%s:%s:%s" % (mode, cls, delivery, oid, f),
                         "denied %s is delivered with a non-null value" % f))
    elif prop == "DenialReported":
        errs = [e["path"] for e in res["errors"] if e["haspath"]]
        final = positions(shape, res["cum"][-1]) if res["cum"] else []
        fpaths = {tuple(p["path"]): p for p in final}
        basepos = positions(shape, base_cum)
        for b in basepos:
            if not denied(b, deny):
                continue
            if b["fam"] not in deny:
                b = dict(b, fam="split=" + b["rc"])
            bp = tuple(b["path"])
            if bp in fpaths:
                if list(bp) not in errs:
                    cls = "%s:%s-family:" % (mode, "partial" if case.get("partial") else "split") if b["fam"].startswith("split=") else ""
                    keys.append(("DenialReported:%s%s:visible-without-error:%s:%s:%s" % (cls, delivery, mode, oid, b["fam"]),
                                 "denied position %s is %s but no error carries its path" % (
                                     "/".join(bp), "nulled" if fpaths[bp]["null"] else "delivered with a value")))
                continue
            n = len(bp) - 1
            while n > 0 and bp[:n] not in fpaths:
                n -= 1
            anchor = bp[:n]
            if any(is_prefix(anchor, e) for e in errs):
                continue
            a = fpaths.get(anchor)
            if delivery == "defer" and (a is None or not a["null"]):
                kind = "list-item" if any(x.startswith("#") for x in anchor) else "object"
                keys.append(("DenialReported:defer:fragment-completed-without-error:anchor=%s:%s:%s:%s" % (kind, mode, oid, b["fam"]),
                             "denied position %s is not delivered and no error at or below %s tells the client why" % ("/".join(bp), "/".join(anchor) or "<root>")))
            elif any(not e["haspath"] for e in res["errors"]):
                keys.append(("DenialReported:%s:hidden-error-without-path:%s:%s:%s" % (delivery, mode, oid, b["fam"]),
                             "denied position %s is hidden below %s and the only error has no path" % ("/".join(bp), "/".join(anchor) or "<root>")))
            else:
                keys.append(("DenialReported:%s:hidden-without-error:%s:%s:%s" % (delivery, mode, oid, b["fam"]),
                             "denied position %s is hidden below %s and no error at or below it exists" % ("/".join(bp), "/".join(anchor) or "<root>")))
        bnull = {tuple(b["path"]): b["null"] for b in basepos}
        for p in final:
            pp = tuple(p["path"])
            if p["null"] and bnull.get(pp) is False and not any(is_prefix(pp, e) for e in errs):
                keys.append(("DenialReported:%s:unexplained-null:%s:%s:%s" % (delivery, mode, oid, strip_idx(pp)),
                             "null at %s that the base payload does not have and no error explains" % "/".join(pp)))
        if not keys:
            keys.append(("DenialReported:%s:?:%s:%s" % (delivery, mode, oid), "TLC rejected DenialReported"))
    elif prop == "NullPropagates":
        seen = set()
        for cum in res["cum"]:
            for p in positions(shape, cum):
                if p["null"] and p["nonnull"]:
                    seen.add(strip_idx(p["path"]))
        for s in sorted(seen) or ["?"]:
            keys.append(("NullPropagates:%s:%s:%s:%s" % (mode, delivery, oid, s), "null at the non-null position %s" % s))
    elif prop == "NullPropagatesExact":
        keys.append(("NullPropagatesExact:%s:%s%s:deny=%s" % (mode, ("partial-family:" if case.get("partial") else "split-family:") if case.get("split") else "", oid, "+".join(sorted(deny))),
                     "data differs from the reference execution with authorization: %s" % res["final"][:300]))
    elif prop == "PrefetchRule":
        deferfams = set(op["deferfams"])
        for r in res["requests"]:
            roots = r["root_fams"]
            denied_roots = [x for x in roots if x in deny]
            stage = "defer-group" if delivery == "defer" and roots and all(x in deferfams for x in roots) else "primary"
            if mode == "batch" and roots and len(denied_roots) == len(roots):
                keys.append(("PrefetchRule:%s:%s:%s:all-denied:%s:%s" % (mode, stage, r["kind"], oid, "+".join(roots)),
                             "%s request to %s sent although all of its root fields %s are denied" % (r["kind"], r["sg"], roots)))
            elif r["kind"] != "query" and denied_roots:
                keys.append(("PrefetchRule:%s:%s:%s:any-denied:%s:%s" % (mode, stage, r["kind"], oid, "+".join(roots)),
                             "%s request to %s sent although its root fields %s are denied" % (r["kind"], r["sg"], denied_roots)))
        if not keys:
            keys.append(("PrefetchRule:%s:?:%s" % (mode, oid), "TLC rejected PrefetchRule"))
    elif prop == "FailClosed":
        fams = set()
        for cum in res["cum"] + res["orph"]:
            for p in positions(shape, cum):
                if denied(p, deny) and not p["null"]:
                    fams.add(p["fam"])
        for f in sorted(fams) or ["?"]:
            keys.append(("FailClosed:%s:%s:%s:%s:fail=%s" % (mode, delivery, oid, f, case.get("fail_fam")),
                         "the authorizer returned an error for %s, yet %s is delivered with a value" % (case.get("fail_fam"), f)))
    else:
        keys.append(("%s:%s:%s:%s" % (prop, mode, delivery, oid), "TLC rejected %s" % prop))
    return keys


# ------------------------------------------------------------------------------------------ main
def strip_defer(text):
    return re.sub(r"\.\.\.\s*@defer\s*\{", "... {", text)


def load_fragment(ctx):
    """findings.d/C14.json is this check's fragment of known-findings.json; honour it even before the coordinator merges it."""
    path = os.path.join(lib.VERIF, "findings.d", "C14.json")
    known = ctx.known()
    if os.path.exists(path):
        with open(path) as f:
            for e in json.load(f):
                if not any(k.get("property") == e["property"] and k.get("key") == e["key"] for k in known):
                    known.append(e)


def run(ctx):
    load_fragment(ctx)
    rng = random.Random(ctx.seed)
    quick = ctx.quick()
    binary = ctx.build("authz")
    # ---- 1. model checking ---------------------------------------------------------------------
    ctx.tlc_must_pass("resolve", "MC_Authz", "MC_Authz.cfg" if quick or ctx.replay_in else "MC_Authz_thorough.cfg", workers=8, timeout=1500,
                      tag="mc-reference-model")
    for cfg, inv in (("MC_Authz_neg_leak.cfg", "Inv_NoDeniedValue"), ("MC_Authz_neg_prop.cfg", "Neg_NeverPropagates"),
                     ("MC_Authz_neg_sent.cfg", "Neg_AlwaysSent")):
        r = ctx.tlc("resolve", "MC_Authz", cfg, workers=2, timeout=300, count=False, tag="mc-negative")
        if r.violated != inv:
            raise lib.Inconclusive("sanity: %s should violate %s in the model, got %r" % (cfg, inv, r.error))
    # ---- 2. menu, shapes, cases ----------------------------------------------------------------
    g = ctx.tlc_must_pass("resolve", "Gen_Authz", "Gen_Authz_1.cfg", workers=1, timeout=300, env={"PHASE": "menu", "OPS": ""}, count=False, tag="gen-menu")
    menu = sorted(g.printed, key=lambda m: m["id"])
    if not menu:
        raise lib.Inconclusive("generator printed no menu")
    lib.write_ndjson(ctx.path("ops.ndjson"), menu)
    ctx.run_bin(binary, ["-mode", "shape", "-in", ctx.path("ops.ndjson"), "-out", ctx.path("shapes.ndjson")], timeout=300)
    shapes = {s["id"]: s for s in lib.read_ndjson(ctx.path("shapes.ndjson"))}
    text = {m["id"]: m["text"] for m in menu}
    lib.write_ndjson(ctx.path("ops_gen.ndjson"), [{"id": s["id"], "kind": s["kind"], "defer": s["defer"], "fams": s["fams"], "splits": s["splits"]}
                                                  for s in shapes.values()])
    maxp = 3 if quick or ctx.replay_in else 4
    g = ctx.tlc_must_pass("resolve", "Gen_Authz", "Gen_Authz_%d.cfg" % maxp, workers=1, timeout=1200, heap="6g",
                          env={"PHASE": "cases", "OPS": ctx.path("ops_gen.ndjson")}, tag="gen-cases")
    gen = {}
    for c in g.printed:
        c["P"] = sorted(c["P"])
        c["deny"] = sorted(c["deny"])
        gen[lib.sha(c)] = c
    gen = sorted(gen.values(), key=lambda c: json.dumps(c, sort_keys=True))
    splits = [c for c in gen if c["split"] and not c["partial"]]
    partials = [c for c in gen if c["partial"]]
    fails = [c for c in gen if c["fail"]]
    both = [c for c in gen if c["mode"] == "both" and not c["fail"] and not c["split"]]
    gen = [c for c in gen if not c["split"] and not c["fail"] and c["mode"] != "both"]
    small = [c for c in gen if len(c["P"]) <= (2 if quick else 3)]
    big = [c for c in gen if len(c["P"]) > (2 if quick else 3)]
    rng.shuffle(big)
    if ctx.replay_in:
        # bin/check C14 --replay <file>: only the recorded case (it must be one the generator produces)
        with open(ctx.replay_in) as f:
            rc = json.load(f)["case"]["case"]
        chosen = [c for c in gen + splits + partials + fails + both if c == rc.get("gen")]
        if not chosen and not rc["op"].startswith(("synth", "subs", "collide")):
            raise lib.Inconclusive("the case of %s is not produced by the generator" % ctx.replay_in)
    elif quick:
        # |P| <= 2 with P = Deny or one allowed decoy is kept in full; the remaining |P| = 2 and |P| = 3 cases are sampled
        keep = [c for c in small if len(c["P"]) <= 1 or len(c["deny"]) >= 1]
        rest = [c for c in small if c not in keep]
        rng.shuffle(rest)
        rng.shuffle(splits)
        rng.shuffle(fails)
        rng.shuffle(both)
        chosen = (keep + rest[:500] + big[:1200] + [c for c in splits if len(c["P"]) == 1] + [c for c in splits if len(c["P"]) > 1][:500]
                  + partials + fails[:700] + [c for c in both if len(c["P"]) <= 1] + [c for c in both if len(c["P"]) > 1][:900])
    else:
        chosen = small + big + splits + partials + fails + both
    ctx.log("generator: %d plain cases (|P| <= %d), %d both-authorizers, %d split-family, %d partial-family, %d failing-authorizer; %d chosen" % (
        len(gen), maxp, len(both), len(splits), len(partials), len(fails), len(chosen)))
    # ---- 3. replay -----------------------------------------------------------------------------
    cases = []
    bases = {}
    for oid, s in shapes.items():
        for delivery in (("sync", "defer") if s["defer"] else ("sync",)):
            t = text[oid] if delivery == "defer" else strip_defer(text[oid])
            bid = "base|%s|%s" % (oid, delivery)
            bases[(oid, delivery)] = bid
            cases.append({"id": bid, "op": oid, "text": t, "vars": "", "protect": [], "deny": [], "mode": "none", "fresh": True,
                          "delivery": delivery, "deny_fams": [], "P": []})
    for i, c in enumerate(chosen):
        s = shapes[c["op"]]
        t = text[c["op"]] if c["delivery"] == "defer" else strip_defer(text[c["op"]])
        cases.append({"id": "c%06d" % i, "op": c["op"], "text": t, "vars": "",
                      "protect": sorted({x for f in c["P"] for x in s["famcoords"].get(f, [f])}),
                      "deny": sorted({x for f in c["deny"] for x in s["famcoords"].get(f, [f])}),
                      "fail": sorted(s["famcoords"].get(c["fail"], [])) if c["fail"] else [],
                      "mode": c["mode"], "fresh": s["kind"] != "query", "delivery": c["delivery"],
                      "deny_fams": sorted(c["deny"] + ([c["fail"]] if c["fail"] else [])), "P": c["P"],
                      "split": c["split"], "partial": c["partial"], "fail_fam": c["fail"], "gen": c})
    lib.write_ndjson(ctx.path("cases.ndjson"), cases)
    ctx.run_bin(binary, ["-mode", "run", "-in", ctx.path("cases.ndjson"), "-out", ctx.path("results.ndjson"), "-par", "8"], timeout=2400)
    results = {r["id"]: r for r in lib.read_ndjson(ctx.path("results.ndjson"))}
    # ---- 3b. synthetic plans at the resolve level (several root fields in one mutation / subscription request) ----
    g = ctx.tlc_must_pass("resolve", "Gen_Authz", "Gen_Authz_1.cfg", workers=1, timeout=600, env={"PHASE": "synth", "OPS": ""}, tag="gen-synth")
    synth_in = []
    nsynth = 0
    for c in sorted(g.printed, key=lambda c: json.dumps(c, sort_keys=True)):
        o = c["synth"]
        oid = "synth:%s:%s:%s" % (o["kind"], "+".join(str(x) for x in o["layout"]), "nn1" if o["nnfirst"] else "nullable")
        root = {"query": "Query", "mutation": "Mutation", "subscription": "Subscription"}[o["kind"]]
        n = sum(o["layout"])
        if oid not in shapes:
            fams = ["%s.f%d" % (root, i) for i in range(1, n + 1)]
            shapes[oid] = {"id": oid, "kind": o["kind"], "defer": False, "fams": fams, "famcoords": {f: [f] for f in fams}, "deferfams": [], "splits": [],
                           "multi_root": o["kind"] != "query",
                           "shape": {"v": [{"types": [root], "fields": [
                               {"key": "f%d" % i, "fam": "%s.f%d" % (root, i), "rc": "%s.f%d" % (root, i), "name": "f%d" % i,
                                "nn": [o["nnfirst"] and i == 1], "leaf": True, "obj": {"v": []}} for i in range(1, n + 1)]}]}}
            text[oid] = "hand-built plan: %s, root fields per request %s%s" % (o["kind"], o["layout"], ", f1 non-null" if o["nnfirst"] else "")
            bid = "base|%s|sync" % oid
            bases[(oid, "sync")] = bid
            b = {"id": bid, "op": oid, "text": text[oid], "protect": [], "deny": [], "mode": "none", "delivery": "sync", "deny_fams": [], "P": [], "split": ""}
            cases.append(b)
            synth_in.append(dict(b, kind=o["kind"], layout=o["layout"], nnfirst=o["nnfirst"]))
        if ctx.replay_in and c != rc.get("gen"):
            continue
        sc = {"id": "s%06d" % nsynth, "op": oid, "text": text[oid], "protect": sorted(c["P"]), "deny": sorted(c["deny"]), "mode": c["mode"],
              "delivery": "sync", "deny_fams": sorted("%s.f%d" % (root, i) for i in c["deny"]), "P": sorted("%s.f%d" % (root, i) for i in c["P"]), "split": "", "gen": c}
        nsynth += 1
        cases.append(sc)
        synth_in.append(dict(sc, kind=o["kind"], layout=o["layout"], nnfirst=o["nnfirst"]))
    # colliding coordinates (decision cache key without separators)
    g = ctx.tlc_must_pass("resolve", "Gen_Authz", "Gen_Authz_1.cfg", workers=1, timeout=600, env={"PHASE": "collide", "OPS": ""}, tag="gen-collide")
    ncollide = 0
    for c in sorted(g.printed, key=lambda c: json.dumps(c, sort_keys=True)):
        o = c["collide"]
        objs = list(o["coords"])
        idx = [1, 2]
        if o["swap"]:
            objs.reverse()
            idx.reverse()
        coord = {i: "%s.%s" % (o["coords"][i - 1]["type"], o["coords"][i - 1]["field"]) for i in (1, 2)}
        oid = "collide:%d:%s" % (o["pair"], "swapped" if o["swap"] else "straight")
        if oid not in shapes:
            fams = [coord[1], coord[2]]
            shapes[oid] = {"id": oid, "kind": "query", "defer": False, "fams": fams, "famcoords": {f: [f] for f in fams}, "deferfams": [], "splits": [],
                           "shape": {"v": [{"types": ["Query"], "fields": [
                               {"key": "o%d" % (k + 1), "fam": "Query.o%d" % (k + 1), "rc": "Query.o%d" % (k + 1), "name": "o%d" % (k + 1), "nn": [False],
                                "leaf": False, "obj": {"v": [{"types": [ob["type"]], "fields": [
                                    {"key": ob["field"], "fam": "%s.%s" % (ob["type"], ob["field"]), "rc": "%s.%s" % (ob["type"], ob["field"]),
                                     "name": ob["field"], "nn": [False], "leaf": True, "obj": {"v": []}}]}]}} for k, ob in enumerate(objs)]}]}}
            text[oid] = "hand-built plan: { o1 { %s } o2 { %s } } with coordinates %s (data source %s) and %s (data source %s)" % (
                objs[0]["field"], objs[1]["field"], "%s.%s" % (objs[0]["type"], objs[0]["field"]), objs[0]["ds"],
                "%s.%s" % (objs[1]["type"], objs[1]["field"]), objs[1]["ds"])
            bid = "base|%s|sync" % oid
            bases[(oid, "sync")] = bid
            b = {"id": bid, "op": oid, "text": text[oid], "protect": [], "deny": [], "mode": "none", "delivery": "sync", "deny_fams": [], "P": [], "split": ""}
            cases.append(b)
            synth_in.append(dict(b, kind="collide", objects=objs, protectc=[], denyc=[]))
        if ctx.replay_in and c != rc.get("gen"):
            continue
        sc = {"id": "k%06d" % ncollide, "op": oid, "text": text[oid], "protect": [], "deny": [], "mode": c["mode"], "delivery": "sync",
              "deny_fams": sorted(coord[i] for i in c["deny"]), "P": sorted(coord[i] for i in c["P"]), "split": "", "gen": c}
        ncollide += 1
        cases.append(sc)
        synth_in.append(dict(sc, kind="collide", objects=objs, protectc=sc["P"], denyc=sc["deny_fams"]))
    lib.write_ndjson(ctx.path("synth.ndjson"), synth_in)
    ctx.run_bin(binary, ["-mode", "synth", "-in", ctx.path("synth.ndjson"), "-out", ctx.path("synth-results.ndjson")], timeout=600)
    results.update({r["id"]: r for r in lib.read_ndjson(ctx.path("synth-results.ndjson"))})
    ctx.log("synthetic plans: %d cases + %d colliding-coordinate cases" % (nsynth, ncollide))
    # ---- 3c. subscription updates at the resolve level ------------------------------------------------------------
    g = ctx.tlc_must_pass("resolve", "Gen_Authz", "Gen_Authz_3.cfg", workers=1, timeout=600, env={"PHASE": "subs", "OPS": ""}, tag="gen-subs")
    UPDATES = 2
    subs_in = []
    subs_cases = {}

    def leaf_f(parent, name, nn):
        return {"key": name, "fam": parent + "." + name, "rc": parent + "." + name, "name": name, "nn": [nn], "leaf": True, "obj": {"v": []}}

    for rootnn in (False, True):
        for k in range(1, UPDATES + 1):
            oid = "subs:%s:u%d" % ("nn" if rootnn else "nullable", k)
            fams = ["Subscription.ev", "Event.id", "Event.secret", "Event.detail", "Detail.text", "Detail.note"]
            shapes[oid] = {"id": oid, "kind": "subscription", "defer": False, "fams": fams, "famcoords": {f: [f] for f in fams}, "deferfams": [], "splits": [],
                           "exact": True,
                           "shape": {"v": [{"types": ["Subscription"], "fields": [
                               {"key": "ev", "fam": "Subscription.ev", "rc": "Subscription.ev", "name": "ev", "nn": [rootnn], "leaf": False, "obj": {"v": [
                                   {"types": ["Event"], "fields": [leaf_f("Event", "id", True), leaf_f("Event", "secret", False),
                                                                   {"key": "detail", "fam": "Event.detail", "rc": "Event.detail", "name": "detail", "nn": [False],
                                                                    "leaf": False, "obj": {"v": [{"types": ["Detail"], "fields": [
                                                                        leaf_f("Detail", "text", True), leaf_f("Detail", "note", False)]}]}}]}]}}]}]}}
            text[oid] = "hand-built subscription plan: subscription { ev { id secret detail { text note } } }, ev %s, update %d" % (
                "non-null" if rootnn else "nullable", k)
            bases[(oid, "sync")] = "base|%s|sync" % oid
        subs_in.append({"id": "subsbase|%s" % rootnn, "rootnn": rootnn, "protect": [], "deny": [], "fail": [], "mode": "none", "updates": UPDATES})
    nsubs = 0
    for c in sorted(g.printed, key=lambda c: json.dumps(c, sort_keys=True)):
        if ctx.replay_in and c != rc.get("gen"):
            continue
        sid = "u%06d" % nsubs
        nsubs += 1
        subs_cases[sid] = c
        subs_in.append({"id": sid, "rootnn": c["subs"]["rootnn"], "protect": sorted(c["P"]), "deny": sorted(c["deny"]),
                        "fail": [c["fail"]] if c["fail"] else [], "mode": c["mode"], "updates": UPDATES})
    lib.write_ndjson(ctx.path("subs.ndjson"), subs_in)
    ctx.run_bin(binary, ["-mode", "subs", "-in", ctx.path("subs.ndjson"), "-out", ctx.path("subs-results.ndjson"), "-par", "16"], timeout=1200)
    nsubs_rejected = 0
    for r in lib.read_ndjson(ctx.path("subs-results.ndjson")):
        if r["panic"]:
            ctx.violation("panic:subs", "panic in a subscription plan: %s" % r["panic"], {"result": r})
            continue
        if r["problem"]:
            raise lib.Inconclusive("subscription plan %s could not be driven: %s" % (r["id"], r["problem"]))
        if r["id"].startswith("subsbase|"):
            rootnn = r["id"].endswith("True")
            if len(r["frames"]) != UPDATES:
                raise lib.Inconclusive("base subscription delivered %d payloads" % len(r["frames"]))
            for k, fr in enumerate(r["frames"], 1):
                oid = "subs:%s:u%d" % ("nn" if rootnn else "nullable", k)
                bid = bases[(oid, "sync")]
                fr["id"] = bid
                cases.append({"id": bid, "op": oid, "text": text[oid], "protect": [], "deny": [], "mode": "none", "delivery": "sync", "deny_fams": [], "P": [], "split": ""})
                results[bid] = fr
            continue
        c = subs_cases[r["id"]]
        if not r["frames"]:
            nsubs_rejected += 1
            if r["started"] and not c["fail"] and "Subscription.ev" in c["deny"] and c["mode"] in ("batch", "both"):
                ctx.violation("PrefetchRule:%s:subscription-trigger:started-without-answer" % c["mode"],
                              "subscription trigger started although Subscription.ev is denied", {"case": c, "result": r})
            continue
        for k, fr in enumerate(r["frames"], 1):
            oid = "subs:%s:u%d" % ("nn" if c["subs"]["rootnn"] else "nullable", min(k, UPDATES))
            fid = "%s.%d" % (r["id"], k)
            fr["id"] = fid
            fr["asked"] = r["asked"]
            if k == 1 and r["started"] and c["mode"] in ("batch", "both"):
                # the subscription request itself: up-front mode must not start it when its root field is denied
                fr["requests"].append({"sg": "events", "kind": "subscription", "roots": ["Subscription.ev"], "query": "subscription{ev{id secret}}"})
            cases.append({"id": fid, "op": oid, "text": text[oid], "protect": sorted(c["P"]), "deny": sorted(c["deny"]), "mode": c["mode"], "delivery": "sync",
                          "deny_fams": sorted(c["deny"] + ([c["fail"]] if c["fail"] else [])), "P": sorted(c["P"]), "split": "", "fail_fam": c["fail"],
                          "started": r["started"], "gen": c})
            results[fid] = fr
    ctx.log("subscription plans: %d cases (%d rejected before anything was written)" % (nsubs, nsubs_rejected))
    if len(results) != len(cases):
        raise lib.Inconclusive("driver returned %d results for %d cases" % (len(results), len(cases)))
    by_id = {c["id"]: c for c in cases}
    # base payloads must be clean, otherwise the menu (not the code) is at fault
    for (oid, delivery), bid in bases.items():
        r = results[bid]
        if r["err"] or r["problem"] or r["panic"] or r["errors"] or not r["cum"]:
            raise lib.Inconclusive("base run of %s/%s is not clean: err=%r problem=%r panic=%r errors=%r" % (
                oid, delivery, r["err"], r["problem"], r["panic"], r["errors"][:2]))
    for (oid, delivery), bid in bases.items():
        if delivery == "defer" and results[bid]["final"] != results[bases[(oid, "sync")]]["final"]:
            ctx.notes.append("base payload of %s differs between sync and defer delivery (members may be ordered differently)" % oid)
    fam_of = {}
    for oid, s in shapes.items():
        fam_of[oid] = {x: f for f, xs in s["famcoords"].items() for x in xs}
    harness_problems = []
    for c in cases:
        r = results[c["id"]]
        for q in r["requests"]:
            # a root field is named by its family, unless exactly its coordinate is the denied one of a split family
            q["root_fams"] = [x if x in c["deny_fams"] else fam_of[c["op"]].get(x, x) for x in q["roots"]]
        if c["mode"] == "none":
            continue
        if r["panic"]:
            ctx.violation("panic:%s:%s" % (c["mode"], c["op"]), "panic while executing %s with deny=%s: %s" % (c["op"], c["deny_fams"], r["panic"]),
                          {"case": c, "result": r})
        elif r["problem"] or ((r["err"] or not r["cum"]) and not c.get("fail_fam")):
            harness_problems.append((c, r))
    if harness_problems:
        c, r = harness_problems[0]
        raise lib.Inconclusive("%d executions could not be recorded, e.g. %s: err=%r problem=%r" % (len(harness_problems), c["id"], r["err"], r["problem"]))
    # ---- 4. TLC judges ---------------------------------------------------------------------------
    trace = ctx.path("trace.ndjson")
    order = []
    with open(trace, "w") as f:
        for (oid, delivery), bid in sorted(bases.items()):
            s = shapes[oid]
            f.write(json.dumps({"kind": "op", "id": bid, "shape": s["shape"], "base": results[bid]["cum"][-1]}, separators=(",", ":")) + "\n")
            order.append(bid)
            for c in cases:
                if c["mode"] == "none" or c["op"] != oid or c["delivery"] != delivery:
                    continue
                r = results[c["id"]]
                f.write(json.dumps({"kind": "case", "id": c["id"], "deny": c["deny_fams"], "mode": c["mode"],
                                    "exact": delivery == "sync" and (s["kind"] == "query" or (s.get("exact", False) and c.get("started", False))),
                                    "explain": not s.get("multi_root", False), "failmode": bool(c.get("fail_fam")), "pathless": any(not e["haspath"] for e in r["errors"]),
                                    "cum": r["cum"], "orph": r["orph"],
                                    "errs": [e["path"] for e in r["errors"] if e["haspath"]],
                                    "reqs": [{"kind": q["kind"], "roots": q["root_fams"]} for q in r["requests"]]}, separators=(",", ":")) + "\n")
                order.append(c["id"])
    ncases = len(order) - len(bases)
    strict = ctx.tlc("resolve", "Trace_Authz", "Trace_Authz.cfg", workers=1, env={"TRACE": trace}, timeout=2400, heap="8g", deadlock=False,
                     count=False, tag="trace-validation")
    failing = {}
    if not strict.ok:
        if not strict.violated and "TRACE_STUCK_AT_LINE" not in strict.out:
            print(strict.out[-3000:])
            raise lib.Inconclusive("trace validation failed in an unexpected way: %s" % strict.error)
        rep = ctx.tlc("resolve", "Trace_Authz", "Trace_Authz_report.cfg", workers=1, env={"TRACE": trace}, timeout=2400, heap="8g", deadlock=False,
                      count=False, tag="trace-validation-report")
        if not rep.ok:
            print(rep.out[-3000:])
            raise lib.Inconclusive("trace validation (report mode) did not consume the whole log: %s" % rep.error)
        for v in rep.printed:
            failing[v["id"]] = sorted(v["bad"])
        if not failing:
            raise lib.Inconclusive("strict validation failed (%s) but the report lists no failing case" % (strict.violated or strict.error))
    undetermined = [i for i, b in failing.items() if "Undetermined" in b]
    if undetermined:
        raise lib.Inconclusive("runtime type of a delivered object could not be determined (menu needs __typename): %s" % undetermined[:3])
    for cid, bad in sorted(failing.items()):
        c = by_id[cid]
        r = results[cid]
        base = results[bases[(c["op"], c["delivery"])]]
        for prop in bad:
            for key, what in keys_for(prop, c, r, shapes[c["op"]], base["cum"][-1]):
                ctx.violation(key, "%s [%s deny=%s P=%s mode=%s delivery=%s]" % (what, c["op"], c["deny_fams"], c["P"], c["mode"], c["delivery"]),
                              {"case": c, "frames": r["frames"], "requests": r["requests"], "asked": r["asked"], "base": base["frames"], "tlc": bad})
    # ---- 5. raw scan -------------------------------------------------------------------------------
    scanned = 0
    sentinels_used = 0
    sdl_noise = " ".join(NOISE)
    for c in cases:
        if c["mode"] == "none" or not c["deny_fams"]:
            continue
        r = results[c["id"]]
        s = shapes[c["op"]]
        base = results[bases[(c["op"], c["delivery"])]]["cum"][-1]
        deny = set(c["deny_fams"])
        denied_pos = [p for p in positions(s["shape"], base) if denied(p, deny) and not p["null"]]
        if not denied_pos:
            continue
        corpus = redact(base, {tuple(p["path"]) for p in denied_pos}) + " " + c["text"] + " " + sdl_noise + " " + " ".join(s["fams"])
        raw = "\n".join(r["frames"])
        scanned += 1
        hit = {}
        for p in denied_pos:
            vals = []
            leaves(p["val"], vals)
            for v in set(vals):
                esc = json.dumps(v)[1:-1]
                if len(v) < 3 or v in corpus or esc in corpus:
                    continue
                sentinels_used += 1
                pf = p["fam"] if p["fam"] in deny else "split=" + p["rc"]
                if v in raw or esc in raw:
                    hit.setdefault(pf, v)
                    continue
                # partial leaks (truncated / embedded values): every WINDOW-character window of a long value
                for i in range(0, max(0, len(v) - WINDOW + 1)):
                    w = v[i:i + WINDOW]
                    if w not in corpus and w in raw:
                        hit.setdefault(pf, w)
                        break
        for fam, v in sorted(hit.items()):
            ctx.violation("RawLeak:%s:%s%s:%s:%s" % (c["mode"], ("partial-family:" if c.get("partial") else "split-family:") if fam.startswith("split=") else "", c["delivery"], c["op"], fam),
                          "value %r of the denied family %s occurs in the bytes written to the client [%s deny=%s mode=%s delivery=%s]" % (
                              v, fam, c["op"], c["deny_fams"], c["mode"], c["delivery"]),
                          {"case": c, "frames": r["frames"], "sentinel": v})
    # ---- evidence ------------------------------------------------------------------------------------
    distinct = {lib.sha([c["op"], c["P"], c["deny_fams"], c["mode"], c["delivery"]]) for c in cases if c["mode"] != "none" and c["deny_fams"]}
    orphans = sum(1 for c in cases if results[c["id"]]["orph"])
    if orphans:
        ctx.notes.append("%d executions delivered incremental data for an anchor that the client never received (stream shape is C10's business; "
                         "the data was still scanned for denied values)" % orphans)
    skipped = sum(1 for c in cases if c["mode"] == "batch" and len(results[c["id"]]["requests"]) < len(results[bases[(c["op"], c["delivery"])]]["requests"]))
    sample_ids = [c["id"] for c in cases if c["mode"] != "none" and c["deny_fams"]][:3]
    ctx.coverage.update({
        "traces_validated_against_impl": ncases,
        "evaluations": ncases,
        "distinct_nontrivial": len(distinct),
        "rule": "one case = (operation of the menu, protected families P, decision d, authorizer mode, delivery) executed on the real "
                "federated engine and judged by TLC (Trace_Authz); distinct by that tuple; non-trivial = at least one family denied",
        "samples": [{"case": {k: by_id[i][k] for k in ("op", "P", "deny_fams", "mode", "delivery", "text")}, "frames": results[i]["frames"],
                     "requests": [{"sg": q["sg"], "kind": q["kind"], "roots": q["roots"]} for q in results[i]["requests"]]} for i in sample_ids],
        "operations": len(shapes),
        "generated_cases": len(gen),
        "cases_with_a_skipped_request": skipped,
        "raw_scan_cases": scanned,
        "raw_scan_sentinels": sentinels_used,
        "failing_cases": len(failing),
        "exhaustive": not quick,
    })
    ctx.assumptions += [
        "a protection / decision is given to a whole coordinate family (interface field + the same field of every implementing type)",
        "the base payload (same operation, no authorizer, same engine) defines which positions exist and which values are the denied ones",
        "subscription updates, the pre-start check of subscriptions and requests with several mutation root fields are exercised with hand-built plans "
        "at the resolve level (real postprocess.Processor + real Resolver, fake data sources), not through the planner / a WebSocket transport",
        "shape, families and root fields of subgraph requests are computed with vektah/gqlparser, not with the code under test",
    ]
