"""C15 — Variable values survive extraction and forwarding unchanged.

Pipeline (design.d/C15.md):
  1. TLC model-checks the character-level literal model spec/core/GQLLiteral.tla on every enumerated
     spelling / value structure (theorems: JSON string grammar is a sub-grammar with the same meaning, the JSON
     twin denotes the same value, BlockStringValue() edge properties, generated cases are well-formed).
  2. The same TLC runs are the generators: Gen_C15_Str (all strings <= L over a 12-symbol alphabet + a catalogue
     of longer spellings: which are StringValues / block strings / JSON strings, what they denote, their JSON twin)
     and Gen_C15_Val (typed value structures with literals, variables omitted / null / JSON / defaults, lists,
     input objects; BFS up to MaxTok tokens, -simulate beyond).
  3. harness/cmd/args replays every case into a real ExecutionEngine with one GraphQL subgraph behind a
     RoundTripper (echo mode): records the operation + Document.Input.Variables after the engine's normalization
     steps and the query + variables the subgraph received, both evaluated by an independent parser (gqlparser)
     into tagged values; the same for the JSON-variable twin of the case.
  4. TLC (Trace_C15, one observation per step, high-water mark) re-computes Denotes(case) and evaluates
     VarsJSONValid / Extracted / Forwarded / TwinForwarded / FormsAgree / AbsentStaysAbsent / NullStaysNull /
     CompanionPreserved
     on every observation (collect mode), then the same predicates as INVARIANTS on the clean observations
     (strict mode) and on one deliberately corrupted observation (must be rejected: binding self-test).
"""
import concurrent.futures
import json
import os
import random
import re

import lib

PREDICATES = ["NoPanic", "VarsJSONValid", "Extracted", "Forwarded", "TwinForwarded", "FormsAgree", "AbsentStaysAbsent", "NullStaysNull", "CompanionPreserved", "Reaches"]
MODEL_PREDICATES = ["ModelCaseOK", "ModelTwinSame"]


# ------------------------------------------------------------------------------------------------ helpers
def cp(s):
    return [ord(c) for c in s]


def txt(cps):
    return "".join(chr(c) for c in cps)


def E(k, text=(), items=(), keys=()):
    return {"k": k, "text": list(text), "items": list(items), "keys": [list(x) for x in keys]}


OMIT = E("omit")


def var(name, ty, st, j=None, d=None):
    return {"name": cp(name), "ty": ty, "st": st, "j": j or OMIT, "hasd": d is not None, "d": d or OMIT}


def show_expr(e):
    k = e["k"]
    if k == "str":
        return '"%s"' % txt(e["text"])
    if k == "bstr":
        return '"""%s"""' % txt(e["text"])
    if k == "var":
        return "$" + txt(e["text"])
    if k == "list":
        return "[" + ", ".join(show_expr(x) for x in e["items"]) + "]"
    if k == "obj":
        return "{" + ", ".join("%s: %s" % (txt(kk), show_expr(x)) for kk, x in zip(e["keys"], e["items"])) + "}"
    if k == "omit":
        return "<no argument>"
    return txt(e["text"])


def show_val(v):
    t = v["t"]
    if t in ("s", "e", "numraw", "err"):
        return "%s:%s" % (t, json.dumps(txt(v["s"])))
    if t == "num":
        return "num:%s%se%d" % ("-" if v["s"][0] else "", "".join(map(str, v["s"][1:])) or "0", v.get("e", 0))
    if t == "b":
        return "true" if v["s"] == [1] else "false"
    if t == "l":
        return "[" + ", ".join(show_val(c) for c in v["c"]) + "]"
    if t == "o":
        return "{" + ", ".join("%s: %s" % (txt(k), show_val(c)) for k, c in zip(v["k"], v["c"])) + "}"
    return {"x": "<not provided>", "n": "null"}.get(t, t)


# ------------------------------------------------------------------------------------------------ case construction
# positions in which a string leaf is placed (type code of the root field, wrapper for the leaf and for its twin)
def wrap_list(x):
    return E("list", items=[x])


def wrap_obj(x):
    return E("obj", items=[x], keys=[cp("s")])


def wrap_lin(x):
    return E("list", items=[E("obj", items=[x, E("num", cp("7"))], keys=[cp("s"), cp("i")])])


def wrap_big(x):
    return E("obj", items=[E("list", items=[x])], keys=[cp("z")])


POSITIONS = {
    "arg": ("String", lambda x: x),
    "nn": ("NStr", lambda x: x),
    "id": ("ID", lambda x: x),
    "list": ("LStr", wrap_list),
    "obj": ("In", wrap_obj),
    "lin": ("LIn", wrap_lin),
    "big": ("Big", wrap_big),
}


def string_cases(sp, positions, with_default):
    """All cases built from one TLC-emitted spelling record."""
    out = []
    text = sp["text"]
    forms = []
    if sp["ord"]:
        forms.append(("ord", E("str", text), E("str", sp["tword"])))
    if sp["blk"]:
        forms.append(("blk", E("bstr", text), E("str", sp["twblk"])))
    for form, leaf, twin in forms:
        for pos in positions:
            ty, w = POSITIONS[pos]
            out.append({"ty": ty, "expr": w(leaf), "vars": [], "tw": w(twin), "stratum": "str", "form": form, "pos": pos})
        if with_default:
            # the literal as default value of an omitted variable (variables_default_value_extraction.go)
            out.append({"ty": "String", "expr": E("var", cp("v1")), "vars": [var("v1", "String", "absent", d=leaf)], "tw": twin,
                        "stratum": "str", "form": form, "pos": "default"})
    if sp["js"]:
        # the spelling supplied verbatim as a JSON variable; twin = canonical JSON spelling of the same value
        jl = E("str", text)
        for pos in positions:
            ty, w = POSITIONS[pos]
            vty = "String" if pos != "id" else "ID"
            if pos == "nn":
                vty = "NStr"
            if pos == "big":
                vty = "Big"
            out.append({"ty": ty, "expr": w(E("var", cp("v1"))), "vars": [var("v1", vty, "val", j=jl)], "tw": w(E("str", sp["tword"])),
                        "stratum": "str", "form": "json", "pos": pos})
    return out


def rename_vars(e, ren):
    if e["k"] == "var":
        return dict(e, text=ren.get(tuple(e["text"]), e["text"]))
    if e["items"]:
        return dict(e, items=[rename_vars(x, ren) for x in e["items"]])
    return e


def nested_var_names(e, top=True, acc=None):
    acc = acc if acc is not None else set()
    if e["k"] == "var" and not top:
        acc.add(txt(e["text"]))
    for x in e["items"]:
        nested_var_names(x, False, acc)
    return acc


def features(e, acc=None):
    """Syntactic features of the leaves of an expression (used for finding keys and the non-triviality rule)."""
    acc = acc if acc is not None else set()
    k = e["k"]
    t = e["text"]
    if k == "str":
        s = txt(t)
        i = 0
        while i < len(s):
            if s[i] == "\\":
                if s[i + 1:i + 3] == "u{":
                    acc.add("braced-unicode-escape")
                i += 2
            else:
                i += 1
        if any(c < 32 for c in t):
            acc.add("raw-control-char")
        if "\\" in s:
            acc.add("escape")
        if any(c > 127 for c in t):
            acc.add("non-ascii")
    elif k == "bstr":
        s = txt(t)
        acc.add("block")
        if '\\"""' in s:
            acc.add("block-escaped-triple-quote")
        if '"' in s.replace('\\"""', ""):
            acc.add("block-quote")
        if "\\" in s.replace('\\"""', ""):
            acc.add("block-backslash")
        if "\n" in s or "\r" in s:
            acc.add("block-multiline")
        if s.strip(" \t\n\r") == "":
            acc.add("block-blank")
        elif s != s.strip(" \t\n\r"):
            acc.add("block-outer-ws")
        if any(c > 127 for c in t):
            acc.add("non-ascii")
    elif k == "num":
        s = txt(t)
        if re.match(r"^-?[0-9]+[eE][+-][0-9]+$", s):
            acc.add("number-exp-sign-no-fraction")
        if any(c in s for c in ".eE") or s.startswith("-") or len(s) >= 10:
            acc.add("number-spelling")
    elif k == "var":
        acc.add("variable")
    elif k in ("list", "obj"):
        acc.add("structure")
        for x in e["items"]:
            features(x, acc)
    elif k in ("enum", "null", "omit"):
        acc.add(k)
    return acc


def case_features(c):
    f = features(c["expr"])
    for v in c["vars"]:
        f.add("var-" + v["st"])
        if v["hasd"]:
            f.add("var-default")
            features(v["d"], f)
        if v["st"] == "val":
            features(v["j"], f)
    return f


# ------------------------------------------------------------------------------------------------ validation with TLC
def strip_obs(o):
    def ob(x):
        return {"ok": x["ok"], "valid": x["valid"], "haskey": x["haskey"], "hasarg": x["hasarg"], "val": x["val"], "comp": x.get("comp") or "none"}
    c = o["c"]
    return {"id": o["id"], "c": {"ty": c["ty"], "expr": c["expr"], "vars": c["vars"], "tw": c["tw"], "comp": c.get("comp", "none")},
            "norm": ob(o["norm"]), "sub": ob(o["sub"]), "hastw": o["hastw"], "twsub": ob(o["twsub"]), "panic": bool(o["panic"])}


def tlc_collect(ctx, rows, tag, nchunks):
    """Run Trace_C15 in collect mode over `rows` split into chunks (parallel TLC processes); returns {id: verdict}."""
    chunks = [rows[i::nchunks] for i in range(nchunks)]
    chunks = [c for c in chunks if c]
    paths = []
    for i, c in enumerate(chunks):
        p = ctx.path("trace-%s-%d.ndjson" % (tag, i))
        lib.write_ndjson(p, c)
        paths.append(p)

    def one(p):
        return ctx.tlc("core", "Trace_C15", "Trace_C15.cfg", workers=1, env={"TRACE": p}, timeout=2400, deadlock=False,
                       count=False, heap="3g", tag="trace-validation-" + tag)
    verdicts = {}
    with concurrent.futures.ThreadPoolExecutor(max_workers=len(paths)) as ex:
        for r, c in zip(ex.map(one, paths), chunks):
            if not r.ok or r.distinct != len(c) + 1:
                print(r.out[-3000:])
                raise lib.Inconclusive("trace validation (collect mode) did not consume the whole observation file: %s" % r.error)
            for v in r.printed:
                verdicts[v["id"]] = v
    return verdicts


def tlc_strict(ctx, rows, tag):
    p = ctx.path("strict-%s.ndjson" % tag)
    lib.write_ndjson(p, rows)
    return ctx.tlc("core", "Trace_C15", "Trace_C15_strict.cfg", workers=1, env={"TRACE": p}, timeout=1200, deadlock=False,
                   count=False, heap="3g", tag="trace-validation-strict-" + tag)


# ------------------------------------------------------------------------------------------------ finding keys
# Models of the PINNED (defective) behaviour of the code under test.  They are used only to make the keys of the known
# findings specific: a failing observation gets the suffix "as-pinned" when the wrong value the subgraph received is
# exactly what the pinned defect produces, otherwise "UNEXPLAINED" (never listed as a known finding => VIOLATION).
_WS = b" \t\r\n"


def pinned_block(r):
    """What /repo computes for the block string whose raw content is r (lexer.readBlockString trimming,
    ast.BlockStringValueContentRawBytes quote scanning, BlockStringValueContentBytes).  None = the lexer closes the
    token before the real closing quotes."""
    r = r.encode("utf-8")
    S = r + b'"""'
    escaped = False
    qc = wsc = lead = 0
    reached = False
    end = None
    i = 0
    while i < len(S):
        ch = S[i:i + 1]
        i += 1
        if ch in (b" ", b"\t", b"\r", b"\n"):
            escaped = False
            qc = 0
            wsc += 1
        elif ch == b'"':
            if escaped:
                escaped = False
                continue
            qc += 1
            if qc == 3:
                end = i - 3
                break
        elif ch == b"\\":
            escaped = not escaped
            qc = 0
            wsc = 0
        else:
            if not reached:
                reached = True
                lead = wsc
            escaped = False
            qc = 0
            wsc = 0
    if end is None or end != len(r):
        return None
    cstart = lead
    cend = end - wsc
    bs = 0
    for j in range(cstart - 1, -1, -1):
        if S[j:j + 1] == b'"':
            bs = j + 1
            break
    be = len(S)
    for j in range(max(cend, 0), len(S)):
        if S[j:j + 1] == b'"':
            be = j
            break
    raw = S[bs:be]
    lines = []
    start = 0
    j = 0
    while j < len(raw):
        c = raw[j:j + 1]
        if c in (b"\n", b"\r"):
            lines.append(raw[start:j])
            if c == b"\r" and raw[j + 1:j + 2] == b"\n":
                j += 1
            start = j + 1
        j += 1
    lines.append(raw[start:])

    def lws(x):
        n = 0
        for b in x:
            if b not in (32, 9):
                break
            n += 1
        return n
    common = -1
    for k, ln in enumerate(lines):
        if k and lws(ln) < len(ln) and (common == -1 or lws(ln) < common):
            common = lws(ln)
    if common != -1:
        lines = [ln if k == 0 else ln[min(len(ln), common):] for k, ln in enumerate(lines)]
    first, last = 0, len(lines) - 1
    for k, ln in enumerate(lines):
        if lws(ln) != len(ln):
            first = k
            break
    for k in range(len(lines) - 1, -1, -1):
        if lws(lines[k]) != len(lines[k]):
            last = k
            break
    return b"\n".join(lines[first:last + 1]).decode("utf-8", "replace")


def pinned_ord(text):
    """What reaches the subgraph for an ordinary string copied verbatim between JSON quotes and then read leniently:
    JSON escapes are decoded, anything else after a backslash stays as it is."""
    simple = {'"': '"', "\\": "\\", "/": "/", "b": "\b", "f": "\f", "n": "\n", "r": "\r", "t": "\t"}
    out = []
    i = 0
    while i < len(text):
        ch = text[i]
        if ch != "\\" or i + 1 >= len(text):
            out.append(ch)
            i += 1
            continue
        d = text[i + 1]
        if d in simple:
            out.append(simple[d])
            i += 2
        elif d == "u" and len(text) >= i + 6 and all(c in "0123456789abcdefABCDEF" for c in text[i + 2:i + 6]):
            out.append(chr(int(text[i + 2:i + 6], 16)))
            i += 6
        else:
            out.append("\\")
            i += 1
    s = "".join(out)
    return s.encode("utf-16", "surrogatepass").decode("utf-16", "replace")


def _string_leaves_expr(e, acc):
    if e["k"] in ("str", "bstr"):
        acc.append(e)
    for x in e["items"]:
        _string_leaves_expr(x, acc)
    return acc


def _string_leaves_val(v, acc):
    if v["t"] == "s":
        acc.append(txt(v["s"]))
    for x in v["c"]:
        _string_leaves_val(x, acc)
    return acc


def pinned_verdict(o):
    """as-pinned / UNEXPLAINED / early-close for a failing observation of the string stratum."""
    c = o["c"]
    leaves = _string_leaves_expr(c["expr"], [])
    for v in c["vars"]:
        if v["st"] == "absent" and v["hasd"]:
            _string_leaves_expr(v["d"], leaves)
    if len(leaves) != 1:
        return "UNEXPLAINED"
    leaf = leaves[0]
    want = pinned_block(txt(leaf["text"])) if leaf["k"] == "bstr" else pinned_ord(txt(leaf["text"]))
    if want is None:
        return "early-close"
    for point in ("norm", "sub"):
        ob = o[point]
        if not (ob["ok"] and ob["valid"]):
            continue
        got = _string_leaves_val(ob["val"], [])
        if got != [want]:
            return "UNEXPLAINED"
    return "as-pinned"


# ---- python mirrors of GQLLiteral!Canon / VEq (used only to decide the as-pinned suffix of a finding key)
ELEM = {"LInt": "Int", "LStr": "String", "LE": "E", "LIn": "In", "LLInt": "LInt", "LBig": "Big", "Big": "Big"}
INFIELDS = {"i": "Int", "s": "String", "f": "Float", "b": "Boolean", "e": "E", "d": "ID", "g": "Big", "l": "LInt", "ls": "LStr", "o": "In", "lo": "LIn"}


def _mkv(t, s=(), e=0, c=(), k=()):
    return {"t": t, "s": list(s), "e": e, "c": list(c), "k": [list(x) for x in k]}


def canon(v, ty):
    import decimal
    t = v["t"]
    if t == "numraw":
        try:
            d = decimal.Decimal(txt(v["s"]))
        except decimal.InvalidOperation:
            return _mkv("err")
        sign, digits, exp = d.as_tuple()
        digits = list(digits)
        while len(digits) > 1 and digits[0] == 0:
            digits.pop(0)
        while digits and digits[-1] == 0 and len(digits) > 0:
            digits.pop()
            exp += 1
        if not digits:
            sign, exp = 0, 0
        if ty == "ID":
            if exp < 0:
                return _mkv("err")
            return _mkv("s", cp(("-" if sign else "") + ("".join(map(str, digits)) + "0" * exp if digits else "0")))
        return _mkv("num", [sign] + digits, exp)
    if t == "l":
        return _mkv("l", c=[canon(x, ELEM.get(ty, "?")) for x in v["c"]])
    if t == "o":
        return _mkv("o", c=[canon(x, "Big" if ty == "Big" else INFIELDS.get(txt(k), "?")) for k, x in zip(v["k"], v["c"])], k=v["k"])
    if t in ("x", "n", "s", "e", "b"):
        return _mkv(t, v["s"])
    return _mkv("err")


def veq(a, b):
    if a["t"] != b["t"] or a["t"] == "err":
        return False
    if a["t"] == "l":
        return len(a["c"]) == len(b["c"]) and all(veq(x, y) for x, y in zip(a["c"], b["c"]))
    if a["t"] == "o":
        ka = [tuple(k) for k in a["k"]]
        kb = [tuple(k) for k in b["k"]]
        if len(ka) != len(kb) or len(set(ka)) != len(ka) or len(set(kb)) != len(kb) or set(ka) != set(kb):
            return False
        return all(veq(a["c"][i], b["c"][kb.index(k)]) for i, k in enumerate(ka))
    return a["s"] == b["s"] and a.get("e", 0) == b.get("e", 0)


def pinned_inject(v, ty):
    """What astnormalization/inject_input_default_values.go (jsonWalker) turns the value of a variable of type ty into:
    while walking a list of input objects the element index is advanced only for object elements, so the re-written
    form of an object that follows a null element is stored over an EARLIER element.  An object is re-written when
    one of its input-object / list-of-input-object fields (o, lo) is null or is itself re-written.  -> (value, rewritten)"""
    if ty not in ("In", "LIn"):
        return v, False
    if v["t"] == "n":
        return v, True
    if ty == "LIn" and v["t"] == "l":
        cur = list(v["c"])
        rep = False
        i = 0
        for el in v["c"]:
            if el["t"] != "o":
                continue
            nv, r = pinned_inject(el, "In")
            if r:
                if i < len(cur):
                    cur[i] = nv
                rep = True
            i += 1
        return dict(v, c=cur), rep
    if ty == "In" and v["t"] == "o":
        vals = list(v["c"])
        rep = False
        for fname, fty in (("o", "In"), ("lo", "LIn")):
            idx = [i for i, k in enumerate(v["k"]) if txt(k) == fname]
            if not idx:
                continue
            nv, r = pinned_inject(vals[idx[0]], fty)
            if r:
                vals[idx[0]] = nv
                rep = True
        return dict(v, c=vals), rep
    return v, False


def null_before_object(v):
    """the denoted value has a list in which a null element precedes an input-object element"""
    if v["t"] == "l":
        seen_null = False
        for x in v["c"]:
            if x["t"] == "n":
                seen_null = True
            elif x["t"] == "o" and seen_null:
                return True
    return any(null_before_object(x) for x in v["c"])


def inject_verdict(o, expected):
    ty = o["c"]["ty"]
    want, _ = pinned_inject(expected, ty)
    if veq(want, expected):
        return "UNEXPLAINED"
    for point in ("norm", "sub", "twsub"):
        ob = o[point]
        if point == "twsub" and not o["hastw"]:
            continue
        if ob["ok"] and ob["valid"] and not veq(canon(ob["val"], ty), want):
            return "UNEXPLAINED"
    return "as-pinned"


STRING_CLASSES = ["braced-unicode-escape", "raw-control-char", "block-escaped-triple-quote", "block-quote", "block-blank",
                  "block-backslash", "block-outer-ws", "block-multiline", "block", "escape", "non-ascii"]


def finding_key(o, failed, expected):
    """Canonical signature of a failing observation: failed predicate(s) + syntactic class of the input (+ whether the
    wrong value is exactly what the pinned defect produces).  Specific enough that a different violation (other
    predicate, other class of literal, other wrong value) gets another key."""
    c = o["c"]
    f = case_features(c)
    if "NoPanic" in failed:
        # a panic is named by its site: package and receiver of the first frame outside package ast
        import re as _re
        frames = _re.findall(r"graphql-go-tools/(?:v2/pkg|execution)/[\w/]*?(\w+\.(?:\(\*?\w+\)|\w+))[.(]", o.get("panic") or "")
        site = next((x for x in frames if not x.startswith("ast.")), frames[0] if frames else "unknown")
        return "NoPanic:%s" % site
    if "number-exp-sign-no-fraction" in f:
        # 1E+3 breaks the token stream itself (two tokens): it explains whatever else is in the case
        return "%s:number-exp-sign-no-fraction" % "+".join(sorted(failed))
    if null_before_object(expected) and not (f & set(STRING_CLASSES[:6])):
        return "%s:list-null-before-object:%s" % ("+".join(sorted(failed)), inject_verdict(o, expected))
    # the features that can explain a failure, most specific first; only the leading one names the finding
    order = STRING_CLASSES + ["number-exp-sign-no-fraction", "number-spelling", "var-absent", "var-null", "var-default", "variable", "structure", "enum", "null", "omit"]
    cls = [x for x in order if x in f]
    lead = cls[0] if cls else "plain"
    key = "%s:%s" % ("+".join(sorted(failed)), lead)
    if lead in STRING_CLASSES and set(failed) != {"VarsJSONValid"}:
        key += ":" + pinned_verdict(o)
    return key


def describe(o, failed, expected):
    c = o["c"]
    parts = ["%s violated" % ", ".join(sorted(failed)),
             "request: %s variables %s" % (json.dumps(o["query"]), o["qvars"]),
             "supplied value: %s" % show_val(expected)]
    if o["norm"]["ok"]:
        parts.append("after normalization: %s variables %s -> %s%s" % (o["norm"]["query"], json.dumps(o["norm"]["vars"]),
                     show_val(o["norm"]["val"]), "" if o["norm"]["valid"] else " (NOT VALID JSON)"))
    if o["sub"]["ok"]:
        parts.append("subgraph received: %s variables %s -> %s" % (o["sub"]["query"], json.dumps(o["sub"]["vars"]), show_val(o["sub"]["val"])))
    if o["hastw"] and o["twsub"]["ok"]:
        parts.append("JSON twin %s received as %s" % (show_expr(c["tw"]), show_val(o["twsub"]["val"])))
    if o["panic"]:
        parts.append("panic: " + o["panic"][:400])
    return "; ".join(parts)


# ------------------------------------------------------------------------------------------------ main
def generate(ctx, quick, rng, gen_stats):
    """Yields cases (dicts with stratum/form/pos annotations); the TLC runs are model check + generation at once
    (the INVARIANTS of the Gen_* configurations are the theorems about the literal model)."""
    L = 4 if quick else 5
    nsim = 600 if quick else 20000
    jobs = {
        "str": lambda: ctx.tlc_must_pass("core", "Gen_C15_Str", "Gen_C15_Str_%d.cfg" % L, timeout=2400, deadlock=False, workers=6,
                                         tag="mc+gen-strings-len%d" % L),
        "cat": lambda: ctx.tlc_must_pass("core", "Gen_C15_Str", "Gen_C15_Str_cat.cfg", timeout=600, deadlock=False, workers=1,
                                         tag="mc+gen-strings-catalogue"),
        "val": lambda: ctx.tlc_must_pass("core", "Gen_C15_Val", "Gen_C15_Val_%d.cfg" % (3 if quick else 4), timeout=2400, deadlock=False,
                                         workers=4, tag="mc+gen-values-bfs"),
        "sim": lambda: ctx.tlc_must_pass("core", "Gen_C15_Val", "Gen_C15_Val_sim.cfg", timeout=2400, deadlock=False, workers=1,
                                         simulate=nsim, depth=20, seed=ctx.seed, tag="mc+gen-values-simulate"),
    }
    # (a) schema defaults (argument / input field defaults incl. nested objects and lists) and (c) the multi-argument field f_M
    jobs["dfl"] = lambda: ctx.tlc_must_pass("core", "Gen_C15_Val", "Gen_C15_Val_dflt%d.cfg" % (3 if quick else 4), timeout=2400, deadlock=False,
                                            workers=3, tag="mc+gen-values-defaults+multiarg")
    # (d) raw astral code point in the alphabet, escaped surrogate pairs / halves as seeds
    jobs["ast"] = lambda: ctx.tlc_must_pass("core", "Gen_C15_Str", "Gen_C15_Str_astral.cfg", timeout=1200, deadlock=False, workers=2,
                                            tag="mc+gen-strings-astral")
    if quick:
        # lists of input objects one token deeper (the full 4-token enumeration is part of the thorough tier)
        jobs["lin"] = lambda: ctx.tlc_must_pass("core", "Gen_C15_Val", "Gen_C15_Val_LIn4.cfg", timeout=1200, deadlock=False, workers=3,
                                                tag="mc+gen-values-bfs-LIn4")
    with concurrent.futures.ThreadPoolExecutor(max_workers=len(jobs)) as ex:
        futs = {k: ex.submit(f) for k, f in jobs.items()}
        res = {k: f.result() for k, f in futs.items()}
    # ---- strings: exhaustive over the alphabet + catalogue
    g, gc = res["str"], res["cat"]
    spell = {}
    for sp in g.printed + gc.printed + res["ast"].printed:
        spell[tuple(sp["text"])] = sp
    g.printed = None
    catalogue = {tuple(sp["text"]) for sp in gc.printed}
    RENDER["spell"] = [sp for k, sp in sorted(spell.items()) if sp["js"] and (len(k) <= 2 or k in catalogue or rng.random() < (0.04 if quick else 0.2))]
    gen_stats["spellings"] = len(spell)
    gen_stats["spellings_ord"] = sum(1 for s in spell.values() if s["ord"])
    gen_stats["spellings_block"] = sum(1 for s in spell.values() if s["blk"])
    gen_stats["spellings_json"] = sum(1 for s in spell.values() if s["js"])
    if min(gen_stats["spellings_ord"], gen_stats["spellings_block"], gen_stats["spellings_json"]) == 0:
        raise lib.Inconclusive("vacuous generator: a stratum of spellings is empty: %s" % gen_stats)
    deep_len = 2 if quick else 3
    second = 0.08 if quick else 0.5
    for key in sorted(spell):       # TLC prints in a worker-dependent order: sort so that the seed alone decides
        sp = spell[key]
        if len(key) <= deep_len or key in catalogue:
            yield from string_cases(sp, ["arg", "nn", "id", "list", "obj", "lin", "big"], True)
        else:
            if quick and sp["blk"] and sp["ord"] and rng.random() < 0.7:
                # quick tier: a block string without quote, backslash, line terminator or outer white space means the
                # same as the ordinary string with that text; keep the block form of 30 % of those
                t = txt(sp["text"])
                if not (set(t) & set('"\\\n\r')) and t == t.strip(" \t"):
                    sp = dict(sp, blk=False)
            yield from string_cases(sp, ["arg"], False)
            # one more, seed-chosen, position for a part of the spellings
            if rng.random() < second:
                yield from string_cases(sp, [rng.choice(["nn", "id", "list", "obj", "lin", "big"])], False)
    spell = None
    # ---- value structures
    vals = {}
    for k in ("val", "lin", "dfl"):
        if k in res:
            for v in res[k].printed:
                vals[lib.sha([v["ty"], v["expr"], v["vars"]])] = v
    nbfs = len(vals)
    for v in res["sim"].printed:
        vals[lib.sha([v["ty"], v["expr"], v["vars"]])] = v
    gen_stats["value_cases_bfs"] = nbfs
    gen_stats["value_cases_simulated_new"] = len(vals) - nbfs
    if nbfs == 0 or len(vals) == nbfs:
        raise lib.Inconclusive("vacuous generator: no value structures generated: %s" % gen_stats)
    RENDER["vals"] = {lib.sha([v["ty"], v["tw"]]): (v["ty"], v["tw"]) for v in vals.values() if v["ty"] != "M" and v["tw"]["k"] != "omit"}
    for h in sorted(vals):
        v = vals[h]
        # context variation chosen by the seed: a second, independent variable $zz in the same request (none / omitted /
        # explicit null / value); Denotes(case) does not depend on it, the engine's undefined-variable tracking might
        comp = rng.choice(["none", "none", "absent", "null", "val"])
        expr, vs = v["expr"], v["vars"]
        if v["ty"] == "M":
            v["tw"] = OMIT      # the arguments of f_M are not one value: no JSON twin
        if len(vs) >= 2 and rng.random() < 0.5:
            # third context variation: two variables with the same declaration and runtime state become ONE variable used
            # in two positions (possibly with different expected types: argument / list item / object field)
            sig = lambda x: json.dumps([x["ty"], x["st"], x["j"], x["hasd"], x["d"]], sort_keys=True)
            for i in range(1, len(vs)):
                if sig(vs[i]) == sig(vs[0]):
                    expr = rename_vars(expr, {tuple(vs[i]["name"]): vs[0]["name"]})
                    vs = vs[:i] + vs[i + 1:]
                    break
        if vs and rng.random() < 0.15:
            # second context variation: the client names its variables a, b, c .. (the names the engine's own variable
            # extraction / canonical renaming use) instead of v<i>; a consistent renaming does not change Denotes(case)
            ren = {tuple(x["name"]): cp(chr(ord("a") + i)) for i, x in enumerate(vs[:26])}
            expr = rename_vars(expr, ren)
            vs = [dict(x, name=ren.get(tuple(x["name"]), x["name"])) for x in vs]
        # fourth context variation: the same request as a FILE UPLOAD (field u_<ty>(a: .., file: $file), one file attached):
        # the engine sends a multipart request through Source.LoadWithFiles; Denotes(case) does not depend on it
        up = v["ty"] in UP_TYPES and rng.random() < 0.3
        # fifth context variation (seeding round 3, C15-8): a sibling field carrying the main literal's TEXT as a string
        # literal of the same type, placed before the main field; the harness skips it when the text needs escaping
        pre = (not up) and v["ty"] in ("Big", "ID", "LBig") and rng.random() < 0.5
        yield {"ty": v["ty"], "expr": expr, "vars": vs, "tw": v["tw"], "comp": comp, "up": up, "pre": pre, "stratum": "val", "form": "-",
               "pos": comp + ("+upload" if up else "") + ("+pre" if pre else "")}


UP_TYPES = {"Int", "String", "ID", "In", "LInt"}
RENDER = {}
SCALAR_LISTS = {"LInt", "LStr", "LE", "ALInt"}


def render_cases(quick, rng):
    """(b) the variable renderers of template data sources: (type, JSON value) pairs from the generators above."""
    out = []
    for sp in RENDER.get("spell", []):
        j = E("str", sp["text"])
        for kind in ("json", "plain", "gql"):
            out.append({"ty": "String", "kind": kind, "j": j})
        out.append({"ty": "LStr", "kind": "csv", "j": E("list", items=[j, E("str", cp("a"))])})
        out.append({"ty": "LStr", "kind": "gql", "j": E("list", items=[j])})
    pairs = [RENDER["vals"][h] for h in sorted(RENDER.get("vals", {}))]
    cap = 1000 if quick else 40000
    if len(pairs) > cap:
        pairs = rng.sample(pairs, cap)
    for ty, tw in pairs:
        for kind in ("json", "plain", "gql"):
            out.append({"ty": ty, "kind": kind, "j": tw})
        if ty in SCALAR_LISTS and tw["k"] == "list":
            out.append({"ty": ty, "kind": "csv", "j": tw})
    for i, c in enumerate(out):
        c["id"] = "r%07d" % i
    return out


def _vals(v):
    yield v
    for x in v["c"]:
        yield from _vals(x)


def render_key(c, failed, expected):
    cls = None
    if c["kind"] == "gql":
        esc = any(x["t"] == "s" and any(ch in (34, 92) or ch < 32 for ch in x["s"]) for x in _vals(expected))
        enum = any(x["t"] == "e" for x in _vals(expected))
        # an enum rendered as a string literal still gives valid JSON: an invalid input can only come from a string
        if esc and ("RenderValid" in failed or not enum):
            cls = "string-quote-backslash-control"
        elif enum:
            cls = "enum-as-string"
    if cls is None:
        f = features(c["j"])
        order = STRING_CLASSES + ["number-exp-sign-no-fraction", "number-spelling", "structure", "null"]
        cls = ([x for x in order if x in f] or ["plain"])[0]
    return "%s:render-%s:%s" % ("+".join(sorted(failed)), c["kind"], cls)


def run_render(ctx, binary, quick, rng, T):
    cases = render_cases(quick, rng)
    if not cases:
        return 0
    ip, op = ctx.path("render-cases.ndjson"), ctx.path("render-obs.ndjson")
    lib.write_ndjson(ip, cases)
    ctx.run_bin(binary, ["-mode", "render", "-in", ip, "-out", op], timeout=1800)
    obs = lib.read_ndjson(op)
    if len(obs) != len(cases):
        raise lib.Inconclusive("render driver returned %d observations for %d cases" % (len(obs), len(cases)))
    by_id = {o["id"]: o for o in obs}
    rows = [{"id": o["id"], "c": {"ty": o["c"]["ty"], "kind": o["c"]["kind"], "j": o["c"]["j"]}, "valid": o["valid"], "outv": o["outv"],
             "outtext": o["outtext"], "panic": o["panic"]} for o in obs]
    nchunks = 6 if len(rows) > 3000 else 1
    chunks = [c for c in (rows[i::nchunks] for i in range(nchunks)) if c]
    paths = []
    for i, c in enumerate(chunks):
        p = ctx.path("rtrace-%d.ndjson" % i)
        lib.write_ndjson(p, c)
        paths.append(p)

    def one(p):
        return ctx.tlc("core", "Trace_C15R", "Trace_C15R.cfg", workers=1, env={"TRACE": p}, timeout=2400, deadlock=False, count=False,
                       heap="3g", tag="trace-validation-render")
    verdicts = {}
    with concurrent.futures.ThreadPoolExecutor(max_workers=len(paths)) as ex:
        for r, c in zip(ex.map(one, paths), chunks):
            if not r.ok or r.distinct != len(c) + 1:
                print(r.out[-3000:])
                raise lib.Inconclusive("render trace validation did not consume the whole observation file: %s" % r.error)
            for v in r.printed:
                verdicts[v["id"]] = v
    per = {}
    for cid in sorted(verdicts):
        v = verdicts[cid]
        if "ModelCaseOK" in v["failed"]:
            raise lib.Inconclusive("render case %s is not well-formed in the model" % cid)
        o = by_id[cid]
        key = render_key(o["c"], v["failed"], v["expected"])
        size = (len(o["out"]), o["out"])
        ent = per.setdefault(key, [0, None])
        ent[0] += 1
        if ent[1] is None or size < ent[1][0]:
            ent[1] = (size, o, v)
    for key in sorted(per):
        cnt, (_, o, v) = per[key]
        ctx.violation(key, "%s violated by the %s variable renderer: value %s of type %s rendered as %s (read back: %s%s) [%d observations]" % (
            ", ".join(v["failed"]), o["c"]["kind"], show_expr(o["c"]["j"]), o["c"]["ty"], json.dumps(o["out"]), show_val(o["outv"]),
            "" if o["valid"] else ", NOT VALID", cnt), {"render_case": o["c"], "observation": {k: o[k] for k in ("out", "valid", "outv", "err")},
                                                        "failed": v["failed"], "expected": v["expected"]})
    # strict mode on a clean sample + binding self-test
    clean = [r for r in rows if r["id"] not in verdicts]
    sample = clean if len(clean) <= 1500 else rng.sample(clean, 1500)
    if sample:
        p = ctx.path("rstrict.ndjson")
        lib.write_ndjson(p, sample)
        r = ctx.tlc("core", "Trace_C15R", "Trace_C15R_strict.cfg", workers=1, env={"TRACE": p}, timeout=1200, deadlock=False, count=False,
                    heap="3g", tag="trace-validation-render-strict")
        if not r.ok:
            print(r.out[-2000:])
            raise lib.Inconclusive("render strict mode disagrees with collect mode: %s" % (r.violated or r.error))
        donor = next((x for x in clean if x["c"]["kind"] == "json" and x["outv"]["t"] == "s" and x["outv"]["s"]), None)
        if donor:
            bad = json.loads(json.dumps(donor))
            bad["outv"]["s"] = bad["outv"]["s"][:-1]
            lib.write_ndjson(p, [bad])
            r = ctx.tlc("core", "Trace_C15R", "Trace_C15R_strict.cfg", workers=1, env={"TRACE": p}, timeout=600, deadlock=False, count=False,
                        tag="trace-validation-render-selftest")
            if r.violated != "Inv_Render":
                raise lib.Inconclusive("render binding self-test: corrupted observation not rejected (%s)" % (r.violated or r.error))
    T.render = {"cases": len(cases), "failing": len(verdicts), "signatures": {k: v[0] for k, v in per.items()},
                "by_kind": {k: sum(1 for c in cases if c["kind"] == k) for k in ("json", "plain", "gql", "csv")}}
    T.validated += len(rows)
    T.executions += len(rows)
    return len(cases)


def load_own_findings(ctx):
    """findings.d/C15.json is this check's fragment of known-findings.json; honour it even before it is merged."""
    # VERIF_C15_FINDINGS=.after-fix selects the fragment that describes the repaired tree (fix verification)
    path = os.path.join(lib.VERIF, "findings.d", "C15.json" + os.environ.get("VERIF_C15_FINDINGS", ""))
    try:
        with open(path) as f:
            own = json.load(f)
    except FileNotFoundError:
        return
    if os.environ.get("VERIF_C15_FINDINGS"):
        # fix verification: only the selected fragment counts (a "fixed" entry suppresses nothing)
        ctx._known = [k for k in ctx.known() if k.get("property") != "C15"] + own
        return
    have = {(k.get("property"), k.get("key")) for k in ctx.known()}
    ctx._known = ctx.known() + [k for k in own if (k.get("property"), k.get("key")) not in have]


class Tally:
    def __init__(self):
        self.cases = self.accepted = self.rejected = self.executions = self.validated = self.nfail = 0
        self.distinct = set()
        self.nontrivial = set()
        self.rejected_examples = []
        self.samples = []
        self.per_key = {}       # key -> [count, smallest (size, observation, verdict)]
        self.by_stratum = {}
        self.clean_sample = []
        self.donor = None


def process_batch(ctx, binary, cases, meta, T, rng, batch_no):
    cp_in = ctx.path("cases-%d.ndjson" % batch_no)
    op = ctx.path("obs-%d.ndjson" % batch_no)
    lib.write_ndjson(cp_in, cases)
    ctx.run_bin(binary, ["-in", cp_in, "-out", op, "-workers", "8"], timeout=3000)
    obs = lib.read_ndjson(op)
    os.remove(cp_in)
    os.remove(op)
    if len(obs) != len(cases):
        raise lib.Inconclusive("driver returned %d observations for %d cases" % (len(obs), len(cases)))
    by_id = {o["id"]: o for o in obs}
    rows = [strip_obs(o) for o in obs]
    verdicts = tlc_collect(ctx, rows, "b%d" % batch_no, 6 if len(rows) > 3000 else 1)
    T.validated += len(rows)
    trivial = {"plain", "enum", "null", "omit", "var-val", "variable"}
    for o in obs:
        if o["c"].get("up") and o["sub"]["ok"] and not o["sub"].get("multi"):
            raise lib.Inconclusive("upload lane: case %s did not reach the subgraph as a multipart request" % o["id"])
        if o["c"].get("up") and o["sub"]["ok"]:
            T.uploads = getattr(T, "uploads", 0) + 1
        T.cases += 1
        T.executions += 2 + (1 if o["hastw"] else 0)      # normalization pass + execution (+ twin execution)
        m = meta[o["id"]]
        st = T.by_stratum.setdefault("%s/%s/%s" % (m["stratum"], m["form"], m["pos"]), [0, 0])
        st[0] += 1
        if o["sub"]["ok"]:
            T.accepted += 1
            st[1] += 1
            c = o["c"]
            h = lib.sha([c["ty"], c["expr"], c["vars"], c.get("comp")])
            T.distinct.add(h)
            if case_features(c) - trivial:
                T.nontrivial.add(h)
            if len(T.samples) < 4 and rng.random() < 0.001 * (1 + 50 * (m["stratum"] == "val")):
                T.samples.append({"request": o["query"], "variables": o["qvars"], "after_normalization": o["norm"]["vars"],
                                  "subgraph_received": {"query": o["sub"]["query"], "variables": o["sub"]["vars"]},
                                  "value": show_val(o["sub"]["val"]), "stratum": m})
        else:
            T.rejected += 1
            if len(T.rejected_examples) < 6 and o["sub"]["err"][:60] not in [r["error"][:60] for r in T.rejected_examples]:
                T.rejected_examples.append({"request": o["query"], "variables": o["qvars"], "error": o["sub"]["err"][:200]})
    model_bad = [v for v in verdicts.values() if set(v["failed"]) & set(MODEL_PREDICATES)]
    if model_bad:
        v = model_bad[0]
        raise lib.Inconclusive("generated case %s is not well-formed in the model (%s): %s" % (
            v["id"], v["failed"], show_expr(by_id[v["id"]]["c"]["expr"])))
    for cid in sorted(verdicts):
        v = verdicts[cid]
        o = by_id[cid]
        failed = [x for x in v["failed"] if x in PREDICATES]
        if not failed:
            continue
        T.nfail += 1
        groups = []
        if "Reaches" in failed and any(len(n) == 1 and n.islower() for n in nested_var_names(o["c"]["expr"])):
            # two independent defects may meet in one case: the refusal is reported under its own key
            groups.append(("Reaches:nested-variable-named-like-canonical", ["Reaches"]))
            failed = [x for x in failed if x != "Reaches"]
        if failed:
            groups.append((finding_key(o, failed, v["expected"]), failed))
        size = (len(o["query"]) + len(o["qvars"]), o["query"])
        for key, fl in groups:
            ent = T.per_key.setdefault(key, [0, None])
            ent[0] += 1
            if ent[1] is None or size < ent[1][0]:
                ent[1] = (size, o, v, fl)
    clean = [r for r in rows if r["id"] not in verdicts]
    T.clean_sample += clean if len(clean) <= 1500 else rng.sample(clean, 1500)
    if T.donor is None:
        T.donor = next((r for r in clean if r["sub"]["ok"] and r["sub"]["val"]["t"] == "s" and len(r["sub"]["val"]["s"]) > 0
                        and r["c"]["ty"] == "String"), None)


def run(ctx):
    rng = random.Random(ctx.seed)
    quick = ctx.quick()
    load_own_findings(ctx)
    binary = ctx.build("args")
    T = Tally()
    gen_stats = {}
    if ctx.replay_in:
        with open(ctx.replay_in) as f:
            rep = json.load(f)
        c = rep["case"]["case"]
        c["id"] = "replay"
        gen_stats = {"replay": ctx.replay_in}
        process_batch(ctx, binary, [c], {"replay": {"stratum": "replay", "form": "-", "pos": "-"}}, T, rng, 0)
    else:
        seen = set()
        batch, meta = [], {}
        n = nb = 0
        BATCH = 60000
        for c in generate(ctx, quick, rng, gen_stats):
            c.setdefault("comp", "none")
            c.setdefault("up", False)
            h = lib.sha([c["ty"], c["expr"], c["vars"], c["tw"], c["comp"], c["up"], c.get("pre", False)])
            if h in seen:
                continue
            seen.add(h)
            cid = "c%07d" % n
            n += 1
            meta[cid] = {"stratum": c.pop("stratum"), "form": c.pop("form"), "pos": c.pop("pos")}
            c["id"] = cid
            batch.append(c)
            if len(batch) >= BATCH:
                process_batch(ctx, binary, batch, meta, T, rng, nb)
                ctx.log("batch %d done: %d cases so far, %d failing observations" % (nb, T.cases, T.nfail))
                nb += 1
                batch, meta = [], {}
        if batch:
            process_batch(ctx, binary, batch, meta, T, rng, nb)
        nr = run_render(ctx, binary, quick, rng, T)
        ctx.log("cases: %d  accepted by the engine: %d  render cases: %d  (%s)" % (T.cases, T.accepted, nr, gen_stats))
        if T.accepted < 0.5 * T.cases:
            raise lib.Inconclusive("the engine accepted only %d of %d generated requests (e.g. %s)" % (T.accepted, T.cases, T.rejected_examples[:1]))
    # ---- verdicts: one report per failure signature (smallest failing request of the class)
    for key in sorted(T.per_key):
        cnt, (_, o, v, failed) = T.per_key[key]
        ctx.violation(key, "%s [%d observations with this signature]" % (describe(o, failed, v["expected"]), cnt),
                      {"case": o["c"], "observation": {k: o[k] for k in ("query", "qvars", "norm", "sub", "hastw", "twsub", "panic")},
                       "failed": failed, "expected": v["expected"], "same_signature": cnt})
    # ---- strict mode on observations collect mode found clean (the two modes must agree)
    sample = T.clean_sample if len(T.clean_sample) <= 3000 else rng.sample(T.clean_sample, 3000)
    if sample:
        r = tlc_strict(ctx, sample, "clean")
        if not r.ok:
            print(r.out[-3000:])
            raise lib.Inconclusive("strict-mode validation disagrees with collect mode on clean observations: %s" % (r.violated or r.error))
    # ---- binding self-test: a corrupted observation must be rejected by the invariants
    if not ctx.replay_in:
        if T.donor is None:
            raise lib.Inconclusive("no clean string observation available for the binding self-test")
        bad = json.loads(json.dumps(T.donor))
        bad["sub"]["val"]["s"] = bad["sub"]["val"]["s"][:-1]
        r = tlc_strict(ctx, [bad], "selftest")
        if r.violated != "Inv_Forwarded":
            raise lib.Inconclusive("binding self-test: a corrupted observation was not rejected by Inv_Forwarded (%s)" % (r.violated or r.error))
    # ---- evidence
    ctx.coverage.update({
        "traces_validated_against_impl": T.validated,
        "evaluations": T.executions,
        "distinct_nontrivial": len(T.nontrivial),
        "distinct_cases_accepted": len(T.distinct),
        "rule": "one case = one TLC-generated argument expression (literal spelling / value structure / variable states) sent through "
                "ExecutionEngine.Execute and, separately, through the engine's normalization steps; evaluations = normalization passes + "
                "engine executions (case + its JSON twin); distinct by hash of (type, expression, variables); non-trivial = accepted by "
                "the engine, reached the subgraph, and the expression has at least one of: escape, raw control character, non-ASCII, "
                "block string, non-canonical number spelling, variable that is omitted / null / defaulted, list or input object",
        "generator": gen_stats,
        "cases_by_stratum_form_position": {k: {"cases": v[0], "accepted": v[1]} for k, v in sorted(T.by_stratum.items())},
        "accepted_by_engine": T.accepted,
        "rejected_by_engine": T.rejected,
        "rejected_examples": T.rejected_examples,
        "failing_observations": T.nfail,
        "failure_signatures": {k: v[0] for k, v in T.per_key.items()},
        "renderers": getattr(T, "render", {}),
        "upload_lane_cases_reaching_subgraph_as_multipart": getattr(T, "uploads", 0),
        "predicates_on_observations": PREDICATES,
        "samples": T.samples,
        "exhaustive": not quick,
    })
    ctx.assumptions += [
        "literal model per GraphQL October 2021 sec. 2.9 plus the variable-width escape and surrogate pairs of the September 2025 edition; "
        "a request the engine rejects (parse / validation / variable validation error) is not a C15 case and is only counted",
        "the fake subgraph evaluates the argument with vektah/gqlparser and the coercion rules of sec. 6.4.1; TLC, gqlparser, "
        "encoding/json (strict validity) and the harness are trusted",
        "strings: all spellings of length <= %d over {a \" \\ n u 0 { } TAB SP U+00E9 LF} plus a catalogue; numbers/enums/"
        "booleans/null from pools; structures up to %d tokens exhaustively, deeper ones sampled with TLC -simulate" % (
            4 if quick else 5, 3 if quick else 4),
        "numeric equality on the exact decimal value; input objects compared as unordered maps, lists ordered",
    ]
