"""C17 — Introspection describes exactly the configured schema.

Pipeline (design.d/C17.md):
  1. TLC model-checks the schema generator + the introspection spec (spec/core/GQLSchemaGen, GQLIntrospect):
     GenWF (only valid schemas are generated), SpecRoundTrip (FromIntrospection(Introspect(S)) ~ S),
     Closed, DeprecatedFilter, Sensitive (the comparison is discriminating) - in every state of three
     feature-focused BFS configurations (A structure, B inputs/defaults/deprecations, C directives/roots/...).
  2. The same runs print every state as a test case (schema + expected user facts); -simulate walks with
     all features and all pools produce the big schemas.
  3. harness/cmd/introspect replays every case into the real code: SDL -> graphql.NewSchemaFromString ->
     introspection.Generator -> Data JSON -> JsonConverter -> printed SDL -> gqlparser; ExecutionEngine +
     introspection data source, a menu of __schema / __type queries through Execute.
  4. TLC (Trace_C17) reads the recorded observations and evaluates Answers / RoundTrip for every line:
     facts(observed) vs facts(Introspect(S, includeDeprecated)); it prints the primary mismatches per line.
  5. every mismatch is a violation observed on the real code; its key is (group, fact kind, element, direction,
     signature of the change).
"""
import concurrent.futures
import json
import os
import random

import lib

FRAGMENT = os.path.join(lib.VERIF, "findings.d", "C17.json")
INVS = ["GenWF", "SpecRoundTrip", "Closed", "DeprecatedFilter", "Sensitive"]

GROUP = {
    "gen": "data",                      # introspection.Data produced by the Generator
    "gen.unnormalized": "data.unnormalized",  # Generator on a document with type extensions, before Schema.Normalize()
    "roundtrip": "roundtrip",           # SDL of the JsonConverter's document
    "echo": "harness",                  # self check of the driver's SDL printer
    "q.schema.var-true": "engine.var-true",   # includeDeprecated passed as a variable with value true
    "q.type.var-true": "engine.var-true",
    "q.type.alias": "engine.alias",     # aliased sub-fields
}


def group_of(view):
    return GROUP.get(view, "engine" if view.startswith("q.") else view)


def change_sig(m):
    """Signature of a difference, so that another kind of change of the same fact is a different key."""
    x, y = m.get("x", "-"), m.get("y", "-")
    if m["d"] != "changed":
        if m["k"] == "root" or m["k"] in ("failure", "errors", "unparseable"):
            return ""
        return ""
    if y.replace('\\"', '"') == x and y != x:
        return "raw-escapes"
    if y == "<null>":
        return "null"
    if x == "<null>":
        return "from-null"
    if (x, y) in (("true", "false"), ("false", "true")):
        return x + "->" + y
    if m["k"] in ("field", "arg", "inputField", "dirArg"):
        return "type-chain"
    return "other"


def key_of(view, m):
    if view == "gen.unnormalized":
        # one root cause (the Generator is not extension-aware); the same Generator on merged documents is judged by view gen
        return "data.unnormalized:extensions-not-merged"
    s = change_sig(m)
    if s == "raw-escapes":
        # the implementation's text is the expected one with the quote escapes of the SDL source left in: one defect, wherever it shows
        return "raw-escapes:%s" % m["k"]
    k = "%s:%s:%s:%s" % (group_of(view), m["k"], m["q"], m["d"])
    return k + (":" + s if s else "")


def all_tags(s):
    """Every type-system directive application of the schema (they are not part of the introspection facts)."""
    out = []
    for t in s["types"]:
        out.append(["t", t["name"], t.get("tags", [])])
        out.append(["x", t["name"], ["x"] * t.get("ext", 0)])
        for f in t["fields"]:
            out.append(["f", t["name"], f["name"], f["tags"]])
            for a in f["args"]:
                out.append(["a", t["name"], f["name"], a["name"], a.get("tags", [])])
        for iv in t["inputs"]:
            out.append(["i", t["name"], iv["name"], iv.get("tags", [])])
        for v in t["values"]:
            out.append(["v", t["name"], v["name"], v.get("tags", [])])
    out.append(["s", s.get("stags", [])])
    out.append(["xs", ["x"] if s.get("xroots") else []])
    return sorted(x for x in out if x[-1])


def nontrivial(s):
    if len(s["types"]) >= 3:
        return True
    for t in s["types"]:
        if t["ifaces"] or t["members"] or t["url"]:
            return True
        for f in t["fields"]:
            if f["args"] or f["dep"]["d"] or len(f["type"]["w"]) >= 2:
                return True
        for iv in t["inputs"]:
            if iv["def"]["t"] != "x" or iv["dep"]["d"]:
                return True
        for v in t["values"]:
            if v["dep"]["d"]:
                return True
    return bool(s["dirs"]) or s["mutation"] != "" or s["subscription"] != ""


def features(s):
    out = set()
    for t in s["types"]:
        out.add("kind:" + t["kind"])
        if t["kind"] == "INTERFACE" and t["ifaces"]:
            out.add("interface-implements-interface")
        if t["url"]:
            out.add("specifiedBy")
        if t.get("ext"):
            out.add("extension:" + t["kind"])
        if t.get("tags"):
            out.add("applied-directive:" + t["kind"])
            if t["kind"] == "SCALAR":
                out.add("scalar-with-directive-" + ("and-specifiedBy" if t["url"] else "no-specifiedBy"))
        if any(v.get("tags") for v in t["values"]):
            out.add("applied-directive:ENUM_VALUE")
        if any(iv.get("tags") for iv in t["inputs"]):
            out.add("applied-directive:INPUT_FIELD_DEFINITION")
        if any(a.get("tags") for f in t["fields"] for a in f["args"]):
            out.add("applied-directive:ARGUMENT_DEFINITION")
        if t["desc"]:
            out.add("description")
        for f in t["fields"]:
            if len(f["type"]["w"]) >= 3:
                out.add("wrap>=3")
            if f["dep"]["d"]:
                out.add("deprecated-field" + ("" if f["dep"]["hr"] else "-noreason"))
            if f["tags"]:
                out.add("applied-directive:FIELD_DEFINITION")
            for a in f["args"]:
                if a["def"]["t"] != "x":
                    out.add("default:" + a["def"]["t"])
                if a["dep"]["d"]:
                    out.add("deprecated-arg")
        for iv in t["inputs"]:
            if iv["def"]["t"] != "x":
                out.add("default:" + iv["def"]["t"])
            if iv["dep"]["d"]:
                out.add("deprecated-input-field")
        for v in t["values"]:
            if v["dep"]["d"]:
                out.add("deprecated-enum-value")
    def siblings(what, items):
        # two or more deprecated siblings whose reasons differ (with / without / different text)
        rs = {(x["dep"]["hr"], x["dep"]["r"]) for x in items if x["dep"]["d"]}
        if len(rs) >= 2:
            out.add("deprecated-siblings-different-reasons:" + what)
    for t in s["types"]:
        siblings("enumValue", t["values"])
        siblings("field", t["fields"])
        siblings("inputField", t["inputs"])
        for f in t["fields"]:
            siblings("arg", f["args"])
    for d in s["dirs"]:
        siblings("dirArg", d["args"])
        out.add("directive" + ("-repeatable" if d["rep"] else ""))
    if s["query"] != "Query" or s["mutation"] not in ("", "Mutation") or s["subscription"] not in ("", "Subscription"):
        out.add("custom-root-names")
    if s.get("xroots"):
        out.add("extend-schema")
    if s.get("stags"):
        out.add("applied-directive:SCHEMA")
    roots = (s["query"], s["mutation"], s["subscription"])
    for t in s["types"]:
        if t["name"] in ("Query", "Mutation", "Subscription") and t["name"] not in roots:
            which = {"Query": s["query"], "Mutation": s["mutation"], "Subscription": s["subscription"]}[t["name"]]
            # an ordinary type with a default root name, while that root is renamed / absent
            out.add("default-named-type-not-root:%s:%s" % (t["name"], "renamed" if which else "absent"))
    return out


def generate(ctx, quick):
    """Model-check + generate. Returns list of (origin, case) with case = {"id","s","exp","n"}."""
    tier = "q" if quick else "t"
    jobs = [("bfs-" + c, "MC_C17_%s_%s.cfg" % (c, tier)) for c in "ABCDEFG"]
    out = {}

    nsim = 12 if quick else 300

    def one(job):
        tag, cfg = job
        if tag == "sim":
            return tag, ctx.tlc("core", "MC_C17", cfg, workers=1, simulate=nsim, depth=40, seed=ctx.seed, timeout=2400,
                                deadlock=False, tag="sim", heap="6g", count=False)
        return tag, ctx.tlc("core", "MC_C17", cfg, workers=4, timeout=2400, deadlock=False, tag=tag, heap="6g", count=False)

    with concurrent.futures.ThreadPoolExecutor(max_workers=8) as ex:
        for tag, r in ex.map(one, jobs + [("sim", "Gen_C17_sim.cfg")]):
            if not r.ok:
                print(r.out[-4000:])
                raise lib.Inconclusive("model checking of the schema generator / introspection spec failed in %s: %s "
                                       "(model-level problem, not a verdict about the code)" % (tag, r.violated or r.error))
            out[tag] = r
            ctx.states += r.distinct          # counted here: ctx.tlc ran in worker threads
            ctx.transitions += r.generated
    cases = []
    seen = set()
    for tag, r in out.items():
        for o in r.printed:
            if not isinstance(o, dict) or "s" not in o:
                continue
            # one representative per type system: the constraint prints a state before TLC's VIEW identifies
            # schemas that differ only in the order of definitions
            s = o["s"]
            canon = lib.sha([sorted(json.dumps(f, sort_keys=True) for f in o.get("exp", [])), s["sd"], s["query"], s["mutation"], s["subscription"],
                             all_tags(s),
                             sorted([t["name"], f["name"], a["name"], a["dep"]["hr"]] for t in s["types"] for f in t["fields"] for a in f["args"])])
            if canon in seen:
                continue
            seen.add(canon)
            cases.append((tag, {"id": "%s-%s" % (tag, lib.sha(s)), "s": s, "n": o["n"], "exp": o.get("exp", [])}))
        r.printed = []
        r.out = ""
    return cases


def select(cases, quick, rng):
    """quick: every BFS state of the first levels + a seed-selected sample of the rest; thorough: everything up to caps."""
    if quick:
        full_upto = {"bfs-A": 1, "bfs-B": 1, "bfs-C": 1, "bfs-D": 0, "bfs-E": 0, "bfs-F": 0, "bfs-G": 0}
        cap_rest = {"bfs-A": 70, "bfs-B": 80, "bfs-C": 60, "bfs-D": 50, "bfs-E": 30, "bfs-F": 10, "bfs-G": 40, "sim": 60}
    else:
        full_upto = {"bfs-A": 3, "bfs-B": 2, "bfs-C": 2, "bfs-D": 6}
        cap_rest = {"bfs-A": 500, "bfs-B": 800, "bfs-C": 500, "bfs-D": 200, "bfs-E": 400, "bfs-F": 100, "bfs-G": 600, "sim": 800}
    chosen, rest = [], {}
    for tag, c in cases:
        if tag in full_upto and c["n"] <= full_upto[tag]:
            chosen.append((tag, c))
        elif tag == "bfs-D" and c["n"] < 4:
            continue        # the sampled part of D: only lattices that can contain a chain of three interfaces
        else:
            rest.setdefault(tag, []).append((tag, c))
    exhaustive_part = len(chosen)
    for tag in sorted(rest):
        l = rest[tag]
        rng.shuffle(l)
        cap = cap_rest.get(tag, 0)
        if tag == "bfs-D":
            # make sure the rare shapes are in the sample: an interface / an object implementing >= 2 interfaces
            multi_i = [x for x in l if any(t["kind"] == "INTERFACE" and len(t["ifaces"]) >= 2 for t in x[1]["s"]["types"])]
            multi_o = [x for x in l if any(t["kind"] == "OBJECT" and len(t["ifaces"]) >= 2 for t in x[1]["s"]["types"])]
            pre = multi_i[:cap // 3] + [x for x in multi_o if x not in multi_i[:cap // 3]][:cap // 3]
            l = pre + [x for x in l if x not in pre]
        chosen += l[:cap]
    # every feature class the generator produced is exercised by at least MINF replayed schemas (rare shapes must not
    # depend on the luck of the sample): top up from the generated set, smallest schemas first
    MINF = 3 if quick else 12
    have = {}
    for _, c in chosen:
        for ft in features(c["s"]):
            have[ft] = have.get(ft, 0) + 1
    ids = {c["id"] for _, c in chosen}
    pool = sorted((x for x in cases if x[1]["id"] not in ids), key=lambda x: (len(x[1]["s"]["types"]), x[1]["n"], x[1]["id"]))
    for x in pool:
        fs = features(x[1]["s"])
        if any(have.get(ft, 0) < MINF for ft in fs):
            chosen.append(x)
            for ft in fs:
                have[ft] = have.get(ft, 0) + 1
    return chosen, exhaustive_part


def split_batches(obs_path, ctx, target_lines):
    """Split the observation log at case boundaries; returns [(path, [lines as text])]."""
    batches, cur = [], []
    with open(obs_path) as f:
        for line in f:
            if line.startswith('{"ev":"schema"') and len(cur) >= target_lines:
                batches.append(cur)
                cur = []
            cur.append(line)
    if cur:
        batches.append(cur)
    out = []
    for i, b in enumerate(batches):
        p = ctx.path("obs-%03d.ndjson" % i)
        with open(p, "w") as f:
            f.writelines(b)
        out.append((p, b))
    return out


def validate(ctx, batches, par):
    """TLC trace validation of every batch; returns list of (case id, view, name, mismatch) and #lines consumed."""
    found = []
    lines_ok = 0

    def one(item):
        path, lines = item
        r = ctx.tlc("core", "Trace_C17", "Trace_C17.cfg", workers=1, env={"TRACE": path}, timeout=3000, deadlock=False,
                    count=False, tag="trace-validation", heap="6g")
        return item, r

    with concurrent.futures.ThreadPoolExecutor(max_workers=par) as ex:
        for (path, lines), r in ex.map(one, batches):
            if not r.ok:
                print(r.out[-3000:])
                raise lib.Inconclusive("trace validation did not run to the end of %s: %s" % (os.path.basename(path), r.error))
            lines_ok += len(lines)
            for o in r.printed:
                if not isinstance(o, dict) or "mm" not in o:
                    continue
                ev = json.loads(lines[o["line"] - 1])
                view = ev.get("view") or ev["ev"]
                for m in o["mm"]:
                    found.append((o["case"], view, ev.get("name", ""), m))
    return found, lines_ok


def replay(ctx, binary, cases, name, raw=False):
    cp, op, rp = ctx.path("cases-%s.ndjson" % name), ctx.path("obs-%s.ndjson" % name), ctx.path("res-%s.ndjson" % name)
    lib.write_ndjson(cp, [{"id": c["id"], "s": c["s"]} for c in cases])
    args = ["-in", cp, "-out", op, "-res", rp, "-workers", "8"]
    if raw:
        args.append("-raw")
    ctx.run_bin(binary, args, timeout=3000)
    return op, lib.read_ndjson(rp)


def load_own_findings(ctx):
    """The open findings of this check live in findings.d/C17.json until the coordinator merges them into known-findings.json."""
    known = ctx.known()
    have = {(k.get("property"), k.get("key")) for k in known}
    try:
        with open(FRAGMENT) as f:
            for e in json.load(f):
                if (e.get("property"), e.get("key")) not in have:
                    known.append(e)
    except FileNotFoundError:
        pass


def run(ctx):
    rng = random.Random(ctx.seed)
    quick = ctx.quick()
    load_own_findings(ctx)
    binary = ctx.build("introspect")
    # ---- 1./2. model-check and generate ------------------------------------------------------
    if ctx.replay_in:
        with open(ctx.replay_in) as f:
            rp = json.load(f)
        cases_sel = [("replay", {"id": rp["case"]["case"], "s": rp["case"]["schema"], "n": 0, "exp": []})]
        exhaustive_part = 0
        ngen = 1
    else:
        cases = generate(ctx, quick)
        ngen = len(cases)
        cases_sel, exhaustive_part = select(cases, quick, rng)
        ctx.log("generated %d distinct schemas, replaying %d (%d exhaustively enumerated)" % (ngen, len(cases_sel), exhaustive_part))
    by_id = {c["id"]: c for _, c in cases_sel}
    # ---- 3. replay ---------------------------------------------------------------------------
    obs_path, results = replay(ctx, binary, [c for _, c in cases_sel], "all")
    invalid = [r for r in results if r["invalid"]]
    if invalid:
        raise lib.Inconclusive("the generator produced %d schemas that gqlparser rejects, e.g. %s: %s" % (
            len(invalid), invalid[0]["id"], invalid[0]["invalid"][:300]))
    res_by_id = {r["id"]: r for r in results}
    # ---- 4. validate -------------------------------------------------------------------------
    batches = split_batches(obs_path, ctx, 2500 if quick else 6000)
    found, lines_ok = validate(ctx, batches, 4 if quick else 6)
    # ---- 5. verdicts -------------------------------------------------------------------------
    harness = [f for f in found if group_of(f[1]) == "harness"]
    if harness:
        cid, view, name, m = harness[0]
        raise lib.Inconclusive("harness self check failed (the SDL printed for %s does not parse back to the schema): %s" % (cid, json.dumps(m)))
    agg = {}
    for cid, view, name, m in found:
        key = key_of(view, m)
        e = agg.setdefault(key, {"n": 0, "views": set(), "cases": set(), "first": None})
        e["n"] += 1
        e["views"].add(view)
        e["cases"].add(cid)
        # prefer the smallest schema as the example
        size = len(json.dumps(by_id[cid]["s"]))
        if e["first"] is None or size < e["first"][0]:
            e["first"] = (size, cid, view, name, m)
    unknown = []
    for key in sorted(agg):
        e = agg[key]
        _, cid, view, name, m = e["first"]
        is_known = any(k.get("property") == ctx.prop and k.get("status") == "open" and lib._key_match(k.get("key"), key) for k in ctx.known())
        if not is_known:
            unknown.append(key)
    raw_by_id = {}
    if unknown:
        ids = sorted({agg[k]["first"][1] for k in unknown})[:20]
        _, raw_res = replay(ctx, binary, [by_id[i] for i in ids], "raw", raw=True)
        raw_by_id = {r["id"]: r for r in raw_res}
    for key in sorted(agg):
        e = agg[key]
        _, cid, view, name, m = e["first"]
        what = "%s: %s %s%s at %s - expected %s, implementation %s (view %s%s; %d observations in %d schemas, views %s)" % (
            key, m["d"], m["k"], ("(" + m["q"] + ")") if m["q"] else "", "/".join(m["p"]), json.dumps(m["x"]), json.dumps(m["y"]),
            view, (" " + name) if name else "", e["n"], len(e["cases"]), ",".join(sorted(e["views"])))
        r = raw_by_id.get(cid) or res_by_id.get(cid) or {}
        raws = [x for x in r.get("raw", []) if x["view"] == view and (x["name"] == name or view.startswith("q.schema") or view == "q.type.lit-true")]
        ctx.violation(key, what, {"case": cid, "schema": by_id[cid]["s"], "sdl": r.get("sdl"), "view": view, "type": name, "mismatch": m,
                                  "converted_sdl": r.get("sdl2") if view == "roundtrip" else None,
                                  "data_json": (r.get("data_json") or "")[:30000] if view == "gen" else None,
                                  "query": raws[0]["query"] if raws else None, "variables": raws[0]["vars"] if raws else None,
                                  "response": (raws[0]["response"][:20000] if raws else None),
                                  "expected_user_facts": by_id[cid].get("exp")})
    # ---- evidence ----------------------------------------------------------------------------
    ncases = len(results)
    nobs = sum(r["lines"] for r in results)
    distinct = {lib.sha(c["s"]) for _, c in cases_sel if nontrivial(c["s"])}
    feats = {}
    for _, c in cases_sel:
        for ft in features(c["s"]):
            feats[ft] = feats.get(ft, 0) + 1
    samples = []
    for tag in ("bfs-A", "bfs-B", "bfs-C", "bfs-D", "bfs-E", "bfs-F", "bfs-G", "sim"):
        cs = [c for t, c in cases_sel if t == tag]
        if cs:
            c = max(cs, key=lambda c: len(json.dumps(c["s"])))
            samples.append({"origin": tag, "id": c["id"], "sdl": res_by_id[c["id"]]["sdl"], "expected_user_facts": len(c["exp"]),
                            "observations": res_by_id[c["id"]]["lines"]})
    ctx.coverage.update({
        "traces_validated_against_impl": ncases,
        "evaluations": nobs,
        "distinct_nontrivial": len(distinct),
        "rule": "one case = one TLC-generated schema replayed into Generator, JsonConverter and ExecutionEngine; evaluations = recorded "
                "observations (Data JSON, converter round trip, each executed __schema/__type query) compared by TLC with Introspect(S); "
                "distinct by hash of the schema; non-trivial = at least 3 user types, or an interface/union/default value/deprecation/"
                "wrapper depth >= 2/directive/extra root",
        "schemas_generated": ngen,
        "schemas_replayed": ncases,
        "exhaustively_enumerated": exhaustive_part,
        "log_lines_validated": lines_ok,
        "features_covered": dict(sorted(feats.items())),
        "mismatch_keys": {k: agg[k]["n"] for k in sorted(agg)},
        "invariants_model_checked": INVS,
        "samples": samples,
        # model checking is exhaustive for the configured bounds; the REPLAY is exhaustive only for the first generator
        # levels (exhaustively_enumerated), everything beyond is a seed-selected sample
        "exhaustive": False,
        "exhaustive_for": "replay of every generator state with <= %s steps" % (
            "1 (A, B, C)" if quick else "3 (A), 2 (B, C), 6 (D)"),
    })
    ctx.assumptions += [
        "schemas are bounded: pools of spec/core/MC_C17.tla (<= 16 user types, wrapper depth <= 7, default value nesting <= 3); "
        "BFS is exhaustive only up to the step bounds of the A/B/C configurations, the rest is sampled (VERIF_SEED)",
        "introspection meta types (__Schema, __Type, ...) may or may not be listed in __schema.types (not compared); null and [] are not distinguished for "
        "fields/interfaces/possibleTypes/enumValues/inputFields; descriptions are compared modulo white space, those of the built-ins not at all",
        "gqlparser (vektah) is trusted for parsing SDL and default value literals; the driver's SDL printer is checked per case (echo)",
        "no type extensions, no schema directives, no redefinition of built-in scalars/directives in the generated documents",
    ]
