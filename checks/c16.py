"""C16 — Entity response caching is transparent and honours Cache-Control.

Pipeline (design.d/C16.md):
  1. TLC model-checks spec/resolve/EntityCache (CacheTransparent, StoreSound, StoredOnlyIfAllowed) for every history of
     the abstract menu; seeded model bugs and NeverHit/NeverPartial must be REJECTED (non-vacuity).
  2. TLC generates (a) histories of requests over the real federationtesting menu with per-exchange Cache-Control
     headers, subgraph outcomes, cache Get/Set faults, evictions and clock ticks (Gen_EntityCache: BFS of a small
     configuration + seeded simulation), (b) Cache-Control header STRINGS with the directive sequence they denote
     (Gen_CacheControl: spelling variants, look-alikes, invalid lifetimes, broken syntax).
  3. harness/cmd/cachex replays every history on the real ExecutionEngine with a recording caching.Cache attached via
     SetResponseCache and on a second engine without cache; logs GetMany/SetMany/exchanges/ticks/evictions.
  4. TLC (Trace_EntityCache) replays the log against the specification and names the rules every event breaks.
"""
import json
import os
import random
import re

import threading

import lib

_LOCK = threading.Lock()
SPEC_DIRS = ["resolve"]
ROOT_HDR = {"lines": ["public, max-age=3"], "dirs": [{"d": "public", "n": -1}, {"d": "max-age", "n": 3}], "bad": 0, "fault": "clean"}
ROOTS = ["accounts:root", "products:root", "reviews:root"]
NEGATIVE = [  # (Bug, property that must be violated)
    ("partial_as_full", "CacheTransparent"),
    ("key_no_sel", "CacheTransparent"),
    ("key_no_ent", "CacheTransparent"),
    ("get_err_fails", "CacheTransparent"),
    ("get_ctxerr_fails", "CacheTransparent"),
    ("empty_is_hit", "CacheTransparent"),
    ("store_errors", "StoredOnlyIfAllowed"),
    ("store_non2xx", "StoredOnlyIfAllowed"),
    ("private_ignored", "StoredOnlyIfAllowed"),
    ("ttl_maxage_first", "StoredOnlyIfAllowed"),
]


# ------------------------------------------------------------------------------------------------ strict reference parser
_TOKEN = re.compile(r"[!#$%&'*+\-.^_`|~0-9A-Za-z]+")


def strict_parse(lines):
    """Independent RFC 9110 5.6.1 / RFC 9111 5.2 reading of Cache-Control lines -> (dirs, bad).
    Used only to cross-check the generator's denotation (a disagreement is a generator problem => INCONCLUSIVE)."""
    s = ",".join(lines)
    i, n = 0, len(s)
    dirs, bad = [], False
    while True:
        while i < n and s[i] in " \t":
            i += 1
        if i >= n:
            break
        if s[i] == ",":
            i += 1
            continue
        m = _TOKEN.match(s, i)
        if not m:
            return None, True
        name = m.group(0).lower()
        i = m.end()
        arg = None
        if i < n and s[i] == "=":
            i += 1
            if i < n and s[i] == '"':
                j = i + 1
                buf = []
                while j < n and s[j] != '"':
                    if s[j] == "\\" and j + 1 < n:
                        j += 1
                    buf.append(s[j])
                    j += 1
                if j >= n:
                    return None, True
                arg = "".join(buf)
                i = j + 1
            else:
                m = _TOKEN.match(s, i)
                if not m:
                    arg = ""
                else:
                    arg = m.group(0)
                    i = m.end()
        while i < n and s[i] in " \t":
            i += 1
        if i < n and s[i] != ",":
            return None, True
        num = -1
        if name in ("max-age", "s-maxage"):
            if arg is None or not re.fullmatch(r"[0-9]+", arg):
                bad = True
                num = 0
            else:
                num = min(int(arg), 2147483647)
        elif name == "stale-while-revalidate" and arg and arg.isdigit():
            num = int(arg)
        elif name == "maxage" and arg and arg.isdigit():
            num = int(arg)
        dirs.append({"d": name, "n": num})
    return dirs, bad


_TCHAR = set("!#$%&'*+-.^_`|~0123456789abcdefghijklmnopqrstuvwxyzABCDEFGHIJKLMNOPQRSTUVWXYZ")


def invalid_first_char(lines):
    """A list element (split at commas outside quoted strings) whose FIRST character cannot start a token."""
    s = ",".join(lines)
    elems, cur, inq = [], [], False
    for ch in s:
        if ch == '"':
            inq = not inq
        if ch == "," and not inq:
            elems.append("".join(cur))
            cur = []
        else:
            cur.append(ch)
    elems.append("".join(cur))
    for e in elems:
        e = e.strip(" \t")
        if e and e[0] not in _TCHAR:
            return e[0]
    return None


def denote(dirs, bad, dttl):
    """(may store, max ttl) — python mirror of CacheControl!MayStore only for coverage statistics."""
    names = [d["d"] for d in dirs]
    if bad or "public" not in names or any(r in names for r in ("no-store", "no-cache", "private")):
        return False, 0
    life = dttl
    for nm in ("s-maxage", "max-age"):
        if nm in names:
            life = next(d["n"] for d in dirs if d["d"] == nm)
            break
    return life > 0, life


# ------------------------------------------------------------------------------------------------ case construction
def hist_to_case(cid, hist, tables, rng, dttl):
    menu, headers = tables["menu"], tables["headers"]
    reqs, exp = [], []
    cur = None
    pending_evict = []
    nlook = 0
    for e in hist:
        a = e["a"]
        if a == "start":
            m = menu[e["i"] - 1]
            cur = {"q": m["q"], "vars": m.get("vars", ""), "tick": e["j"] % 100, "ex": {t: dict(ROOT_HDR) for t in ROOTS}, "tx": [],
                   "nocb": 1 if rng.random() < 0.15 else 0}
            cur["_steps"] = m["steps"]
            reqs.append(cur)
            exp.append([])
            nlook = 0
            pending_evict = []
        elif a == "evict":
            pending_evict.append(e["i"])
        elif a == "lookup":
            nlook += 1
            cur["tx"].append({"get": e["s"], "set": "ok", "evict": pending_evict})
            pending_evict = []
            exp[-1].append({"hit": e["i"], "found": e["j"] % 100, "n": len(cur["_steps"][nlook - 1]["batch"])})
        elif a == "load":
            h = headers[e["i"] - 1]
            tg = cur["_steps"][nlook - 1]["tg"]
            cur["ex"][tg] = {"lines": [h["line"]] if h["dirs"] else None, "dirs": h["dirs"], "bad": 1 if h["bad"] else 0, "fault": e["s"]}
        elif a == "flush":
            cur["tx"][-1]["set"] = e["s"]
    for r in reqs:
        del r["_steps"]
    return {"id": cid, "dttl": dttl, "reqs": reqs}, exp


def conc_to_case(cid, b, tables, dedup=0):
    """One behaviour of Gen_EntityCacheConc -> a history whose two requests run concurrently under the generated schedule."""
    menu, headers = tables["menu"], tables["headers"]
    reqs = []
    for qi, hs in ((b["q1"], b["h1"]), (b["q2"], b["h2"])):
        m = menu[qi - 1]
        ex = {t: dict(ROOT_HDR) for t in ROOTS}
        for i, st in enumerate(m["steps"]):
            h = headers[hs[i] - 1]
            ex[st["tg"]] = {"lines": [h["line"]] if h["dirs"] else None, "dirs": h["dirs"], "bad": 1 if h["bad"] else 0, "fault": "clean"}
        reqs.append({"q": m["q"], "vars": m.get("vars", ""), "tick": 0, "ex": ex, "tx": [], "nocb": 0})
    sched = b["sched"]
    if dedup:
        # subgraph single flight stays on: exchanges are not scheduled, only the calls on the cache
        sched = [p for p, k in zip(b["sched"], b["kinds"]) if k != "load"]
    return {"id": cid, "dttl": 2, "conc": 1, "dedup": dedup, "sched": sched, "reqs": reqs}


def conc_signature(b, tables):
    menu = tables["menu"]
    n1, n2 = len(menu[b["q1"] - 1]["steps"]), len(menu[b["q2"] - 1]["steps"])
    return lib.sha([b["q1"], b["q2"], b["h1"][:n1], b["h2"][:n2], b["sched"]])


def observed_hits_conc(rows):
    """per concurrent history id -> {request number: [full hit? per GetMany]}"""
    out, cur = {}, None
    for x in rows:
        if x["ev"] == "reset":
            cur = out.setdefault(x["id"], {1: [], 2: []})
        elif x["ev"] == "get":
            full = x["res"] == "ok" and len(x["found"]) == len(x["keys"]) and len(x["keys"]) > 0 and not any(f.get("e") for f in x["found"])
            cur.setdefault(x.get("r", 0), []).append(1 if full else 0)
    return out


HDR_QUERY = "{me{reviews{product{name}}}}"
HDR_TARGET = "products:Product"


def header_to_case(cid, h, dttl):
    ex = {t: dict(ROOT_HDR) for t in ROOTS}
    ex[HDR_TARGET] = {"lines": h["lines"], "dirs": h["dirs"], "bad": h["bad"], "fault": "clean"}
    reqs = [{"q": HDR_QUERY, "vars": "", "tick": t, "ex": ex, "tx": [], "nocb": 0} for t in (0, 1)]
    return {"id": cid, "dttl": dttl, "reqs": reqs}


# ------------------------------------------------------------------------------------------------ replay + validation
def detail_key(rule, ev, rows, idx, case):
    """Canonical signature of a broken rule (so that a different violation is still reported)."""
    def load_of(t):
        for j in range(idx, -1, -1):
            r = rows[j]
            if r["ev"] == "load" and r.get("t") == t:
                return r
            if r["ev"] == "req":
                break
        return None
    if rule in ("StoredFromCleanSuccess", "StoredOnlyIfAllowed", "TTLWithinLifetime", "StoredWithoutKeys", "StoredWithoutLoad",
                "OneItemPerObjectEntity", "StoreSound"):
        ld = load_of(ev.get("t")) or {}
        if rule == "StoredFromCleanSuccess":
            return "%s:status=%s,clean=%s" % (rule, ld.get("status"), ld.get("clean"))
        if rule == "StoredOnlyIfAllowed" and invalid_first_char(ld.get("hdr", [])):
            return "%s:invalid-first-token-char:%s" % (rule, " | ".join(ld.get("hdr", [])))
        if rule in ("StoredOnlyIfAllowed", "TTLWithinLifetime"):
            ttl = sorted({it["ttl"] for it in ev.get("items", [])})
            return "%s:hdr=%s%s" % (rule, " | ".join(ld.get("hdr", [])), (",ttl=%s" % ttl) if rule == "TTLWithinLifetime" else "")
        return "%s:%s" % (rule, ld.get("target"))
    if rule in ("CacheTransparent", "PartialNeverServed"):
        n = 0
        for j in range(idx, -1, -1):
            if rows[j]["ev"] == "req":
                n = rows[j]["n"]
                break
        q = case["reqs"][n - 1]["q"] if case and n else "?"
        return "%s:%s" % (rule, q)
    return rule


def run_batch(ctx, binary, cases, tag, stats):
    """Replay one batch of histories on the real engine, validate the recorded log with TLC, report broken rules."""
    import bisect
    cp = ctx.path("cases-%s.ndjson" % tag)
    ep = ctx.path("events-%s.ndjson" % tag)
    rp = ctx.path("results-%s.ndjson" % tag)
    lib.write_ndjson(cp, cases)
    try:
        ctx.run_bin(binary, ["-in", cp, "-events", ep, "-res", rp, "-workers", "6"], timeout=2400)
    except OSError as e:  # e.g. the build directory was removed by a concurrent clean-up
        raise lib.Inconclusive("driver could not be started: %s" % e)
    results = lib.read_ndjson(rp)
    rows = lib.read_ndjson(ep)
    by_id = {c["id"]: c for c in cases}
    res_by_id = {r["id"]: r for r in results}
    if len(results) != len(cases):
        raise lib.Inconclusive("driver returned %d results for %d cases" % (len(results), len(cases)))
    with _LOCK:
        for r in results:
            if r.get("panic"):
                ctx.violation("panic", "panic while executing history %s: %s" % (r["id"], r["panic"]), {"case": by_id[r["id"]], "result": r})
            if r.get("unstable"):
                raise lib.Inconclusive("subgraph data was not static in history %s (same query+representation, different value)" % r["id"])
            for rr in r["reqs"]:
                stats["requests"] += 1
                if rr["n_exchanges"] < rr["n_exchanges_ref"]:
                    stats["requests_saving_exchanges"] += 1
                if rr["cache_errs"]:
                    stats["requests_with_cache_errors"] += 1
    # ---- TLC trace validation (batch mode: rules broken by every event are reported, the run goes on)
    r = ctx.tlc(SPEC_DIRS, "Trace_EntityCache", "Trace_EntityCache.cfg", workers=1, env={"TRACE": ep}, timeout=2400, deadlock=False,
                count=False, tag="trace-validation-" + tag, heap="6g")
    if not r.ok:
        print(r.out[-3000:])
        raise lib.Inconclusive("trace validation of batch %s did not run to the end: %s" % (tag, r.error))
    starts = [i for i, x in enumerate(rows) if x["ev"] == "reset"]
    with _LOCK:
        stats["shared_loads"] = stats.get("shared_loads", 0) + sum(1 for x in rows if x["ev"] == "load" and x.get("shared"))
        totals = [p for p in r.printed if "stored" in p]
        if totals:
            stats["items_stored"] += totals[-1]["stored"]
            stats["full_hits"] += totals[-1]["hits"]
        for p in r.printed:
            if "flagged" not in p:
                continue
            idx = p["flagged"] - 1  # flagged = 1-based line of the event
            ev = rows[idx]
            h = bisect.bisect_right(starts, idx) - 1
            s, e = starts[h], (starts[h + 1] if h + 1 < len(starts) else len(rows))
            cid = rows[s]["id"]
            case = by_id.get(cid)
            for rule in sorted(p["rules"]):
                if rule == "ServedOnlyStoredLive":
                    # the recording cache (harness) returned something the log cannot account for: not a verdict about the code
                    raise lib.Inconclusive("recording cache inconsistent with its own log in history %s (event %s)" % (cid, json.dumps(ev)[:300]))
                key = detail_key(rule, ev, rows, idx, case)
                stats["flags"][key] = stats["flags"].get(key, 0) + 1
                if key in stats["reported"]:
                    continue
                stats["reported"].add(key)
                what = "rule %s of Trace_EntityCache broken by event #%d of history %s: %s" % (rule, idx - s + 1, cid, json.dumps(ev)[:400])
                ctx.violation(key, what, {"case": case, "events": rows[s:e], "result": res_by_id.get(cid), "failing_event_index": idx - s + 1,
                                          "rule": rule})
    return rows, results


def observed_hits(rows):
    """per history id -> per request list of (full hit?) for every GetMany in order."""
    out, cur = {}, None
    for x in rows:
        if x["ev"] == "reset":
            cur = out.setdefault(x["id"], [])
        elif x["ev"] == "req":
            cur.append([])
        elif x["ev"] == "get":
            full = x["res"] == "ok" and len(x["found"]) == len(x["keys"]) and len(x["keys"]) > 0 and not any(f.get("e") for f in x["found"])
            cur[-1].append(1 if full else 0)
    return out


def binding_demo(ctx, rows):
    """Corrupt one recorded field / drop one event of a real trace: the strict trace spec must reject it."""
    # first history that contains a successful SetMany followed later by a full hit
    starts = [i for i, x in enumerate(rows) if x["ev"] == "reset"] + [len(rows)]
    tried = 0
    for a, b in zip(starts, starts[1:]):
        seg = rows[a:b]
        si = gi = None
        for i, x in enumerate(seg):
            if x["ev"] != "set" or x["res"] != "ok" or not x["applied"]:
                continue
            k = x["applied"][0]
            # a later lookup that was answered with k, k written by no other SetMany before it
            j = next((j for j, y in enumerate(seg) if j > i and y["ev"] == "get" and any(f["k"] == k for f in y["found"])), None)
            if j is None or any(z["ev"] == "set" and k in z["applied"] for n, z in enumerate(seg[:j]) if n != i):
                continue
            si, gi = i, j
            break
        if si is None:
            continue
        good = ctx.path("demo-good.ndjson")
        lib.write_ndjson(good, seg)
        r0 = ctx.tlc(SPEC_DIRS, "Trace_EntityCache", "Trace_EntityCache_strict.cfg", workers=1, env={"TRACE": good}, deadlock=False,
                     count=False, tag="binding-demo-original", timeout=300)
        if not r0.ok:
            tried += 1  # this history carries a (known) finding: take another one
            if tried >= 6:
                return None
            continue
        # (1) raise the recorded ttl beyond the header lifetime
        c1 = json.loads(json.dumps(seg))
        c1[si]["items"][0]["ttl"] = c1[si]["items"][0]["ttl"] + 1000
        p1 = ctx.path("demo-ttl.ndjson")
        lib.write_ndjson(p1, c1)
        r1 = ctx.tlc(SPEC_DIRS, "Trace_EntityCache", "Trace_EntityCache_strict.cfg", workers=1, env={"TRACE": p1}, deadlock=False,
                     count=False, tag="binding-demo-ttl", timeout=300)
        # (2) drop the SetMany event: the later hit serves something that was never stored
        c2 = seg[:si] + seg[si + 1:]
        p2 = ctx.path("demo-drop.ndjson")
        lib.write_ndjson(p2, c2)
        r2 = ctx.tlc(SPEC_DIRS, "Trace_EntityCache", "Trace_EntityCache_strict.cfg", workers=1, env={"TRACE": p2}, deadlock=False,
                     count=False, tag="binding-demo-drop", timeout=300)
        return {"original_accepted": r0.ok, "ttl_corrupted_rejected_by": r1.violated, "set_dropped_rejected_by": r2.violated}
    return None


def model_check(ctx, quick):
    if quick:
        ctx.tlc_must_pass(SPEC_DIRS, "MC_EntityCache", "MC_EntityCache_q.cfg", timeout=900, workers=8, tag="mc-entity-cache-2req")
    else:
        ctx.tlc_must_pass(SPEC_DIRS, "MC_EntityCache", "MC_EntityCache_t.cfg", timeout=3000, workers=8, tag="mc-entity-cache-3req-small-menu")
        ctx.tlc_must_pass(SPEC_DIRS, "MC_EntityCache", "MC_EntityCache_t2.cfg", timeout=3000, workers=8, tag="mc-entity-cache-2req-full-menu")
    negs = [n for n in NEGATIVE if n[0] in ("partial_as_full", "key_no_sel", "private_ignored", "get_ctxerr_fails")] if quick else NEGATIVE
    for bug, prop in negs:
        r = ctx.tlc(SPEC_DIRS, "MC_EntityCache", "MC_EntityCache_neg.cfg", timeout=600, workers=4, count=False,
                    env={"C16_BUG": bug}, tag="mc-negative-" + bug)
        if r.violated != prop:
            print(r.out[-2000:])
            raise lib.Inconclusive("sanity: model with seeded bug %s should violate %s, got %r / %r" % (bug, prop, r.violated, r.error))
    for prop in (("NeverPartial",) if quick else ("NeverHit", "NeverPartial")):
        r = ctx.tlc(SPEC_DIRS, "MC_EntityCache", "MC_EntityCache_%s.cfg" % prop, timeout=600, workers=4, count=False, tag="mc-reach-" + prop)
        if r.violated != prop:
            raise lib.Inconclusive("sanity: %s should be violated (the model must be able to serve from the cache), got %r" % (prop, r.error))


def run(ctx):
    rng = random.Random(ctx.seed)
    quick = ctx.quick()
    # findings of this property that the coordinator has not merged into known-findings.json yet
    frag = os.path.join(lib.VERIF, "findings.d", "C16.json")
    if os.path.exists(frag):
        with open(frag) as f:
            for e in json.load(f):
                if not any(k.get("property") == e["property"] and k.get("key") == e["key"] for k in ctx.known()):
                    ctx.known().append(e)
    if os.environ.get("C16_DEV_ASSUME_FIXED") == "1":
        # development switch: judge as after the coordinator committed the fixes (a fixed entry suppresses nothing)
        for k in ctx.known():
            if k.get("property") == "C16":
                k["status"] = "fixed"
    # private copy: other agents' clean-ups (rm -rf /verif/.build-*) must not pull the driver away mid-run
    import shutil
    binary = shutil.copy2(ctx.build("cachex"), ctx.path("cachex-bin"))
    if ctx.replay_in:
        # re-execute the history of a replay file on the real engine and validate its log again
        with open(ctx.replay_in) as f:
            obj = json.load(f)
        case = obj["case"]["case"] if "case" in obj.get("case", {}) else obj["case"]
        stats = {"requests": 0, "requests_saving_exchanges": 0, "requests_with_cache_errors": 0, "items_stored": 0, "full_hits": 0,
                 "flags": {}, "reported": set()}
        run_batch(ctx, binary, [case], "replay", stats)
        ctx.coverage.update({"traces_validated_against_impl": 1, "evaluations": stats["requests"], "distinct_nontrivial": 1,
                             "rule": "replay of one recorded history", "flag_counts": stats["flags"], "samples": [case], "exhaustive": False})
        return
    # ---- 1. model checking -------------------------------------------------------------------------------------
    if os.environ.get("C16_DEV_SKIP_MC") != "1":  # development switch (mutant loops); never set by bin/check users
        model_check(ctx, quick)
    # ---- 2a. histories ---------------------------------------------------------------------------------------------
    cases, expected = [], {}
    g = ctx.tlc_must_pass(SPEC_DIRS, "Gen_EntityCache", "Gen_EntityCache_bfs.cfg", timeout=900, workers=4, deadlock=False, tag="gen-histories-bfs")
    tables = next(p["tables"] for p in g.printed if "tables" in p)
    bfs = [p["hist"] for p in g.printed if "hist" in p]
    n_bfs_total = len(bfs)
    if quick:
        rng.shuffle(bfs)
        bfs = bfs[:700]
    # every error CLASS of a failing GetMany / SetMany (plain, wrapping context.DeadlineExceeded / Canceled, net timeout) on the
    # single-entity and the batch-entity path, exhaustively (one request on an empty cache)
    gk = ctx.tlc_must_pass(SPEC_DIRS, "Gen_EntityCache", "Gen_EntityCache_classes.cfg", timeout=900, workers=4, deadlock=False,
                           tag="gen-histories-error-classes")
    classes = [p["hist"] for p in gk.printed if "hist" in p]
    nsim = 700 if quick else 20000
    gs = ctx.tlc_must_pass(SPEC_DIRS, "Gen_EntityCache", "Gen_EntityCache_sim.cfg", timeout=1800, workers=1, deadlock=False,
                           simulate=nsim, depth=90, seed=ctx.seed, tag="gen-histories-simulate")
    sim = {}
    for p in gs.printed:
        if "hist" in p:
            sim[lib.sha(p["hist"])] = p["hist"]
    sim = list(sim.values())
    ctx.log("histories: bfs %d (of %d), simulate %d distinct, error classes %d" % (len(bfs), n_bfs_total, len(sim), len(classes)))
    for i, h in enumerate(bfs):
        c, e = hist_to_case("b-%06d" % i, h, tables, rng, 2)
        cases.append(c)
        expected[c["id"]] = e
    for i, h in enumerate(sim):
        c, e = hist_to_case("s-%06d" % i, h, tables, rng, 2)
        cases.append(c)
        expected[c["id"]] = e
    for i, h in enumerate(classes):
        c, e = hist_to_case("k-%06d" % i, h, tables, rng, 2)
        cases.append(c)
        expected[c["id"]] = e
    # ---- 2c. concurrent pairs of requests sharing the cache (model-checked while generating) --------------------------
    gc = ctx.tlc_must_pass(SPEC_DIRS, "Gen_EntityCacheConc", "Gen_EntityCacheConc.cfg", timeout=1500, workers=4, deadlock=False,
                           tag="mc+gen-concurrent-pairs")
    for cfg, inv in (("MC_EntityCacheConc_negP.cfg", "ServedTruth"), ("MC_EntityCacheConc_negK.cfg", None)):
        r = ctx.tlc(SPEC_DIRS, "Gen_EntityCacheConc", cfg, timeout=600, workers=4, count=False, tag="mc-negative-concurrent")
        if r.violated is None or (inv and r.violated != inv):
            raise lib.Inconclusive("sanity: concurrent model with a seeded bug (%s) should be rejected, got %r" % (cfg, r.error))
    conc = {}
    for p in gc.printed:
        if p.get("conc") == 1:
            conc[conc_signature(p, tables)] = p
    conc_keys = sorted(conc)
    n_conc_total = len(conc_keys)
    if quick:
        rng.shuffle(conc_keys)
        conc_keys = conc_keys[:400]
    expected_conc = {}
    for i, k in enumerate(conc_keys):
        c = conc_to_case("c-%06d" % i, conc[k], tables, dedup=1 if i % 4 == 3 else 0)
        cases.append(c)
        expected_conc[c["id"]] = {1: conc[k]["hits1"], 2: conc[k]["hits2"]}
    ctx.log("concurrent histories: %d (of %d distinct behaviours)" % (len(conc_keys), n_conc_total))
    # ---- 2b. header strings -----------------------------------------------------------------------------------------
    hdrs = {}
    gh = ctx.tlc_must_pass(SPEC_DIRS, "Gen_CacheControl", "Gen_CacheControl_1.cfg" if quick else "Gen_CacheControl_2.cfg",
                           timeout=900, workers=4, deadlock=False, tag="gen-headers-bfs")
    for p in gh.printed:
        hdrs[lib.sha(p["lines"])] = p
    n_hdr_bfs = len(hdrs)
    ghs = ctx.tlc_must_pass(SPEC_DIRS, "Gen_CacheControl", "Gen_CacheControl_sim.cfg", timeout=900, workers=1, deadlock=False,
                            simulate=12 if quick else 60, depth=6, seed=ctx.seed, tag="gen-headers-simulate")
    pool = {}
    for p in ghs.printed:
        k = lib.sha(p["lines"])
        if k not in hdrs:
            pool[k] = p
    keys = sorted(pool)
    rng.shuffle(keys)
    for k in keys[:(1500 if quick else 10000)]:
        hdrs[k] = pool[k]
    hdr_list = [hdrs[k] for k in sorted(hdrs)]
    ctx.log("header strings: %d exhaustive + %d sampled (pool %d)" % (n_hdr_bfs, len(hdr_list) - n_hdr_bfs, len(pool)))
    n_store_ok = n_bad = 0
    for i, h in enumerate(hdr_list):
        d, b = strict_parse(h["lines"])
        gen_names = [(x["d"], x["n"]) for x in h["dirs"]]
        if b != bool(h["bad"]) or (not b and d is not None and [(x["d"], x["n"]) for x in d] != gen_names):
            raise lib.Inconclusive("generator / reference parser disagree on header %r: generator %s bad=%s, reference %s bad=%s" % (
                h["lines"], gen_names, h["bad"], d, b))
        ok, _ = denote(h["dirs"], h["bad"], 2)
        if ok != bool(h["storable"]):
            raise lib.Inconclusive("python mirror of MayStore disagrees with TLC on %r" % h["lines"])
        n_store_ok += ok
        n_bad += h["bad"]
        cases.append(header_to_case("h-%06d" % i, h, 2))
    # ---- 3./4. replay and validate -------------------------------------------------------------------------------------
    stats = {"requests": 0, "requests_saving_exchanges": 0, "requests_with_cache_errors": 0, "items_stored": 0, "full_hits": 0,
             "flags": {}, "reported": set()}
    all_rows = []
    agree = total_pred = 0
    unexplained = []
    case_by_id = {c["id"]: c for c in cases}
    bs = 2500
    first_rows = None
    batches = [(b // bs, cases[b:b + bs]) for b in range(0, len(cases), bs)]

    def one(bc):
        return run_batch(ctx, binary, bc[1], "%03d" % bc[0], stats)
    if quick:
        outs = [one(bc) for bc in batches]
    else:
        import concurrent.futures
        with concurrent.futures.ThreadPoolExecutor(max_workers=3) as ex:
            outs = list(ex.map(one, batches))
    conc_agree = conc_total = conc_sched_realised = conc_dedup = 0
    for rows, results in outs:
        if first_rows is None:
            first_rows = rows
        oc = observed_hits_conc(rows)
        for r in results:
            if r["id"] in expected_conc:
                if case_by_id[r["id"]]["dedup"]:
                    conc_dedup += 1
                    continue
                conc_total += 1
                want = expected_conc[r["id"]]
                got = oc.get(r["id"], {})
                if want[1] == got.get(1, []) and want[2] == got.get(2, []):
                    conc_agree += 1
                if r.get("took") == case_by_id[r["id"]]["sched"]:
                    conc_sched_realised += 1
        obs = observed_hits(rows)
        for cid, per_req in obs.items():
            if cid not in expected:
                continue
            for want, got in zip(expected[cid], per_req):
                total_pred += 1
                if [w["hit"] for w in want] == got:
                    agree += 1
                elif not any(x.get("fault") in ("s300", "null1") for rq in case_by_id[cid]["reqs"] for x in rq["ex"].values()):
                    unexplained.append({"id": cid, "predicted": [w["hit"] for w in want], "observed": got})
    demo = binding_demo(ctx, first_rows) if first_rows else None
    if demo is not None and not (demo["ttl_corrupted_rejected_by"] == "TTLWithinLifetime" and demo["set_dropped_rejected_by"]):
        raise lib.Inconclusive("binding demonstration failed: %r" % demo)
    if conc_total and conc_sched_realised < conc_total:
        ctx.notes.append("%d of %d concurrent schedules were not realised step by step (validated as executed)" % (
            conc_total - conc_sched_realised, conc_total))
    n_hist = len(bfs) + len(sim) + len(classes)
    nontrivial = 0
    for cid, e in expected.items():
        if any(s["hit"] == 1 or 0 < s["found"] < s["n"] for rq in e for s in rq):
            nontrivial += 1
    ctx.coverage.update({
        "traces_validated_against_impl": len(cases),
        "evaluations": stats["requests"],
        "distinct_nontrivial": nontrivial + n_store_ok,
        "rule": "one case = one TLC-generated history (2-5 requests, per-exchange Cache-Control header + subgraph outcome, cache "
                "Get/Set faults, evictions, ticks) or one generated Cache-Control header string (2 requests), replayed on the real "
                "engine with and without cache; distinct by content hash; non-trivial = histories for which the model predicts a full "
                "or partial cache hit + header strings that allow storing",
        "histories": n_hist, "histories_bfs": len(bfs), "histories_bfs_total": n_bfs_total, "histories_simulated": len(sim),
        "histories_with_predicted_hit_or_partial": nontrivial,
        "header_strings": len(hdr_list), "header_strings_exhaustive": n_hdr_bfs, "header_strings_storable": n_store_ok,
        "header_strings_malformed": n_bad,
        "requests_executed": stats["requests"], "requests_answered_with_fewer_exchanges": stats["requests_saving_exchanges"],
        "requests_with_reported_cache_errors": stats["requests_with_cache_errors"],
        "items_stored": stats["items_stored"], "full_hits": stats["full_hits"],
        "hit_prediction_agreement": "%d/%d requests" % (agree, total_pred),
        "concurrent_histories": conc_total + conc_dedup, "concurrent_histories_fully_scheduled": conc_total,
        "concurrent_histories_with_subgraph_single_flight": conc_dedup, "concurrent_behaviours_total": n_conc_total,
        "concurrent_fetches_answered_from_the_other_requests_exchange": stats.get("shared_loads", 0),
        "concurrent_schedules_realised_exactly": conc_sched_realised,
        "concurrent_hit_prediction_agreement": "%d/%d histories" % (conc_agree, conc_total),
        "hit_prediction_mismatches_not_involving_status_300_or_null_entity": unexplained[:10],
        "rules_on_traces": ["CacheTransparent", "StoredFromCleanSuccess", "StoredOnlyIfAllowed", "TTLWithinLifetime", "OneItemPerObjectEntity",
                            "StoreSound", "StoredWithoutLoad", "StoredWithoutKeys", "PartialNeverServed", "ServedOnlyStoredLive"],
        "flag_counts": stats["flags"],
        "binding_demo": demo,
        "samples": [cases[0], cases[len(bfs)] if len(cases) > len(bfs) else cases[-1], cases[-1]],
        "exhaustive": False,
    })
    if stats["items_stored"] == 0 or stats["full_hits"] == 0:
        raise lib.Inconclusive("vacuous run: nothing was stored / served from the cache (stored=%d hits=%d)" % (stats["items_stored"], stats["full_hits"]))
    if total_pred and agree < total_pred:
        ctx.notes.append("model hit/miss prediction differed from the implementation for %d of %d requests (allowed: the property "
                         "does not oblige the cache to store or to hit)" % (total_pred - agree, total_pred))
    ctx.assumptions += [
        "subgraph data is static (checked: the same query+representation never yields two values within a history)",
        "the reference gateway (no cache) receives the subgraph faults that were delivered in the cached run; a fault aimed at an exchange the cache made unnecessary is not applied",
        "denotation of header strings is the generator's (cross-checked by an independent strict RFC 9110/9111 reader in checks/c16.py); ambiguous headers are not generated",
        "recording cache: manual clock, entry live while expiry > clock; its own consistency is rule ServedOnlyStoredLive",
        "requests of one history are sequential; GetMany/SetMany/exchange are linked through the goroutine running the fetch",
    ]
