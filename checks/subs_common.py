"""Shared machinery of C12 / C13 (subscription registry, spec/conc/Subscriptions.tla, harness/cmd/subs).

Pipeline:
  1. TLC model-checks Subscriptions: the repaired protocol (FixD5/FixD6 = TRUE) satisfies every property, the
     protocol as the code has it (FALSE) is rejected by the model (sanity against a vacuous spec).
  2. TLC enumerates behaviours of the as-is model (Gen_Subs: BFS with the schedule in the state = every distinct
     schedule; -simulate for the larger configurations) as schedules of releases.
  3. harness/cmd/subs forces each schedule on the real resolver (gate scheduler, verif hooks, fake source / writer /
     reporter) and records the event stream.
  4. TLC validates the streams against Trace_Subs: a soft pass lists every trace that is rejected (an event that is
     not an enabled action of the actor that logged it, or a property false in a reached state); these are reported
     (known finding / violation); the strict pass then checks all remaining traces with the properties as TLC
     INVARIANTS and a POSTCONDITION that every line was consumed.
"""
import json
import os
import random
import re

import lib

HERE = os.path.dirname(os.path.abspath(__file__))
INVS = {
    "C12": ["NoWriteAfterClose", "ClosedOnce", "WriterExclusiveT", "OrderedExactT", "RegistryConsistent"],
    "C13": ["SharedIffSameKey", "StartOncePerLivePeriod", "NoStaleInit", "NoStaleDetach", "NoStaleUpdater", "NoLateInit",
            "Quiescent", "CancelledWhenDone", "RegistryConsistent", "DetachedContext"],
}


def load_own_findings(ctx):
    """findings.d/<prop>.json is this check's fragment of known-findings.json (merged by the coordinator);
    honour it directly as well so that the check behaves the same before and after the merge."""
    known = ctx.known()
    have = {(k.get("property"), k.get("key")) for k in known}
    if os.environ.get("VERIF_FINDINGS_SUFFIX"):
        # trying out the fixed fragment: entries it declares fixed must not be suppressed by the (not yet swapped) merged file
        fixed = {(k.get("property"), k.get("key")) for k in _fragment(ctx.prop) if k.get("status") == "fixed"}
        known[:] = [k for k in known if (k.get("property"), k.get("key")) not in fixed]
        have = {(k.get("property"), k.get("key")) for k in known}
    for k in _fragment(ctx.prop):
        if (k.get("property"), k.get("key")) not in have:
            known.append(k)


def _fragment(prop):
    # VERIF_FINDINGS_SUFFIX=.after-fix: try the check against a worktree that already contains the prepared fixes
    p = os.path.join(lib.VERIF, "findings.d", prop + ".json" + os.environ.get("VERIF_FINDINGS_SUFFIX", ""))
    if not os.path.exists(p):
        p = os.path.join(lib.VERIF, "findings.d", prop + ".json")
    if not os.path.exists(p):
        return []
    with open(p) as f:
        return json.load(f)


def fix_flags():
    """Which repairs the tree under test contains, read from the findings fragments (an entry is flipped to status
    "fixed" when its fix is committed): the generator and the trace specification model the code as it is NOW.
    A fixed entry suppresses nothing - if the defect were still there the trace would be rejected as a violation."""
    def fixed(prop, prefix):
        es = [e for e in _fragment(prop) if e.get("key", "").startswith(prefix)]
        return bool(es) and all(e.get("status") == "fixed" for e in es)
    return {"FixD5": fixed("C12", "NoWriteAfterClose:"),
            "FixInit": fixed("C13", "NoStaleInit:") and fixed("C13", "NoLateInit:"),
            "FixDetach": fixed("C13", "NoStaleDetach:"),
            "FixUpdater": fixed("C13", "NoStaleUpdater:")}


def _tla_bool(b):
    return "TRUE" if b else "FALSE"


def trace_cfg(prop, soft, flags):
    return """CONSTANTS
  NS = 3
  MaxEvents = 3
  MaxTerm = 99
  MaxSrcTerm = 99
  MaxHB = 99
  UseD = TRUE
  StartModes <- StartAll
  FixD5 = %s
  FixInit = %s
  FixDetach = %s
  FixUpdater = %s
  CfgOK <- CfgAll
  Features <- FeatAll
  RaceTolerant <- TraceTolerant
  Soft = %s
  Prop = "%s"
SPECIFICATION TraceSpec
CONSTRAINT HighWater
%sVIEW TraceView
%sPOSTCONDITION TraceAccepted
CHECK_DEADLOCK FALSE
""" % (_tla_bool(flags["FixD5"]), _tla_bool(flags["FixInit"]), _tla_bool(flags["FixDetach"]), _tla_bool(flags["FixUpdater"]),
       _tla_bool(soft), prop, "CONSTRAINT Judge\n" if soft else "", "" if soft else "INVARIANTS " + " ".join(INVS[prop]) + "\n")


def gen_cfg(name, **kw):
    """Write a Gen_Subs cfg into the spec copy used by ctx.tlc (done through `extra` spec dir)."""
    d = dict(NS=2, MaxEvents=1, MaxTerm=1, MaxSrcTerm=1, MaxHB=0, UseD="FALSE", StartModes="StartOK", CfgOK="CfgRace", MaxProbes=0, SeqSetup="TRUE", AllowCloseSub="FALSE", Features="FeatNone")
    d.update(kw)
    d.update({k: _tla_bool(v) for k, v in fix_flags().items()})
    return """CONSTANTS
  NS = %(NS)s
  MaxEvents = %(MaxEvents)s
  MaxTerm = %(MaxTerm)s
  MaxSrcTerm = %(MaxSrcTerm)s
  MaxHB = %(MaxHB)s
  UseD = %(UseD)s
  StartModes <- %(StartModes)s
  FixD5 = %(FixD5)s
  FixInit = %(FixInit)s
  FixDetach = %(FixDetach)s
  FixUpdater = %(FixUpdater)s
  CfgOK <- %(CfgOK)s
  Features <- %(Features)s
  AllowCloseSub = %(AllowCloseSub)s
  MaxProbes = %(MaxProbes)s
  SeqSetup = %(SeqSetup)s
SPECIFICATION GenSpec
CONSTRAINT GenConstraint
CONSTRAINT StopAtDone
VIEW GenView
CHECK_DEADLOCK FALSE
""" % d


def spec_dir(ctx, cfgs):
    """A scratch spec directory holding generated cfg files next to the modules of spec/conc."""
    d = ctx.path("subs-spec")
    os.makedirs(d, exist_ok=True)
    for name, text in cfgs.items():
        with open(os.path.join(d, name), "w") as f:
            f.write(text)
    return d


KVS = ["input", "hdr", "payload", "ws"]            # how two trigger ids are made different
FKS = ["num-static", "num-var", "arr-var", "true-var", "false-var", "str-var",   # how an "odd" filter value is written
       "in2-static", "in2-var", "notin2", "str2-var"]                              # ... IN / NOT{IN} with two value templates (the second one matches)


def to_schedule(tag, idx, b, kv, fk="num-static"):
    n = len(b["key"])
    fetch = b.get("fetch") or [False] * n
    rerr = b.get("rerr") or [False] * n
    hookfail = b.get("hookfail") or [False] * n
    return {"id": "%s-%06d" % (tag, idx), "nopark": [], "hooks": bool(b.get("hooks")), "sync": bool(b.get("sync")),
            "subs": [{"key": b["key"][i], "filt": b["filt"][i], "conn": b["conn"][i], "fetch": bool(fetch[i]), "rerr": bool(rerr[i]),
                      "hookfail": bool(hookfail[i])} for i in range(n)],
            "kv": kv, "fk": fk, "start": list(b["start"]), "steps": b["steps"],
            "predicted": {"wdata": b.get("wdata"), "wafter": b.get("wafter"), "stale": b.get("stale"), "late": b.get("late")}}


def sched_hash(s):
    return lib.sha([s["subs"], s["kv"], s.get("fk"), s.get("hooks"), s.get("sync"), s["start"], s["steps"]])


def nontrivial(s):
    """at least two different actors take turns more than once (a real interleaving, not one actor after the other)"""
    sw = 0
    last = None
    for st in s["steps"]:
        a = (st["k"], st["i"], st["j"])
        if last is not None and a != last:
            sw += 1
        last = a
    return sw >= 3


def generate(ctx, tag, cfgtext, rng, cap=None, simulate=None, depth=None, timeout=900, workers=8, fks=None):
    if rng is None:
        rng = random.Random("%d-%s" % (ctx.seed, tag))
    d = spec_dir(ctx, {"Gen_Subs_%s.cfg" % tag: cfgtext})
    kw = dict(timeout=timeout, deadlock=False, workers=workers, tag="gen-" + tag)
    if simulate:
        kw.update(simulate=simulate, depth=depth or 300, seed=ctx.seed, workers=1)
    g = ctx.tlc_must_pass(["conc", d], "Gen_Subs", "Gen_Subs_%s.cfg" % tag, **kw)
    uniq = {}
    for b in g.printed:
        uniq[lib.sha([b["key"], b["filt"], b["conn"], b["start"], b.get("fetch"), b.get("rerr"), b.get("hooks"), b.get("hookfail"), b.get("sync"), b["steps"]])] = b
    beh = [uniq[k] for k in sorted(uniq)]
    total = len(beh)
    if cap is not None and len(beh) > cap:
        rng.shuffle(beh)
        beh = beh[:cap]
    scheds = [to_schedule(tag, i, b, rng.choice(KVS), rng.choice(fks or FKS)) for i, b in enumerate(beh)]
    ctx.log("%s: %d distinct behaviours generated, %d chosen" % (tag, total, len(scheds)))
    return scheds, total


def _run_shard(ctx, binary, tag, scheds):
    """One harness process over a list of schedules. A crash of the process (panic in a goroutine of the resolver)
    is attributed to the schedule that was running and the run continues after it. Returns (events path, results, crashes)."""
    sp, ep, rp = ctx.path("sched-%s.ndjson" % tag), ctx.path("events-%s.ndjson" % tag), ctx.path("results-%s.ndjson" % tag)
    lib.write_ndjson(sp, [{k: v for k, v in s.items() if k != "predicted"} for s in scheds])
    for p in (ep, rp):
        if os.path.exists(p):
            os.remove(p)
    skip = 0
    crashes = []
    while True:
        p = ctx.run_bin(binary, ["-in", sp, "-out", ep, "-res", rp, "-skip", str(skip)], timeout=3000, check=False)
        if p.returncode == 0:
            break
        runs = re.findall(r"^RUN (\d+) (\S+)$", p.stderr, re.M)
        if not runs:
            print(p.stderr[-3000:])
            raise lib.Inconclusive("harness subs exited %d before running a schedule" % p.returncode)
        n, sid = int(runs[-1][0]), runs[-1][1]
        m = re.search(r"^(panic: .*|fatal error: .*)$", p.stderr, re.M)
        crashes.append((sid, m.group(1) if m else "exit code %d" % p.returncode, p.stderr[-2500:]))
        skip = n
        if len(crashes) >= 10:
            raise lib.Inconclusive("harness subs crashed %d times; giving up on batch %s" % (len(crashes), tag))
    results = lib.read_ndjson(rp) if os.path.exists(rp) else []
    return ep, results, crashes


def replay(ctx, binary, tag, scheds, shards=None):
    """Replay the schedules (several harness processes side by side), merge the event streams."""
    shards = shards or (6 if len(scheds) >= 3000 else 4 if len(scheds) >= 200 else 1)
    parts = [scheds[k::shards] for k in range(shards)]
    from concurrent.futures import ThreadPoolExecutor
    with ThreadPoolExecutor(max_workers=shards) as ex:
        outs = list(ex.map(lambda kp: _run_shard(ctx, binary, "%s-%d" % (tag, kp[0]), kp[1]), enumerate(parts)))
    by_id = {s["id"]: s for s in scheds}
    ep = ctx.path("events-%s.ndjson" % tag)
    results = []
    with open(ep, "w") as out:
        for (p, res, crashes) in outs:
            if os.path.exists(p):
                with open(p) as f:
                    out.write(f.read())
            results.extend(res)
            for sid, msg, tail in crashes:
                kind = "double-close" if "close of closed channel" in msg else "other"
                ctx.violation("crash:%s" % kind, "the process died while schedule %s was running: %s" % (sid, msg),
                              {"schedule": by_id.get(sid), "stderr_tail": tail})
    for r in results:
        s = by_id.get(r["id"])
        if r.get("panic"):
            ctx.violation("panic:harness-actor", "panic in a call into the resolver: %s (schedule %s)" % (r["panic"], r["id"]),
                          {"schedule": s, "result": r})
        if r.get("wedged"):
            # never a verdict from one slow run: the schedule is run again on its own; wedged twice = a participant is blocked forever
            _, again, _ = _run_shard(ctx, binary, "%s-retry" % tag, [s])
            if again and again[0].get("wedged"):
                ctx.violation("wedged", "actors %s never returned although every gate was opened, twice (schedule %s)" % (r["wedged"], r["id"]),
                              {"schedule": s, "result": r})
    return ep, results


_PRINT_RE = re.compile(r'^<<"(INV|STUCK)", (.*), (\d+)>>$')


def split_traces(rows):
    """[(start, end)] index ranges (end exclusive) of the traces in the event file"""
    starts = [i for i, r in enumerate(rows) if r["ev"] == "reset"]
    return [(s, (starts[k + 1] if k + 1 < len(starts) else len(rows))) for k, s in enumerate(starts)]


CONFIRM_CAP = 40      # rejected traces re-executed per batch (a broken tree rejects hundreds; the first ones decide)
CONFIRM_RUNS = 2


def _soft_pass(ctx, prop, tag, events_path, d):
    """One soft TLC pass over an event file: (rows, traces, {trace range: (kind, what, index of the offending line)})"""
    rows = lib.read_ndjson(events_path)
    if not rows:
        return rows, [], {}
    soft = ctx.tlc(["conc", d], "Trace_Subs", "Trace_Subs_%s_soft.cfg" % prop, workers=1, env={"TRACE": events_path}, timeout=2400,
                   deadlock=False, count=False, tag="trace-validation-soft-" + tag)
    if not soft.ok:
        print(soft.out[-3000:])
        raise lib.Inconclusive("soft trace validation did not run through: %s" % soft.error)
    traces = split_traces(rows)
    bad = {}
    for line in soft.out.splitlines():
        m = _PRINT_RE.match(line.strip())
        if not m:
            continue
        kind, what, ln = m.group(1), m.group(2), int(m.group(3))
        # INV: printed in the state AFTER line ln-1 was consumed; STUCK: line ln could not be consumed
        evline = ln - 1 if kind == "INV" else ln
        idx = evline - 1
        tr = next(((s, e) for (s, e) in traces if s <= idx < e), None)
        if tr is None or tr in bad:
            continue
        bad[tr] = (kind, what, idx)
    return rows, traces, bad


def validate(ctx, prop, tag, events_path, scheds, results, binary=None, depth=0):
    """Soft pass (lists every rejected trace), confirmation of the rejected ones by re-execution, report, strict pass on the accepted
    ones. Returns (#traces accepted, #traces rejected and confirmed, #rejections that did not reproduce)."""
    by_id = {s["id"]: s for s in scheds}
    res_by_id = {r["id"]: r for r in results}
    flags = fix_flags()
    d = spec_dir(ctx, {"Trace_Subs_%s_soft.cfg" % prop: trace_cfg(prop, True, flags), "Trace_Subs_%s.cfg" % prop: trace_cfg(prop, False, flags)})
    rows, traces, bad = _soft_pass(ctx, prop, tag, events_path, d)
    if not rows:
        return 0, 0, 0
    # A goroutine that was blocked on a mutex runs beside the scheduled actor once the mutex is free, and the machine may be slow: a single
    # rejected trace is never a verdict. The gates make a genuine defect reproduce: every rejected schedule is executed again (twice);
    # it counts only if it is rejected again at least once.
    order = sorted(bad)
    ids = [rows[s]["id"] for (s, e) in order]
    reproduced = set(ids)
    if binary is not None and ids:
        tried = [i for i in ids if i in by_id][:CONFIRM_CAP]
        again = set()
        for attempt in range(CONFIRM_RUNS):
            ep2, _ = replay(ctx, binary, "%s-confirm%d" % (tag, attempt + 1), [by_id[i] for i in tried], shards=4 if len(tried) >= 12 else 1)
            rows2, _, bad2 = _soft_pass(ctx, prop, "%s-confirm%d" % (tag, attempt + 1), ep2, d)
            again |= {rows2[s]["id"] for (s, e) in bad2}
        reproduced = {i for i in tried if i in again}
        not_tried = len(ids) - len(tried)
        if not_tried:
            ctx.notes.append("%d further rejected traces were not re-executed (cap %d per batch) and are not reported one by one" % (not_tried, CONFIRM_CAP))
    flaky = sum(1 for i in ids[:CONFIRM_CAP] if i not in reproduced) if binary is not None else 0
    for (s, e) in order:
        if rows[s]["id"] in ids[:CONFIRM_CAP] and rows[s]["id"] not in reproduced and binary is not None:
            kind, what, idx = bad[(s, e)]
            ctx.notes.append("not reproduced: %s %s at event %s of %s" % (kind, what[:60], json.dumps({k: rows[idx].get(k) for k in ("ev", "k", "i", "j", "x", "y", "z")}), rows[s]["id"]))
    for (s, e) in order:
        kind, what, idx = bad[(s, e)]
        cid = rows[s]["id"]
        if cid not in reproduced:
            continue
        ev = rows[idx]
        if kind == "INV":
            invs = re.findall(r'"(\w+)"', what)
            inv = invs[0] if invs else "?"
            key = "%s:%s:%s" % (inv, ev["ev"], ev["k"])
            msg = "property %s is false on the trace recorded from the real code after event #%d %s" % (
                "/".join(invs), idx - s, json.dumps({k: ev[k] for k in ("ev", "k", "i", "j", "x", "y", "z")}))
        else:
            key = "nonconformance:%s:%s" % (ev["ev"], ev["k"])
            sch = by_id.get(cid) or {}
            if ev["ev"] == "trig.fanout" and any(c.get("filt") == "odd" for c in sch.get("subs", [])):
                # a wrong number of subscribers passed their filter: the way the filter is written is part of the signature
                key = "filter:%s:%s" % (sch.get("fk"), key)
            msg = ("the recorded trace is not a behaviour of the specification: event #%d %s is not an enabled action of its actor"
                   % (idx - s, json.dumps({k: ev.get(k) for k in ("ev", "k", "i", "j", "x", "y", "z", "trig", "subs", "sinc", "sdec", "tinc", "tdec", "uncancelled", "wedged") if k in ev})))
        ctx.violation(key, "%s; schedule %s (rejected again when re-executed)" % (msg, cid),
                      {"schedule": by_id.get(cid), "events": rows[s:e], "result": res_by_id.get(cid), "failing_event_index": idx - s, "verdict": kind, "detail": what})
    if flaky:
        ctx.notes.append("%d rejected traces did not reproduce in %d re-executions of the same schedule and were not counted (flake of the machinery)" % (flaky, CONFIRM_RUNS))
    good_rows = []
    ngood = 0
    for (s, e) in traces:
        if (s, e) not in bad:
            good_rows.extend(rows[s:e])
            ngood += 1
    if ngood:
        gp = events_path + ".accepted"
        lib.write_ndjson(gp, good_rows)
        strict = ctx.tlc(["conc", d], "Trace_Subs", "Trace_Subs_%s.cfg" % prop, workers=1, env={"TRACE": gp}, timeout=2400,
                         deadlock=False, count=False, tag="trace-validation-" + tag)
        if not strict.ok:
            print(strict.out[-3000:])
            raise lib.Inconclusive("strict trace validation disagrees with the soft pass (%s)" % strict.error)
    return ngood, len(reproduced), flaky


def model_check(ctx, cfgs, negative):
    """cfgs: [(cfg, tag, timeout)] must pass; negative: [(cfg, expected violated invariant)] must be rejected."""
    for cfg, tag, to in cfgs:
        ctx.tlc_must_pass("conc", "MC_Subs", cfg, timeout=to, workers=8, tag=tag)
    for cfg, expect in negative:
        r = ctx.tlc("conc", "MC_Subs", cfg, timeout=900, workers=8, count=False, tag="mc-asis-negative")
        if r.violated not in expect:
            raise lib.Inconclusive("sanity: the as-is protocol (%s) should violate %s in the model, TLC said %r / %r" % (cfg, expect, r.violated, r.error))


FKS_SINGLE = FKS[:6]   # one value template per filter (the multi-template kinds are C12's subject)


def generate_all(ctx, jobs, parallel=4):
    """jobs: [(tag, cfgtext, kwargs)] -> {tag: (schedules, total)}; the TLC generator runs side by side, each family with its own rng"""
    from concurrent.futures import ThreadPoolExecutor
    with ThreadPoolExecutor(max_workers=parallel) as ex:
        futs = [(tag, ex.submit(generate, ctx, tag, cfg, None, **dict(kw, workers=4))) for tag, cfg, kw in jobs]
        return {tag: f.result() for tag, f in futs}


def run_batches(ctx, prop, binary, batches):
    """batches: [(tag, schedules)]: replayed and validated as ONE batch (one harness fan-out, two TLC runs). Returns totals."""
    tot = dict(replayed=0, accepted=0, rejected=0, flaky=0, unreal=0, free=0, distinct=set(), samples=[], per_family={})
    scheds = [s for _, ss in batches for s in ss]
    if not scheds:
        return tot
    ep, results = replay(ctx, binary, "all", scheds)
    good, bad, flaky = validate(ctx, prop, "all", ep, scheds, results, binary)
    tot["replayed"] = len(results)
    tot["accepted"] = good
    tot["rejected"] = bad
    tot["flaky"] = flaky
    tot["unreal"] = sum(1 for r in results if r.get("unrealised"))
    tot["free"] = sum(1 for r in results if r.get("free_run"))
    tot["timeouts"] = sum(1 for r in results if r.get("timeouts"))
    res_by_id = {r["id"]: r for r in results}
    for tag, ss in batches:
        tot["per_family"][tag] = len(ss)
        for s in ss:
            if nontrivial(s):
                tot["distinct"].add(sched_hash(s))
        if ss and ss[0]["id"] in res_by_id:
            tot["samples"].append({"family": tag, "schedule": ss[0], "result": res_by_id[ss[0]["id"]]})
    return tot


def replay_one(ctx, prop, binary):
    """bin/check CNN --replay file: re-run the recorded schedule and judge it again."""
    with open(ctx.replay_in) as f:
        case = json.load(f)["case"]
    s = case.get("schedule")
    if not s:
        raise lib.Inconclusive("replay file has no schedule")
    s = dict(s)
    s["nopark"] = []
    tot = run_batches(ctx, prop, binary, [("replay", [s])])
    ctx.coverage.update({"traces_validated_against_impl": tot["accepted"], "evaluations": tot["replayed"], "distinct_nontrivial": len(tot["distinct"]),
                         "rule": "replay of one recorded schedule", "samples": tot["samples"], "exhaustive": False})
