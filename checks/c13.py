"""C13 — Subscription triggers are shared, started once, and always cleaned up.

spec/conc/Subscriptions.tla (+ MC_Subs, Gen_Subs, Trace_Subs), harness/cmd/subs, checks/subs_common.py.
Properties judged on every recorded trace: SharedIffSameKey, StartOncePerLivePeriod, NoStaleInit/NoStaleDetach/NoStaleUpdater/NoLateInit
(= NoCrossTalk), Quiescent, CancelledWhenDone; the "end" line of every trace binds VerifRegistrySizes, the Reporter sums and the
Start contexts to the state of the specification.
"""
import random
from concurrent.futures import ThreadPoolExecutor

import lib
import subs_common as sc

PROP = "C13"


def run(ctx):
    sc.load_own_findings(ctx)
    rng = random.Random(ctx.seed)
    binary = ctx.build("subs")
    if ctx.replay_in:
        return sc.replay_one(ctx, PROP, binary)
    quick = ctx.quick()
    # ---- 1. model checking (in the background while behaviours are generated and replayed) -----------------
    if quick:
        mcs = [("MC_Subs_q_start1.cfg", "mc-fixed-startup-races", 900), ("MC_Subs_f_hooks.cfg", "mc-fixed-startup-hooks", 900)]
    else:
        mcs = [("MC_Subs_q_start1.cfg", "mc-fixed-startup-races", 1800), ("MC_Subs_q_start.cfg", "mc-fixed-startup-races-all-start-outcomes", 2400),
               ("MC_Subs_q_diff.cfg", "mc-fixed-two-triggers-one-connection", 2400), ("MC_Subs_t_start2.cfg", "mc-fixed-startup-2-terminators", 3000),
               ("MC_Subs_f_hooks.cfg", "mc-fixed-startup-hooks", 1800), ("MC_Subs_live.cfg", "mc-liveness", 2400)]
    pool = ThreadPoolExecutor(max_workers=1)
    mc_future = pool.submit(sc.model_check, ctx, mcs, [("MC_Subs_asis_d6.cfg", ["NoStaleInit", "NoStaleDetach", "NoStaleUpdater", "NoLateInit"])])
    # ---- 2. generate -------------------------------------------------------------------------------------------
    batches = []
    totals = {}
    jobs = []
    # (a) exhaustive: two subscribers of ONE trigger id, nothing sequential: subscribe / start goroutine / one client-side terminator
    #     (unsubscribe, remove client, shutdown) in every order - includes unsubscribe + re-subscribe with the same id while the
    #     first start goroutine is still on its way; once per scripted Start outcome (ok, fails, returns ctx.Err())
    for tag, modes in (("start-ok", "StartOK"), ("start-ctx", "StartCtx"), ("start-fail", "StartFail")):
        jobs.append((tag, sc.gen_cfg(tag, MaxEvents=0, MaxTerm=1, MaxSrcTerm=0, StartModes=modes, CfgOK="CfgOne", SeqSetup="FALSE"), dict(cap=350 if quick else None, timeout=1200)))
    if not quick:
        # (b) exhaustive: every sharing shape (same id / different ids on one connection) x every combination of Start outcomes
        jobs.append(("start-all", sc.gen_cfg("start-all", MaxEvents=0, MaxTerm=1, MaxSrcTerm=0, StartModes="StartAll", CfgOK="CfgStart", SeqSetup="FALSE"), dict(cap=6000, timeout=3000)))
    # (c) sampled: plus the source finishing (Complete / Error / Done, also from a second goroutine of a stale source), one event, 2 client-side terminators
    jobs.append(("sim", sc.gen_cfg("sim", MaxEvents=1, MaxTerm=2, MaxSrcTerm=1, MaxHB=0, UseD="TRUE", StartModes="StartAll", CfgOK="CfgAll", SeqSetup="FALSE", AllowCloseSub="TRUE", Features="FeatHooks"), dict(simulate=2600 if quick else 8000, depth=400, timeout=2400, cap=1000 if quick else None)))
    # (d) sampled: sequential set-up, then events + heartbeat + terminators (clean-up after ordinary histories)
    jobs.append(("sim-seq", sc.gen_cfg("sim-seq", MaxEvents=2, MaxTerm=2, MaxSrcTerm=1, MaxHB=1, UseD="FALSE", StartModes="StartAll", CfgOK="CfgAll", SeqSetup="TRUE"), dict(simulate=1000 if quick else 4000, depth=400, timeout=2400, cap=400 if quick else None)))
    # (d2) sampled: data source with start-up hooks (blocking hook of the creator before Start, hook goroutine of a joiner), every combination
    #      of failing hooks, racing with one client-side terminator; nothing sequential
    jobs.append(("hooks", sc.gen_cfg("hooks", MaxEvents=0, MaxTerm=1, MaxSrcTerm=0, StartModes="StartOK", CfgOK="CfgHooks", Features="FeatHooks",
                                                SeqSetup="FALSE"), dict(simulate=800 if quick else 4000, depth=400, timeout=2400, cap=350 if quick else None)))
    # (d3) sampled: subscriber 1 through the synchronous ResolveGraphQLSubscription, incl. a request context that is already cancelled when the
    #      call is made (the trigger it creates must still be alive for a joiner), nothing sequential
    jobs.append(("sync", sc.gen_cfg("sync", MaxEvents=1, MaxTerm=2, MaxSrcTerm=1, StartModes="StartOK", CfgOK="CfgSync", Features="FeatSync", SeqSetup="FALSE"),
                 dict(simulate=700 if quick else 4000, depth=400, timeout=2400, cap=250 if quick else None)))
    # (e) sampled: three subscriber slots, nothing sequential (chains of re-subscription with the same id, a joiner arriving while
    #     the trigger is torn down), CloseSubscription from the source
    jobs.append(("sim3", sc.gen_cfg("sim3", NS=3, MaxEvents=1, MaxTerm=2, MaxSrcTerm=1, MaxHB=0, UseD="FALSE", StartModes="StartOkCtx",
                                               CfgOK="CfgThree", SeqSetup="FALSE", AllowCloseSub="TRUE"), dict(simulate=600 if quick else 3000, depth=500, timeout=2400, cap=400 if quick else None)))
    jobs = [(t, c, dict(kw, fks=sc.FKS_SINGLE)) for t, c, kw in jobs]   # how filters are written is C12's subject (and finding)
    gen = sc.generate_all(ctx, jobs)
    for tag, _, _ in jobs:
        s, n = gen[tag]
        batches.append((tag, s))
        totals[tag] = n
    # ---- 3./4. replay + validate -------------------------------------------------------------------------------
    tot = sc.run_batches(ctx, PROP, binary, batches)
    mc_future.result()
    pool.shutdown()
    if tot["unreal"]:
        ctx.notes.append("%d schedules contained a release the real code could not take as scheduled (finished step by step and validated anyway)" % tot["unreal"])
    if tot["free"]:
        ctx.notes.append("%d runs had to be finished with all gates open" % tot["free"])
    ctx.coverage.update({
        "traces_validated_against_impl": tot["accepted"],
        "traces_rejected": tot["rejected"],
        "flaky_rejections": tot["flaky"],   # traces rejected once that were accepted in both re-executions of the same schedule (not counted)
        "evaluations": tot["replayed"],
        "distinct_nontrivial": len(tot["distinct"]),
        "rule": "one case = one TLC-generated schedule (configuration: trigger keys, filters, connections, start outcome; sequence of releases of "
                "parked goroutines with the environment's choices) forced on the real resolver and its recorded event stream validated by TLC; "
                "distinct by (configuration, release sequence); non-trivial = the running goroutine changes at least 3 times",
        "generated_behaviours": totals,
        "replayed_per_family": tot["per_family"],
        "samples": tot["samples"][:3],
        "unrealised_schedules": tot["unreal"],
        "invariants_on_traces": sc.INVS[PROP],
        "exhaustive": False,
        "exhaustive_families": ["start-ok", "start-ctx", "start-fail"] if not quick else [],
        "sampled": "start-all capped, sim/sim-seq/hooks/sim3 are -simulate samples (seeded); thorough is a sample too, sized to stay under 30 min",
    })
    ctx.assumptions += [
        "schedules are forced at the verif hook points outside the locks and at the harness gates (Flush); code between two events of one goroutine is atomic with respect to the state it touches (hooks sit inside the protecting lock)",
        "quiescence = every goroutine returned after the resolver context was cancelled (no sleeps); registry sizes through the verif accessor VerifRegistrySizes",
        "2 subscriber slots, <= 2 events, <= 2 client-side and 1 source-side terminators per history; heartbeat driven through updater.Heartbeat (interval 24h)",
        "startup hooks (HookableSubscriptionDataSource), UpdateSubscription/CloseSubscription and the synchronous ResolveGraphQLSubscription wrapper are not driven",
    ]
