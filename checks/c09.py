"""C09 — Planning is deterministic; caching and plan optimizations are transparent.

Pipeline (design.d/C09.md):
  1. TLC model-checks spec/resolve/PlanCache.tla: the engine model (normalize -> key -> LRU-as-set with
     nondeterministic eviction -> Hit | Miss(plan) -> resolve with the per-request context) refines the one-state
     abstraction "response = Fresh(request)" for every history <= MaxLen, every option set; two negative controls
     (per-request state baked into the cached plan; cache key ignoring the skip/include decision) must be REJECTED.
  2. TLC generates request histories (Gen_PlanCache: every request is one rewrite step away from an earlier one:
     renamed variables, literal/variable/default, other value, other skip/include truth value, other operation
     name, fragments vs inline, extra operation, repeat, unrelated operation).  MENU below makes them concrete
     operations over the federationtesting supergraph.
  3. harness/cmd/planx runs every history against one REAL engine per option set O (16 subsets of {dedup off,
     multi-fetch, DAG scheduling, minify}), sequentially and from two goroutines; a fresh default engine gives the
     reference response, a fresh engine(O) the reference plan / subgraph requests.  Determinism: every distinct
     request x O is planned N times in fresh engines in 3 separate processes.
  4. TLC validates the recorded observations: Trace_PlanCache (T_Transparent, T_FreshFunctional,
     T_PlanIndependent + the model in lock-step), Trace_PlanDet (PlanDeterministic, RequestsDeterministic,
     ResponseIndependentOfOptions).
"""
import collections
import json
import os
import random
import shutil

import lib

# ------------------------------------------------------------------------------------------ the menu
# Concrete operations for the catalog of spec/resolve/PlanCache.tla (shape numbers must agree).
# A shape is a list of root-field parts (head, type condition, inner selection); ARG / SKIP / INCL are slots.
_SI1 = "someObject { a b c } ... on SomeType1 { name age names }"
_SI2 = "someObject { a b } ... on SomeType2 { name height names }"
SHAPES = {
    1: {"name": "tp", "arg": "int", "parts": [
        ("topProducts(first: ARG)", "Product", "upc name SKIP price reviews INCL { body author { username } }")]},
    2: {"name": "me", "arg": None, "parts": [
        ("me", "User", "id username SKIP reviews INCL { body product { upc name price } }")]},
    3: {"name": "iu", "arg": "enum", "parts": [
        ("interfaceUnion(which: ARG)", "AB", "__typename ... on A { name } ... on B { name }")]},
    4: {"name": "hist", "arg": None, "parts": [
        ("histories", "History", "... on Purchase { product { upc name } quantity } "
                                 "... on Sale { product { upc price SKIP name } rating INCL }")]},
    5: {"name": "mix", "arg": "int", "parts": [
        ("me", "User", "username reviews INCL { body product { name price } }"),
        ("topProducts(first: ARG)", "Product", "name reviews { body author { username realName SKIP } product { inStock } }"),
        ("cat", "Cat", "name")]},
    6: {"name": "min1", "arg": None, "parts": [("o%d: otherInterfaces" % i, "SomeInterface", _SI1) for i in range(1, 5)]},
    7: {"name": "min2", "arg": None, "parts": [("o%d: otherInterfaces" % i, "SomeInterface", _SI1) for i in range(1, 4)] +
                                              [("p%d: otherInterfaces" % i, "SomeInterface", _SI2) for i in range(1, 4)]},
    8: {"name": "rv", "arg": None, "parts": [
        ("me", "User", "reviews { body author { id username } product { upc reviews { body author { id username } } } }"),
        ("topProducts", "Product", "upc reviews { body author { id username } }")]},
    9: {"name": "cat", "arg": None, "parts": [("cat", "Cat", "name")]},
    # ---- second configuration (harness/internal/planfed): equally short alternative key chains, an abstract list with an
    # entity selected unscoped and inside a type fragment, two @requires dependencies from different subgraphs
    10: {"name": "ptitle", "arg": None, "env": "plan", "parts": [("me", "User", "id name title uuid")]},
    11: {"name": "pitems", "arg": None, "env": "plan", "parts": [
        ("items", "Item", "owner { name } ... on Book { owner { name } }")]},
    12: {"name": "pitems2", "arg": None, "env": "plan", "parts": [
        ("items", "Item", "id ... on Film { minutes owner { name title } } owner { name title }")]},
    13: {"name": "preq", "arg": None, "env": "plan", "parts": [("a", "A", "x"), ("b", "B", "y")]},
    # ---- a mutation (state of the reviews subgraph of the Env), an @defer operation, an input-object argument
    14: {"name": "madd", "arg": "str", "kind": "mutation", "mut": True, "parts": [
        ('addReview(authorID: "1234", upc: "top-1", review: ARG)', "Review", "body author { id username } product { upc name }")]},
    15: {"name": "tpdefer", "arg": "int", "defer": True, "parts": [
        ("topProducts(first: ARG)", "Product", "upc name ... @defer { reviews { body author { username } } }")]},
    16: {"name": "pecho", "arg": "nested", "env": "plan", "parts": []},
    17: {"name": "pmeta", "arg": "nested", "env": "plan", "parts": []},
}
FAULTS_QUICK = ["502html", "transport", "200text", "503errors"]
FAULTS_ALL = ["502html", "503errors", "200text", "200empty", "transport", "datanull"]
NO_PAIRS = {14, 15}  # not used for the gated / traced pairs (a mutation pair has no fixed reference; traced runs use Execute)
SUBGRAPHS = {"": ["accounts", "products", "reviews"],
             "plan": ["catalog", "users", "bridge-one", "bridge-two", "titles", "wsvc", "zsvc", "target"]}
HAS_DIR = {1, 2, 4, 5}
NAMES = {0: ("n", "s", "i"), 1: ("first", "hide", "show"), 2: ("b", "c", "a")}  # (argument, skip, include); 2 permutes the canonical names
INVALID = 9
OPT_BITS = {1: "dedup-off", 2: "multi-fetch", 4: "schedule", 8: "minify"}


def oname(o):
    return "+".join(n for b, n in OPT_BITS.items() if o & b) or "default"


def concrete(a):
    """abstract request (spec record) -> {"q": text, "v": variables JSON or "", "op": operationName, "a": a}"""
    sh = SHAPES[a["s"]]
    narg, nskip, nincl = NAMES[a["nm"]]
    defs = {}  # variable name -> definition text
    variables = collections.OrderedDict()
    arg_txt = ""
    if sh["arg"] == "nested":
        # the NESTED variable takes the third name of the scheme (scheme 2: "a", the first canonical name), the direct one the first
        narg, nincl = nincl, narg
    if sh["arg"]:
        typ = {"int": "Int", "enum": "Which!", "str": "String!", "nested": "String"}[sh["arg"]]
        if a["val"] == INVALID:
            lit, jval = None, {"int": "x", "enum": "C", "str": 5, "nested": 5}[sh["arg"]]
        elif sh["arg"] == "int":
            lit, jval = str(a["val"]), a["val"]
        elif sh["arg"] == "enum":
            lit, jval = "AB"[a["val"]], "AB"[a["val"]]
        else:
            jval = ("r%d" if sh["arg"] == "str" else "k%d") % a["val"]
            lit = json.dumps(jval)
        if a["src"] == "lit":
            arg_txt = lit
        elif a["src"] == "dflt":
            arg_txt = "$" + narg
            defs[narg] = "$%s: %s = %s" % (narg, typ, lit)
        else:
            arg_txt = "$" + narg
            defs[narg] = "$%s: %s" % (narg, typ)
            variables[narg] = jval
    skip_txt = incl_txt = ""
    if a["s"] in HAS_DIR:
        skipped = bool(a["dir"] & 1)
        included = not (a["dir"] & 2)
        if a["ds"] == "lit":
            skip_txt = "@skip(if: %s)" % ("true" if skipped else "false")
            incl_txt = "@include(if: %s)" % ("true" if included else "false")
        else:
            skip_txt, incl_txt = "@skip(if: $%s)" % nskip, "@include(if: $%s)" % nincl
            defs[nskip] = "$%s: Boolean!" % nskip
            defs[nincl] = "$%s: Boolean!" % nincl
            variables[nskip] = skipped
            variables[nincl] = included
    if sh["arg"] == "nested":
        defs[nincl] = "$%s: Int" % nincl
        variables[nincl] = 7
    order = {0: [narg, nskip, nincl], 1: [nincl, nskip, narg], 2: sorted([narg, nskip, nincl])}[a["nm"]]
    vdefs = ", ".join(defs[x] for x in order if x in defs)
    frags, roots, fnames = [], [], {}
    if sh["arg"] == "nested":
        if sh["name"] == "pmeta":
            call = 'echo(filter: {kind: "k"}, n: $%s) me @meta(in: {tags: ["t", %s], nested: {value: %s}}) { id name }' % (nincl, arg_txt, arg_txt)
        else:
            call = 'echo(filter: {kind: %s, min: 1, owner: {id: "7"}, tags: ["x", %s]}, n: $%s)' % (arg_txt, arg_txt, nincl)
        if a["fr"] == 0:
            roots.append(call)
        elif a["fr"] == 1:
            frags.append("fragment F1 on Query { %s }" % call)
            roots.append("...F1")
        else:
            roots.append("... on Query { %s }" % call)
    for head, typ, inner in sh["parts"]:
        head = head.replace("ARG", arg_txt)
        inner = inner.replace("SKIP", skip_txt).replace("INCL", incl_txt).replace("  ", " ")
        if a["fr"] == 0:
            roots.append("%s { %s }" % (head, inner))
        elif a["fr"] == 1:
            k = (typ, inner)
            if k not in fnames:
                fnames[k] = "F%d" % (len(fnames) + 1)
                frags.append("fragment %s on %s { %s }" % (fnames[k], typ, inner))
            roots.append("%s { ...%s }" % (head, fnames[k]))
        else:
            roots.append("%s { ... on %s { %s } }" % (head, typ, inner))
    opname = {0: "", 1: "Q", 2: "Other"}[a["op"]]
    kw = sh.get("kind", "query")
    if opname:
        main = "%s %s%s { %s }" % (kw, opname, "(%s)" % vdefs if vdefs else "", " ".join(roots))
    elif vdefs:
        main = "%s (%s) { %s }" % (kw, vdefs, " ".join(roots))
    elif kw != "query":
        main = "%s { %s }" % (kw, " ".join(roots))
    else:
        main = "{ %s }" % " ".join(roots)
    docs = [main] + frags
    if a["mo"] == 1:
        extra = "query Zed { cat { name } }"
        docs = [extra] + docs if a["op"] == 2 else docs + [extra]
    if a["nm"] == 1:
        v = json.dumps(collections.OrderedDict(reversed(list(variables.items())))) if variables else ""
    else:
        v = json.dumps(variables) if variables else ""
    out = {"q": " ".join(docs), "v": v, "op": opname, "a": a}
    for k in ("env", "mut", "defer"):
        if sh.get(k):
            out[k] = sh[k]
    return out


def akey(a):
    return "s%d.nm%d.%s.v%d.d%d.%s.op%d.fr%d.mo%d" % (a["s"], a["nm"], a["src"], a["val"], a["dir"], a["ds"], a["op"], a["fr"], a["mo"])


def fresh_class(a):
    return (a["s"], a["val"], a["dir"], a["nm"] + 1 if a["val"] == INVALID else 0)


def load_findings(ctx):
    """findings.d/C09.json is this check's fragment of known-findings.json (merged by the coordinator); read it
    directly as well so that the check is self-contained before the merge."""
    known = list(ctx.known())
    path = os.path.join(lib.VERIF, "findings.d", "C09.json")
    if os.environ.get("C09_FINDINGS_FILE"):
        # verification of prepared fixes: take this property's entries ONLY from the given fragment (e.g. C09.json.after-fix)
        path = os.environ["C09_FINDINGS_FILE"]
        known = [k for k in known if k.get("property") != ctx.prop]
    if os.path.exists(path):
        with open(path) as f:
            for e in json.load(f):
                if not any(k.get("property") == e.get("property") and k.get("key") == e.get("key") for k in known):
                    known.append(e)
    ctx._known = known


# ------------------------------------------------------------------------------------------ trace validation helpers
def known_pattern(ctx, key):
    """the open known-finding pattern that covers key, or None"""
    for k in ctx.known():
        if k.get("property") == ctx.prop and k.get("status") == "open" and lib._key_match(k.get("key"), key):
            return k["key"]
    return None


CONFIRMED = set()  # known-finding patterns that TLC has already confirmed on a recorded trace in this run


HIST_FIELDS = ("ev", "g", "pos", "a", "hit", "pid", "len", "resp", "ref", "raweq", "plan", "fplan", "bod", "fbod", "nx", "h", "o", "mode")


def split_traces(rows):
    traces, cur = [], None
    for r in rows:
        if r["ev"] == "reset":
            cur = [r]
            traces.append(cur)
        elif cur is not None:
            cur.append(r)
    return traces


def class_keys(trace):
    """per request of a trace: (Fresh class, mutations executed before it) - mirrors FreshIn / DbAfter of the spec"""
    db, out = [], []
    for e in trace[1:]:
        out.append((fresh_class(e["a"]), tuple(db)))
        if e["a"]["s"] == 14 and e["a"]["val"] != INVALID and e["g"] == 0:
            db.append(e["a"]["val"])
    return out


def hist_suspect(trace, ref_first):
    """python-side triage only (the verdict is TLC's): which invariant would this trace break?"""
    out = []
    cks = class_keys(trace)
    if trace[0].get("cap", 1024) < 1024 and any(e["len"] > trace[0]["cap"] for e in trace[1:]):
        out.append(("T_Capacity", trace[1]))
    for e, fc in zip(trace[1:], cks):
        if e["resp"] != e["ref"]:
            out.append(("T_Transparent", e))
        elif e["g"] == 0 and e["hit"] != 2 and (e["plan"] != e["fplan"] or e["bod"] != e["fbod"]):
            out.append(("T_PlanIndependent", e))
        if ref_first is not None and fc in ref_first and ref_first[fc][0] != e["ref"]:
            out.append(("T_FreshFunctional", e))
    return out


def tlc_failing_line(r):
    if r.violated:
        ls = [int(x.split("=")[1]) for x in r.out.splitlines() if x.strip().startswith("/\\ l = ")]
        return (ls[-1] - 1) if ls else None, r.violated
    for x in r.out.splitlines():
        if "TRACE_STUCK_AT_LINE" in x:
            return int(x.replace(">>", "").split(",")[-1].strip()), "nonconformance"
    return None, None


def hit_mismatches(r):
    for x in r.out.splitlines():
        if "MODEL_HIT_MISMATCH" in x:
            try:
                return int(x.replace(">>", "").split(",")[-1].strip())
            except ValueError:
                return None
    return None


def validate_hist(ctx, rows, details, tag, cfg="Trace_PlanCache.cfg"):
    """Returns (#traces accepted by TLC, model hit/miss mismatches)."""
    traces = split_traces(rows)
    ref_first = None
    if cfg == "Trace_PlanCache.cfg":
        # (the gated / traced batches take their references from engines with the same option set and a traced response
        # embeds the subgraph requests, so T_FreshFunctional is not part of their configuration)
        ref_first = {}
        for t in traces:
            for e, fc in zip(t[1:], class_keys(t)):
                ref_first.setdefault(fc, (e["ref"], t))
    clean, suspects = [], []
    for t in traces:
        s = hist_suspect(t, ref_first)
        (suspects if s else clean).append((t, s))
    dkey = {}
    for d in details:
        dkey[(d["h"], d["o"], d["mode"], d["g"], d["pos"])] = d
    accepted = 0
    mism = 0
    # ---- the bulk: TLC must accept all of it
    for attempt in range(4):
        if not clean:
            break
        path = ctx.path("events-%s-clean.ndjson" % tag)
        flat = [e for t, _ in clean for e in t] + [{"ev": "end"}]
        lib.write_ndjson(path, flat)
        r = ctx.tlc("resolve", "Trace_PlanCache", cfg, workers=1, env={"TRACE": path}, timeout=3000,
                    deadlock=False, count=False, tag="trace-validation-hist-" + tag, heap="12g")
        if r.ok:
            accepted += len(clean)
            mism += hit_mismatches(r) or 0
            break
        line, what = tlc_failing_line(r)
        if line is None:
            print(r.out[-3000:])
            raise lib.Inconclusive("trace validation failed in an unexpected way: %s" % r.error)
        # unexpected by the triage: move the offending trace to the suspects and retry
        idx, seen = 0, 0
        for i, (t, _) in enumerate(clean):
            if seen + len(t) >= line:
                idx = i
                break
            seen += len(t)
        t, _ = clean.pop(idx)
        suspects.append((t, [(what, t[min(max(line - seen - 1, 1), len(t) - 1)])]))
    # ---- suspects: one small TLC run per trace, at most 3 per (invariant, shape, minify) group
    def extra(t, e):
        """fault runs: (fault kind, what differs: data | errors, subgraph, scope) from the driver's detail record"""
        if t[0]["mode"] != "fault":
            return ()
        d = dkey.get((t[0]["h"], t[0]["o"], "fault", e.get("g"), e.get("pos")), {})
        return (d.get("fault", "?"), d.get("cls", "?"), d.get("sub", "?"), d.get("scope", "?"))

    def mkkey(what, t, e):
        o = t[0]["o"]
        shape = SHAPES[e["a"]["s"]]["name"] if e.get("a") else "?"
        if t[0]["mode"] == "fault":
            f, cls, sub, scope = extra(t, e)
            return "%s:fault:%s:%s:%s:%s:%s:O=%d" % (what, f, cls, shape, sub, scope, o)
        return "%s:%s:%s:%s:O=%d" % (what, t[0]["mode"], shape, "minify" if o & 8 else "nominify", o)

    groups = collections.OrderedDict()
    for t, s in suspects:
        inv, e = s[0]
        g = (inv, e["a"]["s"], bool(t[0]["o"] & 8), t[0]["mode"]) + extra(t, e)[:2]
        groups.setdefault(g, []).append((t, s))
    nrun = 0
    skipped_known = {}
    for g, items in groups.items():
        if nrun >= 24:
            ctx.notes.append("more than 24 distinct violation signatures; the remaining ones were not validated")
            break
        # a signature whose predicted key falls under a known finding that TLC already confirmed in this run is not
        # validated again (it could only print the same KNOWN-FINDING line)
        inv0, e0 = items[0][1][0]
        t0 = items[0][0]
        pred = mkkey(inv0, t0, e0)
        kp = known_pattern(ctx, pred)
        if kp is not None and kp in CONFIRMED:
            skipped_known[kp] = skipped_known.get(kp, 0) + len(items)
            continue
        nrun += 1
        # one TLC run per signature: up to 3 recorded traces with that signature, TLC stops at the first it rejects
        batch, owner = [], []
        for t, s in items[:3]:
            inv, e = s[0]
            if inv == "T_FreshFunctional":
                first = ref_first[class_keys(t)[t.index(e) - 1]][1]
                if first is not t:
                    batch += list(first)
                    owner += [first] * len(first)
            batch += list(t)
            owner += [t] * len(t)
        path = ctx.path("events-%s-suspect-%d.ndjson" % (tag, nrun))
        lib.write_ndjson(path, batch + [{"ev": "end"}])
        r = ctx.tlc("resolve", "Trace_PlanCache", cfg, workers=1, env={"TRACE": path}, timeout=600,
                    deadlock=False, count=False, tag="trace-validation-hist-suspect")
        if r.ok:
            accepted += len(items[:3])
            continue
        line, what = tlc_failing_line(r)
        if line is None or not (0 < line <= len(batch)):
            print(r.out[-3000:])
            raise lib.Inconclusive("trace validation failed in an unexpected way: %s" % r.error)
        ev, t = batch[line - 1], owner[line - 1]
        o = t[0]["o"]
        key = mkkey(what, t, ev)
        d = dkey.get((t[0]["h"], o, t[0]["mode"], ev.get("g"), ev.get("pos")), {})
        msg = {
            "T_Transparent": "the response of an engine serving a history differs from the response of a fresh engine" + (
                " (request tracing on: the trace in the response extensions belongs to ANOTHER request that used the same cached plan)"
                if t[0]["mode"] == "traced" else "") + (
                " under the same subgraph fault (%s of %s answered with %s: the %s differ from the default-option engine's)" % (
                    {"entities": "the _entities requests", "all": "all requests"}.get(extra(t, ev)[3], "requests"), extra(t, ev)[2], extra(t, ev)[0], extra(t, ev)[1])
                if t[0]["mode"] == "fault" else ""),
            "T_PlanIndependent": "the plan / subgraph requests that served the request differ from those of a fresh engine with the same options",
            "T_FreshFunctional": "two requests that are the same operation up to variable names / literals / operation name / fragments got different responses",
            "T_Model": "the engine model rejects the recorded history",
            "nonconformance": "the recorded history is not a behaviour of the specification",
        }.get(what, what)
        if known_pattern(ctx, key):
            CONFIRMED.add(known_pattern(ctx, key))
        ctx.violation(key, "%s; history %s, options %s (%s run), position %s, request %s" % (
            msg, t[0]["h"], oname(o), t[0]["mode"], ev.get("pos"), json.dumps(concrete(ev["a"])["q"]) if ev.get("a") else "?"),
            {"history": [concrete(x["a"]) for x in t[1:] if x["g"] in (0, 1) or t[0]["mode"] in ("gated", "traced")], "oset": o, "mode": t[0]["mode"],
             "slow": d.get("slow"), "fault": {k: d.get(k) for k in ("sub", "fault", "scope", "cls")} if t[0]["mode"] == "fault" else None, "failing_position": ev.get("pos"), "event": ev, "detail": d, "invariant": what})
        rest = len(items) - 1
        if rest > 0:
            ctx.notes.append("%d more recorded traces with the signature %s (same invariant, shape, minify on/off, mode)" % (rest, list(g)))
    for kp, cnt in skipped_known.items():
        ctx.notes.append("%d more recorded traces fall under the known finding %s (confirmed by TLC on another trace of this run)" % (cnt, kp))
    return accepted, mism


DET_FIELDS = ("ev", "rid", "o", "proc", "run", "nk", "vk", "plan", "shape", "qp", "bod", "resp", "nx")


def validate_det(ctx, rows, by_rid):
    slim = [{k: r[k] for k in DET_FIELDS} for r in rows]
    full = {(r["rid"], r["o"], r["proc"], r["run"]): r for r in rows}
    # triage: groups whose members disagree
    gp, gb, gr = collections.defaultdict(list), collections.defaultdict(list), collections.defaultdict(list)
    for r in slim:
        gp[(r["o"], r["nk"])].append(r)
        gb[(r["o"], r["nk"], r["vk"])].append(r)
        gr[(r["nk"], r["vk"])].append(r)
    bad_ids = set()
    suspects = []
    for name, groups, val in (("PlanDeterministic", gp, lambda r: (r["plan"], r["shape"], r["qp"])),
                              ("RequestsDeterministic", gb, lambda r: r["bod"]),
                              ("ResponseIndependentOfOptions", gr, lambda r: r["resp"])):
        for k, rs in groups.items():
            if len({val(r) for r in rs}) > 1:
                suspects.append((name, k, rs))
                for r in rs:
                    bad_ids.add(id(r))
    clean = [r for r in slim if id(r) not in bad_ids]
    accepted = 0
    if clean:
        path = ctx.path("plans-clean.ndjson")
        lib.write_ndjson(path, clean + [{"ev": "end"}])
        r = ctx.tlc("resolve", "Trace_PlanDet", "Trace_PlanDet.cfg", workers=1, env={"TRACE": path}, timeout=3000,
                    deadlock=False, count=False, tag="trace-validation-det", heap="12g")
        if not r.ok:
            line, what = tlc_failing_line(r)
            print(r.out[-3000:])
            raise lib.Inconclusive("determinism validation: TLC rejected line %s (%s) that the triage considered consistent" % (line, what))
        accepted += len(clean)
    seen_sig = collections.Counter()
    nrun = 0
    for name, k, rs in suspects:
        rid = rs[0]["rid"]
        a = by_rid[rid]["a"]
        o = rs[0]["o"]
        sig = (name, a["s"], bool(o & 8)) if name != "ResponseIndependentOfOptions" else (name, a["s"], False)
        seen_sig[sig] += 1
        if seen_sig[sig] > 1 or nrun >= 24:
            continue
        pred = "%s:%s:%s:O=%d" % (name, SHAPES[a["s"]]["name"], "minify" if o & 8 else "nominify", o)
        kp = known_pattern(ctx, pred) if name != "ResponseIndependentOfOptions" else None
        if kp is not None and kp in CONFIRMED:
            continue
        nrun += 1
        path = ctx.path("plans-suspect-%d.ndjson" % nrun)
        lib.write_ndjson(path, rs + [{"ev": "end"}])
        r = ctx.tlc("resolve", "Trace_PlanDet", "Trace_PlanDet.cfg", workers=1, env={"TRACE": path}, timeout=600,
                    deadlock=False, count=False, tag="trace-validation-det-suspect")
        if r.ok:
            accepted += len(rs)
            continue
        line, what = tlc_failing_line(r)
        if line is None:
            print(r.out[-3000:])
            raise lib.Inconclusive("determinism validation failed in an unexpected way: %s" % r.error)
        ev = rs[line - 1]
        first = rs[0]
        shape = SHAPES[a["s"]]["name"]
        if what == "ResponseIndependentOfOptions":
            key = "%s:%s:O=%d/%d" % (what, shape, first["o"], ev["o"])
        else:
            key = "%s:%s:%s:O=%d" % (what, shape, "minify" if o & 8 else "nominify", o)
        if known_pattern(ctx, key):
            CONFIRMED.add(known_pattern(ctx, key))
        f1, f2 = full[(first["rid"], first["o"], first["proc"], first["run"])], full[(ev["rid"], ev["o"], ev["proc"], ev["run"])]
        diff = ""
        if f1["plan_text"] != f2["plan_text"]:
            i = next((i for i, (x, y) in enumerate(zip(f1["plan_text"], f2["plan_text"])) if x != y), 0)
            diff = "plan dump differs at %d: ...%s <<>> ...%s" % (i, f1["plan_text"][max(0, i - 100):i + 160], f2["plan_text"][max(0, i - 100):i + 160])
        msg = {"PlanDeterministic": "two plannings of the same normalized operation with the same options gave different plans",
               "RequestsDeterministic": "two executions of the same normalized operation with the same variables and options sent different subgraph requests",
               "ResponseIndependentOfOptions": "the same request got different responses under different option sets / runs"}[what]
        ctx.violation(key, "%s; options %s, request %s (process %d run %d vs process %d run %d)" % (
            msg, oname(ev["o"]), json.dumps(by_rid[rid]["q"]), first["proc"], first["run"], ev["proc"], ev["run"]),
            {"request": by_rid[rid], "oset": ev["o"], "osets": sorted({first["o"], ev["o"]}), "invariant": what, "first": {k2: f1[k2] for k2 in ("proc", "run", "o", "bodies", "resp")},
             "other": {k2: f2[k2] for k2 in ("proc", "run", "o", "bodies", "resp")}, "diff": diff, "norm": f1.get("norm")})
    return accepted, len(suspects)


def run_stage(ctx, binary, args, timeout=3000):
    """run one driver stage; a request that does not finish (overloaded box / rare wedge: the driver cannot tell) is
    retried once - the goroutine stacks of the first attempt are kept as replay/C09-timeout-stacks.txt"""
    for attempt in (1, 2):
        p = ctx.run_bin(binary, args, timeout=timeout, check=False)
        if p.returncode == 0:
            return p
        if "did not finish within" in p.stderr and attempt == 1:
            src = ctx.path("planx-timeout-stacks.txt")
            if os.path.exists(src):
                os.makedirs(lib.REPLAY, exist_ok=True)
                shutil.copy(src, os.path.join(lib.REPLAY, "C09-timeout-stacks.txt"))
            ctx.notes.append("driver stage %s: %s -- retried once" % (args[1], p.stderr.strip().splitlines()[-1][:300]))
            ctx.log("a request did not finish; retrying the stage once")
            continue
        print(p.stdout[-2000:])
        print(p.stderr[-4000:])
        raise lib.Inconclusive("harness planx exited %d" % p.returncode)


# ------------------------------------------------------------------------------------------ main
def model_check(ctx, quick):
    ctx.tlc_must_pass("resolve", "MC_PlanCache", "MC_PlanCache_3.cfg" if quick else "MC_PlanCache_4.cfg", timeout=1500,
                      workers=8, tag="mc-plancache")
    for cfg, what in (("MC_PlanCache_bake.cfg", "per-request state baked into the cached plan"),
                      ("MC_PlanCache_keydirs.cfg", "cache key ignoring the skip/include decision")):
        r = ctx.tlc("resolve", "MC_PlanCache", cfg, timeout=600, workers=4, count=False, tag="mc-negative-control")
        if r.violated != "Transparent":
            raise lib.Inconclusive("sanity: the model with %s must violate Transparent, got %r" % (what, r.error))


def generate_pairs(ctx):
    """length-2 histories (exhaustive) whose second request is served by the plan of the first according to the engine model:
    the pairs for the forced interleaving A parked / B runs / A resumes"""
    g2 = ctx.tlc_must_pass("resolve", "Gen_PlanCache", "Gen_PlanCache_2.cfg", timeout=600, deadlock=False, workers=2, tag="gen-hist-2")
    pairs = {}
    for b in g2.printed:
        if b["hit"][1] == 1 and b["h"][0]["s"] not in NO_PAIRS:
            pairs[lib.sha(b["h"])] = b["h"]
    return [pairs[k] for k in sorted(pairs)]


def generate(ctx, quick, rng):
    hs = {}
    g3 = ctx.tlc_must_pass("resolve", "Gen_PlanCache", "Gen_PlanCache_3.cfg", timeout=900, deadlock=False, workers=4, tag="gen-hist-3")
    for b in g3.printed:
        hs[lib.sha(b["h"])] = b
    n3 = len(hs)
    num = 600 if quick else 3000
    g4 = ctx.tlc_must_pass("resolve", "Gen_PlanCache", "Gen_PlanCache_4.cfg", timeout=1800, deadlock=False, workers=1, simulate=num,
                           depth=4, seed=ctx.seed, tag="gen-hist-4-simulate")
    for b in g4.printed:
        hs[lib.sha(b["h"])] = b
    n4 = len(hs) - n3
    n5 = 0
    if not quick:
        g5 = ctx.tlc_must_pass("resolve", "Gen_PlanCache", "Gen_PlanCache_5.cfg", timeout=1800, deadlock=False, workers=1, simulate=1500,
                               depth=5, seed=ctx.seed + 1, tag="gen-hist-5-simulate")
        for b in g5.printed:
            hs[lib.sha(b["h"])] = b
        n5 = len(hs) - n3 - n4
    ctx.log("histories: %d of length 3 (exhaustive), %d of length 4, %d of length 5 (sampled)" % (n3, n4, n5))
    return hs, (n3, n4, n5)


def nontrivial(b):
    """at least one position is predicted to be served from the cache by a DIFFERENT request text, or two positions
    differ only in per-request state (value / skip-include / names)"""
    h = b["h"]
    for i in range(len(h)):
        for j in range(i):
            if h[i]["s"] == h[j]["s"] and h[i] != h[j]:
                return True
    return False


def run_replay(ctx, binary):
    with open(ctx.replay_in) as f:
        case = json.load(f)["case"]
    if case.get("mode") == "fault":
        ip, ep, rp = ctx.path("replay.ndjson"), ctx.path("replay-events.ndjson"), ctx.path("replay-res.ndjson")
        f = case["fault"]
        lib.write_ndjson(ip, [{"id": "replay", "o": case["oset"], "sub": f["sub"], "fault": f["fault"], "scope": f["scope"], "r": case["history"][0]}])
        ctx.run_bin(binary, ["-mode", "fault", "-in", ip, "-out", ep, "-res", rp], timeout=600)
        rows = lib.read_ndjson(ep)
        acc, _ = validate_hist(ctx, rows, lib.read_ndjson(rp), "replay", cfg="Trace_PlanCache_gated.cfg")
        ctx.coverage.update({"traces_validated_against_impl": acc, "evaluations": len(rows), "distinct_nontrivial": 1,
                             "rule": "replay of one subgraph-fault run", "exhaustive": False})
    elif case.get("mode") == "slow":
        ip, ep, rp = ctx.path("replay.ndjson"), ctx.path("replay-events.ndjson"), ctx.path("replay-res.ndjson")
        lib.write_ndjson(ip, [{"id": "replay", "o": case["oset"], "slow": case["slow"], "r": case["history"][0]}])
        run_stage(ctx, binary, ["-mode", "slow", "-in", ip, "-out", ep, "-res", rp], timeout=600)
        rows = lib.read_ndjson(ep)
        acc, _ = validate_hist(ctx, rows, lib.read_ndjson(rp), "replay", cfg="Trace_PlanCache_gated.cfg")
        ctx.coverage.update({"traces_validated_against_impl": acc, "evaluations": len(rows), "distinct_nontrivial": 1,
                             "rule": "replay of one slow-subgraph run", "exhaustive": False})
    elif case.get("mode") in ("gated", "traced"):
        pair = {"id": "replay", "o": case["oset"], "traced": case["mode"] == "traced", "a": case["history"][0], "b": case["history"][1]}
        ip, ep, rp = ctx.path("replay.ndjson"), ctx.path("replay-events.ndjson"), ctx.path("replay-res.ndjson")
        lib.write_ndjson(ip, [pair])
        run_stage(ctx, binary, ["-mode", "gated", "-in", ip, "-out", ep, "-res", rp], timeout=600)
        rows = lib.read_ndjson(ep)
        acc, _ = validate_hist(ctx, rows, lib.read_ndjson(rp), "replay", cfg="Trace_PlanCache_gated.cfg")
        ctx.coverage.update({"traces_validated_against_impl": acc, "evaluations": len(rows), "distinct_nontrivial": 1,
                             "rule": "replay of one forced interleaving (A parked, B runs, A resumes)", "exhaustive": False})
    elif "history" in case:
        hist = {"id": "replay", "osets": [case["oset"]], "reqs": case["history"]}
        ip, ep, rp = ctx.path("replay.ndjson"), ctx.path("replay-events.ndjson"), ctx.path("replay-res.ndjson")
        lib.write_ndjson(ip, [hist])
        run_stage(ctx, binary, ["-mode", "hist", "-in", ip, "-out", ep, "-res", rp], timeout=600)
        rows = lib.read_ndjson(ep)
        acc, _ = validate_hist(ctx, rows, lib.read_ndjson(rp), "replay")
        ctx.coverage.update({"traces_validated_against_impl": acc, "evaluations": len(rows), "distinct_nontrivial": 1,
                             "rule": "replay of one recorded history", "exhaustive": False})
    else:
        req = dict(case["request"])
        req.update({"rid": "replay", "osets": case.get("osets", [case["oset"]])})
        ip = ctx.path("replay.ndjson")
        lib.write_ndjson(ip, [req])
        rows = []
        for proc in (1, 2, 3):
            op = ctx.path("replay-plans-%d.ndjson" % proc)
            run_stage(ctx, binary, ["-mode", "det", "-in", ip, "-out", op, "-n", "8", "-proc", str(proc)], timeout=600)
            rows += lib.read_ndjson(op)
        acc, _ = validate_det(ctx, rows, {"replay": req})
        ctx.coverage.update({"traces_validated_against_impl": acc, "evaluations": len(rows), "distinct_nontrivial": 1,
                             "rule": "replay of one request: 3 processes x 8 fresh plannings", "exhaustive": False})


def run(ctx):
    load_findings(ctx)
    rng = random.Random(ctx.seed)
    quick = ctx.quick()
    binary = ctx.build("planx")
    # other agents clean /verif/.build-* while testing their mutants: run from a private copy
    private = ctx.path("planx-bin")
    shutil.copy(binary, private)
    binary = private
    if ctx.replay_in:
        run_replay(ctx, binary)
        return
    # ---- 1. model checking
    model_check(ctx, quick)
    # ---- 2. generate histories
    hs, (n3, n4, n5) = generate(ctx, quick, rng)
    keys = sorted(hs)
    rng.shuffle(keys)
    nt = [k for k in keys if nontrivial(hs[k])]
    tr = [k for k in keys if not nontrivial(hs[k])]
    if quick:
        chosen = nt[:150] + tr[:10]
    else:
        chosen = nt[:1150] + tr[:50]
    # always replayed: the naming sweep of every shape that has variables (the same request under the three variable naming
    # schemes, scheme 2 = names that collide with the canonical ones) - T_FreshFunctional across naming variants
    def naming_sweep(b):
        h = b["h"]
        return (len(h) == 3 and sorted(x["nm"] for x in h) == [0, 1, 2]
                and all({k: v for k, v in x.items() if k != "nm"} == {k: v for k, v in h[0].items() if k != "nm"} for x in h)
                and h[0]["src"] == "var" and h[0]["val"] == 0 and h[0]["dir"] == 0 and h[0]["fr"] == 0 and h[0]["mo"] == 0)
    sweeps = {}
    for k in sorted(hs):
        if naming_sweep(hs[k]):
            sweeps.setdefault(hs[k]["h"][0]["s"], k)
    chosen = list(dict.fromkeys(list(sweeps.values()) + chosen))
    all_o = list(range(16))
    hist_in = []
    for i, k in enumerate(chosen):
        b = hs[k]
        # a seeded subset of the 16 option sets per history, always with the defaults and with everything on
        osets = sorted({0, 15} | set(rng.sample(all_o, 1 if quick else 6)))
        # one extra sequential run on an engine whose plan cache holds only 1-3 plans (LRU eviction inside the history)
        capruns = [[rng.choice(osets), rng.choice([1, 2, 2, 3])]] if (quick or i % 2 == 0) else [[o, rng.choice([1, 2, 3])] for o in osets[:2]]
        hist_in.append({"id": "h%05d" % i, "osets": osets, "capruns": capruns, "reqs": [concrete(a) for a in b["h"]], "model_hit": b["hit"]})
    # ---- 3. replay
    ip, ep, rp = ctx.path("hist.ndjson"), ctx.path("events.ndjson"), ctx.path("results.ndjson")
    lib.write_ndjson(ip, hist_in)
    run_stage(ctx, binary, ["-mode", "hist", "-in", ip, "-out", ep, "-res", rp, "-workers", "8"], timeout=3000)
    rows = lib.read_ndjson(ep)
    details = lib.read_ndjson(rp)
    nreq = sum(1 for r in rows if r["ev"] == "req")
    nhit = sum(1 for r in rows if r["ev"] == "req" and r["hit"] == 1)
    npanic = [d for d in details if d.get("panic")]
    for d in npanic[:5]:
        ctx.violation("panic:%s" % SHAPES[d["req"]["a"]["s"]]["name"], "panic while executing a request of a history: %s" % d["panic"],
                      {"history": next(h["reqs"] for h in hist_in if h["id"] == d["h"]), "oset": d["o"], "mode": d["mode"], "detail": d})
    raw_ne = sum(1 for r in rows if r["ev"] == "req" and r["resp"] == r["ref"] and not r["raweq"])
    ctx.log("replayed %d histories x option sets: %d requests, %d served from the plan cache, %d detail records" % (
        len(hist_in), nreq, nhit, len(details)))
    # coverage of the grown alphabet: evictions actually observed, mutations / @defer / input objects in histories
    n_evict = n_replan = n_capruns = 0
    for t in split_traces(rows):
        cap = t[0].get("cap", 1024)
        if t[0]["mode"] != "seq" or cap >= 1024:
            continue
        n_capruns += 1
        prev, seen_keys = 0, set()
        for e in t[1:]:
            k = (e["a"]["s"], e["a"]["op"], e["a"]["dir"], e["a"]["val"] if (e["a"]["s"] == 17 and e["a"]["src"] == "lit") else -1)
            if e["hit"] == 0:
                if prev == cap:
                    n_evict += 1
                if k in seen_keys:
                    n_replan += 1   # planned again after its plan had been evicted
                seen_keys.add(k)
            if e["hit"] != 2:
                prev = e["len"]
    n_mut = sum(1 for h in hist_in if any(r.get("mut") for r in h["reqs"]))
    n_mut_dep = sum(1 for h in hist_in if any(r.get("mut") and any(q["a"]["s"] in (1, 2, 5, 8, 15) for q in h["reqs"][i + 1:])
                                               for i, r in enumerate(h["reqs"])))
    n_defer = sum(1 for h in hist_in if any(r.get("defer") for r in h["reqs"]))
    n_echo = sum(1 for h in hist_in if any(r["a"]["s"] in (16, 17) for r in h["reqs"]))
    ctx.log("capacity runs: %d (evictions %d, re-planned after eviction %d); histories with a mutation %d (a later query reads its effect: %d), "
            "with @defer %d, with an input-object argument %d" % (n_capruns, n_evict, n_replan, n_mut, n_mut_dep, n_defer, n_echo))
    # ---- 4. validate with TLC
    acc_h, mism = validate_hist(ctx, rows, details, "main")
    ctx.log("TLC accepted %d recorded histories; model hit/miss prediction mismatches: %d" % (acc_h, mism))
    # ---- forced interleaving on a shared cached plan, without and with request tracing
    pairs = generate_pairs(ctx)
    gated_in = []
    for i, (b, a) in enumerate(pairs):   # A = the second request of the pair, B = the first (it created the plan)
        for o in ([0, 15] if quick else all_o):
            for traced in (False, True):
                gated_in.append({"id": "g%04d-%d-%d" % (i, o, int(traced)), "o": o, "traced": traced, "a": concrete(a), "b": concrete(b)})
    gp, gep, grp = ctx.path("gated.ndjson"), ctx.path("gated-events.ndjson"), ctx.path("gated-results.ndjson")
    lib.write_ndjson(gp, gated_in)
    run_stage(ctx, binary, ["-mode", "gated", "-in", gp, "-out", gep, "-res", grp, "-workers", "8"], timeout=3000)
    grows = lib.read_ndjson(gep)
    gdet = lib.read_ndjson(grp)
    unreal = [d for d in gdet if d.get("unrealised")]
    if unreal:
        ctx.notes.append("%d gated pairs could not be realised (%s)" % (len(unreal), unreal[0]["unrealised"]))
    acc_g, _ = validate_hist(ctx, grows, [d for d in gdet if not d.get("unrealised")], "gated", cfg="Trace_PlanCache_gated.cfg")
    ctx.log("forced interleavings on a shared plan: %d pairs x option sets x {plain, traced}, %d accepted by TLC" % (len(gated_in), acc_g))
    # ---- one subgraph answers later than everything else that can proceed (each subgraph in turn)
    slow_in = []
    for sid in SHAPES:
        for d in (range(4) if (sid in HAS_DIR and not quick) else [0]):
            a = {"s": sid, "nm": 0, "src": "var", "val": 0, "dir": d, "ds": "var", "op": 1, "fr": 0, "mo": 0}
            r = concrete(a)
            # option sets with multi-fetch AND DAG scheduling (the merged tree is re-scheduled from declared dependencies)
            osets = sorted({6, 15} | ({rng.choice(all_o)} if quick else set(all_o)))
            for o in osets:
                for sub in SUBGRAPHS[r.get("env", "")]:
                    slow_in.append({"id": "s%d-%d-%d-%s" % (sid, d, o, sub), "o": o, "slow": sub, "r": r})
    sp, sep, srp = ctx.path("slow.ndjson"), ctx.path("slow-events.ndjson"), ctx.path("slow-results.ndjson")
    lib.write_ndjson(sp, slow_in)
    run_stage(ctx, binary, ["-mode", "slow", "-in", sp, "-out", sep, "-res", srp], timeout=3000)
    srows = lib.read_ndjson(sep)
    sdet = lib.read_ndjson(srp)
    sunreal = [d for d in sdet if d.get("unrealised")]
    if sunreal:
        ctx.notes.append("%d slow-subgraph runs could not be realised (%s)" % (len(sunreal), sunreal[0]["unrealised"]))
    nheld = sum(1 for r in srows if r["ev"] == "req" and r["nx"] > 0)
    acc_s, _ = validate_hist(ctx, srows, [d for d in sdet if not d.get("unrealised")], "slow", cfg="Trace_PlanCache_gated.cfg")
    ctx.log("slow subgraph: %d runs (shape x option set x subgraph; %d with at least one parked exchange), %d accepted by TLC" % (
        len(slow_in), nheld, acc_s))
    # ---- option-set transparency under a deterministic subgraph fault (data AND the multiset of complete error objects)
    fault_in = []
    no_dedup_off = [o for o in all_o if not o & 1]   # de-duplication off sends duplicate fetches, hence duplicate errors
    for sid in SHAPES:
        a = {"s": sid, "nm": 0, "src": "var", "val": 2 if SHAPES[sid]["arg"] == "int" else 0, "dir": 0, "ds": "var", "op": 1, "fr": 0, "mo": 0}
        r = concrete(a)
        if r.get("mut") or r.get("defer"):
            continue
        osets = sorted({2, 6, 14} | {rng.choice(no_dedup_off)}) if quick else [o for o in no_dedup_off if o]
        for o in osets:
            for sub in SUBGRAPHS[r.get("env", "")]:
                for f in (FAULTS_QUICK if quick else FAULTS_ALL):
                    for scope in (["entities"] if quick else ["entities", "all"]):
                        fault_in.append({"id": "f%d-%d-%s-%s-%s" % (sid, o, sub, f, scope), "o": o, "sub": sub, "fault": f, "scope": scope, "r": r})
    fp, fep, frp = ctx.path("fault.ndjson"), ctx.path("fault-events.ndjson"), ctx.path("fault-results.ndjson")
    lib.write_ndjson(fp, fault_in)
    run_stage(ctx, binary, ["-mode", "fault", "-in", fp, "-out", fep, "-res", frp, "-workers", "8"], timeout=3000)
    frows = lib.read_ndjson(fep)
    nfaulted = sum(1 for r in frows if r["ev"] == "req" and r["nx"] > 0)
    acc_f, _ = validate_hist(ctx, frows, lib.read_ndjson(frp), "fault", cfg="Trace_PlanCache_gated.cfg")
    ctx.log("subgraph faults: %d runs (shape x option set x subgraph x fault; %d with at least one faulted request), %d accepted by TLC" % (
        len(fault_in), nfaulted, acc_f))
    # ---- determinism: every distinct request x every option set, N fresh plannings, 3 processes
    reqs = {}
    for h in hist_in:
        for r in h["reqs"]:
            reqs.setdefault(akey(r["a"]), r)
    rkeys = sorted(k for k in reqs if reqs[k]["a"]["val"] != INVALID)
    rng.shuffle(rkeys)
    # the base form of every shape (all four skip/include decisions where the shape has directives) is always included
    base = []
    for s in SHAPES:
        for d in (range(4) if s in HAS_DIR else [0]):
            a = {"s": s, "nm": 0, "src": "var", "val": 0, "dir": d, "ds": "var", "op": 1, "fr": 0, "mo": 0}
            reqs.setdefault(akey(a), concrete(a))
            base.append(akey(a))
    others = [k for k in rkeys if k not in base][:(30 if quick else 150)]
    det_in, by_rid = [], {}
    for k in base + others:
        r = dict(reqs[k])
        r["rid"] = k
        # the base form of every shape under all 16 option sets; other variants under all (thorough) / 4 seeded ones (quick)
        r["osets"] = all_o if (k in base or not quick) else sorted(rng.sample(all_o, 4))
        det_in.append(r)
        by_rid[k] = r
    dp = ctx.path("det.ndjson")
    lib.write_ndjson(dp, det_in)
    nfresh = 2 if quick else 3
    det_rows = []
    for proc in (1, 2, 3):
        op = ctx.path("plans-%d.ndjson" % proc)
        run_stage(ctx, binary, ["-mode", "det", "-in", dp, "-out", op, "-n", str(nfresh), "-proc", str(proc), "-workers", "8"], timeout=3000)
        det_rows += lib.read_ndjson(op)
    acc_d, nsus = validate_det(ctx, det_rows, by_rid)
    ctx.log("determinism: %d plannings (%d requests x option sets x %d fresh engines x 3 processes), %d accepted by TLC, %d inconsistent groups" % (
        len(det_rows), len(det_in), nfresh, acc_d, nsus))
    # ---- evidence
    distinct = {lib.sha([h["reqs"], o]) for h in hist_in for o in h["osets"] if any(
        h["reqs"][i]["a"]["s"] == h["reqs"][j]["a"]["s"] and h["reqs"][i]["a"] != h["reqs"][j]["a"]
        for i in range(len(h["reqs"])) for j in range(i))}
    sample_tr = split_traces(rows)[:2]
    if mism:
        ctx.notes.append("%d positions where the observed plan-cache hit/miss differs from the engine model's prediction "
                         "(model fidelity only; a miss or a coarser key is allowed by the property)" % mism)
    if raw_ne:
        ctx.notes.append("%d responses equal the reference only after key sorting (member order differs)" % raw_ne)
    ctx.coverage.update({
        "traces_validated_against_impl": acc_h + acc_g + acc_s + acc_f,
        "evaluations": nreq + len(det_rows) + 2 * len(gated_in) + len(slow_in) + len(fault_in),
        "distinct_nontrivial": len(distinct),
        "rule": "one case = (TLC-generated history of 3-5 requests, option set); executed sequentially and from two goroutines on one real "
                "engine, every response compared with a fresh default engine; distinct by (concrete requests, option set); non-trivial = "
                "the history contains two different requests of the same shape (so that a cached plan / pooled planner state is shared)",
        "histories": {"length3_exhaustive": n3, "length4_sampled": n4, "length5_sampled": n5, "replayed": len(hist_in)},
        "requests_executed_in_histories": nreq,
        "forced_interleavings": {"pairs": len(pairs), "runs": len(gated_in), "accepted_by_tlc": acc_g, "unrealised": len(unreal)},
        "slow_subgraph_runs": {"runs": len(slow_in), "with_parked_exchange": nheld, "accepted_by_tlc": acc_s, "unrealised": len(sunreal)},
        "subgraph_fault_runs": {"runs": len(fault_in), "with_faulted_request": nfaulted, "accepted_by_tlc": acc_f},
        "requests_served_from_plan_cache": nhit,
        "small_capacity_runs": {"runs": n_capruns, "capacities": [1, 2, 3], "evictions_observed": n_evict, "replanned_after_eviction": n_replan},
        "histories_with": {"mutation": n_mut, "mutation_then_dependent_query": n_mut_dep, "defer": n_defer, "input_object_argument": n_echo},
        "model_hit_mismatches": mism,
        "determinism": {"requests": len(det_in), "request_x_option_set": sum(len(r["osets"]) for r in det_in), "fresh_engines_per_process": nfresh, "processes": 3,
                        "plannings": len(det_rows), "accepted_by_tlc": acc_d, "inconsistent_groups": nsus},
        "invariants_on_traces": ["T_Transparent", "T_FreshFunctional", "T_PlanIndependent", "T_Model", "T_Capacity",
                                 "PlanDeterministic", "RequestsDeterministic", "ResponseIndependentOfOptions"],
        "samples": [{"history": [e.get("a") for e in t[1:]], "oset": t[0]["o"], "mode": t[0]["mode"],
                     "hits": [e["hit"] for e in t[1:]]} for t in sample_tr] + [{"request": det_in[0]["q"], "variables": det_in[0]["v"]}],
        "exhaustive": False,
    })
    ctx.assumptions += [
        "operations are instances of a 16-shape catalog: 11 over the federationtesting supergraph (incl. the addReview mutation and one @defer operation), 5 over the hand-written planfed supergraph (incl. an input-object argument); no subscriptions",
        "histories with a mutation are not run from two goroutines; references replay the same prefix of mutations on a fresh engine; @defer payloads are merged into one document before comparison",
        "subgraphs are the in-process example services with static data; responses are compared after key sorting",
        "the printed plan is a reflective dump of plan.Plan without source positions (resolve.Position differs per request text and is never rendered) and without data source instances",
        "\"the same normalized operation\" is decided by re-running the engine's own normalization pipeline in the driver",
        "map-iteration / process-seed dependence is sampled (3 processes x N fresh engines), not enumerated",
    ]
