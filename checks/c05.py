"""C05 — Parsing is total and printing round-trips.

Pipeline (DESIGN.md §5 C05, design.d/C05.md):
  1. TLC model-checks the document generator spec/core/GQLGrammar.tla (the two ways of computing the real depth /
     field count agree, braces balance, the *repaired* token-accounting model never under-counts) and, as a sanity
     check against vacuity, finds the under-count in the model of the accounting as pinned.
  2. TLC generates documents as token sequences with grammatical roles: exhaustively (BFS) for two small
     configurations (few names incl. soft keywords / one spelling per pool but deeper structure) and by -simulate from
     the full pools (soft keywords in every Name position, every literal kind); each document carries the numbers the
     specification computes for it (Depth, InlinedDepth, FieldCount, the (L,F) pairs to try, the number of mutants).
  3. harness/cmd/parse replays every document into the real lexer/parser/printer: parse under recover() + watchdog,
     reference / position sweep, compact and indented print, re-parse, shape comparison, second print (fixed point);
     other spellings of the same token sequence; every single-token deletion / duplication / swap / truncation;
     ParseWithLimits for every (L,F) pair.  Also: bounded exhaustive enumeration of all byte strings of <= n symbols
     over the specification's Alphabet, and the directed deep-nesting families (DeepFamilies).
  4. TLC validates the observations against Trace_GQLGrammar: binding (text = spelling of the tokens, numbers, mutant
     and enumeration counts) and the judged predicates LimitsSound / ParseAgrees per observation.
  5. Go-side comparisons that need no oracle (panic, hang, out-of-range reference, shape(parse(print(d))) = shape(d),
     print is a fixed point) are decided here from the driver's records.
"""
import base64
import json
import os
import random
import re
import shutil

import lib

OPKW = ("query", "mutation", "subscription", "fragment")
# document families for which ParseWithLimits is judged against the accounting model (decision and statistics)
CONFORM_FAMILIES = ("exec", "mixed", "sdl")


# ------------------------------------------------------------------------------------------------ helpers
def load_fragment_findings(ctx):
    """findings.d/C05.json is this check's own fragment of known-findings.json.  Its entries take precedence over the
    merged file for the same key (the coordinator swaps the fragment when a repair is committed: a `fixed` entry
    suppresses nothing, so a defect that is still there after its fix is a VIOLATION)."""
    path = os.environ.get("VERIF_C05_FINDINGS") or os.path.join(lib.VERIF, "findings.d", "C05.json")   # override: testing a fixed worktree
    try:
        with open(path) as f:
            mine = json.load(f)
    except FileNotFoundError:
        mine = []
    keys = {(k.get("property"), k.get("key")) for k in mine}
    ctx._known = [k for k in ctx.known() if (k.get("property"), k.get("key")) not in keys] + mine


def b64(s):
    return base64.b64encode(s if isinstance(s, bytes) else s.encode()).decode()


def unb64(s):
    return base64.b64decode(s)


def top_frame(stack):
    """first frame of /repo code in a Go stack dump => specific key for a panic"""
    m = re.findall(r"(graphql-go-tools/v2/pkg/[\w/]+\.[\w\(\)\*\.]+)\(", stack or "")
    for fr in m:
        if "cmd/parse" not in fr:
            return fr.split("graphql-go-tools/v2/pkg/")[-1]
    return "unknown"


def run_driver(ctx, binary, cases, tag, extra=None, timeout=1500, quiet=False):
    """Run harness/cmd/parse over `cases`; handles watchdog aborts (exit 3) and crashes of the process.
    Returns (records by case index, incidents) where incidents = [(index, kind, detail)]."""
    inp = ctx.path("cases-%s.ndjson" % tag)
    outp = ctx.path("out-%s.ndjson" % tag)
    lib.write_ndjson(inp, cases)
    if os.path.exists(outp):
        os.remove(outp)
    records = {}
    incidents = []
    skip = 0
    sync = False
    for attempt in range(12):
        if os.path.exists(outp):
            os.remove(outp)
        args = ["-in", inp, "-out", outp, "-skip", str(skip), "-seed", str(ctx.seed)] + (extra or []) + (["-sync"] if sync else [])
        p = ctx.run_bin(binary, args, timeout=timeout, check=False)
        rows = lib.read_ndjson(outp) if os.path.exists(outp) else []
        good = [r for r in rows if r.get("kind") != "hang"]
        if p.returncode == 0:
            for i, r in enumerate(good):
                records[skip + i] = r
            return records, incidents
        if p.returncode == 3 and rows and rows[-1].get("kind") == "hang":
            for i, r in enumerate(good):
                records[skip + i] = r
            idx = skip + len(good)
            incidents.append((idx, "hang", rows[-1]))
            skip = idx + 1
            continue
        if p.returncode in (1, 2, 4) and not sync and "bad case" in (p.stderr or ""):
            raise lib.Inconclusive("driver rejected its input: %s" % p.stderr[-300:])
        # the process died (fatal error: stack overflow, out of memory, ...): find the case with a synchronous re-run
        if not sync:
            sync = True
            continue
        for i, r in enumerate(good):
            records[skip + i] = r
        idx = skip + len(good)
        incidents.append((idx, "crash", {"rc": p.returncode, "stderr": (p.stderr or "")[:1500]}))
        skip = idx + 1
        sync = False
    incidents.append((skip, "abandoned", {"why": "more than 12 incidents in one batch", "stderr": "", "b64": "", "id": ""}))
    return records, incidents


def run_driver_sharded(ctx, binary, cases, tag, shards, extra=None, timeout=3000):
    """the same over `shards` processes in parallel (cases are independent; the spelling RNG is per case)"""
    from concurrent.futures import ThreadPoolExecutor
    shards = max(1, min(shards, len(cases) // 200 + 1))
    parts = [list(range(k, len(cases), shards)) for k in range(shards)]
    with ThreadPoolExecutor(max_workers=shards) as ex:
        futs = [ex.submit(run_driver, ctx, binary, [cases[i] for i in part], "%s-%d" % (tag, k), extra, timeout) for k, part in enumerate(parts)]
        results = [f.result() for f in futs]
    records, incidents = {}, []
    for part, (recs, inc) in zip(parts, results):
        for j, r in recs.items():
            records[part[j]] = r
        for j, kind, det in inc:
            incidents.append((part[j], kind, det))
    return records, incidents


def tlc_parallel(ctx, jobs, width=None):
    """jobs = [(kwargs for ctx.tlc)], run concurrently; state counts are added afterwards (ctx is not thread safe)"""
    from concurrent.futures import ThreadPoolExecutor
    counted = [j.pop("count", True) for j in jobs]
    with ThreadPoolExecutor(max_workers=width or len(jobs)) as ex:
        futs = [ex.submit(lambda kw: ctx.tlc(count=False, **kw), j) for j in jobs]
        res = [f.result() for f in futs]
    for r, c in zip(res, counted):
        if c:
            ctx.states += r.distinct
            ctx.transitions += r.generated
    return res


def enumerate_strings(ctx, binary, alphabet, maxlen):
    """bounded exhaustive enumeration by the driver; resumes after a watchdog abort.  Nothing is judged here."""
    espec = ctx.path("enum.json")
    with open(espec, "w") as f:
        json.dump({"alphabet": alphabet, "maxlen": maxlen}, f)
    eout = ctx.path("enum-out.ndjson")
    res = {"fails": [], "hangs": [], "summary": None, "crash": "", "next": 0}
    for attempt in range(7):
        if os.path.exists(eout):
            os.remove(eout)
        p = ctx.run_bin(binary, ["-enum", espec, "-out", eout, "-skip", str(res["next"])], timeout=3000, check=False)
        rows = lib.read_ndjson(eout) if os.path.exists(eout) else []
        for r in rows:
            if r["kind"] == "enumfail":
                res["fails"].append(r)
            elif r["kind"] == "hang":
                # the first two are confirmed by a second attempt with a generous limit; later ones are taken as hangs
                ok = len(res["hangs"]) >= 2 or confirm_hang(ctx, binary, {"id": "confirm", "kind": "text", "b64": r["b64"]}, "confirm-enum")
                res["hangs"].append((r, ok))
                res["next"] = int(r["id"].split("#")[1]) + 1
            elif r["kind"] == "enum":
                res["summary"] = r
        if p.returncode == 0:
            break
        if p.returncode != 3:
            res["crash"] = (p.stderr or "")[-1500:]
            break
    return res


def confirm_hang(ctx, binary, case, tag="confirm"):
    """second attempt with a generous limit: a hang that reproduces is an observed non-termination"""
    recs, inc = run_driver(ctx, binary, [case], tag, extra=["-watchdog", "20s"], timeout=120)
    return bool(inc)


# ------------------------------------------------------------------------------------------------ classification
def has_opkw_name(doc):
    return any(t["s"].lstrip("$") in OPKW and t["r"] not in ("kw_op", "kw_frag") for t in doc["toks"])


def rename_opkw(doc):
    """counterfactual for candidate defect D1: same document, the names spelled like definition keywords renamed"""
    out = []
    for t in doc["toks"]:
        s = t["s"]
        if t["r"] not in ("kw_op", "kw_frag") and s.lstrip("$") in OPKW:
            s = ("$" if s.startswith("$") else "") + "kw_" + s.lstrip("$")
        out.append(s)
    return " ".join(out)


def to_keyword_form(doc):
    """counterfactual for the shorthand-operation accounting hole: every shorthand `{` becomes `query {`"""
    out = []
    for t in doc["toks"]:
        if t["r"] == "sh_open":
            out.append("query")
        out.append(t["s"])
    return " ".join(out)


WS = b" \t\r\n"


def lex(b):
    """Lexer with offsets over arbitrary bytes (ignored: white space, commas, comments).  [(kind, start, end)],
    kind in name | num | str | block | spread | punct | other.  Only used to locate the constructs that the
    counterfactual repairs below rewrite; it never decides a verdict by itself."""
    out = []
    i, n = 0, len(b)
    namestart = b"abcdefghijklmnopqrstuvwxyzABCDEFGHIJKLMNOPQRSTUVWXYZ_"
    namechar = namestart + b"0123456789"
    while i < n:
        c = b[i:i + 1]
        if c in b" \t\r\n,":
            i += 1
        elif c == b"#":
            while i < n and b[i:i + 1] not in b"\r\n":
                i += 1
        elif b[i:i + 3] == b'"""':
            j = i + 3
            while j < n and b[j:j + 3] != b'"""':
                j += 4 if b[j:j + 4] == b'\\"""' else 1
            e = min(n, j + 3)
            out.append(("block", i, e))
            i = e
        elif c == b'"':
            j = i + 1
            while j < n and b[j:j + 1] not in b'"\r\n':
                j += 2 if b[j:j + 1] == b"\\" else 1
            e = min(n, j + 1)
            out.append(("str", i, e))
            i = e
        elif b[i:i + 3] == b"...":
            out.append(("spread", i, i + 3))
            i += 3
        elif c in namestart:
            j = i
            while j < n and b[j:j + 1] in namechar:
                j += 1
            out.append(("name", i, j))
            i = j
        elif c in b"0123456789-":
            j = i + 1
            while j < n and b[j:j + 1] in b"0123456789.eE+-":
                j += 1
            out.append(("num", i, j))
            i = j
        elif c in b"{}()[]:=!$@&|":
            out.append(("punct", i, i + 1))
            i += 1
        else:
            out.append(("other", i, i + 1))
            i += 1
    return out


def block_content(b, s, e):
    return b[s + 3:e - 3] if e - s >= 6 and b[e - 3:e] == b'"""' else b[s + 3:e]


# Known root causes of round-trip failures (genuine defects, findings.d/C05.json).  Each has a detector that returns
# the edits [(start, end, replacement)] which remove its trigger from a byte string and nothing else.
def edits_anonymous_query_directives(b, toks):
    return [(e, e, b" Qx") for i, (k, s, e) in enumerate(toks[:-1])
            if k == "name" and b[s:e] == b"query" and b[toks[i + 1][1]:toks[i + 1][2]] == b"@"]


def edits_block_trim(b, toks):
    out = []
    for k, s, e in toks:
        if k == "block":
            c = block_content(b, s, e)
            if c and (c[:1] in WS or c[-1:] in WS):
                out.append((s, e, b'"""s"""'))
    return out


def edits_anonymous_query_description(b, toks):
    """a description in front of an unnamed `query {`: give the query a name"""
    return [(toks[i + 1][2], toks[i + 1][2], b" Qx") for i in range(len(toks) - 2)
            if toks[i][0] in ("str", "block") and toks[i + 1][0] == "name" and tok_is(b, toks[i + 1], b"query") and tok_is(b, toks[i + 2], b"{")]


def tok_is(b, t, s):
    return b[t[1]:t[2]] == s


def edits_extension_implements(b, toks):
    """`extend type|interface Name implements A & B` : remove `implements A & B`"""
    out = []
    for i in range(len(toks) - 3):
        if (toks[i][0] == "name" and tok_is(b, toks[i], b"extend") and toks[i + 1][0] == "name" and b[toks[i + 1][1]:toks[i + 1][2]] in (b"type", b"interface")
                and toks[i + 2][0] == "name" and toks[i + 3][0] == "name" and tok_is(b, toks[i + 3], b"implements")):
            j = i + 4
            if j < len(toks) and tok_is(b, toks[j], b"&"):
                j += 1
            if j < len(toks) and toks[j][0] == "name":
                j += 1
                while j + 1 < len(toks) and tok_is(b, toks[j], b"&") and toks[j + 1][0] == "name":
                    j += 2
                out.append((toks[i + 3][1], toks[j - 1][2], b""))
    return out


def edits_schema_description(b, toks):
    """a description in front of `schema`: remove it"""
    return [(toks[i][1], toks[i][2], b"") for i in range(len(toks) - 1)
            if toks[i][0] in ("str", "block") and toks[i + 1][0] == "name" and tok_is(b, toks[i + 1], b"schema")
            and (i == 0 or not tok_is(b, toks[i - 1], b":"))]


def edits_block_carriage_return(b, toks):
    """a block string with CR / CR LF line terminators: the same literal with LF line terminators"""
    return [(s0, e0, b[s0:e0].replace(b"\r\n", b"\n").replace(b"\r", b"\n")) for k, s0, e0 in toks if k == "block" and b"\r" in b[s0:e0]]


def edits_shorthand_after_braceless_definition(b, toks):
    """an unnamed `query {` right after a type-system definition that did not end with `}`: give the query a name"""
    return [(toks[i][2], toks[i][2], b" Qx") for i in range(1, len(toks) - 1)
            if toks[i][0] == "name" and tok_is(b, toks[i], b"query") and tok_is(b, toks[i + 1], b"{")
            and toks[i - 1][0] not in ("str", "block") and not tok_is(b, toks[i - 1], b"}")]


CAUSES = [
    ("rt:description:carriage-return-line-terminator", edits_block_carriage_return),
    ("rt:block-string:surrounding-whitespace-trimmed", edits_block_trim),
    ("rt:operation:anonymous-query-with-directives", edits_anonymous_query_directives),
    ("rt:operation:anonymous-query-with-description", edits_anonymous_query_description),
    ("rt:mixed:shorthand-query-after-braceless-type-definition", edits_shorthand_after_braceless_definition),
    ("rt:type-system:extension-implements-dropped", edits_extension_implements),
    ("rt:type-system:schema-description-dropped", edits_schema_description),
]


def apply_edits(b, edits):
    """apply [(start, end, replacement)].  An edit that lies inside the span rewritten by another one is dropped (so is an
    insertion at the very end of such a span); of two edits of the same span the removal wins."""
    edits = sorted(set(edits), key=lambda x: (x[0], -(x[1] - x[0]), len(x[2])))
    kept = []
    for s, e, r in edits:
        if kept and kept[-1][1] > kept[-1][0] and (s < kept[-1][1] or (s == e == kept[-1][1])):
            continue
        kept.append((s, e, r))
    out = b
    for s, e, r in sorted(kept, reverse=True):
        out = out[:s] + r + out[e:]
    return out


def top_error_sig(det):
    m = re.search(r"got: (\w+) want one of: \[([^\]]*)\]", det or "")
    if m:
        return "got-%s-want-%s" % (m.group(1), m.group(2).replace(" ", "+")[:40])
    return lib.sha((det or "")[:60])[:8]


class Judge:
    """Collects the failures observed on the real code, attributes each to a root cause by counterfactual re-runs on
    the real code, and reports them (ctx.violation decides KNOWN-FINDING vs VIOLATION by the key)."""

    def __init__(self, ctx, binary):
        self.ctx = ctx
        self.binary = binary
        self.counter = {}
        self.pending = []   # (source, bytes, class, detail)
        self.pending_limits = []
        self.families = {}

    def report(self, key, what, obj):
        """at most 3 instances per key and 8 per family of keys (keys that differ in a trailing hash only) are handed to
        ctx.violation (replay files); the rest is only counted"""
        n = self.counter.get(key, 0)
        self.counter[key] = n + 1
        fam = re.sub(r":[0-9a-f]{8}$", "", key)
        f = self.families.get(fam, 0)
        if n < 3 and (fam == key or f < 8):
            self.families[fam] = f + 1
            self.ctx.violation(key, what, obj)

    def limits(self, doc, L, F, syntactic):
        self.pending_limits.append((doc, L, F, syntactic))

    def value_changed(self, doc, info):
        """PrintPreservesValue is false for one literal (judged by TLC with the character-level model): the printed document
        spells a string / description whose value differs from the original's.  The key names the construct and what the raw
        content looks like, so that each way of losing characters is a finding of its own."""
        src = info["src"]
        blk = src.startswith('"""')
        raw = src[3:-3] if blk else src[1:-1]
        where = "description" if info["desc"] else "value"
        if not blk:
            cls = "ordinary-string"
        else:
            lines = re.split(r"\r\n|\n|\r", raw)
            first, last = lines[0], lines[-1]
            feats = []
            if first.strip(" \t") and first[:1] in " \t":
                feats.append("first-line-indentation")
            if last.strip(" \t") and last[-1:] in " \t":
                feats.append("trailing-blanks-of-last-line")
            if len(lines) > 1 and not feats:
                feats.append("indentation-of-later-lines")
            cls = "block-string:" + ("+".join(feats) or "other")
        key = "value:%s:%s" % (where, cls)
        self.report(key, "printing (%s) changes the value of the %s %r: the printed document has %r in its place: %s" % (
            info["mode"], "description" if where == "description" else "string literal", src, info["out"], doc["text"][:160]),
            {"kind": "value", "text": doc["text"], "toks": doc["toks"], "depth": doc["depth"], "idepth": doc["idepth"], "fields": doc["fields"],
             "nmut": doc["nmut"], "tok": info["tok"], "mode": info["mode"], "detail": "%r -> %r" % (src, info["out"])})

    def flush_limits(self):
        """Accepted over-limit documents.  The key is decided by counterfactuals on the real code: the same document
        with (a) the names spelled like definition keywords renamed, (b) `query` written in front of every shorthand
        operation, (c) both.  If ParseWithLimits rejects the counterfactual the cause is that construct."""
        ctx = self.ctx
        cases, plan = [], []
        for doc, L, F, syntactic in self.pending_limits:
            cf = {}
            if has_opkw_name(doc):
                cf["opkw"] = rename_opkw(doc)
            if any(t["r"] == "sh_open" for t in doc["toks"]):
                cf["shorthand"] = to_keyword_form(doc)
            if len(cf) == 2:
                cf["both"] = to_keyword_form({"toks": [dict(t, s=x) for t, x in zip(doc["toks"], rename_opkw(doc).split(" "))]})
            idx = {}
            for n, t in cf.items():
                idx[n] = len(cases)
                cases.append({"id": "cf%d" % len(cases), "kind": "text", "b64": b64(t), "lims": [[L, F]]})
            plan.append((doc, L, F, syntactic, idx))
        self.pending_limits = []
        if not plan:
            return
        recs = {}
        if cases:
            recs, _ = run_driver(ctx, self.binary, cases, "counterfactual-limits")
        for doc, L, F, syntactic, idx in plan:
            verdict = {n: bool(recs.get(i) and recs[i]["lims"] and recs[i]["lims"][0]["acc"]) for n, i in idx.items()}
            which = "fields" if (F > 0 and doc["fields"] > F) else "depth"
            if verdict.get("opkw") is False:
                key = "limits:%s:definition-keyword-as-name" % which
                why = "with the names spelled query/mutation/subscription/fragment renamed ParseWithLimits rejects it"
            elif verdict.get("shorthand") is False and which == "depth" and not syntactic:
                key = "limits:depth:shorthand-operation-not-accumulated"
                why = "the same document with `query` in front of the shorthand operation is rejected"
            elif verdict.get("both") is False:
                key = None
                why = "only both counterfactuals together make ParseWithLimits reject it"
            else:
                key = "limits:%s:%s:%s" % (which, "syntactic" if syntactic else "inlined", lib.sha(doc["text"])[:8])
                why = "no known cause"
            what = ("ParseWithLimits(MaxDepth=%d, MaxFields=%d) accepted a document with real selection depth %d (%d inside one definition) and %d fields: %s [%s]"
                    % (L, F, doc["idepth"], doc["depth"], doc["fields"], doc["text"][:200], why))
            obj = {"kind": "limits", "text": doc["text"], "toks": doc["toks"], "L": L, "F": F, "depth": doc["depth"],
                   "idepth": doc["idepth"], "fields": doc["fields"], "nmut": doc["nmut"], "counterfactuals": verdict}
            for k in ([key] if key else ["limits:%s:definition-keyword-as-name" % which, "limits:depth:shorthand-operation-not-accumulated"]):
                self.report(k, what, obj)

    def failure(self, source, text_bytes, cls, det, doc=None, valid=None):
        """panic / hang / oob are reported at once; round-trip failures are attributed in one batch (flush)."""
        try:
            shown = text_bytes.decode()
        except UnicodeDecodeError:
            shown = repr(text_bytes)
        if cls.startswith("rt:") or cls == "variant-shape":
            self.pending.append((source, text_bytes, cls, det, valid))
            return
        if cls == "panic":
            key = "panic:%s" % top_frame(det)
        elif cls == "oob":
            key = "oob:%s" % re.sub(r"\[\d+\]|\d+", "#", det.split(":")[0])[:60]
        elif cls == "hang":
            key = "hang:%s" % lib.sha(shown)[:8]
        else:
            key = "%s:%s" % (cls, lib.sha(shown)[:8])
        what = "%s on %s input %r: %s" % (cls, source, shown[:160], det[:400])
        self.report(key, what, {"kind": "text", "b64": b64(text_bytes), "text": shown, "class": cls, "detail": det, "source": source})

    def flush(self):
        """Attribute the collected round-trip failures.  For every failing byte string the driver is run again on
        (a) the string itself (is it a GraphQL document at all, by the independent parser?), (b) the string with the
        trigger of one known cause removed, (c) with all known triggers removed.  A failure that disappears with a
        repair is that cause; one that persists is something else and gets a key of its own."""
        ctx = self.ctx
        uniq = {}
        for source, b, cls, det, valid in self.pending:
            uniq.setdefault(b, (source, cls, det, valid))
        self.pending = []
        if not uniq:
            return
        import itertools
        cases, plan = [], []
        for b, (source, cls, det, known_valid) in uniq.items():
            toks = lex(b)
            edits = [(name, fn(b, toks)) for name, fn in CAUSES]
            edits = [(n, e) for n, e in edits if e]
            entry = {"b": b, "source": source, "cls": cls, "det": det, "self": len(cases), "subsets": [], "valid": known_valid}
            cases.append({"id": "a%d" % len(cases), "kind": "text", "b64": b64(b), "gq": "any"})
            # every non-empty subset of the applicable causes, smallest first, CAUSES order (most local repair first) within a size
            for size in range(1, len(edits) + 1):
                for sub in itertools.combinations(edits, size):
                    entry["subsets"].append(([n for n, _ in sub], len(cases)))
                    cases.append({"id": "a%d" % len(cases), "kind": "text", "b64": b64(apply_edits(b, [x for _, e in sub for x in e]))})
            plan.append(entry)
        recs, _ = run_driver_sharded(ctx, self.binary, cases, "attribute", 4)

        def fine(idx):
            r = recs.get(idx)
            if r is None:
                return False
            bb = r["base"]
            # the repaired text must still be accepted (a repair that merely makes the parser reject it explains nothing)
            return not bb["panic"] and not bb["oob"] and bb["acc"] and bb["rt"] == "ok"

        for e in plan:
            b = e["b"]
            try:
                shown = b.decode()
            except UnicodeDecodeError:
                shown = repr(b)
            me = recs.get(e["self"])
            valid = bool(e["valid"] or (me and me["gq"] == "ok"))     # generated documents and their spellings are valid by construction
            obj = {"kind": "text", "b64": b64(b), "text": shown, "class": e["cls"], "detail": e["det"], "source": e["source"],
                   "valid_graphql": valid}
            # the smallest set of known causes whose triggers, once removed, make the round trip succeed
            keys = next((names for names, idx in e["subsets"] if fine(idx)), [])
            why = "removing the trigger makes the round trip succeed" if len(keys) == 1 else "removing the triggers of all of them makes the round trip succeed"
            if e["cls"] == "variant-shape":
                keys = []
            if keys:
                for k in keys:
                    self.report(k, "%s on %s input %r: %s [%s]" % (e["cls"], e["source"], shown[:160], e["det"][:300], why), obj)
                continue
            if not valid and e["cls"] != "variant-shape":
                cls = e["cls"][3:].split(":")[-1]
                key = "rt-lenient:%s:%s" % (cls, top_error_sig(e["det"]) if cls == "reparse-rejected" else "x")
                self.report(key, "the parser accepted %r, which is not a GraphQL document (independent parser: %s); %s: %s" % (
                    shown[:160], (me or {}).get("gqMsg", "")[:80], e["cls"], e["det"][:300]), obj)
                continue
            key = "%s:%s" % (e["cls"], lib.sha(shown)[:8])
            self.report(key, "%s on %s input %r: %s [no known cause]" % (e["cls"], e["source"], shown[:160], e["det"][:400]), obj)


# ------------------------------------------------------------------------------------------------ main
def must(r, what):
    if not r.ok:
        print(r.out[-4000:])
        raise lib.Inconclusive("TLC did not pass on %s (%s) — model-level problem, not a verdict about the code" % (what, r.error))
    return r


def generate(ctx, quick):
    """model checking + generation (one TLC run per configuration, concurrently)"""
    sfx = "" if quick else "_thorough"
    num = 1500 if quick else 12000
    jobs = [
        dict(spec_dirs="core", module="Gen_GQLGrammar", cfg="Gen_GQLGrammar_const.cfg", timeout=300, workers=1, count=False, tag="spec-constants"),
        dict(spec_dirs="core", module="MC_GQLGrammar", cfg="MC_GQLGrammar_pinned.cfg", timeout=900, deadlock=False, workers=2, count=False,
             tag="mc-accounting-pinned-negative"),
        dict(spec_dirs="core", module="Gen_GQLGrammar", cfg="Gen_GQLGrammar_bfs%s.cfg" % sfx, timeout=3000, deadlock=False, workers=4, tag="mc+gen-bfs"),
        # quick: the deep-narrow configuration with every operation kind (contains the query-only shape configuration)
        dict(spec_dirs="core", module="Gen_GQLGrammar", cfg="Gen_GQLGrammar_ops.cfg" if quick else "Gen_GQLGrammar_shape_thorough.cfg", timeout=3000,
             deadlock=False, workers=4, tag="mc+gen-shape"),
        dict(spec_dirs="core", module="Gen_GQLGrammar", cfg="Gen_GQLGrammar_sim.cfg", timeout=3000, deadlock=False, workers=1, simulate=num,
             depth=200, seed=ctx.seed, tag="gen-simulate"),
    ]
    jobs += [
        dict(spec_dirs="core", module="Gen_GQLGrammar", cfg="Gen_GQLGrammar_simwide.cfg", timeout=3000, deadlock=False, workers=1,
             simulate=400 if quick else 6000, depth=300, seed=ctx.seed + 1000, tag="gen-simulate-wide"),
        dict(spec_dirs="core", module="Gen_GQLGrammarSDL", cfg="Gen_GQLGrammarSDL_bfs.cfg", timeout=3000, deadlock=False, workers=2, tag="mc+gen-sdl-bfs"),
        dict(spec_dirs="core", module="Gen_GQLGrammarSDL", cfg="Gen_GQLGrammarSDL_sim.cfg", timeout=3000, deadlock=False, workers=1,
             simulate=600 if quick else 8000, depth=20, seed=ctx.seed, tag="gen-sdl-simulate"),
        # string literals and descriptions from the character-level model (GQLLiteral), every position
        dict(spec_dirs="core", module="Gen_GQLGrammarLit", cfg="Gen_GQLGrammarLit_bfs%s.cfg" % sfx, timeout=3000, deadlock=False, workers=2, tag="mc+gen-lit-bfs"),
        dict(spec_dirs="core", module="Gen_GQLGrammarLit", cfg="Gen_GQLGrammarLit_sim.cfg", timeout=3000, deadlock=False, workers=1,
             simulate=500 if quick else 6000, depth=5, seed=ctx.seed, tag="gen-lit-simulate"),
        dict(spec_dirs="core", module="Gen_GQLGrammarMixed", cfg="Gen_GQLGrammarMixed_pairs.cfg", timeout=3000, deadlock=False, workers=2, tag="gen-mixed-pairs"),
        # documents mixing executable and type-system definitions
        dict(spec_dirs="core", module="Gen_GQLGrammarMixed", cfg="Gen_GQLGrammarMixed_sim.cfg", timeout=3000, deadlock=False, workers=1,
             simulate=900 if quick else 10000, depth=200, seed=ctx.seed, tag="gen-mixed-simulate"),
    ]
    if not quick:
        jobs.append(dict(spec_dirs="core", module="MC_GQLGrammar", cfg="MC_GQLGrammar_pinned_shape.cfg", timeout=1800, deadlock=False, workers=2,
                         count=False, tag="mc-accounting-pinned-shape-negative"))
        jobs.append(dict(spec_dirs="core", module="Gen_GQLGrammar", cfg="Gen_GQLGrammar_ops_thorough.cfg", timeout=3000, deadlock=False, workers=4,
                         tag="mc+gen-ops"))
    res = tlc_parallel(ctx, jobs)
    consts = next((x for x in must(res[0], "constants").printed if isinstance(x, dict) and "alphabet" in x), None)
    if not consts:
        raise lib.Inconclusive("the specification's constants were not printed")
    for r in [res[1]] + res[12:13]:
        if r.violated != "AccountingSoundPinned":
            raise lib.Inconclusive("sanity: the model of the token accounting as pinned should violate AccountingSoundPinned, got %r" % r.error)
    docs, runs = [], []
    for tag, r, exhaustive in (("bfs", res[2], True), ("shape", res[3], True), ("sim", res[4], False), ("sim-wide", res[5], False),
                               ("sdl-bfs", res[6], True), ("sdl-sim", res[7], False), ("lit-bfs", res[8], True), ("lit-sim", res[9], False),
                               ("mixed-pairs", res[10], True), ("mixed-sim", res[11], False)):
        must(r, "generator " + tag)
        ds = [d for d in r.printed if isinstance(d, dict) and "toks" in d]
        for d in ds:
            d["src"] = tag
        runs.append({"generator": tag, "documents": len(ds), "exhaustive_for_its_bounds": exhaustive})
        docs += ds
    if not quick:
        must(res[13], "generator ops")
        ds = [d for d in res[13].printed if isinstance(d, dict) and "toks" in d]
        for d in ds:
            d["src"] = "ops"
        runs.append({"generator": "ops", "documents": len(ds), "exhaustive_for_its_bounds": True})
        docs += ds
    uniq = {}
    for d in docs:
        uniq.setdefault(d["text"], d)
    return consts, list(uniq.values()), runs


def validate(ctx, trace):
    """TLC trace validation of the observations, in independent pieces of <= ~25 000 lines (each starts at a doc line),
    at most 4 TLC processes at a time."""
    shards = max(3, (len(trace) + 24999) // 25000)
    starts = [i for i, t in enumerate(trace) if t["k"] in ("doc", "enum")]
    cuts = [0]
    for k in range(1, shards):
        want = k * len(trace) // shards
        c = next((x for x in starts if x >= want), None)
        if c is not None and c > cuts[-1]:
            cuts.append(c)
    cuts.append(len(trace))
    jobs, offs = [], []
    for k in range(len(cuts) - 1):
        part = trace[cuts[k]:cuts[k + 1]] + [{"k": "end"}]
        tp = ctx.path("trace-%d.ndjson" % k)
        lib.write_ndjson(tp, part)
        offs.append(cuts[k])
        jobs.append(dict(spec_dirs="core", module="Trace_GQLGrammar", cfg="Trace_GQLGrammar.cfg", workers=1, env={"TRACE": tp}, timeout=3000,
                         deadlock=False, count=False, tag="trace-validation-%d" % k, heap="4g"))
    res = tlc_parallel(ctx, jobs, width=4)
    unsound, disagree, valuediff, nonconform = [], [], [], []
    for off, v in zip(offs, res):
        if not v.ok:
            stuck = [x for x in v.out.splitlines() if "TRACE_STUCK_AT_LINE" in x]
            print(v.out[-2500:])
            raise lib.Inconclusive("observations are not bound to the specification (%s) — harness/model problem, not a verdict" % (stuck[:1] or v.error))
        for x in v.printed:
            if isinstance(x, dict) and x.get("k") in ("unsound", "disagree", "valuediff", "nonconform"):
                x["line"] += off          # 1-based line in the whole trace
                {"unsound": unsound, "disagree": disagree, "valuediff": valuediff, "nonconform": nonconform}[x["k"]].append(x)
    return unsound, disagree, valuediff, nonconform


def run(ctx):
    rng = random.Random(ctx.seed)
    load_fragment_findings(ctx)
    built = ctx.build("parse")
    # private copy: other agents remove /verif/.build-* directories when they finish their own mutant runs
    binary = ctx.path("parse-driver")
    shutil.copy2(built, binary)
    if ctx.replay_in:
        return replay(ctx, binary)
    quick = ctx.quick()
    judge = Judge(ctx, binary)
    shards = 4 if quick else 8

    # ---- 1. model checking + generation ----------------------------------------------------------
    consts, docs, gen_runs = generate(ctx, quick)
    ctx.log("%d distinct documents generated %s" % (len(docs), [(g["generator"], g["documents"]) for g in gen_runs]))

    # ---- 2. replay ---------------------------------------------------------------------------------
    cases = []
    for i, d in enumerate(docs):
        d["id"] = "%s-%06d" % (d["src"], i)
        lims = sorted({(p["l"], p["f"]) for p in d["lims"]})
        roles = {t["r"] for t in d["toks"]}
        has_sdl, has_exec = "sdl" in roles, bool(roles & {"kw_op", "kw_frag", "sh_open"})
        d["family"] = "mixed" if has_sdl and has_exec else "sdl" if has_sdl else "exec"
        d["strings"] = [j for j, t in enumerate(d["toks"]) if t["s"].startswith('"')]
        # quick tier: the long simulated documents get their mutants for a seed-selected third only, the literal-centred ones none
        mut = not (quick and (d["src"] in ("lit-bfs", "lit-sim", "mixed-pairs") or (d["src"] in ("sim", "sim-wide", "sdl-sim", "mixed-sim") and (i + ctx.seed) % 3 != 0)))
        case = {"id": d["id"], "kind": "doc", "toks": [t["s"] for t in d["toks"]], "gq": {"exec": "q", "sdl": "s", "mixed": ""}[d["family"]],
                "lims": [list(p) for p in lims], "mut": mut, "variants": 3, "lit": bool(d["strings"])}
        if d["family"] == "exec" and "desc" in roles:
            # the independent parser predates descriptions of executable definitions: it reads the document without them
            case["gqtext"] = " ".join(t["s"] for t in d["toks"] if t["r"] != "desc")
        cases.append(case)
    from concurrent.futures import ThreadPoolExecutor
    maxlen = 4 if quick else 5
    depths = [1000, 100000] if quick else [1000, 100000, 1000000, 3000000]
    dcases = []
    for fam in consts["deep"]:
        ns = [500, 4000] if fam["slow"] else list(depths)
        if quick and fam["name"] == "unclosed-list-value":
            ns.append(3000000)      # the depth that used to exhaust the goroutine stack (finding crash:stack-overflow), one family only
        for n in ns:
            dcases.append({"id": "deep-%s-%d" % (fam["name"], n), "kind": "deep", "pre": fam["pre"], "open": fam["open"], "mid": fam["mid"],
                           "close": fam["close"], "post": fam["post"], "n": n, "lims": [[50, 0]]})
    with ThreadPoolExecutor(max_workers=3) as ex:      # the three replays are independent; judged sequentially below
        f_docs = ex.submit(run_driver_sharded, ctx, binary, cases, "docs", shards)
        f_enum = ex.submit(enumerate_strings, ctx, binary, consts["alphabet"], maxlen)
        f_deep = ex.submit(run_driver, ctx, binary, dcases, "deep", ["-watchdog", "120s"], 3000)
        recs, incidents = f_docs.result()
        enum_res = f_enum.result()
        drecs, dinc = f_deep.result()
    hang_seen = 0
    for idx, kind, det in incidents:
        if kind == "abandoned":
            ctx.notes.append("a batch of generated documents was abandoned after 12 hangs/crashes (all reported)")
            continue
        case = cases[idx]
        if kind == "hang":
            bs = unb64(det["b64"])
            hang_seen += 1
            if hang_seen > 2 or confirm_hang(ctx, binary, {"id": "confirm", "kind": "text", "b64": det["b64"]}):
                judge.failure("generated/mutated", bs, "hang", det["why"])
            else:
                ctx.notes.append("watchdog fired once for %s but the input terminated on the second attempt" % det["id"])
        else:
            judge.report("crash:%s" % lib.sha(det["stderr"][:200])[:8], "the process died while handling case %s: %s" % (case["id"], det["stderr"][:300]),
                         {"kind": "case", "case": case, "stderr": det["stderr"]})

    # ---- 3. Go-side judgements ---------------------------------------------------------------------
    stats = {"accepted": 0, "valid_rejected": 0, "gq_rejected": 0, "mutants": 0, "mutants_accepted": 0, "variants": 0, "lim_obs": 0,
             "rt_ok": 0, "overcount_rejections": 0, "model_stats_match": 0, "model_stats_match_repaired": 0, "model_stats_differ": 0, "lit_obs": 0}
    rejected_samples = []
    trace = []
    line_of = {}
    for i, d in enumerate(docs):
        o = recs.get(i)
        if o is None:
            continue
        b = o["base"]
        if o["text"] != d["text"]:
            raise lib.Inconclusive("driver spelled %r, the specification %r" % (o["text"][:100], d["text"][:100]))
        if o["gq"] == "err" and d["family"] == "sdl":
            # gqlparser v2.5.30 lags behind the October 2021 type-system grammar in places (e.g. `extend interface I implements J`)
            stats["gq_rejected"] += 1
            if stats["gq_rejected"] <= 3:
                ctx.notes.append("independent parser rejects a generated type-system document: %s (%s)" % (d["text"][:120], o["gqMsg"][:100]))
        elif o["gq"] == "err":
            raise lib.Inconclusive("model problem: the independent parser rejects a generated document: %s (%s)" % (d["text"][:200], o["gqMsg"][:160]))
        if o["gq"] == "ok" and d["family"] == "exec" and (o["gqF"], o["gqD"]) != (d["fields"], d["depth"]):
            raise lib.Inconclusive("model problem: the specification computes fields=%d depth=%d, the independent parser sees %d/%d for %s" % (
                d["fields"], d["depth"], o["gqF"], o["gqD"], d["text"][:200]))
        cl = None
        if b["panic"]:
            cl = ("panic", b["panic"])
        elif b["oob"]:
            cl = ("oob", b["oob"])
        elif b["acc"] and b["rt"] != "ok":
            cl = ("rt:" + b["rt"], b["rtd"])
        if cl:
            judge.failure("generated", d["text"].encode(), cl[0], cl[1], valid=True)
        if b["acc"]:
            stats["accepted"] += 1
            if b["rt"] == "ok":
                stats["rt_ok"] += 1
        elif not b["panic"]:
            stats["valid_rejected"] += 1
            if len(rejected_samples) < 5:
                rejected_samples.append({"text": d["text"][:200], "error": b["err"][:160]})
        for f in o["fails"]:
            isvar = f["what"].startswith("variant")
            judge.failure("other spelling of a generated document" if isvar else "mutant %s of a generated document" % f["what"],
                          unb64(f["b64"]), f["class"], f["det"], valid=True if isvar else None)
        if o["nfail"] > len(o["fails"]) and len(ctx.notes) < 10:
            ctx.notes.append("%d further failures of mutants/variants of %s not listed individually" % (o["nfail"] - len(o["fails"]), d["id"]))
        stats["mutants"] += o["nmut"]
        stats["mutants_accepted"] += o["nmutAcc"]
        stats["variants"] += o["nvar"]
        trace.append({"k": "doc", "toks": d["toks"], "text": o["text"], "depth": d["depth"], "idepth": d["idepth"], "fields": d["fields"],
                      "nmut": d["nmut"], "nmutSeen": o["nmut"], "acc": b["acc"], "astF": b["astF"], "astD": b["astD"]})
        line_of[len(trace)] = (i, None)
        if d["strings"] and b["acc"] and (b["rt"] == "ok" or "shape-diff" in b["rt"] or "fixed-point" in b["rt"]):
            # what the printer made of every string literal / description, judged by value (PrintPreservesValue)
            seen_lit = set()
            for mode, printed in (("compact", b["print"]), ("indent", b["printI"])):
                pb = printed.encode()
                outs = [(k, pb[s0:e0]) for k, s0, e0 in lex(pb) if k in ("str", "block")]
                if len(outs) != len(d["strings"]):
                    continue        # a literal was dropped or added: that is a shape difference, reported as such
                for j, (k, ob) in zip(d["strings"], outs):
                    sp = d["toks"][j]["s"]
                    blk = sp.startswith('"""')
                    src = sp[3:-3] if blk else sp[1:-1]
                    oblk = k == "block"
                    out = (ob[3:-3] if oblk else ob[1:-1]).decode("utf-8", "replace")
                    sig = (blk, src, oblk, out)
                    if sig in seen_lit:
                        continue
                    seen_lit.add(sig)
                    trace.append({"k": "lit", "tok": j + 1, "len": len(sp), "blk": blk, "src": [ord(c) for c in src], "oblk": oblk,
                                  "out": [ord(c) for c in out]})
                    prev = d["toks"][j - 1]["s"] if j > 0 else ""
                    role = d["toks"][j]["r"]
                    in_list = sum((t["s"] == "[") - (t["s"] == "]") for t in d["toks"][:j]) > 0
                    isdesc = role == "desc" or (role == "sdl" and prev not in (":", "=", "[") and not in_list)
                    line_of[len(trace)] = (i, {"mode": mode, "tok": j, "src": sp, "out": ob.decode("utf-8", "replace"), "desc": isdesc})
                    stats["lit_obs"] += 1
        for lr in o["lims"]:
            if lr["panic"]:
                judge.failure("generated (ParseWithLimits %d/%d)" % (lr["L"], lr["F"]), d["text"].encode(), "panic", lr["panic"])
            trace.append({"k": "lim", "L": lr["L"], "F": lr["F"], "acc": lr["acc"], "statD": lr["statD"], "statF": lr["statF"], "dacc": b["acc"],
                          "chk": d["family"] in CONFORM_FAMILIES})
            line_of[len(trace)] = (i, lr)
            stats["lim_obs"] += 1
            if not lr["acc"] and b["acc"] and not ((lr["L"] > 0 and d["idepth"] > lr["L"]) or (lr["F"] > 0 and d["fields"] > lr["F"])):
                stats["overcount_rejections"] += 1
            if lr["L"] == 0 and lr["F"] == 0 and lr["acc"] and d["family"] == "exec":
                if lr["statF"] == d.get("implFx"):
                    stats["model_stats_match_repaired"] += 1
                elif lr["statF"] == d["implF"]:
                    stats["model_stats_match"] += 1
                else:
                    stats["model_stats_differ"] += 1

    # ---- 4. bounded exhaustive enumeration over the specification's alphabet -----------------------
    enum_fail = 0
    for r in enum_res["fails"]:
        enum_fail += 1
        judge.failure("enumerated", unb64(r["b64"]), r["class"], r["det"])
    for r, confirmed in enum_res["hangs"]:
        if confirmed:
            judge.failure("enumerated", unb64(r["b64"]), "hang", r["why"])
        else:
            ctx.notes.append("watchdog fired once for %r but the input terminated on the second attempt" % unb64(r["b64"]))
    if enum_res["crash"]:
        judge.report("crash:enumeration", "the process died during the enumeration of short byte strings: %s" % enum_res["crash"][-300:],
                     {"kind": "enum", "stderr": enum_res["crash"]})
    enum_summary = enum_res["summary"]
    if enum_summary:
        trace.append({"k": "enum", "kk": enum_summary["k"], "maxlen": enum_summary["maxlen"], "count": enum_summary["count"] + enum_summary["skipped"],
                      "alphabet": enum_summary["alphabet"]})
    elif not judge.counter:
        raise lib.Inconclusive("the enumeration did not finish")
    else:
        # failures were observed and are reported; the enumeration is abandoned instead of waiting for every hanging string
        ctx.notes.append("enumeration abandoned at index %d after %d hangs / a crash" % (enum_res["next"], len(enum_res["hangs"])))
        enum_summary = {"k": len(consts["alphabet"]), "maxlen": maxlen, "count": enum_res["next"], "accepted": 0, "digest": "incomplete", "skipped": 0}

    # ---- 5. deep nesting (directed by DeepFamilies; replayed above) -------------------------------
    deep_ok = 0
    for i, c in enumerate(dcases):
        o = drecs.get(i)
        if o is None:
            continue
        b = o["base"]
        fam = c["id"].rsplit("-", 1)[0]
        if b["panic"]:
            judge.report("panic:%s" % top_frame(b["panic"]), "panic on %s (%d nested `%s`): %s" % (c["id"], c["n"], c["open"], b["panic"][:300]), {"kind": "case", "case": c})
        elif b["oob"]:
            judge.report("oob:%s" % fam, "out-of-range reference on %s: %s" % (c["id"], b["oob"]), {"kind": "case", "case": c})
        elif b["acc"] and b["rt"] != "ok":
            judge.report("rt-deep:%s:%s" % (fam, b["rt"]), "round trip of a deeply nested document fails: %s %s" % (c["id"], b["rtd"][:300]), {"kind": "case", "case": c})
        else:
            deep_ok += 1
        for lr in o["lims"]:
            if lr["acc"] and fam in ("deep-selection-set", "deep-inline-fragment") and c["n"] > 50:
                judge.report("limits:depth:%s" % fam, "MaxDepth=50 accepted a selection nesting of %d" % c["n"], {"kind": "case", "case": c})
    for idx, kind, det in dinc:
        if kind == "abandoned":
            continue
        c = dcases[idx]
        fam = c["id"].rsplit("-", 1)[0]
        if kind == "hang":
            judge.report("hang:%s" % fam, "no return within 120 s for %s (input of %d bytes)" % (c["id"], c["n"] * len(c["open"] + c["close"])), {"kind": "case", "case": c})
        else:
            so = "stack overflow" in det["stderr"] or "goroutine stack exceeds" in det["stderr"]
            judge.report("crash:%s:%s" % ("stack-overflow" if so else "fatal", fam),
                         "the process died (%s, recover() cannot intercept it) while parsing %s: %d nested `%s`" % (
                             "fatal error: stack overflow" if so else "fatal error", c["id"], c["n"], c["open"]),
                         {"kind": "case", "case": c, "stderr": det["stderr"][:600]})

    judge.flush()

    # ---- 6. TLC validation -------------------------------------------------------------------------
    unsound, disagree, valuediff, nonconform = validate(ctx, trace)
    for u in nonconform:
        i, lr = line_of[u["line"]]
        d = docs[i]
        if u["decision"]:
            key = "limits:accounting:decision-differs-from-model:%s" % ("accepted" if lr["acc"] else "rejected")
            what = ("ParseWithLimits(MaxDepth=%d, MaxFields=%d) %s a document for which the specification of the accounting (cumulative depth %d, "
                    "%d counted identifiers) decides otherwise: %s" % (lr["L"], lr["F"], "accepted" if lr["acc"] else "rejected", u["modelD"], u["modelF"], d["text"][:200]))
        else:
            key = "limits:accounting:statistics-differ-from-model"
            what = "ParseWithLimits without limits reports TotalDepth=%d TotalFields=%d, the specification of the accounting gives %d / %d: %s" % (
                lr["statD"], lr["statF"], u["modelT"], u["modelF"], d["text"][:200])
        judge.report(key, what, {"kind": "limits", "text": d["text"], "toks": d["toks"], "L": lr["L"], "F": lr["F"], "depth": d["depth"],
                                 "idepth": d["idepth"], "fields": d["fields"], "nmut": d["nmut"], "counterfactuals": {}})
    for u in valuediff:
        i, info = line_of[u["line"]]
        judge.value_changed(docs[i], info)
    seen = set()
    for u in unsound:
        i, lr = line_of[u["line"]]
        d = docs[i]
        sig = (d["text"], lr["L"], lr["F"])
        if sig in seen:
            continue
        seen.add(sig)
        if (u["depth"], u["idepth"], u["fields"]) != (d["depth"], d["idepth"], d["fields"]):
            raise lib.Inconclusive("validation and generation disagree about the numbers of %s" % d["text"][:100])
        judge.limits(d, lr["L"], lr["F"], u["syntactic"])
    judge.flush_limits()
    for u in disagree:
        i, _ = line_of[u["line"]]
        d = docs[i]
        judge.report("parse-disagrees:%s" % lib.sha(d["text"])[:8],
                     "the accepted document has %d fields / depth %d, the document that was written has %d / %d: %s" % (
                         u["astF"], u["astD"], u["fields"], u["depth"], d["text"][:200]),
                     {"kind": "text", "text": d["text"], "b64": b64(d["text"]), "class": "parse-disagrees", "detail": ""})

    # ---- evidence ----------------------------------------------------------------------------------
    nontrivial = [d for d in docs if len(d["toks"]) >= 6]
    roles_kw = {(t["r"], t["s"].lstrip("$")) for d in docs for t in d["toks"] if t["s"].lstrip("$") in consts["softkw"] and t["r"] not in ("kw_op", "kw_frag", "kw_on")}
    sample = rng.sample(docs, min(3, len(docs)))
    ctx.coverage.update({
        "traces_validated_against_impl": len(trace),
        "evaluations": len(docs) + stats["mutants"] + stats["variants"] + stats["lim_obs"] + enum_summary["count"] + len(dcases),
        "distinct_nontrivial": len({d["text"] for d in nontrivial}),
        "rule": "one case = one TLC-generated document (distinct by text) replayed with 4 spellings, all its single-token mutants and its (L,F) "
                "pairs; non-trivial = at least 6 tokens; short byte strings and deep-nesting inputs are counted in `evaluations` only; "
                "traces_validated = observation lines (documents, ParseWithLimits calls, the enumeration summary) judged by TLC",
        "documents": {"generated": len(docs), "by_generator": gen_runs, "accepted": stats["accepted"], "round_trip_ok": stats["rt_ok"],
                      "rejected_although_valid": stats["valid_rejected"], "rejected_samples": rejected_samples,
                      "type_system_documents_the_independent_parser_rejects": stats["gq_rejected"]},
        "mutants": {"evaluated": stats["mutants"], "accepted": stats["mutants_accepted"]},
        "spelling_variants": stats["variants"],
        "limits": {"observations": stats["lim_obs"], "unsound": len(unsound), "rejected_below_limit_(overcount,allowed)": stats["overcount_rejections"],
                   "TotalFields_as_repaired_accounting_model": stats["model_stats_match_repaired"],
                   "TotalFields_only_as_pinned_accounting_model": stats["model_stats_match"], "TotalFields_as_neither": stats["model_stats_differ"]},
        "enumeration": {"alphabet_symbols": enum_summary["k"], "maxlen": enum_summary["maxlen"], "strings": enum_summary["count"],
                        "accepted": enum_summary["accepted"], "failures": enum_fail, "digest": enum_summary["digest"]},
        "deep_nesting": {"cases": len(dcases), "ok": deep_ok, "depths": depths},
        "soft_keyword_role_pairs_covered": len(roles_kw),
        "failure_keys": judge.counter,
        "samples": [{"text": d["text"][:300], "depth": d["depth"], "idepth": d["idepth"], "fields": d["fields"], "lims": d["lims"][:4]} for d in sample],
        "invariants_on_traces": ["LimitsSound", "ParseAgrees"],
        "exhaustive": False,
    })
    ctx.assumptions += [
        "totality over all byte strings is covered by bounded enumeration (<= %d symbols of the spec's %d-symbol alphabet), token-level mutants of "
        "generated documents and directed deep-nesting inputs only" % (maxlen, enum_summary["k"]),
        "real depth = deepest selection nesting with fragment spreads followed (InlinedDepth); field count = Field selections in the document; "
        "limit 0 = no limit (API documentation)",
        "vektah/gqlparser cross-checks the generator (validity, field count, depth); a disagreement is INCONCLUSIVE",
        "shape = hand-written structural dump of ast.Document; block strings compared by the specification's BlockStringValue()",
    ]


def replay(ctx, binary):
    """bin/check C05 --replay <file>: run the recorded case again on the real code and judge it the same way."""
    with open(ctx.replay_in) as f:
        rp = json.load(f)
    case, key = rp["case"], rp["key"]
    judge = Judge(ctx, binary)
    if case["kind"] == "limits":
        recs, _ = run_driver(ctx, binary, [{"id": "replay", "kind": "text", "b64": b64(case["text"]), "lims": [[case["L"], case["F"]]]}], "replay")
        lr = recs[0]["lims"][0]
        trace = [{"k": "doc", "toks": case["toks"], "text": case["text"], "depth": case["depth"], "idepth": case["idepth"], "fields": case["fields"],
                  "nmut": case["nmut"], "nmutSeen": 0, "acc": recs[0]["base"]["acc"], "astF": recs[0]["base"]["astF"], "astD": recs[0]["base"]["astD"]},
                 {"k": "lim", "L": lr["L"], "F": lr["F"], "acc": lr["acc"], "statD": lr["statD"], "statF": lr["statF"],
                  "dacc": recs[0]["base"]["acc"], "chk": True}, {"k": "end"}]
        tp = ctx.path("replay-trace.ndjson")
        lib.write_ndjson(tp, trace)
        v = ctx.tlc("core", "Trace_GQLGrammar", "Trace_GQLGrammar_strict.cfg", workers=1, env={"TRACE": tp}, timeout=600, deadlock=False, count=False,
                    tag="replay-strict")
        if v.violated in ("LimitsSound", "DecisionConforms", "StatsConform"):
            ctx.violation(key, "reproduced (%s): %s" % (v.violated, rp["what"]), case)
        elif v.ok:
            print("NOT REPRODUCED: ParseWithLimits(%d,%d) accepted=%s satisfies LimitsSound" % (lr["L"], lr["F"], lr["acc"]))
        else:
            raise lib.Inconclusive("replay validation failed: %s" % v.error)
    elif case["kind"] == "value":
        recs, _ = run_driver(ctx, binary, [{"id": "replay", "kind": "text", "b64": b64(case["text"]), "lit": True}], "replay")
        b = recs[0]["base"]
        sp = case["toks"][case["tok"]]["s"]
        strings = [j for j, t in enumerate(case["toks"]) if t["s"].startswith('"')]
        pb = (b["print"] if case["mode"] == "compact" else b["printI"]).encode()
        outs = [(k, pb[s0:e0]) for k, s0, e0 in lex(pb) if k in ("str", "block")]
        if not b["acc"] or len(outs) != len(strings):
            print("NOT REPRODUCED as a value change: accepted=%s, %d literals printed for %d" % (b["acc"], len(outs), len(strings)))
        else:
            k, ob = outs[strings.index(case["tok"])]
            blk, oblk = sp.startswith('"""'), k == "block"
            src = sp[3:-3] if blk else sp[1:-1]
            out = (ob[3:-3] if oblk else ob[1:-1]).decode("utf-8", "replace")
            trace = [{"k": "doc", "toks": case["toks"], "text": case["text"], "depth": case["depth"], "idepth": case["idepth"], "fields": case["fields"],
                      "nmut": case["nmut"], "nmutSeen": 0, "acc": True, "astF": b["astF"], "astD": b["astD"]},
                     {"k": "lit", "tok": case["tok"] + 1, "len": len(sp), "blk": blk, "src": [ord(c) for c in src], "oblk": oblk, "out": [ord(c) for c in out]},
                     {"k": "end"}]
            tp = ctx.path("replay-trace.ndjson")
            lib.write_ndjson(tp, trace)
            v = ctx.tlc("core", "Trace_GQLGrammar", "Trace_GQLGrammar_strict.cfg", workers=1, env={"TRACE": tp}, timeout=600, deadlock=False, count=False,
                        tag="replay-strict")
            if v.violated == "PrintPreservesValue":
                ctx.violation(key, "reproduced: " + rp["what"], case)
            elif v.ok:
                print("NOT REPRODUCED: the printed literal %r denotes the same value as %r" % (ob.decode("utf-8", "replace"), sp))
            else:
                raise lib.Inconclusive("replay validation failed: %s" % v.error)
    elif case["kind"] == "text":
        recs, inc = run_driver(ctx, binary, [{"id": "replay", "kind": "text", "b64": case["b64"]}], "replay")
        if inc:
            ctx.violation(key, "reproduced (%s): %s" % (inc[0][1], rp["what"]), case)
        else:
            b = recs[0]["base"]
            bad = b["panic"] or b["oob"] or (b["acc"] and b["rt"] != "ok")
            if bad:
                ctx.violation(key, "reproduced (%s %s): %s" % (b["panic"][:80] or b["oob"] or b["rt"], b["rtd"][:200], rp["what"][:300]), case)
            else:
                print("NOT REPRODUCED: accepted=%s round trip=%s" % (b["acc"], b["rt"]))
    elif case["kind"] == "case":
        recs, inc = run_driver(ctx, binary, [case["case"]], "replay", extra=["-watchdog", "120s"])
        b = recs.get(0, {}).get("base", {})
        if inc or b.get("panic") or b.get("oob") or (b.get("acc") and b.get("rt") != "ok"):
            ctx.violation(key, "reproduced: " + rp["what"][:400], case)
        else:
            print("NOT REPRODUCED")
    else:
        raise lib.Inconclusive("unknown replay kind %r" % case["kind"])
    ctx.coverage.update({"traces_validated_against_impl": 1, "evaluations": 1, "distinct_nontrivial": 1, "rule": "replay of one recorded case",
                         "samples": [{"key": key}], "exhaustive": False})
