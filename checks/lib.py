"""Shared machinery for the /verif checks.

Every property check is a python module `checks/cNN.py` exposing `run(ctx)`.
`bin/check CNN --tier quick|thorough` builds a Ctx, calls run(ctx) and turns the
result into: evidence/<id>.json, VIOLATION / KNOWN-FINDING lines, exit code.

Exit codes:  0 = property held on everything explored (known findings are printed)
             1 = at least one violation observed on the real code that is not a listed finding
             2 = INCONCLUSIVE (infrastructure problem: build failed, TLC timeout, dead driver...)
Verdict rule (DESIGN.md §0): VIOLATION only for behaviour observed on the real code.
"""
import hashlib
import json
import os
import re
import shutil
import subprocess
import sys
import tempfile
import time

VERIF = os.path.dirname(os.path.dirname(os.path.abspath(__file__)))
REPO = os.environ.get("VERIF_REPO", "/repo")
SPEC = os.path.join(VERIF, "spec")
HARNESS = os.path.join(VERIF, "harness")
BUILD = os.path.join(VERIF, ".build")
EVIDENCE = os.path.join(VERIF, "evidence")
REPLAY = os.path.join(VERIF, "replay")
KNOWN = os.path.join(VERIF, "known-findings.json")
TLA_CP = "/opt/veriftools/tla/tla2tools.jar:/opt/veriftools/tla/CommunityModules-deps.jar"
NCPU = os.cpu_count() or 4


class Inconclusive(Exception):
    pass


def go_env():
    env = dict(os.environ)
    env["GOFLAGS"] = "-mod=mod"
    env["GOPROXY"] = "off"
    # GOSUMDB must stay unset: setting it to off breaks the offline toolchain switch to go1.25.0
    env.pop("GOSUMDB", None)
    env.pop("GOTOOLCHAIN", None)
    env["GOWORK"] = "off"
    return env


class TLCResult:
    def __init__(self):
        self.rc = None
        self.out = ""
        self.generated = 0
        self.distinct = 0
        self.ok = False  # "No error has been found"
        self.error = None  # first "Error: ..." line
        self.violated = None  # name of violated invariant / property
        self.printed = []  # decoded values of PrintT(ToJson(..)) lines
        self.wall = 0.0
        self.depth = 0

    def __repr__(self):
        return "TLCResult(rc=%s ok=%s gen=%d distinct=%d err=%r printed=%d wall=%.1fs)" % (
            self.rc, self.ok, self.generated, self.distinct, self.error, len(self.printed), self.wall)


_STATES_RE = re.compile(r"(\d+) states generated, (\d+) distinct states found")
_DEPTH_RE = re.compile(r"The depth of the complete state graph search is (\d+)")
_VIOL_RE = re.compile(r"Error: (?:Invariant|Action property|Temporal property|Property) (\S+) is violated")


class Ctx:
    def __init__(self, prop, tier, seed, replay=None):
        self.prop = prop
        self.tier = tier
        self.seed = seed
        self.replay_in = replay
        self.t0 = time.time()
        self.scratch = tempfile.mkdtemp(prefix="verif-%s-" % prop.lower())
        self.violations = []  # (key, what, replay path)
        self.known_hits = []
        self.coverage = {}
        self.assumptions = []
        self.level = "model_checking"
        self.states = 0
        self.transitions = 0
        self.tlc_runs = []
        self._known = None
        self.notes = []

    # ---------------------------------------------------------------- utilities
    def log(self, *a):
        print("[%s %6.1fs]" % (self.prop, time.time() - self.t0), *a, flush=True)

    def quick(self):
        return self.tier == "quick"

    def cleanup(self):
        shutil.rmtree(self.scratch, ignore_errors=True)

    def path(self, *p):
        return os.path.join(self.scratch, *p)

    # ---------------------------------------------------------------- go build / run
    def build(self, cmd, tags="verif"):
        """Build harness/cmd/<cmd> against /repo's current working tree; returns the binary path."""
        build_dir = BUILD
        modargs = []
        if os.path.realpath(REPO) != "/repo":
            # mutant / seeded-change testing: build against another checkout (VERIF_REPO=<worktree>) without touching /repo
            tag = hashlib.sha1(os.path.realpath(REPO).encode()).hexdigest()[:8]
            build_dir = BUILD + "-" + tag
            os.makedirs(build_dir, exist_ok=True)
            alt = os.path.join(build_dir, "go.alt.mod")
            with open(os.path.join(HARNESS, "go.mod")) as f:
                mod = f.read().replace("=> /repo/", "=> %s/" % os.path.realpath(REPO))
            with open(alt, "w") as f:
                f.write(mod)
            shutil.copy(os.path.join(HARNESS, "go.sum"), os.path.join(build_dir, "go.alt.sum"))
            modargs = ["-modfile=" + alt]
        os.makedirs(build_dir, exist_ok=True)
        out = os.path.join(build_dir, cmd)
        args = ["go", "build"] + modargs + ["-o", out]
        if tags:
            args += ["-tags", tags]
        args.append("./cmd/" + cmd)
        t = time.time()
        p = subprocess.run(args, cwd=HARNESS, env=go_env(), stdout=subprocess.PIPE, stderr=subprocess.STDOUT, text=True)
        if p.returncode != 0:
            sys.stdout.write(p.stdout[-4000:])
            raise Inconclusive("go build of harness cmd/%s failed (does /repo compile?)" % cmd)
        self.log("built cmd/%s in %.1fs" % (cmd, time.time() - t))
        return out

    def run_bin(self, binary, args, stdin=None, timeout=1800, env=None, check=True):
        e = dict(os.environ)
        e["VERIF_SEED"] = str(self.seed)
        e["VERIF_TIER"] = self.tier
        if env:
            e.update(env)
        t = time.time()
        try:
            p = subprocess.run([binary] + list(args), input=stdin, stdout=subprocess.PIPE, stderr=subprocess.PIPE,
                               text=True, timeout=timeout, env=e, cwd=self.scratch)
        except subprocess.TimeoutExpired:
            raise Inconclusive("harness %s timed out after %ds" % (os.path.basename(binary), timeout))
        except OSError as ex:
            raise Inconclusive("harness %s could not be started: %s" % (os.path.basename(binary), ex))
        self.log("ran %s %s rc=%d in %.1fs" % (os.path.basename(binary), " ".join(args)[:120], p.returncode, time.time() - t))
        if check and p.returncode != 0:
            sys.stdout.write(p.stdout[-3000:])
            sys.stdout.write(p.stderr[-6000:])
            raise Inconclusive("harness %s exited %d" % (os.path.basename(binary), p.returncode))
        return p

    # ---------------------------------------------------------------- TLC
    def tlc(self, spec_dirs, module, cfg, workers=None, simulate=None, depth=None, env=None, timeout=900,
            deadlock=True, heap="8g", extra=None, seed=None, dfs=False, count=True, tag=None):
        """Run TLC on <module>.tla with <cfg> (both looked up in the copied spec dirs).

        spec_dirs: list of directories under /verif/spec whose *.tla/*.cfg are copied flat into a
        fresh scratch directory (TLC litters its cwd). Returns TLCResult.
        """
        if isinstance(spec_dirs, str):
            spec_dirs = [spec_dirs]
        wd = tempfile.mkdtemp(prefix="tlc-", dir=self.scratch)
        for d in spec_dirs:
            src = d if os.path.isabs(d) else os.path.join(SPEC, d)
            for f in os.listdir(src):
                if f.endswith(".tla") or f.endswith(".cfg"):
                    shutil.copy(os.path.join(src, f), os.path.join(wd, f))
        # java.io.tmpdir inside the scratch dir: TLC leaves an (empty) tlc-<n> directory there on every run
        jopts = ["-XX:+UseParallelGC", "-Xmx" + heap, "-Xss64m", "-Djava.io.tmpdir=" + wd]
        if dfs:
            jopts.append("-Dtlc2.tool.queue.IStateQueue=StateDeque")
        args = ["java"] + jopts + ["-cp", TLA_CP, "tlc2.TLC", "-metadir", os.path.join(wd, "meta"),
                                   "-config", cfg, "-workers", str(workers or NCPU)]
        if not deadlock:
            args.append("-deadlock")
        if simulate:
            args += ["-simulate", "num=%d" % simulate]
            if depth:
                args += ["-depth", str(depth)]
        if seed is not None:
            args += ["-seed", str(seed)]
        if extra:
            args += extra
        args.append(module)
        e = dict(os.environ)
        e.pop("JAVA_TOOL_OPTIONS", None)
        if env:
            e.update({k: str(v) for k, v in env.items()})
        r = TLCResult()
        t = time.time()
        try:
            p = subprocess.run(args, cwd=wd, env=e, stdout=subprocess.PIPE, stderr=subprocess.STDOUT, text=True, timeout=timeout)
            r.rc = p.returncode
            r.out = p.stdout
        except subprocess.TimeoutExpired as ex:
            r.rc = -9
            r.out = (ex.stdout or b"").decode("utf-8", "replace") if isinstance(ex.stdout, bytes) else (ex.stdout or "")
            r.error = "timeout after %ds" % timeout
        r.wall = time.time() - t
        for line in r.out.splitlines():
            m = _STATES_RE.search(line)
            if m:
                r.generated, r.distinct = int(m.group(1)), int(m.group(2))
            m = _DEPTH_RE.search(line)
            if m:
                r.depth = int(m.group(1))
            if line.startswith("Error:") and r.error is None:
                r.error = line.strip()
            m = _VIOL_RE.search(line)
            if m and r.violated is None:
                r.violated = m.group(1)
            if "No error has been found" in line or (simulate and "Progress:" in line and False):
                r.ok = True
            if line.startswith('"') and line.rstrip().endswith('"'):
                try:
                    s = json.loads(line)
                    if isinstance(s, str) and s[:1] in "{[":
                        r.printed.append(json.loads(s))
                except Exception:
                    pass
        if simulate and r.error is None and r.rc == 0:
            r.ok = True
        if count:
            self.states += r.distinct
            self.transitions += r.generated
        self.tlc_runs.append({"module": module, "cfg": cfg, "tag": tag, "generated": r.generated, "distinct": r.distinct,
                              "ok": r.ok, "error": r.error, "wall_s": round(r.wall, 1),
                              "mode": "simulate" if simulate else "bfs"})
        self.log("tlc %s/%s: rc=%s ok=%s generated=%d distinct=%d printed=%d %.1fs %s" % (
            module, cfg, r.rc, r.ok, r.generated, r.distinct, len(r.printed), r.wall, r.error or ""))
        r.workdir = wd
        return r

    def tlc_must_pass(self, *a, **kw):
        """Model-check; a failure here is a *model-level* problem => INCONCLUSIVE, never a violation."""
        r = self.tlc(*a, **kw)
        if not r.ok:
            sys.stdout.write(r.out[-5000:])
            raise Inconclusive("TLC did not pass on %s (%s) — model-level problem, not a verdict about the code" % (
                a[1] if len(a) > 1 else kw.get("module"), r.error))
        return r

    # ---------------------------------------------------------------- findings / verdicts
    def known(self):
        if self._known is None:
            try:
                with open(KNOWN) as f:
                    self._known = json.load(f).get("findings", [])
            except FileNotFoundError:
                self._known = []
        return self._known

    def violation(self, key, what, replay_obj):
        """Report a violation observed on the real code. `key` is the canonical signature of the failing case;
        if it matches an *open* entry of known-findings.json for this property it is a KNOWN-FINDING."""
        for k in self.known():
            if k.get("property") == self.prop and k.get("status") == "open" and _key_match(k.get("key"), key):
                if k["key"] not in [h[0] for h in self.known_hits]:
                    self.known_hits.append((k["key"], k.get("what", what)))
                    print("KNOWN-FINDING: property=%s %s [%s]" % (self.prop, k.get("what", what), k["key"]), flush=True)
                return False
        os.makedirs(REPLAY, exist_ok=True)
        h = hashlib.sha1(("%s|%s" % (key, json.dumps(replay_obj, sort_keys=True, default=str))).encode()).hexdigest()[:12]
        path = os.path.join(REPLAY, "%s-%s.json" % (self.prop, h))
        with open(path, "w") as f:
            json.dump({"property": self.prop, "key": key, "what": what, "tier": self.tier, "seed": self.seed,
                       "case": replay_obj}, f, indent=1, default=str)
        if len(self.violations) < 25:
            print("VIOLATION property=%s replay=%s" % (self.prop, path), flush=True)
            print("  what: %s" % what[:600], flush=True)
        self.violations.append((key, what, path))
        return True

    # ---------------------------------------------------------------- evidence
    def finish(self):
        cov = dict(self.coverage)
        if self.level == "model_checking":
            cov.setdefault("states", self.states)
            cov.setdefault("transitions", self.transitions)
            cov.setdefault("traces_validated_against_impl", 0)
        cov.setdefault("samples", [])
        cov["tlc_runs"] = self.tlc_runs
        cov["known_findings_hit"] = [k for k, _ in self.known_hits]
        if self.notes:
            cov["notes"] = self.notes
        ev = {
            "property_id": self.prop,
            "tier": self.tier,
            "seed": self.seed,
            "level": self.level,
            "coverage": cov,
            "assumptions": self.assumptions,
            "wall_s": round(time.time() - self.t0, 2),
            "violations": len(self.violations),
        }
        os.makedirs(EVIDENCE, exist_ok=True)
        with open(os.path.join(EVIDENCE, self.prop + ".json"), "w") as f:
            json.dump(ev, f, indent=1, default=str)
            f.write("\n")
        return 1 if self.violations else 0


def _key_match(pattern, key):
    if pattern is None:
        return False
    if pattern == key:
        return True
    if pattern.endswith("*") and key.startswith(pattern[:-1]):
        return True
    return False


def sha(obj):
    return hashlib.sha1(json.dumps(obj, sort_keys=True, default=str).encode()).hexdigest()[:16]


def read_ndjson(path):
    out = []
    with open(path) as f:
        for line in f:
            line = line.strip()
            if line:
                out.append(json.loads(line))
    return out


def write_ndjson(path, rows):
    with open(path, "w") as f:
        for r in rows:
            f.write(json.dumps(r, separators=(",", ":")))
            f.write("\n")


def main(argv):
    import argparse
    import importlib
    ap = argparse.ArgumentParser()
    ap.add_argument("prop")
    ap.add_argument("--tier", default=os.environ.get("VERIF_TIER", "quick"), choices=["quick", "thorough"])
    ap.add_argument("--seed", type=int, default=int(os.environ.get("VERIF_SEED", "1") or "1"))
    ap.add_argument("--replay", default=None)
    ap.add_argument("--keep", action="store_true", help="keep the scratch directory")
    a = ap.parse_args(argv)
    prop = a.prop.upper()
    ctx = Ctx(prop, a.tier, a.seed, a.replay)
    sys.path.insert(0, os.path.join(VERIF, "checks"))
    rc = 2
    try:
        mod = importlib.import_module(prop.lower())
        mod.run(ctx)
        rc = ctx.finish()
        if rc == 0:
            print("OK property=%s tier=%s seed=%d wall=%.1fs known_findings=%d" % (
                prop, a.tier, a.seed, time.time() - ctx.t0, len(ctx.known_hits)))
    except Inconclusive as e:
        print("INCONCLUSIVE property=%s %s" % (prop, e), flush=True)
        rc = 2
    except Exception as e:  # a bug / environment problem in the machinery is never a verdict about the code
        import traceback
        traceback.print_exc()
        print("INCONCLUSIVE property=%s internal error in the check: %r" % (prop, e), flush=True)
        rc = 2
    finally:
        if a.keep:
            print("scratch kept at", ctx.scratch)
        else:
            ctx.cleanup()
    return rc
