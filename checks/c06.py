"""C06 — Variable validation accepts exactly the coercible variable values.

Pipeline (DESIGN.md §5 C06, design.d/C06.md):
  1. TLC model-checks the laws of GQLCoerce!Coercible / Errs / AcceptVars over the whole generated case
     space (INVARIANTS of Gen_Coerce_*.cfg: ErrsAgree, NonNullLaw, ListLaw, ItemLaw, NumLaw, GoodBad, AbsentLaw,
     ExtraLaw) and the examples of the GraphQL specification text (ASSUMEs in GQLCoerce.tla).
  2. The same run enumerates the cases (Gen_Coerce: variable type x default mode x value from the menus x
     shape of the "variables" member, two-variable operations) with the verdict the specification prescribes.
  3. harness/cmd/vars replays every case into the real code, seven observers per case:
       engine  ExecutionEngine.Execute against a recording subgraph (accepted <=> no error and request sent)
       val     VariablesValidator.ValidateWithRemap after the engine's normalization steps
       valq    the same with DisableExposingVariablesContent
       engl / engp   ONE long-lived engine executes every case twice, as it arrives and normalized by the caller first
               (graphql.Request.Normalize, then Execute, which branches on IsNormalized()); the 2N requests are interleaved
               in a seed-shuffled order (history independence of the whole engine, judged by the same invariants)
       vall / vallq  the same two, but ONE long-lived validator instance each validates the whole sequence of cases in a
               seed-shuffled order (history independence: the acceptor has no state, so these lines are judged by the
               same invariants as those of a fresh validator)
  4. TLC validates the observations (Trace_Coerce): the case is echoed in every line, the verdict is
     recomputed by the specification:  accepted <=> AcceptVars (both directions), a rejection names an
     offending variable and position, no sentinel of a variable value is echoed when exposure is disabled.
     First a judge pass that prints every disagreeing line (all are reported, known findings by key),
     then the strict INVARIANT pass over all remaining lines, which has to succeed.
"""
import json
import os
import random
import re
from concurrent.futures import ThreadPoolExecutor

import lib

TRACE_FIELDS = ("id", "case", "who", "acc", "expose", "nq", "q", "leak")
WHOS = ("engine", "val", "valq", "vall", "vallq", "engl", "engp")


def case_id(case):
    return lib.sha(case)


def slug(msg):
    """Message class: the explanation part of the message without quoted content and numbers."""
    m = msg
    if "; " in m:
        m = m.split("; ")[-1]
    m = re.sub(r'"[^"]*"', " ", m)
    m = re.sub(r"[0-9]+", " ", m)
    words = re.findall(r"[A-Za-z]+", m)
    return "-".join(w.lower() for w in words)[:70] or "empty"


def generate(ctx, cfg, tag):
    """One TLC run: the laws of the definition are INVARIANTS of the generator's state graph (a failure is a model-level
    problem => INCONCLUSIVE), the CONSTRAINT prints every case with the verdict the specification prescribes."""
    g = ctx.tlc_must_pass("core", "Gen_Coerce", cfg, workers=6, timeout=2400, deadlock=False, tag=tag)
    header = None
    cases = {}
    for o in g.printed:
        if "header" in o:
            header = o
        elif "case" in o:
            c = dict(o["case"])
            c.pop("stage", None)
            cases[case_id(c)] = {"id": case_id(c), "case": c, "expected": o["expected"]}
    if header is None or not cases:
        raise lib.Inconclusive("generator %s printed no header / no cases" % cfg)
    # every level-2 state of the generator is one case: nothing was lost between TLC's stdout and here
    if len(cases) + header["header"]["ninit"] != g.distinct:
        raise lib.Inconclusive("generator %s: %d cases parsed, %d states found" % (cfg, len(cases), g.distinct))
    return header, cases


def nontrivial(c):
    """A case counts as non-trivial if the specification rejects it or a value with structure is involved."""
    if not c["expected"]["accept"]:
        return True
    return any(v["val"]["t"] in ("l", "o") for v in c["case"]["vars"])


def replay(ctx, binary, header, cases, name):
    cp = ctx.path("cases-%s.ndjson" % name)
    op = ctx.path("obs-%s.ndjson" % name)
    rows = [header] + [{"id": c["id"], "case": c["case"]} for c in cases]
    lib.write_ndjson(cp, rows)
    ctx.run_bin(binary, ["-in", cp, "-out", op, "-workers", "8"], timeout=3000)
    obs = lib.read_ndjson(op)
    by = {}
    for o in obs:
        by.setdefault(o["id"], {})[o["who"]] = o
    for c in cases:
        got = by.get(c["id"], {})
        if sorted(got) != sorted(WHOS):
            raise lib.Inconclusive("driver returned observers %s for case %s" % (sorted(got), c["id"]))
        for o in got.values():
            if o["case"] != c["case"]:
                raise lib.Inconclusive("driver did not echo case %s unchanged" % c["id"])
    return obs


def tlc_trace(ctx, cfg, rows, tag):
    cfg = cfg.replace(".cfg", CFG_SFX.get(ctx._c06_cat, "") + ".cfg")
    """Run Trace_Coerce with cfg over rows (chunked, chunks in parallel); returns list of TLCResult."""
    if not rows:
        return []
    chunk = 12000
    parts = [rows[i:i + chunk] for i in range(0, len(rows), chunk)]

    def one(ip):
        i, part = ip
        path = ctx.path("trace-%s-%d.ndjson" % (tag, i))
        lib.write_ndjson(path, [{k: r[k] for k in TRACE_FIELDS} for r in part])
        return ctx.tlc("core", "Trace_Coerce", cfg, workers=1, env={"TRACE": path}, timeout=2400, deadlock=False,
                       count=False, tag="%s-%d" % (tag, i), heap="4g")

    with ThreadPoolExecutor(max_workers=6) as ex:
        return list(ex.map(one, enumerate(parts)))


CFG_SFX = {1: "", 2: "_c2"}  # configuration files of the two catalog schemas
PER_KEY = 2  # replay files / VIOLATION lines per distinct key (the rest is counted)


def violation(ctx, key, what, rep):
    seen = ctx.coverage.setdefault("disagreements_by_key", {})
    seen[key] = seen.get(key, 0) + 1
    if seen[key] <= PER_KEY:
        ctx.violation(key, what, rep)
    elif not any(lib._key_match(k.get("key"), key) for k in ctx.known() if k.get("property") == ctx.prop and k.get("status") == "open"):
        ctx.violations.append((key, what, None))  # counted, no further replay file


def panic_key(o):
    m = re.match(r"panic at (\S+): (.*)", o["msg"])
    return "panic:%s:%s" % (m.group(1).split(".")[-1], slug(m.group(2))) if m else "panic:?:" + slug(o["msg"])


def load_local_findings(ctx):
    """findings.d/C06.json is the fragment the coordinator merges into known-findings.json; it is authoritative for this
    property (VERIF_C06_FINDINGS selects another fragment, e.g. findings.d/C06.json.after-fix on a tree with the fixes)."""
    path = os.environ.get("VERIF_C06_FINDINGS") or os.path.join(lib.VERIF, "findings.d", "C06.json")
    known = ctx.known()
    try:
        with open(path) as f:
            local = json.load(f)
    except FileNotFoundError:
        return
    keys = {k.get("key") for k in local}
    known[:] = [k for k in known if not (k.get("property") == ctx.prop and k.get("key") in keys)] + local


def report(ctx, header, cases_by_id, o, v):
    """One disagreeing observation (o) with the verdict record TLC printed for it (v)."""
    c = cases_by_id[o["id"]]
    rep = {"header": header, "case": c["case"], "id": o["id"], "who": o["who"], "query": o["query"], "variables": o["vars"],
           "observed": {"accepted": o["acc"], "message": o["msg"], "stage": o["stage"], "forwarded": o.get("sent", ""),
                        "response": o.get("resp", "")},
           "spec": {"accept": v["want"], "offending_paths": v["errs"], "kinds": v["kinds"]}}
    req = "query=%s variables=%s" % (o["query"], o["vars"] if c["case"]["vm"] != "none" else "<no variables member>")
    at = "" if c["case"]["pos"] == "same" else "/" + c["case"]["pos"]  # where the variable is used, part of every key
    if o["stage"] == "panic":
        violation(ctx, panic_key(o), "panic in the variables pipeline (%s): %s; %s" % (o["who"], o["msg"][:200], req), rep)
        return
    if not v["acceptOK"]:
        if o["acc"]:
            for k in sorted(v["kinds"]):
                violation(ctx, "accept:%s%s:%s" % (k, at, o["who"]),
                              "%s ACCEPTED variables that are not coercible (%s at %s); %s; forwarded=%s" % (
                                  o["who"], k, ",".join(v["errs"]), req, o.get("sent", "")[:300]), rep)
        else:
            violation(ctx, "reject%s:%s:%s:%s" % (at, slug(o["msg"]), o["stage"], o["who"]),
                          "%s REJECTED coercible variables at stage %s: %s; %s" % (o["who"], o["stage"], o["msg"][:300], req), rep)
        return
    if not v["noEchoOK"]:
        violation(ctx, "echo:%s" % slug(o["msg"]),
                      "variable content echoed although DisableExposingVariablesContent is set: %s; %s" % (o["msg"][:300], req), rep)
    if not v["namesVarOK"]:
        violation(ctx, "msg:novar%s:%s" % (at, slug(o["msg"])),
                      "rejection (%s, stage %s) does not name the offending variable: %r; %s" % (o["who"], o["stage"], o["msg"][:300], req), rep)
    elif not v["namesPathOK"]:
        names = [x["name"] for x in c["case"]["vars"]]
        pathish = [t for t in o["q"] if any(t.startswith(n + ".") or t.startswith(n + "[") for n in names)]
        kind = "wrongpath" if pathish else "nopath"
        if pathish and any(k.startswith("mixedlist:") for k in v["kinds"]):
            kind = "wrongpath:mixedlist"
        violation(ctx, "msg:%s:%s" % (kind, slug(o["msg"])),
                      "rejection (%s) does not name an offending position (%s; offending: %s): %r; %s" % (
                          o["who"], kind, ",".join(v["errs"]), o["msg"][:300], req), rep)


def validate(ctx, header, cases_by_id, obs, name):
    """judge pass (prints all disagreements) + strict pass over the remaining lines. Returns #lines validated strictly."""
    by_key = {(o["id"], o["who"]): o for o in obs}
    flagged = set()
    nverdicts = 0
    for r in tlc_trace(ctx, "Trace_Coerce_judge.cfg", obs, "judge-" + name):
        if not r.ok:
            print(r.out[-3000:])
            raise lib.Inconclusive("judge pass of the trace specification failed: %s" % r.error)
        for v in r.printed:
            if "acceptOK" not in v:
                continue
            nverdicts += 1
            key = (v["id"], v["who"])
            if key in flagged:
                continue
            flagged.add(key)
            o = by_key[key]
            # consistency of the two TLC runs: the generator's verdict and the trace specification's verdict
            if v["want"] != cases_by_id[o["id"]]["expected"]["accept"]:
                raise lib.Inconclusive("generator and trace specification disagree on case %s" % o["id"])
            report(ctx, header, cases_by_id, o, v)
    # panics are reported even if the relation happens to hold
    for o in obs:
        if o["stage"] == "panic" and (o["id"], o["who"]) not in flagged:
            violation(ctx, panic_key(o), "panic in the variables pipeline (%s): %s; query=%s variables=%s" % (o["who"], o["msg"][:300], o["query"], o["vars"]),
                      {"header": header, "case": cases_by_id[o["id"]]["case"], "id": o["id"], "who": o["who"], "query": o["query"], "variables": o["vars"],
                       "observed": {"accepted": o["acc"], "message": o["msg"], "stage": o["stage"]},
                       "spec": {"accept": cases_by_id[o["id"]]["expected"]["accept"]}})
    rest = [o for o in obs if (o["id"], o["who"]) not in flagged]
    for r in tlc_trace(ctx, "Trace_Coerce.cfg", rest, "strict-" + name):
        if not r.ok:
            print(r.out[-3000:])
            raise lib.Inconclusive("strict pass rejected lines the judge pass had accepted (%s)" % (r.violated or r.error))
    return len(rest), len(flagged)


def vacuity(ctx, header, cases):
    """The generated suite must exercise both verdicts for every variable type (else the check is vacuous)."""
    nt = len(header["header"]["vartypes"])
    seen = {}
    for c in cases:
        for v in c["case"]["vars"]:
            if len(c["case"]["vars"]) == 1:
                seen.setdefault(v["tix"], set()).add(c["expected"]["accept"])
    builtin = ("Int", "Float", "String", "Boolean", "ID")
    for i in range(1, nt + 1):
        t = header["header"]["vartypes"][i - 1]
        if t["k"] == "named" and header["header"]["schema"][t["n"]]["kind"] == "scalar" and t["n"] not in builtin:
            continue  # a nullable custom scalar accepts every value
        if seen.get(i) != {True, False}:
            raise lib.Inconclusive("generated cases for variable type #%d do not contain both verdicts" % i)


def sample_of(o, c):
    return {"query": o["query"], "variables": o["vars"] if c["case"]["vm"] != "none" else None, "who": o["who"],
            "spec_accept": c["expected"]["accept"], "code_accept": o["acc"], "message": o["msg"][:200],
            "forwarded": o.get("sent", "")[:200]}


def run_replay(ctx, binary):
    with open(ctx.replay_in) as f:
        rep = json.load(f)
    case = rep["case"]
    header = case["header"]
    ctx._c06_cat = header["header"].get("cat", 1)
    c = {"id": case_id(case["case"]), "case": case["case"], "expected": {"accept": case["spec"]["accept"]}}
    obs = replay(ctx, binary, header, [c], "replay")
    for o in obs:
        ctx.log("replay %s: accepted=%s stage=%s msg=%r forwarded=%s" % (o["who"], o["acc"], o["stage"], o["msg"][:200], o.get("sent", "")[:200]))
    nvalid, nflag = validate(ctx, header, {c["id"]: c}, obs, "replay")
    ctx.coverage.update({"traces_validated_against_impl": nvalid, "evaluations": len(obs), "distinct_nontrivial": 1,
                         "rule": "replay of one recorded case", "exhaustive": False,
                         "samples": [sample_of(o, c) for o in obs]})


def run(ctx):
    rng = random.Random(ctx.seed)
    quick = ctx.quick()
    load_local_findings(ctx)
    binary = ctx.build("vars")
    if ctx.replay_in:
        return run_replay(ctx, binary)
    base, deep1, deep2 = ("2", "3", "3") if quick else ("3", "4w", "4")  # catalog 2 is too large for the wide depth-4 menus
    chosen, obs, by_id, nvalid, nflag, scope = [], [], {}, 0, 0, []
    sampled = False
    for cat in (1, 2):
        ctx._c06_cat = cat
        sfx = CFG_SFX[cat]
        deep = deep1 if cat == 1 else deep2
        # ---- 1./2. model checking of the laws of the definition over the whole case space + generation ----
        header, all_base = generate(ctx, "Gen_Coerce_%s%s.cfg" % (base, sfx), "mc-laws+gen-D%s-cat%d" % (base, cat))
        _, all_deep = generate(ctx, "Gen_Coerce_%s%s.cfg" % (deep, sfx), "mc-laws+gen-D%s-cat%d" % (deep, cat))
        extra_ids = sorted(set(all_deep) - set(all_base))
        rng.shuffle(extra_ids)
        nextra = (2500 if quick else 30000) if cat == 1 else (1000 if quick else 10000)
        sampled = sampled or len(extra_ids) > nextra
        cs = sorted(all_base.values(), key=lambda c: c["id"]) + [all_deep[i] for i in sorted(extra_ids[:nextra])]
        ctx.log("catalog %d: %d cases exhaustive at menu depth %s + %d of %d further cases of depth %s (seed %d)" % (
            cat, len(all_base), base, min(nextra, len(extra_ids)), len(extra_ids), deep, ctx.seed))
        scope.append("catalog %d: all %d cases of menu depth %s + %d of %d further cases of depth %s" % (
            cat, len(all_base), base, min(nextra, len(extra_ids)), len(extra_ids), deep))
        vacuity(ctx, header, cs)
        ids = {c["id"]: c for c in cs}
        # ---- 3. replay ----
        ob = replay(ctx, binary, header, cs, "main-c%d" % cat)
        # ---- 4. validation ----
        nv, nf = validate(ctx, header, ids, ob, "main-c%d" % cat)
        ctx.log("catalog %d: observations: %d, validated strictly: %d, disagreeing with the specification: %d" % (cat, len(ob), nv, nf))
        chosen += cs
        obs += ob
        by_id.update(ids)
        nvalid += nv
        nflag += nf
    # ---- evidence -------------------------------------------------------------------------------------------
    agree_acc = [o for o in obs if o["who"] == "engine" and o["acc"] and by_id[o["id"]]["expected"]["accept"]]
    agree_rej = [o for o in obs if o["who"] == "engine" and not o["acc"] and not by_id[o["id"]]["expected"]["accept"]]
    if not agree_acc or not agree_rej:
        raise lib.Inconclusive("the engine never accepted / never rejected in agreement with the specification: harness problem")
    samples = []
    for pool in (agree_acc, agree_rej):
        pool = [o for o in pool if nontrivial(by_id[o["id"]])] or pool
        for o in rng.sample(pool, min(2, len(pool))):
            samples.append(sample_of(o, by_id[o["id"]]))
    ctx.coverage.update({
        "traces_validated_against_impl": nvalid,
        "evaluations": len(obs),
        "cases": len(chosen),
        "distinct_nontrivial": len({c["id"] for c in chosen if nontrivial(c)}),
        "rule": "one case = (operation with 1-2 variable definitions incl. default mode and argument position, abstract JSON "
                "value per variable from the menus, shape of the variables member); distinct by hash of the case; "
                "non-trivial = the specification rejects it or a list/object value is involved; each case is observed "
                "seven times (fresh engine lane; fresh validator with / without content exposure; one long-lived validator instance "
                "with / without content exposure over the whole seed-shuffled sequence; one long-lived engine executing every case "
                "as it arrives and caller-normalized, interleaved in a seed-shuffled order) and every observation is one "
                "line validated by TLC against Trace_Coerce",
        "observations_disagreeing_with_spec": nflag,
        "spec_accepts": sum(1 for c in chosen if c["expected"]["accept"]),
        "spec_rejects": sum(1 for c in chosen if not c["expected"]["accept"]),
        "samples": samples,
        "exhaustive": not sampled,
        "exhaustive_scope": "; ".join(scope) + ("; the further cases are a seed-chosen sample" if sampled else ""),
        "invariants_on_observations": ["InvAccept", "InvNamesVar", "InvNamesPath", "InvNoEcho"],
    })
    ctx.assumptions += [
        "the catalog schema of CoerceCatalog.tla (5 built-in scalars, custom scalar, enum with an @inaccessible value, 5 input "
        "objects incl. recursive and @oneOf, 32 variable types) stands for 'every schema'; values are bounded by the menus",
        "leaf values are classes (int32 / big integer / fractional / string / enum name / bool / null) made concrete by the driver "
        "with unique sentinels; 1.0-style numbers, duplicate keys, Upload scalars and Apollo compatibility flags are not generated",
        "custom scalars accept every JSON value (the library does not coerce them)",
        "[[Int]] <- [1,2] is coercible (algorithm of spec 3.11 and graphql-js; the example table of the October 2021 text differs)",
        "a request without variables member / with variables:null has the empty variables object",
        "object keys (e.g. the name of an undefined field) are not treated as variable content for the no-echo rule",
    ]
