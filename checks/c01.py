"""C01 — Federated execution equals monolithic execution of the supergraph.

Pipeline (design.d/C01.md):
  0. self-check of the harness' composition rule (fedcfg) against the router configs shipped with the repo / cosmo.
  1. TLC checks the catalog (Composable layouts, well-typed universes with unique keys) and prints it; the Go side
     derives SDLs, planner metadata and simulator data from that output only.
  2. TLC model-checks the NONDETERMINISTIC federated executor (FedNondet): every terminating behaviour yields
     Exec(monolith) and no behaviour gets stuck, for every catalog entry / universe / pinned operation.
  3. TLC enumerates (BFS, small bounds) and samples (-simulate, VERIF_SEED) valid operations per catalog entry
     (Gen_C01) together with expected = Exec(Mono(supergraph, universe), op, vars) for every universe.
  4. harness/cmd/fed replays every case into a real ExecutionEngine whose subgraphs are semantic simulators
     behind an http.RoundTripper; the response and every subgraph exchange are recorded.
  5. Decide: no planning error, data == expected.data (JSON value), errors non-empty <=> expected.err, no request
     rejected by the independent validator.
  6. TLC validates the recording (Trace_C01): every client observation against Exec(Mono..), every distinct
     subgraph exchange against RequestOK and against the re-derived simulator answer Exec(Sub..).
"""
import concurrent.futures
import json
import os
import random
import re

import lib

# the spec directory (an absolute path selects a working copy: edits are tried there and swapped into spec/fed when green)
SPEC_DIR = os.environ.get("C01_SPEC_DIR", "fed")
COSMO_BASE = "/root/go/pkg/mod/github.com/wundergraph/cosmo/router@v0.0.0-20260611115430-e8a965a40952/pkg/plan_generator/testdata/execution_config/base.json"
CAL_CONFIGS = [
    ("{repo}/execution/engine/testdata/config_factory_federation/config.json", 0),
    ("{repo}/execution/federationtesting/config.json", 0),
    ("{repo}/examples/federation/config.json", 0),
    # cosmo demo: the products subgraph renames its query root (schema { query: Queries }) -> 2 expected lines
    (COSMO_BASE, 2),
]

CASE_LINE_SAMPLE = 0.25
GEN_BFS = dict(MAXDEPTH=2, MAXWIDTH=2, MAXSIZE=4, MAXDIRS=0, MAXALIAS=0, MAXFRAGS=0, ORDERED=1)
GEN_BFS_T = dict(MAXDEPTH=2, MAXWIDTH=2, MAXSIZE=4, MAXDIRS=1, MAXALIAS=0, MAXFRAGS=0, ORDERED=1)   # 53 291 cases (measured)
GEN_BFS_F = dict(MAXDEPTH=2, MAXWIDTH=2, MAXSIZE=5, MAXDIRS=0, MAXALIAS=0, MAXFRAGS=1, ORDERED=1)   # 56 477 cases (measured)
GEN_SIM = dict(MAXDEPTH=3, MAXWIDTH=3, MAXSIZE=9, MAXDIRS=2, MAXALIAS=2, MAXFRAGS=2, ORDERED=0)
GEN_SIM_DEEP = dict(MAXDEPTH=4, MAXWIDTH=2, MAXSIZE=10, MAXDIRS=1, MAXALIAS=1, MAXFRAGS=2, ORDERED=0)


def gen_env(entry_idx, p):
    e = {"C01_ENTRY": entry_idx}
    for k, v in p.items():
        e["C01_" + k] = v
    return e


def canon(v):
    t = v["t"]
    if t == "o":
        return {k: canon(x) for k, x in zip(v["k"], v["v"])}
    if t == "l":
        return [canon(x) for x in v["v"]]
    if t in ("n", "x"):
        return None
    if t == "f":
        return float(v["v"])
    return v["v"]


def op_hash(case):
    return lib.sha([case["entry"], case["doc"]])[:10]


def err_signature(msg):
    """planning / engine error message without the operation specific parts"""
    m = re.sub(r"'[^']*'|\"[^\"]*\"", "_", msg)
    m = re.sub(r"\d+", "N", m)
    return m[:80]


def walk_fields(doc, super_types):
    """yield (root field name, 'Type.field') for every field selection of the operation (fragments followed)"""
    types = {t["name"]: t for t in super_types}
    frags = {f["name"]: f for f in doc["frags"]}
    out = []

    def rec(sels, tn, root):
        for s in sels:
            if s["k"] == "f":
                r = root or s["name"]
                if s["name"] == "__typename":
                    continue
                out.append((r, "%s.%s" % (tn, s["name"])))
                fd = next((f for f in types[tn]["fields"] if f["name"] == s["name"]), None) if tn in types else None
                if fd is not None and s["sel"]:
                    rec(s["sel"], fd["type"]["n"], r)
            elif s["k"] == "i":
                rec(s["sel"], s["on"] or tn, root)
            else:
                fr = frags[s["name"]]
                rec(fr["sel"], fr["on"], root)
    rec(doc["sel"], "Mutation" if doc.get("op") == "mutation" else "Query", None)
    return out


def differing_roots(case, got, want):
    """root FIELD names whose value differs between the observed and the expected data"""
    keymap = {}
    for s in case["doc"]["sel"]:
        if s["k"] == "f":
            keymap[s["alias"] or s["name"]] = s["name"]
    if not isinstance(got, dict) or not isinstance(want, dict):
        return sorted(set(keymap.values()))
    return sorted({keymap.get(k, k) for k in set(got) | set(want) if got.get(k, "<absent>") != want.get(k, "<absent>")})


# Shapes of the inputs that hit the known (open) findings, see findings.d/C01.json. A violation whose input has one of
# these shapes gets the finding's key; every other violation keeps a key of its own (entry : class : operation hash).
def finding_shape(entry, cls, case, r, exp, super_types):
    fields = walk_fields(case["doc"], super_types)
    if entry["name"] == "keys" and cls == "plan-error" and "failed to obtain planning paths" in (r.get("engineErr") or ""):
        under_top = {c for root, c in fields if root == "top"}
        if "Product.stock" in under_top and under_top & {"Product.sku", "Product.pkg"}:
            return "keys:plan-error:key-chain-plus-selected-field-of-the-next-key"
    if cls == "data" and r.get("hasData") and any(t["kind"] == "UNION" for t in super_types):
        names = {t["name"] for t in super_types}
        if canon(r["data"]) != canon(exp["data"]) and only_typename_keys_missing(canon(r["data"]), canon(exp["data"]), names) \
                and count_typename_selections(case["doc"]) >= 2:
            return "%s:data:rewritten-union-selection-keeps-only-one-typename" % entry["name"]
    if entry["name"] == "deep" and cls in ("data", "errors") and r.get("hasData"):
        roots = differing_roots(case, canon(r["data"]), canon(exp["data"]))
        under_grid = {c for root, c in fields if root == "grid"}
        if roots == ["grid"] and under_grid & {"Book.title", "Book.authors"}:
            return "deep:data:entities-in-a-list-of-lists-are-never-fetched"
    return None


def only_typename_keys_missing(got, want, type_names):
    """the observed data equals the expected data except that keys whose expected value is a type name are missing"""
    if isinstance(want, dict):
        if not isinstance(got, dict) or set(got) - set(want):
            return False
        for k, v in want.items():
            if k not in got:
                if not (isinstance(v, str) and v in type_names):
                    return False
            elif not only_typename_keys_missing(got[k], v, type_names):
                return False
        return True
    if isinstance(want, list):
        return isinstance(got, list) and len(got) == len(want) and all(only_typename_keys_missing(g, w, type_names) for g, w in zip(got, want))
    return got == want


def count_typename_selections(doc):
    """max number of __typename selections (plus directive-carrying fragments, which make normalization add a placeholder)
    that end up in one selection set of the operation"""
    frags = {f["name"]: f for f in doc["frags"]}
    best = 0

    def rec(sels):
        nonlocal best
        n = 0
        for s in sels:
            if s["k"] == "f":
                if s["name"] == "__typename":
                    n += 1
                elif s["sel"]:
                    rec(s["sel"])
            else:
                body = s["sel"] if s["k"] == "i" else frags[s["name"]]["sel"]
                if s["dirs"]:
                    n += 1
                rec(body)
        best = max(best, n)
    # merged siblings (same response key) share a selection set: approximate by concatenating the sub-selections per key
    def merged(sels):
        by = {}
        for s in sels:
            if s["k"] == "f" and s["sel"]:
                by.setdefault(s["alias"] or s["name"], []).extend(s["sel"])
        for v in by.values():
            rec(v)
            merged(v)
    rec(doc["sel"])
    merged(doc["sel"])
    return best


def calibrate(ctx, binary):
    total = 0
    for path, allowed in CAL_CONFIGS:
        path = path.format(repo=lib.REPO)
        if not os.path.exists(path):
            raise lib.Inconclusive("calibration config missing: %s" % path)
        p = ctx.run_bin(binary, ["-calibrate", path], timeout=120)
        res = json.loads(p.stdout.strip().splitlines()[-1])
        diffs = res["diffs"] or []
        total += res["compared"]
        if len(diffs) != allowed or (allowed and not all("Quer" in d for d in diffs)):
            for d in diffs[:20]:
                print("   ", d)
            raise lib.Inconclusive("fedcfg composition rule no longer reproduces the planner metadata of %s "
                                   "(harness problem, not a verdict about the code)" % path)
    return total


def load_catalog(ctx):
    r = ctx.tlc_must_pass(SPEC_DIR, "Gen_Catalog", "Gen_Catalog.cfg", workers=1, timeout=600, tag="catalog-sanity+emit")
    entries = [p for p in r.printed if "sgs" in p]
    pinned = [p for p in r.printed if "doc" in p]
    if not entries:
        raise lib.Inconclusive("Gen_Catalog printed nothing")
    for c in pinned:
        c["id"] = lib.sha([c["entry"], c["doc"], c["vars"]])[:14]
    path = ctx.path("catalog.ndjson")
    lib.write_ndjson(path, entries)
    return entries, path, pinned


def generate(ctx, entries, quick):
    """returns {entry name: {"bfs": {id: case}, "sim": {id: case}}} de-duplicated by case id.
    One TLC run per mode; the catalog entry is chosen by the initial state (C01_ENTRY=0)."""
    jobs = [("bfs", dict(workers=6, env=gen_env(0, GEN_BFS if quick else GEN_BFS_T), timeout=2400, deadlock=False, tag="gen-bfs")),
            ("sim", dict(workers=1, env=gen_env(0, GEN_SIM), simulate=(150 if quick else 2000) * len(entries), depth=80, seed=ctx.seed,
                         timeout=2400, deadlock=False, tag="gen-sim"))]
    if not quick:
        jobs.append(("bfs", dict(workers=6, env=gen_env(0, GEN_BFS_F), timeout=2400, deadlock=False, tag="gen-bfs-fragments")))
        jobs.append(("sim", dict(workers=1, env=gen_env(0, GEN_SIM_DEEP), simulate=1000 * len(entries), depth=80, seed=ctx.seed + 1000,
                                 timeout=2400, deadlock=False, tag="gen-sim-deep")))
    out = {e["name"]: {"bfs": {}, "sim": {}} for e in entries}

    keep = 4 * (200 if quick else 5000)      # per entry and job: enough for the replay sample, bounds the memory

    def one(job):
        kind, kw = job
        r = ctx.tlc(SPEC_DIR, "Gen_C01", "Gen_C01.cfg", **kw)
        if not r.ok:
            print(r.out[-3000:])
            raise lib.Inconclusive("generator failed (%s): %s" % (kind, r.error))
        by_entry = {}
        for c in r.printed:
            c["id"] = lib.sha([c["entry"], c["doc"], c["vars"]])[:14]
            by_entry.setdefault(c["entry"], []).append(c)
        total = {k: len(v) for k, v in by_entry.items()}
        jr = random.Random(ctx.seed * 7919 + len(kind))
        out_cases = []
        for name in sorted(by_entry):
            v = sorted(by_entry[name], key=lambda c: c["id"])     # TLC's print order depends on its worker threads
            if len(v) > keep:
                v = jr.sample(v, keep)
            out_cases += v
        return kind, out_cases, total

    gen_total = {e["name"]: {"bfs": 0, "sim": 0} for e in entries}
    with concurrent.futures.ThreadPoolExecutor(max_workers=4) as ex:
        for kind, printed, total in ex.map(one, jobs):
            for name, n in total.items():
                gen_total[name][kind] += n
            for c in printed:
                out[c["entry"]][kind].setdefault(c["id"], c)
    for name in out:
        out[name]["generated"] = gen_total[name]
    return out


IDLE = []   # entity fetches none of whose fields survive @skip/@include (metric, printed by Trace_C01)


def nontrivial(result):
    return len({x["sg"] for x in result["exchanges"]}) >= 2


def validate_chunk(ctx, lines, n):
    path = ctx.path("trace-%03d.ndjson" % n)
    lib.write_ndjson(path, lines)
    r = ctx.tlc(SPEC_DIR, "Trace_C01", "Trace_C01.cfg", workers=1, env={"TRACE": path, "JAVA_TOOL_OPTIONS": "-XX:ParallelGCThreads=2"},
                timeout=2400, deadlock=False, count=False, tag="trace-validation-%d" % n, heap="3g")
    bad = []
    stuck = None
    for x in r.out.splitlines():
        if '"C01_IDLE"' in x:
            IDLE.append(x.strip())
        if '"C01_BAD"' in x:
            m = re.match(r'\s*<<"C01_BAD", (\d+), "([^"]*)", <<([A-Z, ]+)>>', x.strip())
            if not m:
                raise lib.Inconclusive("cannot parse validator line: %s" % x)
            bad.append((int(m.group(1)), [v.strip() == "TRUE" for v in m.group(3).split(",")]))
        if "TRACE_STUCK_AT_LINE" in x:
            stuck = x
    if not r.ok and not bad:
        print(r.out[-3000:])
        raise lib.Inconclusive("trace validation failed in an unexpected way (%s %s)" % (r.error, stuck))
    if stuck:
        raise lib.Inconclusive("trace validation did not consume all lines: %s" % stuck)
    return bad


def corrupt_value(v):
    """change the first scalar leaf of a tagged value; returns True if something was changed"""
    t = v["t"]
    if t == "s":
        v["v"] = v["v"] + "#"
        return True
    if t == "i":
        v["v"] = v["v"] + 1
        return True
    if t in ("o", "l"):
        for x in v["v"]:
            if corrupt_value(x):
                return True
    return False


def validator_self_test(ctx, lines):
    """binding demonstration / vacuity guard, run on every invocation: three REAL recorded lines are corrupted on purpose
    (response value changed; key field removed from a representation; simulator answer changed) and TLC must reject
    exactly those, with the matching verdict component."""
    control = []
    expect = {}
    c_line = next((l for l in lines if l["k"] == "c" and l["data"]["t"] == "o"), None)
    if c_line is not None:
        good = json.loads(json.dumps(c_line))
        bad = json.loads(json.dumps(c_line))
        if corrupt_value(bad["data"]):
            control += [good, bad]
            expect[len(control)] = ("c", 0)
    x_rep = None
    for l in lines:
        if l["k"] == "x":
            for b in l["vars"]:
                if b["name"] == "representations" and b["val"]["t"] == "l" and b["val"]["v"] and len(b["val"]["v"][0]["k"]) >= 2:
                    x_rep = l
                    break
        if x_rep:
            break
    if x_rep is not None:
        bad = json.loads(json.dumps(x_rep))
        for b in bad["vars"]:
            if b["name"] == "representations":
                rep = b["val"]["v"][0]
                i = next(i for i, k in enumerate(rep["k"]) if k != "__typename")
                del rep["k"][i]
                del rep["v"][i]
        control += [json.loads(json.dumps(x_rep)), bad]
        expect[len(control)] = ("x", 0)
    x_any = next((l for l in lines if l["k"] == "x" and l["data"]["t"] == "o"), None)
    if x_any is not None:
        bad = json.loads(json.dumps(x_any))
        if corrupt_value(bad["data"]):
            control += [bad]
            expect[len(control)] = ("x", 1)
    if len(expect) < 3:
        return 0
    got = dict(validate_chunk(ctx, control, 900))
    for lineno, (kind, comp) in expect.items():
        if lineno not in got or got[lineno][comp]:
            raise lib.Inconclusive("validator self-test: corrupted line %d (%s) was NOT rejected by Trace_C01 — the validation pass is vacuous" % (lineno, kind))
    # (an uncorrupted control line may itself be rejected when the code under test is broken: judged in the main pass)
    return len(expect)


def decide_and_validate(ctx, cases_by_id, results, entry_index, entries, quick, rng):
    """python-side decision + TLC validation. Returns counters."""
    by_name = {e["name"]: e for e in entries}
    flagged = {}   # (id, u) -> class, flagged by the python comparison

    def report(r, c, cls, what, replay, sub=""):
        e = by_name[r["entry"]]
        exp = c["exp"][r["u"]]
        key = finding_shape(e, cls, c, r, exp, e["super"]) or "%s:%s:%s%s" % (r["entry"], cls, sub, op_hash(c))
        ctx.violation(key, what, replay)

    # ---- 5. decide -------------------------------------------------------------------------------
    for r in results:
        c = cases_by_id[r["id"]]
        exp = c["exp"][r["u"]]
        q1 = " ".join(r["query"].split())
        replay = {"case": {k: c[k] for k in ("id", "entry", "doc", "vars", "exp")}, "universe": r["u"], "query": r["query"],
                  "variables": r["varsJson"], "observed": {k: r.get(k) for k in ("engineErr", "panic", "body", "badBody")},
                  "expected": {"data": canon(exp["data"]), "hasErrors": exp["err"]},
                  "exchanges": [{k: x.get(k) for k in ("sgName", "query", "vars", "resp", "invalid")} for x in r["exchanges"]]}
        if r.get("panic"):
            flagged[(r["id"], r["u"])] = "panic"
            report(r, c, "panic", "panic while executing a valid operation: %s | %s" % (r["panic"][:300], q1), replay)
            continue
        if r.get("engineErr") and ("deadline exceeded" in r["engineErr"] or "context canceled" in r["engineErr"]):
            raise lib.Inconclusive("the driver's 20 s execution timeout fired (%s) — overloaded machine, not a verdict" % r["id"])
        if r.get("engineErr"):
            flagged[(r["id"], r["u"])] = "plan-error"
            report(r, c, "plan-error", "Execute failed for a valid operation on a composable layout: %s | query: %s | vars: %s" % (
                r["engineErr"][:300], q1, r["varsJson"]), replay, sub=err_signature(r["engineErr"]) + ":")
            continue
        if r.get("badBody") or not r["hasData"]:
            flagged[(r["id"], r["u"])] = "no-data"
            report(r, c, "no-data", "response has no data member / is not a JSON object: %s | %s" % (r["body"][:300], q1), replay)
            continue
        for x in r["exchanges"]:
            if x.get("invalid"):
                report(r, c, "invalid-subgraph-request",
                       "request to subgraph %s is not a valid operation of that subgraph's schema (gqlparser): %s | request: %s | client query: %s" % (
                           x["sgName"], x["invalid"][:300], x["query"][:500], q1), replay, sub=x["sgName"] + ":")
        if canon(r["data"]) != canon(exp["data"]):
            flagged[(r["id"], r["u"])] = "data"
            report(r, c, "data", "data differs from the monolith in universe %d: got %s want %s | query: %s | vars: %s" % (
                r["u"], json.dumps(canon(r["data"]))[:400], json.dumps(canon(exp["data"]))[:400], q1, r["varsJson"]), replay)
        elif r["hasErrors"] != exp["err"]:
            flagged[(r["id"], r["u"])] = "errors"
            report(r, c, "errors", "errors %s but the monolith %s (universe %d) | query: %s | vars: %s | errors: %s" % (
                "reported" if r["hasErrors"] else "not reported", "reports errors" if exp["err"] else "reports none",
                r["u"], q1, r["varsJson"], (r.get("errors") or "")[:300]), replay)
    # ---- 6. TLC validation -----------------------------------------------------------------------
    lines = []
    meta = []
    seen = set()
    judged = set()
    for r in results:
        if r.get("panic") or r.get("engineErr") or r.get("badBody") or not r["hasData"]:
            continue
        c = cases_by_id[r["id"]]
        e = entry_index[r["entry"]]
        # client observations: all of them were compared with the expectation TLC generated; TLC re-judges the recorded
        # line itself for every flagged one and for a seed-selected sample (25 %)
        if (r["id"], r["u"]) in flagged or rng.random() < CASE_LINE_SAMPLE:
            judged.add((r["id"], r["u"]))
            lines.append({"k": "c", "id": r["id"], "e": e, "u": r["u"] + 1, "sg": 0, "seq0": 0, "doc": c["doc"], "vars": c["vars"],
                          "data": r["data"], "err": r["hasErrors"]})
            meta.append(("c", r, None))
        for x in r["exchanges"]:
            if x.get("invalid") or x.get("doc") is None:
                continue
            h = lib.sha([r["entry"], r["u"], x["sg"], x["query"], x["vars"], x["resp"], x.get("seq0", 0)])
            if h in seen:
                continue
            seen.add(h)
            lines.append({"k": "x", "id": r["id"], "e": e, "u": r["u"] + 1, "sg": x["sg"] + 1, "seq0": x.get("seq0", 0), "doc": x["doc"],
                          "vars": x["binds"], "data": x["data"], "err": x["hasErr"]})
            meta.append(("x", r, x))
    ok_lines = [lines[i] for i in range(len(lines)) if meta[i][0] == "x" or (meta[i][1]["id"], meta[i][1]["u"]) not in flagged]
    nchunks = max(1, min(4 if quick else 8, len(lines) // 300))
    order = list(range(len(lines)))
    chunks = [order[i::nchunks] for i in range(nchunks)]
    bad_total = []
    with concurrent.futures.ThreadPoolExecutor(max_workers=9) as ex:
        st = ex.submit(validator_self_test, ctx, ok_lines)
        futs = {ex.submit(validate_chunk, ctx, [lines[i] for i in ch], n): ch for n, ch in enumerate(chunks)}
        for fu in concurrent.futures.as_completed(futs):
            ch = futs[fu]
            for lineno, verdict in fu.result():
                bad_total.append((ch[lineno - 1], verdict))
        ctx.coverage["validator_self_test_corruptions_rejected"] = st.result()
    sim_mismatch = []
    tlc_flagged = set()
    for gi, verdict in bad_total:
        kind, r, x = meta[gi]
        c = cases_by_id[r["id"]]
        q1 = " ".join(r["query"].split())
        if kind == "c":
            tlc_flagged.add((r["id"], r["u"]))
            if (r["id"], r["u"]) in flagged:
                continue   # already reported by the comparison against the generated expectation
            # TLC re-evaluated Exec(Mono..) on the observed response: [data equal, error presence equal]
            what = "TLC: observed response is not Exec(monolith): data_ok=%s errors_ok=%s | universe %d | query: %s | vars: %s | body: %s" % (
                verdict[0], verdict[1], r["u"], q1, r["varsJson"], r["body"][:300])
            report(r, c, "data" if not verdict[0] else "errors", what, {"case": c, "universe": r["u"], "observed": r["body"], "tlc_verdict": verdict})
        else:
            req_ok, data_ok, err_ok = verdict
            if not req_ok:
                what = ("TLC: RequestOK is false for a request the gateway sent to subgraph %s (not valid for the subgraph's own schema, "
                        "or asks for a field it cannot resolve there, or a representation lacks a resolvable key / @requires input) | request: %s | variables: %s | client query: %s") % (
                    x["sgName"], x["query"][:600], json.dumps(x["vars"])[:400], q1)
                report(r, c, "request-not-ok", what,
                       {"case": c, "universe": r["u"], "exchange": {k: x.get(k) for k in ("sgName", "query", "vars", "resp")}}, sub=x["sgName"] + ":")
            if not (data_ok and err_ok):
                sim_mismatch.append((r, x, verdict))
    # the two judges (python comparison with the generated expectation, TLC on the recorded line) must agree
    for k, cls in flagged.items():
        if cls in ("data", "errors") and k in judged and k not in tlc_flagged:
            raise lib.Inconclusive("python comparison flagged case %s/u%d (%s) but TLC accepted the recorded observation — harness problem" % (k[0], k[1], cls))
    if sim_mismatch:
        r, x, verdict = sim_mismatch[0]
        print("simulator answer differs from the spec's re-derivation:", x["sgName"], x["query"], json.dumps(x["vars"]), "->", json.dumps(x["resp"]), verdict)
        raise lib.Inconclusive("the Go subgraph simulator disagrees with Exec(Sub(..)) on %d exchanges — harness problem, not a verdict about the code" % len(sim_mismatch))
    return len(lines), sum(1 for m in meta if m[0] == "x"), len(judged)


def run_driver(ctx, binary, catalog_path, cases, tag):
    cp = ctx.path("cases-%s.ndjson" % tag)
    rp = ctx.path("results-%s.ndjson" % tag)
    lib.write_ndjson(cp, cases)
    ctx.run_bin(binary, ["-catalog", catalog_path, "-cases", cp, "-out", rp, "-workers", "6"], timeout=3000)
    return lib.read_ndjson(rp)


def load_findings_fragment(ctx):
    """findings.d/C01.json is this check's own fragment of known-findings.json (merged by the coordinator) and the
    source of truth for property C01: its entries replace same-key entries of known-findings.json, so the check behaves
    the same before and after a merge / a status change. C01_FINDINGS=<file> selects another fragment (used to verify
    fixes: findings.d/C01.json.after-fix against a fixed worktree)."""
    frag = os.environ.get("C01_FINDINGS") or os.path.join(lib.VERIF, "findings.d", "C01.json")
    known = list(ctx.known())
    if os.path.exists(frag):
        with open(frag) as f:
            mine = json.load(f)
        keys = {(k.get("property"), k.get("key")) for k in mine}
        known = [k for k in known if (k.get("property"), k.get("key")) not in keys] + mine
    ctx._known = known


def run(ctx):
    load_findings_fragment(ctx)
    rng = random.Random(ctx.seed)
    quick = ctx.quick()
    binary = ctx.build("fed")
    # ---- replay of a stored counterexample ------------------------------------------------------
    if ctx.replay_in:
        with open(ctx.replay_in) as f:
            rep = json.load(f)
        case = rep["case"]["case"] if "case" in rep["case"] else rep["case"]
        entries, catalog_path, _ = load_catalog(ctx)
        entry_index = {e["name"]: i + 1 for i, e in enumerate(entries)}
        results = run_driver(ctx, binary, catalog_path, [case], "replay")
        for r in results:
            print("universe %d: %s" % (r["u"], (r.get("engineErr") or r["body"])[:1000]))
            for x in r["exchanges"]:
                print("    %s <- %s %s" % (x["sgName"], x["query"], json.dumps(x["vars"])))
        decide_and_validate(ctx, {case["id"]: case}, results, entry_index, entries, quick, rng)
        ctx.coverage.update({"traces_validated_against_impl": len(results), "evaluations": len(results), "exhaustive": False})
        return
    # ---- 0. calibration ---------------------------------------------------------------------------
    ncal = calibrate(ctx, binary)
    # ---- 1. catalog -------------------------------------------------------------------------------
    entries, catalog_path, pinned = load_catalog(ctx)
    entry_index = {e["name"]: i + 1 for i, e in enumerate(entries)}
    # ---- 2. model check the nondeterministic federated executor (in the background, while the operations are generated)
    empty_ops = ctx.path("no-ops.ndjson")
    lib.write_ndjson(empty_ops, [])
    mpool = concurrent.futures.ThreadPoolExecutor(max_workers=4)
    mc = mpool.submit(ctx.tlc_must_pass, SPEC_DIR, "FedNondet", "MC_FedNondet.cfg", workers=4, timeout=1500, env={"C01_OPS": empty_ops}, tag="mc-fednondet")
    neg = mpool.submit(ctx.tlc, SPEC_DIR, "FedNondet", "MC_FedNondet_neg.cfg", workers=2, timeout=600, count=False, env={"C01_OPS": empty_ops},
                       tag="mc-fednondet-negative")
    neg2 = mpool.submit(ctx.tlc, SPEC_DIR, "FedNondet", "MC_FedNondet_neg2.cfg", workers=2, timeout=600, count=False, env={"C01_OPS": empty_ops},
                        tag="mc-fednondet-negative-owners-disagree")
    # every order of the independent fetches (no partial-order reduction): quick = two operations of `basic`,
    # thorough = all pinned operations of `basic` and `provides`
    free = mpool.submit(ctx.tlc_must_pass, SPEC_DIR, "FedNondet", "MC_FedNondet_freesmall.cfg" if quick else "MC_FedNondet_free.cfg",
                        workers=2 if quick else 8, timeout=2400, env={"C01_OPS": empty_ops}, tag="mc-fednondet-every-fetch-order")

    def model_verdicts():
        mc.result()
        if neg.result().violated != "FedRefinesMonolith":
            raise lib.Inconclusive("sanity: with a universe whose keys are not unique the federated model must be able to diverge "
                                   "from the monolith (non-vacuity of FedRefinesMonolith), got %r" % neg.result().error)
        if neg2.result().violated != "FedRefinesMonolith":
            raise lib.Inconclusive("sanity: when two owners of a shared field disagree the federated model must be able to diverge from "
                                   "the monolith (OwnersAgree is a necessary part of Consistent), got %r" % neg2.result().error)
        free.result()
        mpool.shutdown()
    # ---- 3. generate ------------------------------------------------------------------------------
    gen = generate(ctx, entries, quick)
    cases = list(pinned)
    stats = {"pinned": len(pinned)}
    for e in entries:
        g = gen[e["name"]]
        bfs = sorted(g["bfs"].values(), key=lambda c: c["id"])
        have = {c["id"] for c in pinned}
        bfs = [c for c in bfs if c["id"] not in have]
        sim = sorted((c for cid, c in g["sim"].items() if cid not in g["bfs"] and cid not in have), key=lambda c: c["id"])
        nb, ns = len(bfs), len(sim)
        rng.shuffle(bfs)
        rng.shuffle(sim)
        cap = 200 if quick else 5000
        bfs = bfs[:cap]
        sim = sim[:cap]
        stats[e["name"]] = {"bfs_generated": g["generated"]["bfs"], "sim_generated": g["generated"]["sim"], "distinct_kept": nb + ns,
                            "replayed": len(bfs) + len(sim)}
        cases += bfs + sim
    ctx.log("cases: %s" % json.dumps(stats))
    cases_by_id = {c["id"]: c for c in cases}
    # ---- 2b. the nondeterministic model on a seed-selected sample of the GENERATED operations -------------------
    # (not in the model: effects of mutations; required fields WITH arguments -- entry requires3)
    pool = [c for c in cases if c["id"] not in {p["id"] for p in pinned} and c["doc"].get("op", "query") == "query"
            and c["entry"] != "requires3"]
    rng2 = random.Random(ctx.seed + 17)
    rng2.shuffle(pool)
    per, ops = {}, []
    for c in pool:
        if per.get(c["entry"], 0) < (8 if quick else 70):
            per[c["entry"]] = per.get(c["entry"], 0) + 1
            ops.append({"e": entry_index[c["entry"]], "doc": c["doc"], "vars": c["vars"]})
    ops_path = ctx.path("fednondet-ops.ndjson")
    lib.write_ndjson(ops_path, ops)
    bg = concurrent.futures.ThreadPoolExecutor(max_workers=1)
    mcf = bg.submit(ctx.tlc_must_pass, SPEC_DIR, "FedNondet", "MC_FedNondet_file.cfg", workers=6, timeout=2400, env={"C01_OPS": ops_path},
                    tag="mc-fednondet-generated-ops")
    stats["fednondet_generated_ops"] = len(ops)
    # ---- 4. replay --------------------------------------------------------------------------------
    results = run_driver(ctx, binary, catalog_path, cases, "all")
    mcf.result()   # model-level failure => INCONCLUSIVE (raised by tlc_must_pass)
    model_verdicts()
    bg.shutdown()
    # ---- 5./6. decide + validate ------------------------------------------------------------------
    nlines, nx, ncl = decide_and_validate(ctx, cases_by_id, results, entry_index, entries, quick, rng)
    distinct = {(r["id"], r["u"]) for r in results if nontrivial(r)}
    samples = []
    for r in results:
        if nontrivial(r) and len(samples) < 3:
            samples.append({"entry": r["entry"], "universe": r["u"], "query": " ".join(r["query"].split()), "variables": r["varsJson"],
                            "response": r["body"][:400], "subgraph_requests": [[x["sgName"], x["query"][:300]] for x in r["exchanges"]]})
    ctx.coverage.update({
        "traces_validated_against_impl": nlines,
        "evaluations": len(results),
        "distinct_nontrivial": len(distinct),
        "rule": "one evaluation = one (catalog entry, operation, variable assignment, universe) executed by the real ExecutionEngine over "
                "semantic subgraph simulators; distinct by (case hash, universe); non-trivial = the gateway contacted at least two different subgraphs",
        "samples": samples,
        "catalog_entries": [e["name"] for e in entries],
        "generated_and_replayed": stats,
        "subgraph_exchanges_validated": nx,
        "client_observations_rejudged_by_tlc": ncl,
        "calibration_items_compared": ncal,
        "idle_entity_fetches": len(IDLE),
        "exhaustive": False,
    })
    ctx.assumptions += [
        "catalog of hand-written supergraphs/layouts and data universes, not all schemas; operations bounded (BFS: depth<=2,width<=2; sampled: depth<=3-4,width<=3)",
        "fedcfg writes the planner metadata cosmo composition would write (calibrated on 4 shipped router configs)",
        "consistent universes = the TLC-checked predicate Consistent (WellTyped, UniqueKeys, KeysPresent, InputsClean, OwnersAgree) on every "
        "catalog universe, with two deliberately inconsistent universes rejected by it; the value of a @requires field is a digest of its inputs",
        "gqlparser is trusted as text->AST converter; the Go simulator is NOT trusted (every distinct answer is re-derived by TLC)",
        "out of scope: @interfaceObject / entity interfaces (metadata rule not calibratable from the shipped configs), @override, @inaccessible on "
        "types and enum values, input coercion corner cases, subscriptions, gRPC subgraphs, @defer",
    ]
