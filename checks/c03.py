"""C03 — Normalization preserves operation meaning, validity, and is idempotent.

Pipeline (DESIGN.md §5 C03, design.d/C03.md):
  1. TLC model-checks GQLRewrite (MC_GQLRewrite): every rewrite step keeps the operation SpecValid and leaves the reference
     execution Exec unchanged on every probe universe - a rewrite orbit is an equivalence class of the specification.
  2. TLC enumerates the cases (Gen_C03): every corpus operation x variable set and its orbit (1 step exhaustively, 3 steps by
     -simulate with VERIF_SEED).
  3. harness/cmd/norm runs the engine's admission sequence (Normalize(engine options) -> ValidateForSchema ->
     Normalize(WithExtractVariables) -> VariablesMapper) and records the printed normalized operation, the variables, the
     mapping, and the result of running the sequence again on its own output.
     Go-side equalities (no oracle): idempotence, variables strictly valid JSON, canonical printed form over each orbit.
  4. TLC (Trace_C03) evaluates NormValid and NormPreservesMeaning on every recorded observation
     ((nq, nv) re-read from the printed normalized operation by gqlparser).
"""
import collections
import concurrent.futures
import json
import os
import random
import re

import lib
import c04

QUICK_WALKS = 8
THOROUGH_WALKS = 150


def run_trace(ctx, idx, rows):
    path = ctx.path("c03-trace-%03d.ndjson" % idx)
    lib.write_ndjson(path, rows)
    r = ctx.tlc("core", "Trace_C03", "Trace_C03.cfg", workers=1, env={"TRACE": path}, timeout=3000, deadlock=False,
                count=False, tag="trace-validation-%d" % idx, heap="3g")
    bad = {}
    for p in r.printed:
        if isinstance(p, dict) and "nonconforming" in p:
            bad[p["nonconforming"]] = p
    consumed = None
    for line in r.out.splitlines():
        if "TRACE_RESULT" in line:
            nums = [int(x) for x in re.findall(r"\d+", line)]
            consumed = nums[0] if nums else None
    if r.ok:
        consumed = len(rows)
    if consumed != len(rows) or (not r.ok and not bad):
        print(r.out[-3000:])
        raise lib.Inconclusive("trace validation did not consume every observation (chunk %d: %s of %d): %s" % (idx, consumed, len(rows), r.error))
    return bad


def problem_class(p):
    return re.sub(r"\s+", " ", re.sub(r"\"[^\"]*\"|'[^']*'|\b\d+\b", "_", p.split(":")[0])).strip()


PLACEHOLDER = "__internal_typename"


def flat(sel, path, keep_placeholder):
    """fields of a selection set in document order, inline fragments dissolved: (response path, name, arguments, directives)"""
    out = []
    for s in sel:
        if s["k"] == "field":
            key = s["alias"] or s["name"]
            if key == PLACEHOLDER and not keep_placeholder:
                continue
            out.append(("/".join(path + [key]), s["name"], json.dumps(s["args"], sort_keys=True), json.dumps(s["dirs"], sort_keys=True)))
            out += flat(s["sel"], path + [key], keep_placeholder)
        else:
            out += flat(s["sel"], path, keep_placeholder)
    return out


def mask_directive_literals(sel):
    """copy of a selection set in which the names of variables nested in list / object literals of directive arguments are blanked"""
    def val(v, nested):
        if v["t"] == "v":
            return {"t": "v", "n": "_"} if nested else v
        if v["t"] == "l":
            return {"t": "l", "l": [val(x, True) for x in v["l"]]}
        if v["t"] == "o":
            return {"t": "o", "k": v["k"], "o": [val(x, True) for x in v["o"]]}
        return v
    out = []
    for s in sel:
        t = dict(s)
        t["dirs"] = [{"name": d["name"], "args": [{"name": a["name"], "value": val(a["value"], False)} for a in d["args"]]} for d in s["dirs"]]
        t["sel"] = mask_directive_literals(s["sel"])
        out.append(t)
    return out


def canon_category(nd, base_nd):
    """coarse name of the difference between two normalized operations that should have been printed identically"""
    if not nd or not base_nd or len(nd["ops"]) != 1 or len(base_nd["ops"]) != 1:
        return "other"
    a, b = nd["ops"][0], base_nd["ops"][0]
    if json.dumps(a["sel"], sort_keys=True) == json.dumps(b["sel"], sort_keys=True) and a["dirs"] == b["dirs"]:
        # same selections, different variable definitions
        va = [json.dumps(v, sort_keys=True) for v in a["vars"]]
        vb = [json.dumps(v, sort_keys=True) for v in b["vars"]]
        if sorted(va) == sorted(vb):
            return "variable-definition-order"
        used = json.dumps(a["sel"]) + json.dumps(a["dirs"])
        extra = [v for v in a["vars"] + b["vars"] if json.dumps(v, sort_keys=True) not in set(va) & set(vb)]
        if all(('"n": "%s"' % v["name"]) not in used for v in extra):
            return "variable-definitions"      # the definitions that differ are left-over (unused) ones, which keep their user names
        return "variable-definitions-other"
    def uniq(xs):
        seen, out = set(), []
        for x in xs:
            if x not in seen:
                seen.add(x)
                out.append(x)
        return out

    def novars(xs):
        rx = r'"t": "v", "n": "[^"]*"|"n": "[^"]*", "t": "v"'
        return [(p, n, re.sub(rx, '"t": "v"', a1), re.sub(rx, '"t": "v"', d)) for (p, n, a1, d) in xs]

    if uniq(flat(a["sel"], [], True)) == uniq(flat(b["sel"], [], True)):
        return "inline-fragment-structure"     # same fields in the same order, different inline fragment wrappers / type conditions
    if uniq(flat(a["sel"], [], False)) == uniq(flat(b["sel"], [], False)):
        return "typename-placeholder"          # ... and a __internal_typename placeholder on one side only
    def renumbered(xs):
        names = {}

        def num(m):
            return '"t": "v", "n": "v%d"' % names.setdefault(m.group(1), len(names))
        return [(p, n, re.sub(r'"n": "([^"]*)", "t": "v"', num, a1), re.sub(r'"n": "([^"]*)", "t": "v"', num, d)) for (p, n, a1, d) in xs]

    if uniq(renumbered(flat(a["sel"], [], False))) == uniq(renumbered(flat(b["sel"], [], False))):
        # same fields and the same sharing of variables, only their names differ
        if uniq(flat(mask_directive_literals(a["sel"]), [], False)) == uniq(flat(mask_directive_literals(b["sel"]), [], False)):
            return "variable-names-in-directive-literal"   # ... and only of variables nested in a list / object literal of a directive argument
        return "variable-names"
    if uniq(novars(flat(a["sel"], [], False))) == uniq(novars(flat(b["sel"], [], False))):
        return "variable-sharing"              # same fields, the arguments use variables that are shared differently
    return "other"


def features(c):
    """coarse features of a case for violation keys: the rewrite steps that led to it (sorted, de-duplicated)"""
    return "+".join(sorted(set(c["steps"]))) or "base"


def run(ctx):
    c04.load_fragment_findings(ctx, "C03.json")
    rng = random.Random(ctx.seed)
    quick = ctx.quick()
    c04.check_admission_pin(ctx, c04.ADMISSION_PINNED)
    binary = ctx.build("norm")
    if ctx.replay_in:
        # bin/check C03 --replay <file>: run the one recorded operation through the sequence and judge it again
        with open(ctx.replay_in) as f:
            rc = json.load(f)["case"]
        catalog_path, catalog = c04.load_catalog(ctx)
        case = {"base": rc.get("base", "?"), "vi": rc.get("vi", 0), "steps": rc.get("steps", []), "canon": False, "schema": rc["schema"],
                "doc": rc["doc"], "vars": rc.get("vars", []), "id": 1}
        process(ctx, binary, catalog_path, [case], 1, 0)
        return
    # ---- 1. model checking: the rewrite theorem ----------------------------------------------------
    ctx.tlc_must_pass("core", "MC_GQLCore", "MC_GQLCore.cfg", workers=4, timeout=600, tag="mc-core")
    ctx.tlc_must_pass("core", "MC_GQLRewrite", "MC_GQLRewrite_q.cfg" if quick else "MC_GQLRewrite.cfg", workers=6, timeout=3000,
                      tag="mc-rewrite", heap="6g")
    catalog_path, catalog = c04.load_catalog(ctx)
    # ---- 2. generate ---------------------------------------------------------------------------------
    g1 = ctx.tlc_must_pass("core", "Gen_C03", "Gen_C03_1.cfg", workers=6, timeout=1800, deadlock=False, tag="gen-depth1", heap="6g")
    g3 = ctx.tlc_must_pass("core", "Gen_C03", "Gen_C03_3.cfg", workers=1, timeout=1800, deadlock=False, tag="gen-depth3-simulate",
                           simulate=QUICK_WALKS if quick else THOROUGH_WALKS, depth=4, seed=ctx.seed, heap="6g")
    uniq = {}
    for c in g1.printed + g3.printed:
        uniq.setdefault(lib.sha([c["schema"], c["doc"], c["vars"]]), c)
    cases = sorted(uniq.values(), key=lambda c: (c["base"], c["vi"], len(c["steps"]), lib.sha([c["doc"], c["vars"]])))
    for i, c in enumerate(cases):
        c["id"] = i + 1
    ctx.log("generated %d cases (%d one-step, %d sampled up to 3 steps), %d distinct" % (
        len(g1.printed) + len(g3.printed), len(g1.printed), len(g3.printed), len(cases)))
    process(ctx, binary, catalog_path, cases, len(g1.printed), len(g3.printed))


def process(ctx, binary, catalog_path, cases, n1, n3):
    # ---- 3. replay -------------------------------------------------------------------------------------
    cin, cout, ctr = ctx.path("c03-cases.ndjson"), ctx.path("c03-results.ndjson"), ctx.path("c03-trace.ndjson")
    lib.write_ndjson(cin, [{"id": c["id"], "schema": c["schema"], "doc": c["doc"], "vars": c["vars"]} for c in cases])
    ctx.run_bin(binary, ["-catalog", catalog_path, "-in", cin, "-out", cout, "-trace", ctr], timeout=1800)
    results = {r["id"]: r for r in lib.read_ndjson(cout)}
    trace = lib.read_ndjson(ctr)
    if len(results) != len(cases):
        raise lib.Inconclusive("driver returned %d results for %d cases" % (len(results), len(cases)))
    by_id = {c["id"]: c for c in cases}
    nviol = collections.Counter()

    def report(key, what, c, r, extra=None):
        nviol[key] += 1
        obj = {"schema": c["schema"], "base": c["base"], "vi": c["vi"], "steps": c["steps"], "doc": c["doc"], "vars": c["vars"],
               "text": r["text"], "variables": r["vars"], "normalized": r["ntext"], "normalized_variables_raw": r["nvars_raw"],
               "mapping": r["mapping"], "normalized_variables": r["nvars"]}
        if extra:
            obj.update(extra)
        ctx.violation(key, "%s\n--- operation (%s/%s vars#%d, steps %s)\n%s--- variables %s\n--- normalized\n%s\n--- variables %s (mapping %s)" % (
            what, c["schema"], c["base"], c["vi"], "/".join(c["steps"]) or "-", r["text"], r["vars"], r["ntext"], r["nvars_raw"],
            json.dumps(r["mapping"], sort_keys=True)), obj)

    # ---- 4. TLC: NormValid and NormPreservesMeaning ------------------------------------------------
    nchunks = max(1, min(6 if ctx.quick() else 10, len(trace) // 300))
    chunks = [trace[i::nchunks] for i in range(nchunks)]
    bad = {}
    with concurrent.futures.ThreadPoolExecutor(max_workers=nchunks) as ex:
        for b in ex.map(lambda a: run_trace(ctx, a[0], a[1]), list(enumerate(chunks))):
            bad.update(b)
    ndocs = {t["id"]: t["ndoc"] for t in trace}
    COLLISION = "VariablesUnique/directive-literal-variable"
    for b in bad.values():
        if COLLISION in b["tokens"]:
            b["tokens"] = [COLLISION]  # two variables under one name: every other broken rule of that operation is a consequence

    def cause(cid):
        """name of what TLC found wrong with the normalized operation of this case ('-' = nothing)"""
        b = bad.get(cid)
        if not b:
            return "-"
        names = sorted(b["tokens"])
        if b["universes"]:
            names.append("meaning:nested-variable-default-ignored" if b["alt"] else "meaning:changed")
        return "+".join(names)

    for cid in sorted(bad):
        c, r, b = by_id[cid], results[cid], bad[cid]
        for t in sorted(b["tokens"]):
            report("norm-invalid:%s" % t, "the normalized operation violates the specification's validation rules (%s)" % t, c, r,
                   {"violated": b["tokens"]})
        if not b["valid"] and not b["tokens"]:
            report("norm-invalid:not-executable", "the normalized operation cannot be executed (no operation / no root type)", c, r)
        if b["universes"]:
            report("meaning-changed:%s" % ("nested-variable-default-ignored" if b["alt"] else "other"),
                   "the normalized operation with the normalized variables produces a different response than the original on probe "
                   "universes %s (reference execution GQLExec)%s" % (b["universes"], "; the difference is the one produced by ignoring the default "
                   "value of a variable nested in a list / object literal" if b["alt"] else ""), c, r, {"universes": b["universes"]})
    # ---- 5. Go-side checks that need no oracle ------------------------------------------------------
    rejected = collections.Counter()
    for c in cases:
        r = results[c["id"]]
        if r["panic"]:
            report("panic:%s" % r["frames"], "panic in the admission sequence: %s" % r["panic"], c, r)
            continue
        if not r["accept"]:
            # a valid operation that is not admitted is C04's subject; C03 speaks about admitted operations
            rejected["%s: %s" % (r["stage"], c04.norm_msg(r["msg"]))] += 1
            if r["stage"] in ("normalize", "validate"):
                # every case is SpecValid (corpus: MC_GQLCore, orbit members: filtered by Gen_C03), so a rejection means that either
                # the validator rejects a valid operation (C04's findings, listed here under the same message classes) or the first
                # normalization pass made a valid operation invalid - which is this property
                report("not-admitted:%s:%s" % (r["stage"], c04.norm_msg(r["msg"])),
                       "a valid operation is rejected by the admission sequence at stage %s: %s" % (r["stage"], r["msg"]), c, r)
            if r["stage"] in ("extract", "remap", "print"):
                report("sequence-fails:%s:%s" % (r["stage"], c04.norm_msg(r["msg"])),
                       "the operation passed validation but the rest of the admission sequence failed at stage %s: %s" % (r["stage"], r["msg"]), c, r)
            continue
        for p in r["problems"]:
            # an idempotence failure is keyed by what is wrong with the first normalized operation (if anything)
            report("%s:%s" % (problem_class(p), cause(c["id"])), "Go-side equality broken: %s" % p, c, r,
                   {"second_run_text": r["text2"], "second_run_variables": r["nvars2"]})
    # canonical printed form over each orbit: every canon member prints like its base, with equal variables
    orbits = collections.defaultdict(list)
    for c in cases:
        if results[c["id"]]["accept"] and c["canon"]:
            orbits[(c["base"], c["vi"])].append(c)
    ncanon = 0
    for (base, vi), members in sorted(orbits.items()):
        root = [m for m in members if not m["steps"]]
        if not root:
            continue
        rr = results[root[0]["id"]]
        for m in members:
            if m is root[0]:
                continue
            ncanon += 1
            r = results[m["id"]]
            if r["ntext"] != rr["ntext"]:
                cat = canon_category(ndocs.get(m["id"]), ndocs.get(root[0]["id"]))
                report("canonical-form:operation:%s" % cat,
                       "an operation that differs from its base only in %s normalizes to a different printed form (%s); base prints\n%s" % (
                           "/".join(m["steps"]), cat, rr["ntext"]), m, r, {"base_normalized": rr["ntext"], "base_text": rr["text"]})
            elif r["nvars"] != rr["nvars"]:
                report("canonical-form:variables:%s" % cause(m["id"]),
                       "an operation that differs from its base only in %s normalizes to the same printed form but different variables; base has %s" % (
                           "/".join(m["steps"]), rr["nvars"]), m, r, {"base_normalized_variables": rr["nvars"]})
    admitted = sum(1 for c in cases if results[c["id"]]["accept"])
    ctx.coverage.update({
        "traces_validated_against_impl": len(trace),
        "evaluations": len(cases),
        "distinct_nontrivial": len({lib.sha([c["schema"], c["doc"], c["vars"]]) for c in cases if c["steps"]}),
        "rule": "one case = one valid operation + variables (corpus entry x variable set, rewritten by 0-3 GQLRewrite steps) run through the "
                "engine's admission sequence twice; TLC evaluates SpecValid and Exec-equality on 3-4 probe universes for the recorded "
                "(normalized operation, variables); distinct by (schema, document, variables); non-trivial = at least one rewrite step",
        "admitted": admitted,
        "not_admitted": dict(rejected),
        "orbit_members_compared": ncanon,
        "orbits": len(orbits),
        "by_steps": dict(collections.Counter(len(c["steps"]) for c in cases)),
        "rewrite_kinds": dict(collections.Counter(k for c in cases for k in c["steps"])),
        "nonconforming": dict(nviol),
        "samples": [{"schema": c["schema"], "steps": c["steps"], "text": results[c["id"]]["text"], "variables": results[c["id"]]["vars"],
                     "normalized": results[c["id"]]["ntext"], "normalized_variables": results[c["id"]]["nvars"]}
                    for c in (cases[:1] + [x for x in cases if len(x["steps"]) == 3][:2])],
        "exhaustive": False,
    })
    ctx.assumptions += [
        "schemas: the 3 catalog schemas; operations: the corpus of spec/core/GQLCorpus.tla and its rewrite orbits (<= 3 steps)",
        "'same response on any backend' is evaluated on the probe universes of GQLExec (leaf value = (object, field, coerced arguments))",
        "responses are compared as JSON values (unordered objects); the alias __internal_typename (planner convention) is ignored",
        "(nq, nv) are re-read from the printed normalized operation with gqlparser; harness/internal/admit mirrors Execute (hash-pinned)",
    ]
