"""C07 — Subgraph failures are isolated to the data that depended on them.

Pipeline (design.d/C07.md):
  1. TLC model-checks spec/resolve/FetchExec.tla (all Sequence/Parallel trees <= N fetches x dependency relations x
     failure classes x interleavings): NoFabrication, Independent, SkipJustified, ErrorReported*, DepsSettled, Terminates (WF);
     a negative control (a loader that skips on ANY error) must be rejected by the model.
  2. harness/cmd/faults -mode plan: the REAL fetch trees of a menu of operations over the federationtesting supergraph
     (real engine + real gqlgen subgraphs in-process via internal/fedenv), the fault-free requests R0 and responses.
  3. TLC (Gen_FetchExec) emits for every real plan shape every fault assignment |F| <= 2 (3 thorough) + "all fail",
     with completion orders (all linear extensions for small F, faulty-first otherwise).
  4. harness/cmd/faults -mode run injects the faults through the fedenv interceptor, enforces the completion order with
     gates, records ld.* hook events, requests and the response.
  5. TLC (Trace_FetchExec) validates every recorded trace against FetchExec and evaluates the invariants, incl. the
     degradation relation FetchDegrade!Deg between the fault-free and the faulty response (provenance observed from R0,
     nullability from the supergraph SDL via gqlparser).
  Python does the JSON plumbing only (tagging, provenance table, numbering representations) plus the oracle-free
  observations: response arrived before the deadline, no panic.
"""
import json
import os
import random
import subprocess
import concurrent.futures as cf

import lib

OPS = [
    ("q01", "", "", "{ me { id username } }"),
    ("q02", "", "", "{ me { username reviews { body } } }"),
    ("q03", "", "", "{ me { username reviews { body product { upc name price } } } }"),
    ("q04", "", "", "{ topProducts { name reviews { body author { username } } } }"),
    ("q05", "", "", "{ topProducts { upc name reviews { body author { id username realName } } } }"),
    ("q06", "", "", "{ me { username } topProducts { name } }"),
    ("q07", "", "", "{ me { username reviews { body } } topProducts { name reviews { body } } }"),
    ("q08", "", "", "{ me { username history { __typename ... on Purchase { wallet { amount } product { upc name } } ... on Sale { rating product { upc price } } } } }"),
    ("q09", "", "", "{ me { reviews { product { name reviews { body author { username } } } } } }"),
    ("q10", "", "", "{ cat { name } me { id } }"),
    ("q11", "", "", "{ me { realName reviews { body } } }"),
    ("q12", "", "", "{ topProducts(first: 2) { name price inStock } }"),
    ("q13", "", "", "{ me { id } histories { __typename ... on Purchase { quantity } ... on Sale { location } } }"),
    ("q14", "M", "", "mutation M { addReview(authorID: \"1234\", upc: \"top-1\", review: \"x\") { body author { username id } product { name } } }"),
    ("q15", "Q", "{\"n\":1}", "query Q($n: Int) { topProducts(first: $n) { name reviews { body } } }"),
    ("q16", "", "", "{ a: me { n: username r: reviews { b: body p: product { u: upc nm: name } } } }"),
    ("q17", "", "", "{ topProducts { name reviews { body author { username reviews { body product { name } } } } } }"),
    ("q18", "", "", "{ me { username reviews { body attachments { __typename ... on Question { body subject } ... on Rating { score } ... on Video { size } } } } }"),
    ("q19", "", "", "{ me { username reviews { body product { name } } } topProducts { name price reviews { author { username } } } cat { name } }"),
    ("q20", "", "", "{ me { username realName history { __typename ... on Sale { product { name reviews { body } } } } } }"),
    ("q21", "", "", "{ topProducts { name reviews { body author { username history { __typename ... on Sale { rating } } } } } }"),
    ("q22", "", "", "{ me { username reviews { body product { name reviews { author { id history { __typename } } } } } } }"),
    ("q23", "", "", "{ topProducts { name inStock reviews { body product { price } } } me { id } }"),
    ("q24", "", "", "{ me { id realName reviews { body author { realName } product { upc inStock } } } }"),
    # the same operations planned with EnableMultiFetch (ids in MULTI): same-subgraph entity fetches of one wave become one MultiEntityFetch
    ("m07", "", "", "{ me { username reviews { body } } topProducts { name reviews { body } } }"),
    ("m08", "", "", "{ me { username history { __typename ... on Purchase { wallet { amount } product { upc name } } ... on Sale { rating product { upc price } } } } }"),
    ("m19", "", "", "{ me { username reviews { body product { name } } } topProducts { name price reviews { author { username } } } cat { name } }"),
    # topProducts is empty: the batch entry of the MultiEntityFetch is excluded (@include false), only the single-origin entry is asked
    ("m25", "", "", "{ me { username reviews { body } } topProducts(first: 0) { name reviews { body } } }"),
]
MULTI = {"m07", "m08", "m19", "m25"}
# operations over harness/internal/minifed (ids n..): @requires on a nested entity with ValidateRequiredExternalFields
# (tainted objects), an entity key that is a non-null ID delivered by a faultable request, a chain of 4 subgraphs
OPS += [
    ("n01", "", "", "{ user { name orders { sku total label } summary } }"),
    ("n02", "", "", "{ user { orders { id } name summary } }"),
    ("n03", "", "", "{ user { name orders { label } } }"),
    ("n04", "", "", "{ user { id orders { sku } summary name } }"),
]
# subgraph error propagation: pass-through (p..) and pass-through + RewriteSubgraphErrorPaths (e..) variants
OPS += [
    ("p01", "", "", "{ user { name orders { sku total label } summary } }"),
    ("e01", "", "", "{ user { name orders { sku total label } summary } }"),
    ("p03", "", "", "{ me { username reviews { body product { upc name price } } } }"),
    ("e03", "", "", "{ me { username reviews { body product { upc name price } } } }"),
    ("e05", "", "", "{ topProducts { upc name reviews { body author { id username realName } } } }"),
]
MINI = {"n01", "n02", "n03", "n04", "p01", "e01"}
# operations whose single failures are refined by Gen_FetchExec!variant (status codes, error-array shapes, odd extensions)
VARIANTS = {"n01", "n02", "n04", "p01", "e01", "q03", "q07", "m07"}
ERRMODE = {"p01": "pass", "e01": "rewrite", "p03": "pass", "e03": "rewrite", "e05": "rewrite"}


def op_dict(o):
    return {"id": o[0], "name": o[1], "vars": o[2], "query": o[3], "multi": o[0] in MULTI, "env": "mini" if o[0] in MINI else "",
            "errmode": ERRMODE.get(o[0], "")}

INVS = ["DeniedNotSent", "ErrPathsPass", "ErrPathsNames", "ErrPathsExact", "RepeatClean", "NoFabrication", "SameOperation", "Independent", "SkipJustified", "SkipHonoured", "ErrorReportedPerFetch", "DepsSettled",
        "ResponseWellFormed", "ErrorsNonEmpty", "Isolated"]
EVENTS = {"ld.skipped", "ld.prepared", "ld.load", "ld.loaded", "ld.merging", "ld.merged", "req", "deny"}


# ------------------------------------------------------------------------------------------- plumbing

def tla_tree(t):
    if t["k"] == "F":
        return {"k": "F", "id": t["id"] + 1, "m": [t["id"] + 1], "c": []}
    return {"k": t["k"], "id": 0, "m": [], "c": [tla_tree(c) for c in t.get("c", [])]}


def strip_path(p):
    return tuple(x for x in p.split(".") if x and x != "@")


def collect_paths(v, prefix, fid, src):
    if isinstance(v, dict):
        for k, c in v.items():
            src.setdefault(prefix + (k,), set()).add(fid)
            collect_paths(c, prefix + (k,), fid, src)
    elif isinstance(v, list):
        for c in v:
            collect_paths(c, prefix, fid, src)


def provenance(plan):
    """path (response keys, list indices dropped) -> fetch ids whose fault-free answer carried it."""
    src = {}
    fetch_by_id = {f["id"]: f for f in plan["fetches"]}
    for x in plan["exchanges"]:
        f = fetch_by_id.get(x["fetch"])
        if f is None:
            raise lib.Inconclusive("plan %s: exchange without fetch id" % plan["id"])
        try:
            body = json.loads(x["response"])
        except ValueError:
            raise lib.Inconclusive("plan %s: fault-free subgraph answer is not JSON" % plan["id"])
        data = body.get("data") or {}
        base = strip_path(f["path"])
        alias_path = {e["alias"]: strip_path(e["path"]) for e in (f.get("entries") or [])}
        if x["is_entity"]:
            for k, v in data.items():
                for e in (v or []):
                    # MultiEntityFetch: every aliased _entities field belongs to one merged fetch with its own response path
                    collect_paths(e, alias_path.get(k, base), f["id"], src)
        else:
            collect_paths(data, base, f["id"], src)
    return src


def annotate(v, shape, path, src, missing):
    nn = shape["nn"] if shape else 0
    if shape is None:
        missing.append(path)
        shape = {}
    if v is None:
        return {"t": "null", "nn": nn}
    s = sorted(f + 1 for f in src.get(path, ()))
    if not s and path:
        missing.append(path)
    if isinstance(v, dict):
        keys = sorted(v)
        fields = shape.get("fields") or {}
        return {"t": "obj", "nn": nn, "src": s, "k": keys, "c": [annotate(v[k], fields.get(k), path + (k,), src, missing) for k in keys]}
    if isinstance(v, list):
        return {"t": "list", "nn": nn, "src": s, "c": [annotate(c, shape.get("list"), path, src, missing) for c in v]}
    return {"t": "leaf", "nn": nn, "src": s, "v": json.dumps(v)}


def tag(v):
    if v is None:
        return {"t": "null"}
    if isinstance(v, dict):
        keys = sorted(v)
        return {"t": "obj", "k": keys, "c": [tag(v[k]) for k in keys]}
    if isinstance(v, list):
        return {"t": "list", "c": [tag(c) for c in v]}
    return {"t": "leaf", "v": json.dumps(v)}


class PlanInfo:
    def __init__(self, plan):
        self.plan = plan
        self.id = plan["id"]
        self.fetches = sorted(plan["fetches"], key=lambda f: f["id"])
        self.n = len(self.fetches)
        # fetch ids of the plan need not be contiguous (MultiEntityFetch swallows ids): python and TLC use the index
        self.real = [f["id"] for f in self.fetches]
        self.idx = {r: i for i, r in enumerate(self.real)}
        if len(self.idx) != self.n:
            raise lib.Inconclusive("plan %s: duplicate fetch ids %s" % (self.id, self.real))
        for f in self.fetches:
            f["id"] = self.idx[f["id"]]
            f["deps"] = [self.idx[d] for d in f["deps"] if d in self.idx]

        def renum(t):
            if t["k"] == "F":
                t["id"] = self.idx[t["id"]]
            for c in t.get("c", []):
                renum(c)
        renum(plan["tree"])
        self.normalise(plan)
        self.r0 = {}
        for x in plan["exchanges"]:
            if x["fetch"] in self.r0:
                raise lib.Inconclusive("plan %s: two fault-free requests for fetch %d" % (self.id, x["fetch"]))
            self.r0[x["fetch"]] = x
        self.reps0 = {}
        self.e0 = []
        for f in self.fetches:
            x = self.r0.get(f["id"])
            if x is None:
                self.e0.append([])
            elif x["is_entity"]:
                d = []
                for r in x["reps"]:
                    if r not in d:
                        d.append(r)
                self.reps0[f["id"]] = d
                self.e0.append(list(range(1, len(d) + 1)))
            else:
                self.e0.append([1])
        resp = json.loads(plan["response"])
        if resp.get("errors"):
            raise lib.Inconclusive("plan %s: the fault-free response has errors" % self.id)
        self.data0 = resp.get("data")
        self.src = provenance(plan)
        missing = []
        self.a = annotate(self.data0, plan["shape"], (), self.src, missing)
        if missing:
            raise lib.Inconclusive("plan %s: no provenance / type for response positions %s" % (self.id, missing[:5]))
        self.tree = tla_tree(plan["tree"])

    def normalise(self, res):
        """driver output (real fetch ids) -> index space"""
        res["exchanges"] = res.get("exchanges") or []
        res["events"] = res.get("events") or []
        if res.get("repeat"):
            res["repeat"]["exchanges"] = res["repeat"].get("exchanges") or []
        for x in res["exchanges"]:
            x["fetch"] = self.idx.get(x["fetch"], -1)
        for e in res["events"]:
            e["a"] = self.idx.get(e["a"], -1)

    def driver_case(self, c):
        """case in index space -> driver input (real fetch ids)"""
        return {"id": c["id"], "op": c["op"], "faults": {str(self.real[int(k)]): v for k, v in c["faults"].items()},
                "order": [self.real[f] for f in c["order"]], "then": c.get("then", ""), "variant": c.get("variant", 0)}

    def items_at(self, f):
        """positions (response paths with list indices) of the objects fetch f's representations are rendered from, in
        document order of the fault-free response"""
        out = []

        def walk(v, elems, pos):
            if isinstance(v, list):
                for i, c in enumerate(v):
                    walk(c, elems, pos + (i,))
                return
            if not elems:
                if isinstance(v, dict):
                    out.append(pos)
                return
            if elems[0] == "@":
                return walk(v, elems[1:], pos)
            if isinstance(v, dict) and elems[0] in v:
                walk(v[elems[0]], elems[1:], pos + (elems[0],))
        walk(self.data0, [x for x in self.fetches[f]["path"].split(".") if x], ())
        return out

    def shape_line(self):
        return {"op": self.id, "n": self.n, "tree": self.tree, "partner": 1 if getattr(self, "partner", None) else 0,
                "vars": 1 if self.id in VARIANTS else 0,
                "entity": [1 if (self.r0.get(f["id"]) or {}).get("is_entity") else 0 for f in self.fetches]}

    def sig(self, faults, res=None):
        """canonical signature of a fault assignment: fetch kind / fault kind pairs (sorted). With a result: only the
        faults that materialised (the request was sent and the fault applied) — a fault on a request that is never
        sent because its dependency failed is no failure."""
        if res is not None:
            hit = {str(x["fetch"]) for x in res["exchanges"] if x["applied"]}
            hit |= {str(e["a"]) for e in res["events"] if e["p"] == "deny"}  # rate limited: denied before anything is sent
            # a 5xx with a valid body that the gateway used (its merge added no error) is no failure either
            cnt = {}
            for e in res["events"]:
                if e["p"] in ("ld.merging", "ld.merged"):
                    cnt.setdefault(str(e["a"]), []).append(e["b"])
            used = {k for k, v in cnt.items() if len(v) == 2 and v[0] == v[1]}
            faults = {k: v for k, v in faults.items() if k in hit and not (v == "Non2xxJSON" and k in used)}
        return "+".join(sorted("%s/%s" % (self.fetches[int(k)]["kind"], v) for k, v in faults.items()))


def tpath(p):
    return [{"t": "i", "v": str(x)} if isinstance(x, int) and not isinstance(x, bool) else {"t": "s", "v": str(x)} for x in p]


def err_records(pi, res, doc):
    """one record per error carried by the (faulty) subgraph answers of this run, related to the client's errors"""
    out = []
    client = (doc.get("errors") or []) if isinstance(doc, dict) else []
    for x in res["exchanges"]:
        try:
            body = json.loads(x["response"])
        except ValueError:
            continue
        if not isinstance(body, dict) or not isinstance(body.get("errors"), list) or x["fetch"] < 0:
            continue
        f = pi.fetches[x["fetch"]]
        items = pi.items_at(x["fetch"])
        nreps = len(pi.reps0.get(x["fetch"], []))
        for e in body["errors"]:
            if not isinstance(e, dict):
                continue
            sub = e.get("path")
            subhas = 1 if isinstance(sub, list) else 0
            sub = list(sub) if subhas else []
            got = next((c for c in client if isinstance(c, dict) and c.get("message") == e.get("message")), None)
            ent, known, item, rest = 0, 0, [], []
            if subhas and sub and isinstance(sub[0], str) and (sub[0] == "_entities" or (f.get("entries") and any(en["alias"] == sub[0] for en in f["entries"]))):
                sub[0] = "_entities"  # the alias of a MultiEntityFetch entry is never shown
                if len(sub) >= 2 and isinstance(sub[1], int):
                    ent = 1
                    rest = sub[2:]
                    # representation i <-> i-th object at the fetch's response path (only when nothing was de-duplicated)
                    if not f.get("entries") and len(items) == nreps and sub[1] < len(items):
                        known, item = 1, list(items[sub[1]])
            gp = got.get("path") if got else None
            out.append({"f": x["fetch"] + 1, "found": 1 if got else 0, "subhas": subhas, "sub": tpath(sub), "haspath": 1 if isinstance(gp, list) else 0,
                        "got": tpath(gp if isinstance(gp, list) else []), "ent": ent, "known": known, "item": tpath(item), "rest": tpath(rest)})
    return out


def trace_of(pi, res, pi2=None):
    """NDJSON lines (TLC trace) for one result of the driver."""
    faults = {int(k): v for k, v in res["case"]["faults"].items()}
    xs = {x["seq"]: x for x in res["exchanges"]}
    eff = []
    for f in pi.fetches:
        k = faults.get(f["id"], "ok")
        if k != "ok":
            # a fault that could not be applied (no _entities array to shorten) is no fault
            for x in res["exchanges"]:
                if x["fetch"] == f["id"] and not x["applied"]:
                    k = "ok"
        eff.append(k)
    lines = [{"ev": "reset", "id": res["id"], "n": pi.n, "tree": pi.tree, "deps": [[d + 1 for d in f["deps"]] for f in pi.fetches],
              "fault": eff, "e0": pi.e0}]
    for e in sorted(res["events"], key=lambda e: e["seq"]):
        if e["p"] not in EVENTS:
            continue
        if e["p"] == "deny":
            lines.append({"ev": "deny", "f": e["a"] + 1, "b": 0})
            continue
        if e["p"] == "req":
            x = xs.get(e["b"])
            fid = e["a"]
            x0 = pi.r0.get(fid)
            same = 1 if (x0 is not None and x is not None and x0["subgraph"] == x["subgraph"] and x0["query"] == x["query"]) else 0
            ents = []
            if x is None or fid < 0:
                same = 0
            elif x["is_entity"]:
                d = pi.reps0.get(fid, [])
                fresh = 100
                for r in x["reps"]:
                    if r in d:
                        n = d.index(r) + 1
                    else:
                        fresh += 1
                        n = fresh
                    if n not in ents:
                        ents.append(n)
            else:
                ents = [1] if (x0 is not None and x0["variables"] == x["variables"]) else [99]
            lines.append({"ev": "req", "f": fid + 1, "b": 0, "ents": ents, "same": same})
        else:
            lines.append({"ev": e["p"], "f": e["a"] + 1, "b": e["b"]})
    valid, nerr, x, doc = 0, 0, {"t": "null"}, None
    try:
        doc = json.loads(res["response"])
        if isinstance(doc, dict) and (doc.get("errors") is None or isinstance(doc.get("errors"), list)):
            valid = 1
            nerr = len(doc.get("errors") or [])
            x = tag(doc.get("data"))
    except ValueError:
        pass
    mode = {"": 0, "pass": 1, "rewrite": 2}[ERRMODE.get(pi.id, "")]
    lines.append({"ev": "response", "f": 0, "b": 0, "arrived": 1 if res["arrived"] else 0, "valid": valid, "nerr": nerr,
                  "hasdata": valid, "a": pi.a, "x": x, "mode": mode, "errs": err_records(pi, res, doc) if (mode and valid) else []})
    rp = res.get("repeat")
    if rp:
        valid, nerr, x = 0, 0, {"t": "null"}
        try:
            doc = json.loads(rp["response"])
            if isinstance(doc, dict):
                valid = 1
                nerr = len(doc.get("errors") or [])
                x = tag(doc.get("data"))
        except ValueError:
            pass
        key = lambda e: (e["subgraph"], e["query"], e["variables"])
        p2 = pi2 or pi  # the second request may be another operation (sharing a subgraph request with the first)
        reqsame = 1 if sorted(map(key, rp["exchanges"])) == sorted(map(key, p2.plan["exchanges"])) else 0
        lines.append({"ev": "repeat", "f": 0, "b": 0, "arrived": 1 if rp["arrived"] else 0, "valid": valid, "nerr": nerr,
                      "reqsame": reqsame, "a": p2.a, "x": x})
    return lines


# ------------------------------------------------------------------------------------------- stages

WEDGES = {"n": 0}


def run_driver(ctx, binary, ops_path, cases, tag_, plans):
    """Run the driver over the cases; restarts it when a case wedged (the driver exits 3 after a wedged case).
    After 3 wedged cases in total the replay stops early (every further one would cost 15 s)."""
    results = []
    todo = list(cases)
    rounds = 0
    while todo and WEDGES["n"] < 3:
        rounds += 1
        cp = ctx.path("cases-%s-%d.ndjson" % (tag_, rounds))
        rp = ctx.path("results-%s-%d.ndjson" % (tag_, rounds))
        lib.write_ndjson(cp, [plans[c["op"]].driver_case(c) for c in todo])
        e = dict(os.environ)
        e["VERIF_SEED"] = str(ctx.seed)
        try:
            p = subprocess.run([binary, "-mode", "run", "-ops", ops_path, "-in", cp, "-out", rp], stdout=subprocess.PIPE,
                               stderr=subprocess.PIPE, text=True, timeout=3000, env=e, cwd=ctx.scratch)
        except subprocess.TimeoutExpired:
            raise lib.Inconclusive("driver faults timed out")
        got = lib.read_ndjson(rp) if os.path.exists(rp) else []
        for g_ in got:
            plans[g_["op"]].normalise(g_)
        results += got
        if p.returncode == 0:
            break
        if p.returncode != 3 or not got:
            print(p.stderr[-3000:])
            raise lib.Inconclusive("driver faults exited %d" % p.returncode)
        todo = todo[len(got):]
        WEDGES["n"] += 1
        if rounds > 20:
            raise lib.Inconclusive("driver faults: too many wedged cases")
    return results


STUCK = {"n": 0}


def validate_batch(ctx, idx, lines, owners):
    """One TLC pass over a batch of concatenated traces: every invariant is evaluated in every state, false ones are
    printed by the trace spec (C07_VIOLATED name line) and validation continues; a trace that is not a behaviour of the
    spec stops TLC (TRACE_STUCK_AT_LINE): it is cut out and the rest of the batch is validated in another pass.
    Returns [(case id, tlc verdict, event, event index within the trace)]."""
    problems = []
    cur = lines
    cur_owner = owners
    for attempt in range(40):
        if not cur or STUCK["n"] >= 30:
            break
        tp = ctx.path("trace-%d-%d.ndjson" % (idx, attempt))
        lib.write_ndjson(tp, cur + [{"ev": "end", "f": 0, "b": 0}])
        r = ctx.tlc(["resolve"], "Trace_FetchExec", "Trace_FetchExec.cfg", workers=1, env={"TRACE": tp}, timeout=1500,
                    deadlock=False, count=False, tag="trace-validation", heap="3g")
        stuck = None
        seen = set()
        for x in r.out.splitlines():
            if "C07_VIOLATED" in x:
                parts = [y.strip().strip('"') for y in x.strip().strip("<>").split(",")]
                name, line = parts[1], int(parts[2])
                if 1 <= line <= len(cur):
                    cid = cur_owner[line - 1]
                    if (cid, name) not in seen:
                        seen.add((cid, name))
                        problems.append((cid, name, cur[line - 1], line - cur_owner.index(cid)))
            if "TRACE_STUCK_AT_LINE" in x:
                stuck = int(x.replace(">>", "").split(",")[-1].strip())
        if r.ok:
            break
        if stuck is None or stuck < 1 or stuck > len(cur):
            print(r.out[-3000:])
            raise lib.Inconclusive("trace validation failed in an unexpected way: %s" % r.error)
        cid = cur_owner[stuck - 1]
        start = cur_owner.index(cid)
        end = len(cur_owner) - cur_owner[::-1].index(cid)
        problems.append((cid, "nonconformance", cur[stuck - 1], stuck - start))
        STUCK["n"] += 1
        cur = cur[end:]
        cur_owner = cur_owner[end:]
    else:
        ctx.notes.append("trace validation of batch %d stopped after 40 non-conforming traces" % idx)
    return problems


def replay(ctx, binary):
    """bin/check C07 --replay replay/C07-xxxx.json : re-execute one recorded case and judge it again."""
    with open(ctx.replay_in) as f:
        rep = json.load(f)
    case = rep["case"]["case"]
    op = rep["case"].get("operation") or op_dict(next(o for o in OPS if o[0] == case["op"]))
    op.setdefault("multi", op["id"] in MULTI)
    op.setdefault("env", "mini" if op["id"] in MINI else "")
    op.setdefault("errmode", ERRMODE.get(op["id"], ""))
    ops_path = ctx.path("ops.json")
    with open(ops_path, "w") as f:
        json.dump([op], f)
    pp = ctx.path("plans.ndjson")
    ctx.run_bin(binary, ["-mode", "plan", "-in", ops_path, "-out", pp], timeout=300)
    pi = PlanInfo(lib.read_ndjson(pp)[0])
    case = dict(case, id="replay")
    res = run_driver(ctx, binary, ops_path, [case], "replay", {pi.id: pi})[0]
    res["case"] = case
    print("response:", res["response"])
    if res["panic"] or not res["arrived"]:
        ctx.violation(rep.get("key", "replay"), "panic / no response on replay: %s" % res["panic"][:300], {"case": case, "result": res})
        return
    pi2 = None
    if case.get("then"):
        o2 = op_dict(next(o for o in OPS if o[0] == case["then"]))
        with open(ops_path, "w") as f:
            json.dump([op, o2], f)
        ctx.run_bin(binary, ["-mode", "plan", "-in", ops_path, "-out", pp], timeout=300)
        pi2 = PlanInfo(lib.read_ndjson(pp)[1])
        res = run_driver(ctx, binary, ops_path, [case], "replay2", {pi.id: pi})[0]
        res["case"] = case
    tr = trace_of(pi, res, pi2)
    for cid, verdict, ev, off in validate_batch(ctx, 0, tr, ["replay"] * len(tr)):
        print("  %s at event #%d %s" % (verdict, off, json.dumps({k: v for k, v in ev.items() if k not in ("a", "x")})))
        fid = ev.get("f", 0) - 1
        if verdict in PER_FETCH and 0 <= fid < pi.n:
            key = fetch_key(pi, verdict, fid, case["faults"], res)
        else:
            key = "%s:%s" % (verdict, pi.sig(case["faults"], res))
        ctx.violation(key, "replay: %s; response %s" % (verdict, res["response"][:400]), {"case": case, "operation": op, "response": res["response"],
                                                                                         "exchanges": res["exchanges"], "events": res["events"]})
    ctx.coverage.update({"traces_validated_against_impl": 1, "evaluations": 1, "distinct_nontrivial": 1, "rule": "replay of one recorded case", "exhaustive": False})


def fetch_key(pi, verdict, fid, faults, res):
    if verdict == "ErrorReportedPerFetch":
        # about the fetch's own failure
        return "%s:%s/%s" % (verdict, pi.fetches[fid]["kind"], faults.get(str(fid), "ok"))
    # about what the loader did with a fetch because of failures that materialised elsewhere
    others = {k: v for k, v in faults.items() if k != str(fid)}
    return "%s:%s@%s" % (verdict, pi.fetches[fid]["kind"], pi.sig(others, res))


PER_FETCH = ("ErrorReportedPerFetch", "NoFabrication", "SameOperation", "Independent", "SkipJustified", "SkipHonoured", "DepsSettled")


def run(ctx):
    rng = random.Random(ctx.seed)
    # findings of this property that are not merged into known-findings.json yet (findings.d/C07.json)
    frag = os.path.join(lib.VERIF, "findings.d", "C07.json")
    if os.path.exists(frag):
        have = {(k.get("property"), k.get("key")) for k in ctx.known()}
        with open(frag) as f:
            for k in json.load(f):
                if (k.get("property"), k.get("key")) not in have:
                    ctx.known().append(k)
    quick = ctx.quick()
    binary = ctx.build("faults")
    if ctx.replay_in:
        return replay(ctx, binary)
    # ---- 1. model checking ------------------------------------------------------------------------
    ctx.tlc_must_pass(["resolve"], "MC_FetchExec", "MC_FetchExec_3q.cfg" if quick else "MC_FetchExec_3.cfg", workers=8, timeout=900, tag="mc-3")
    if not quick:
        ctx.tlc_must_pass(["resolve"], "MC_FetchExec", "MC_FetchExec_4.cfg", workers=8, timeout=2400, tag="mc-4", heap="12g")
    r = ctx.tlc(["resolve"], "MC_FetchExec", "MC_FetchExec_neg.cfg", workers=2, timeout=300, count=False, tag="mc-negative-control")
    if r.violated != "Independent":
        raise lib.Inconclusive("sanity: the skip-on-any-error loader should violate Independent in the model, got %r" % r.error)
    # ---- 2. real plans ----------------------------------------------------------------------------
    ops = [op_dict(o) for o in OPS]
    ops_path = ctx.path("ops.json")
    with open(ops_path, "w") as f:
        json.dump(ops, f)
    pp = ctx.path("plans.ndjson")
    ctx.run_bin(binary, ["-mode", "plan", "-in", ops_path, "-out", pp], timeout=300)
    plans = {}
    for p in lib.read_ndjson(pp):
        if p["err"] or p.get("shape_err") or not p["arrived"]:
            raise lib.Inconclusive("fault-free execution of %s failed: %s %s" % (p["id"], p["err"], p.get("shape_err")))
        plans[p["id"]] = PlanInfo(p)
    shapes_path = ctx.path("shapes.ndjson")
    order = [o["id"] for o in ops]
    # partner = another operation on the same kind of gateway that shares a subgraph request (single-flight key) with this one
    rk = lambda e: (e["subgraph"], e["query"], e["variables"])
    opd = {o["id"]: o for o in ops}
    for i in order:
        mine = set(map(rk, plans[i].plan["exchanges"]))
        plans[i].partner = next((j for j in order if j != i and all(opd[i][k] == opd[j][k] for k in ("env", "multi", "errmode"))
                                 and opd[i]["query"] != opd[j]["query"] and mine & set(map(rk, plans[j].plan["exchanges"]))), None)
    lib.write_ndjson(shapes_path, [plans[i].shape_line() for i in order])
    distinct_shapes = {lib.sha([plans[i].tree, [f["deps"] for f in plans[i].fetches], [f["kind"] for f in plans[i].fetches]]) for i in order}
    ctx.log("%d operations, %d distinct plan shapes (tree, deps, fetch kinds)" % (len(order), len(distinct_shapes)))
    # ---- 3. generation ----------------------------------------------------------------------------
    g = ctx.tlc_must_pass(["resolve"], "Gen_FetchExec", "Gen_FetchExec_%s.cfg" % ("quick" if quick else "thorough"), workers=8,
                          env={"SHAPES": shapes_path}, timeout=1500, deadlock=False, tag="gen")
    uniq = {}
    for c in g.printed:
        uniq[lib.sha(c)] = c
    gen = sorted(uniq.values(), key=lambda c: lib.sha(c))
    cases = []
    for c in gen:
        pi = plans[c["op"]]
        faults = {str(i): k for i, k in enumerate(c["fault"]) if k != "ok"}
        cases.append({"op": c["op"], "faults": faults, "order": [f - 1 for f in c["order"]], "nf": len(faults), "all": len(faults) == pi.n,
                      "then": pi.partner if c.get("second") == "other" else "", "variant": c.get("variant", 0)})
    small = [c for c in cases if c["nf"] <= 1 or c["all"]]
    big = [c for c in cases if not (c["nf"] <= 1 or c["all"])]
    rng.shuffle(big)
    cap = 200 if quick else 10 ** 9
    if quick and len(small) > 1500:
        # every (operation, fault assignment) at least once, the remaining completion orders sampled
        first, rest, seen = [], [], set()
        for c in small:
            k = (c["op"], json.dumps(c["faults"], sort_keys=True), c["then"], c["variant"])
            (rest if k in seen else first).append(c)
            seen.add(k)
        rng.shuffle(rest)
        small = first + rest[:max(0, 1500 - len(first))]
    chosen = small + big[:cap]
    for i, c in enumerate(chosen):
        c["id"] = "c%06d" % i
    ctx.log("generated %d cases (%d with |F|<=1 or all-fail, %d larger); replaying %d" % (len(cases), len(small), len(big), len(chosen)))
    # ---- 4. replay --------------------------------------------------------------------------------
    nproc = 6
    chunks = [chosen[i::nproc] for i in range(nproc)]
    with cf.ThreadPoolExecutor(max_workers=nproc) as ex:
        futs = [ex.submit(run_driver, ctx, binary, ops_path, ch, "p%d" % i, plans) for i, ch in enumerate(chunks) if ch]
        results = [r for f in futs for r in f.result()]
    by_id = {c["id"]: c for c in chosen}
    ctx.log("replayed %d cases" % len(results))
    retry = []
    ok_results = []
    for r in results:
        r["case"] = by_id[r["id"]]
        if r["panic"]:
            pi = plans[r["op"]]
            ctx.violation("panic:%s" % pi.sig(r["case"]["faults"]), "panic while resolving under faults: %s" % r["panic"][:300],
                          {"case": r["case"], "operation": op_dict(next(o for o in OPS if o[0] == r["op"])), "result": r})
        elif r["arrived"] and r["err"] and not r["response"].strip():
            # oracle-free: the gateway answered with an error instead of a response document
            pi = plans[r["op"]]
            ctx.violation("noresponse:%s" % pi.sig(r["case"]["faults"], r),
                          "Execute returned an error and wrote no response at all (%s) for %s under faults %s (variant %s): the failure "
                          "of one subgraph request took down the whole request" % (r["err"][:200], r["op"], r["case"]["faults"], r["case"].get("variant", 0)),
                          {"case": r["case"], "operation": op_dict(next(o for o in OPS if o[0] == r["op"])), "result": r})
        elif not r["arrived"] or r["unrealised"] or (r.get("repeat") and not r["repeat"]["arrived"]):
            retry.append(r)
        else:
            ok_results.append(r)
    unreal = 0
    if WEDGES["n"] >= 3:
        ctx.notes.append("replay stopped early after %d cases that did not answer within the deadline" % WEDGES["n"])
    hung = lambda r: (not r["arrived"]) or bool(r.get("repeat") and not r["repeat"]["arrived"])
    retry.sort(key=lambda r: (not hung(r), r["id"]))
    confirmed = 0
    for r in retry:
        if confirmed >= 2 and hung(r):
            continue
        # a miss is re-run once, alone, before it counts
        WEDGES["n"] = 0
        again = run_driver(ctx, binary, ops_path, [r["case"]], "retry-" + r["id"], plans)
        a = again[0] if again else r
        a["case"] = r["case"]
        pi = plans[r["op"]]
        if a["arrived"] and a.get("repeat") and not a["repeat"]["arrived"]:
            confirmed += 1
            ctx.violation("poisoned:%s" % pi.sig(r["case"]["faults"], a),
                          "after the faulty execution of %s (faults %s) the same operation, repeated fault-free on the same gateway, did "
                          "not answer within 10 s (twice)" % (r["op"], r["case"]["faults"]), {"case": r["case"], "result": a})
        elif not a["arrived"]:
            confirmed += 1
            ctx.violation("wedged:%s" % pi.sig(r["case"]["faults"]),
                          "no response within 10 s (twice) for %s under faults %s" % (r["op"], r["case"]["faults"]),
                          {"case": r["case"], "result": a})
        elif a["unrealised"]:
            unreal += 1
            ok_results.append(a)
        else:
            ok_results.append(a)
    if unreal:
        ctx.notes.append("%d cases whose completion order could not be enforced within 3 s (validated anyway)" % unreal)
    # ---- 5. validation ----------------------------------------------------------------------------
    ok_results.sort(key=lambda r: r["id"])
    batch_size = 150
    batches = []
    for i in range(0, len(ok_results), batch_size):
        lines, owners = [], []
        for r in ok_results[i:i + batch_size]:
            t = trace_of(plans[r["op"]], r, plans.get(r["case"].get("then") or ""))
            lines += t
            owners += [r["id"]] * len(t)
        batches.append((lines, owners))
    res_by_id = {r["id"]: r for r in ok_results}
    with cf.ThreadPoolExecutor(max_workers=6) as ex:
        futs = [ex.submit(validate_batch, ctx, i, b[0], b[1]) for i, b in enumerate(batches)]
        problems = [p for f in futs for p in f.result()]
    if STUCK["n"] >= 30:
        ctx.notes.append("trace validation stopped early after %d non-conforming traces" % STUCK["n"])
    bad = set()
    for cid, verdict, ev, off in problems:
        r = res_by_id[cid]
        pi = plans[r["op"]]
        bad.add(cid)
        fid = ev.get("f", 0) - 1
        if verdict in PER_FETCH and 0 <= fid < pi.n:
            # these speak about one fetch: the one whose event made the invariant false
            key = fetch_key(pi, verdict, fid, r["case"]["faults"], r)
        elif verdict.startswith("ErrPaths"):
            # about the subgraph answers whose errors are not where the relation puts them (for the key only: which fetches)
            try:
                recs = err_records(pi, r, json.loads(r["response"]))
            except ValueError:
                recs = []
            off = {str(e["f"] - 1) for e in recs if not e["found"] or e["haspath"] != e["subhas"]
                   or (e["subhas"] and e["got"] != (e["sub"] if (verdict == "ErrPathsPass" or not e["ent"]) else e["item"] + e["rest"]))}
            key = "%s:%s" % (verdict, "+".join(sorted({"%s/%s" % (pi.fetches[int(k)]["kind"], r["case"]["faults"].get(k, "ok")) for k in off})))
        else:
            key = "%s:%s" % (verdict, pi.sig(r["case"]["faults"], r))
        if verdict == "nonconformance":
            what = "recorded trace is not a behaviour of FetchExec (no enabled action matches event #%d %s)" % (off, json.dumps({k: v for k, v in ev.items() if k not in ("a", "x")}))
        else:
            what = "invariant %s is false on the trace recorded from the real loader" % verdict
        op = next(o for o in OPS if o[0] == r["op"])
        ctx.violation(key, "%s; operation %s %s, faults %s (variant %s), order %s; response %s" % (what, r["op"], op[3], r["case"]["faults"], r["case"].get("variant", 0), r["case"]["order"], r["response"][:400]),
                      {"case": r["case"], "operation": op_dict(op),
                       "fetches": pi.fetches, "fault_free_response": pi.plan["response"], "response": r["response"],
                       "exchanges": r["exchanges"], "events": r["events"], "tlc": verdict, "failing_event": {k: v for k, v in ev.items() if k not in ("a", "x")}})
    validated = len(ok_results) - len(bad)
    # ---- binding demonstration: corrupted versions of a real, accepted trace must be rejected ----------------------
    demo = next((r for r in ok_results if r["id"] not in bad and plans[r["op"]].n >= 2 and len(r["case"]["faults"]) == 1
                 and not r["case"].get("then")
                 and any(e["ev"] == "req" and len(e["ents"]) > 0 for e in trace_of(plans[r["op"]], r)[2:])), None)
    if demo is not None:
        base = trace_of(plans[demo["op"]], demo)
        owners = [demo["id"]] * len(base)

        def corrupt_leaf(x):
            if x["t"] == "leaf":
                x["v"] = json.dumps("corrupted")
                return True
            return any(corrupt_leaf(c) for c in x.get("c", []))
        v1 = [e for i, e in enumerate(base) if not (e["ev"] == "ld.merged" and i == max(j for j, q in enumerate(base) if q["ev"] == "ld.merged"))]
        v2 = json.loads(json.dumps(base))
        changed = corrupt_leaf(next(e for e in v2 if e["ev"] == "response")["x"])
        v4 = json.loads(json.dumps(base))
        changed4 = v4[-1]["ev"] == "repeat" and corrupt_leaf(v4[-1]["x"])
        v3 = json.loads(json.dumps(base))
        next(e for e in v3 if e["ev"] == "req" and e["f"] >= 2 or e["ev"] == "req")["ents"].append(777)
        expect = [("dropped ld.merged event", v1, "nonconformance"), ("fabricated representation in a request", v3, "NoFabrication")]
        if changed:
            expect.append(("corrupted value in the response data", v2, "Isolated"))
        if changed4:
            expect.append(("corrupted value in the response of the repetition", v4, "RepeatClean"))
        stuck_before = STUCK["n"]
        STUCK["n"] = 0
        for i, (what, tr, want) in enumerate(expect):
            STUCK["n"] = 0
            got = {p[1] for p in validate_batch(ctx, 9000 + i, tr, [demo["id"]] * len(tr))}
            if want not in got:
                raise lib.Inconclusive("binding demonstration failed: %s was not rejected with %s (got %s)" % (what, want, sorted(got)))
        STUCK["n"] = stuck_before
        ctx.notes.append("binding demonstration: dropped event / fabricated representation / corrupted response value of trace %s rejected" % demo["id"])
    ck = lambda r: lib.sha([r["op"], r["case"]["faults"], r["case"]["order"], r["case"].get("then"), r["case"].get("variant", 0)])
    distinct = {ck(r) for r in ok_results}
    nontrivial = {ck(r) for r in ok_results if plans[r["op"]].n >= 2}
    sample = ok_results[len(ok_results) // 2] if ok_results else None
    ctx.coverage.update({
        "traces_validated_against_impl": validated,
        "evaluations": len(results),
        "distinct_nontrivial": len(nontrivial),
        "rule": "one case = (operation with its real plan, TLC-generated fault assignment F -> kind, TLC-generated completion order) "
                "executed on the real engine with the real example subgraphs in-process; distinct by (operation, F, order); "
                "non-trivial = the plan has at least two fetches (so isolation / dependency skipping is observable)",
        "distinct_cases": len(distinct),
        "operations": len(order),
        "distinct_plan_shapes": len(distinct_shapes),
        "generated_cases": len(cases),
        "unrealised_orders": unreal,
        "second_request_other_operation": sum(1 for r in ok_results if r["case"].get("then")),
        "variant_cases": sum(1 for r in ok_results if r["case"].get("variant")),
        "rate_limited_cases": sum(1 for r in ok_results if "RateLimited" in r["case"]["faults"].values()),
        "error_path_cases": sum(1 for r in ok_results if ERRMODE.get(r["op"]) and any(v in ("PartialData", "ErrorsNoData") for v in r["case"]["faults"].values())),
        "invariants_on_traces": INVS,
        "samples": ([{"case": sample["case"], "response": sample["response"], "events": sample["events"][:12]}] if sample else []),
        "exhaustive": not quick,
    })
    ctx.assumptions += [
        "provenance of a response position = the fetches whose fault-free subgraph answers carried that key path below the fetch's response path (observed, not taken from the planner)",
        "nullability of response positions comes from the supergraph SDL parsed with gqlparser (independent of the code under test)",
        "exchange -> fetch id correlation uses the ld.load hook fired in the goroutine that performs the request",
        "'promptly' = within 10 s of the request (in-process subgraphs answer in microseconds); a miss is re-run once",
        "the second request of every history (same operation, or another operation sharing a subgraph request) runs fault-free on the same gateway after the faulty one",
        "rate limiting: a harness RateLimiter denies the fetches TLC marked RateLimited; error paths: pass-through / RewriteSubgraphErrorPaths variants of three operations",
        "fault kinds: Transport, 500+HTML, empty body, non-JSON, errors without data, data:null, _entities one element short, "
        "data+errors (last entity / last root field nulled and reported), 503 with the genuine valid JSON body (may be used or rejected, consistently)",
    ]
