"""C04 — Operation validation accepts exactly the spec-valid operations.

Pipeline (DESIGN.md §5 C04, design.d/C04.md):
  1. TLC model-checks spec/core (MC_GQLCore): catalog schemas well-formed, every corpus operation SpecValid,
     Reachable idempotent, discarded definitions irrelevant.
  2. TLC prints the schema catalog (Gen_Catalog) and enumerates the cases (Gen_C04): every corpus operation, up to
     MaxRewrites meaning-preserving rewrites, then exactly one rule-targeted mutation in the reachable part; each
     case carries expected = SpecValid(S, Reachable(doc)) and the names of the violated rules.
  3. harness/cmd/validate prints each document as GraphQL text and runs the engine's admission sequence
     (Request.Normalize with the engine option set, then ValidateForSchema) - accept / reject + first message.
  4. TLC (Trace_C04) re-evaluates the relation  accept <=> SpecValid(S, Reachable(doc))  on every recorded
     observation; both directions are violations.
"""
import collections
import concurrent.futures
import hashlib
import json
import os
import random
import re

import lib

QUICK_CAP = 12000
THOROUGH_WALKS = 20
RULES = ["UniqueOpNames", "LoneAnonymous", "SingleSubscriptionRoot", "FieldsOnCorrectType", "LeafSelections",
         "OverlappingFieldsCanBeMerged", "ArgumentsKnown", "ArgumentsUnique", "ArgumentsRequired", "ValuesOfCorrectType",
         "FragmentsWellFormed", "FragmentsAcyclic", "FragmentSpreadPossible", "DirectivesKnown", "DirectivesLocated",
         "DirectivesUniquePerLocation", "DirectivesArgsProvided", "VariablesUnique", "VariablesInputTyped",
         "VariablesDefined", "VariablesUsed", "VariablesInAllowedPosition"]
ADMISSION_PINNED = "72d40051a309884d"


def admission_section():
    p = os.path.join(lib.REPO, "execution", "engine", "execution_engine.go")
    with open(p) as f:
        src = f.read()
    a = src.find("func (e *ExecutionEngine) Execute(")
    b = src.find("// Validate user-supplied and extracted variables", a)
    if a < 0 or b < 0:
        return None
    return re.sub(r"\s+", " ", src[a:b])


def check_admission_pin(ctx, pinned):
    sec = admission_section()
    h = hashlib.sha1(sec.encode()).hexdigest()[:16] if sec else None
    if h != pinned:
        raise lib.Inconclusive("the admission sequence in execution/engine/execution_engine.go (Execute) differs from the one "
                               "harness/internal/admit mirrors (hash %s, pinned %s): bring admit.go in line and re-pin" % (h, pinned))


def load_catalog(ctx, spec_dirs="core"):
    r = ctx.tlc_must_pass(spec_dirs, "Gen_Catalog", "Gen_Catalog.cfg", workers=1, timeout=300, tag="catalog")
    if not r.printed:
        raise lib.Inconclusive("Gen_Catalog printed no schema")
    path = ctx.path("catalog.ndjson")
    lib.write_ndjson(path, r.printed)
    return path, r.printed


def norm_msg(msg):
    """class of a message: identifiers / literals / positions removed"""
    m = re.sub(r"\"[^\"]*\"|'[^']*'|`[^`]*`", "_", msg or "")
    m = re.sub(r"\b\d+\b", "N", m)
    m = re.sub(r", locations: .*$", "", m)
    m = re.sub(r"^subscription: \w* ?must", "subscription: must", m)
    m = re.sub(r"\s+", " ", m)
    return m.strip()[:100]


def violation_keys(case, res, bad):
    """Keys of one non-conforming observation.  An accepted invalid operation yields one key per violated rule and reason
    (GQLDiag!Tokens: the implementation missed every one of them); a rejected valid operation is keyed by the rejecting
    stage and the class of its message."""
    if res["accept"]:
        return ["accepts-invalid:%s" % t for t in sorted(bad["tokens"])] or ["accepts-invalid:?"]
    # features of the valid document that name a known cause (GQLDiag!LocationDefaultFeatures), else the mutation kind
    toks = sorted(bad.get("tokens") or [])
    feat = "location-default@field" if "location-default@field" in toks else ("+".join(toks) or case["kind"])
    return ["rejects-valid:%s:%s:%s" % (res["stage"], norm_msg(res["msg"]), feat)]


def run_trace(ctx, idx, rows):
    path = ctx.path("trace-%03d.ndjson" % idx)
    lib.write_ndjson(path, rows)
    r = ctx.tlc("core", "Trace_C04", "Trace_C04.cfg", workers=1, env={"TRACE": path}, timeout=2400, deadlock=False,
                count=False, tag="trace-validation-%d" % idx, heap="3g")
    bad = {}
    for p in r.printed:
        if isinstance(p, dict) and "judged" in p:
            bad[("judged", p["judged"])] = p
        if isinstance(p, dict) and "nonconforming" in p:
            bad[p["nonconforming"]] = p
        if isinstance(p, dict) and "panicked" in p:
            bad[("panic", p["panicked"])] = p
    consumed = None
    for line in r.out.splitlines():
        if "TRACE_RESULT" in line:
            nums = [int(x) for x in re.findall(r"\d+", line)]
            consumed = nums[0] if nums else None
    if r.ok:
        consumed = len(rows)
    if consumed != len(rows) or (not r.ok and not [k for k in bad if not isinstance(k, tuple)]):
        print(r.out[-3000:])
        raise lib.Inconclusive("trace validation did not consume every observation (chunk %d: %s of %d): %s" % (idx, consumed, len(rows), r.error))
    return bad


def where(a, b, depth=0):
    """place of the first difference between the base document and a mutated one: the path of member names (indices dropped)"""
    if type(a) != type(b):
        return ""
    if isinstance(a, dict):
        for k in sorted(a):
            if k not in b or a[k] != b[k]:
                return k + ("." + where(a[k], b.get(k), depth + 1) if k in b and depth < 8 else "")
        return ""
    if isinstance(a, list):
        for x, y in zip(a, b):
            if x != y:
                return where(x, y, depth + 1)
        return "+" if len(a) != len(b) else ""
    return ""


def stratified(cases, cap, rng, small=800):
    """Seed-selected sample: mutation kinds with at most `small` cases completely, the rest round-robin over the strata
    (kind, base operation, place of the mutation in the document) so that rare places are always represented."""
    if cap >= len(cases):
        return list(cases)
    per_kind = collections.Counter(c["kind"] for c in cases)
    bases = {c["base"]: c["doc"] for c in cases if c["kind"] == "Base"}
    out = [c for c in cases if per_kind[c["kind"]] <= small]
    strata = collections.defaultdict(list)
    for c in cases:
        if per_kind[c["kind"]] > small:
            strata[(c["kind"], c["base"], where(bases.get(c["base"]), c["doc"]).rstrip("."))].append(c)
    for v in strata.values():
        rng.shuffle(v)
    keys = sorted(strata)
    i = 0
    while len(out) < cap:
        progressed = False
        for k in keys:
            if i < len(strata[k]):
                out.append(strata[k][i])
                progressed = True
                if len(out) >= cap:
                    break
        if not progressed:
            break
        i += 1
    return out


def load_fragment_findings(ctx, name):
    """findings.d/<name>.json is this check's part of known-findings.json; until the coordinator has merged it the entries
    are honoured from the fragment (in memory only - nothing is written)."""
    p = os.path.join(lib.VERIF, "findings.d", name)
    if os.environ.get("VERIF_FINDINGS_AFTER_FIX") and os.path.exists(p + ".after-fix"):
        p += ".after-fix"  # verification of prepared repairs (FIX_GUIDE.md step 5) before the coordinator swaps the files
    if os.path.exists(p):
        have = {(k.get("property"), k.get("key")) for k in ctx.known()}
        with open(p) as f:
            for k in json.load(f):
                if (k.get("property"), k.get("key")) not in have:
                    ctx.known().append(k)


def run(ctx):
    load_fragment_findings(ctx, "C04.json")
    rng = random.Random(ctx.seed)
    quick = ctx.quick()
    check_admission_pin(ctx, ADMISSION_PINNED)
    binary = ctx.build("validate")
    replay = None
    if ctx.replay_in:
        # bin/check C04 --replay <file>: judge the one recorded case again (same driver, same trace specification)
        with open(ctx.replay_in) as f:
            replay = json.load(f)["case"]
    # ---- 1. model checking ---------------------------------------------------------------------
    ctx.tlc_must_pass("core", "MC_GQLCore", "MC_GQLCore.cfg", workers=4, timeout=600, tag="mc-core")
    catalog_path, catalog = load_catalog(ctx)
    # ---- 2. generate ---------------------------------------------------------------------------
    if replay:
        allcases = [{"base": replay.get("base", "?"), "schema": replay["schema"], "kind": replay.get("kind", "Replay"), "doc": replay["doc"],
                     "vars": replay.get("vars", [])}]
        cases = run_cases(ctx, binary, catalog_path, allcases, True, rng, vacuity=False)
        return
    g = ctx.tlc_must_pass("core", "Gen_C04", "Gen_C04.cfg", workers=8, timeout=3000, deadlock=False, tag="gen", heap="12g")
    printed = list(g.printed)
    if not quick:
        # depth beyond the exhaustive bound: base -> one rewrite step -> every mutation of the rewritten operation (sampled walks)
        g2 = ctx.tlc_must_pass("core", "Gen_C04", "Gen_C04_sim.cfg", workers=1, timeout=3000, deadlock=False, tag="gen-rewrite-then-mutate",
                               simulate=THOROUGH_WALKS, depth=3, seed=ctx.seed, heap="12g")
        printed += g2.printed
    uniq = {}
    for c in printed:
        uniq.setdefault(lib.sha([c["schema"], c["doc"], c["vars"]]), c)
    allcases = sorted(uniq.values(), key=lambda c: lib.sha([c["schema"], c["kind"], c["doc"]]))
    ctx.log("generated %d cases (%d distinct documents)" % (len(printed), len(allcases)))
    run_cases(ctx, binary, catalog_path, allcases, quick, rng, vacuity=True)


def run_cases(ctx, binary, catalog_path, allcases, quick, rng, vacuity):
    cases = stratified(allcases, QUICK_CAP if quick else 10 ** 9, rng)
    for i, c in enumerate(cases):
        c["id"] = i + 1
    ctx.log("replaying %d cases" % len(cases))
    # ---- 3. replay -----------------------------------------------------------------------------
    cin, cout, ctr = ctx.path("cases.ndjson"), ctx.path("results.ndjson"), ctx.path("trace.ndjson")
    lib.write_ndjson(cin, [{"id": c["id"], "schema": c["schema"], "doc": c["doc"], "vars": c["vars"]} for c in cases])
    args = ["-catalog", catalog_path, "-in", cin, "-out", cout, "-trace", ctr]
    if os.environ.get("VERIF_CALIB"):
        args.append("-calib")
    ctx.run_bin(binary, args, timeout=1200)
    results = {r["id"]: r for r in lib.read_ndjson(cout)}
    trace = lib.read_ndjson(ctr)
    if len(results) != len(cases) or len(trace) != len(cases):
        raise lib.Inconclusive("driver returned %d results for %d cases" % (len(results), len(cases)))
    by_id = {c["id"]: c for c in cases}
    rt_bad = [r for r in results.values() if r["roundtrip"]]
    if rt_bad:
        raise lib.Inconclusive("trusted-base self check failed: printed document does not re-parse to the case (%d cases), e.g. %s: %s" % (
            len(rt_bad), rt_bad[0]["text"], rt_bad[0]["roundtrip"][:300]))
    # ---- 4. validate with TLC ------------------------------------------------------------------
    nchunks = max(1, min(8, len(trace) // 600))
    chunks = [trace[i::nchunks] for i in range(nchunks)]
    bad = {}
    with concurrent.futures.ThreadPoolExecutor(max_workers=nchunks) as ex:
        for b in ex.map(lambda a: run_trace(ctx, a[0], a[1]), list(enumerate(chunks))):
            bad.update(b)
    for c in cases:
        j = bad.get(("judged", c["id"]))
        if j is None:
            raise lib.Inconclusive("observation %d was not judged by TLC" % c["id"])
        c["expected"], c["failed"] = j["e"], j["f"]
    # vacuity: every rule of the property must be violated by some replayed case
    rules_hit = collections.Counter(r for c in cases for r in c["failed"])
    missing = [r for r in RULES if rules_hit[r] == 0]
    if missing and vacuity:
        raise lib.Inconclusive("generator is vacuous for rules %s (no replayed case violates them)" % missing)
    ctx.log("spec verdicts: %d valid / %d invalid" % (sum(1 for c in cases if c["expected"]), sum(1 for c in cases if not c["expected"])))
    # ---- 5. verdicts -----------------------------------------------------------------------------
    nviol = collections.Counter()
    lenient = 0
    for cid in sorted(k for k in bad if not isinstance(k, tuple)):
        c, r = by_id[cid], results[cid]
        if r["panic"]:
            continue  # reported below
        if c["kind"] == "DiscardedInvalid" and not r["accept"]:
            # the selected operation is valid, a definition the request does not execute is not: rules about discarded
            # definitions are outside the guarantee - rejecting such a document is allowed (accepting is, too)
            lenient += 1
            continue
        for key in violation_keys(c, r, bad[cid]):
            nviol[key] += 1
            what = ("admission sequence %s an operation the specification says is %s [%s] (mutation %s on %s/%s; violated rules: %s; "
                    "stage %s: %s)\n%s" % ("ACCEPTS" if r["accept"] else "REJECTS", "invalid" if r["accept"] else "valid", key,
                                          c["kind"], c["schema"], c["base"], ",".join(bad[cid]["failed"]) or "-", r["stage"] or "-",
                                          (r["msg"] or "")[:200], r["text"]))
            ctx.violation(key, what, {"schema": c["schema"], "base": c["base"], "kind": c["kind"], "doc": c["doc"], "vars": c["vars"],
                                      "text": r["text"], "variables": r["vars"], "observed": {k: r[k] for k in ("accept", "stage", "msg", "panic")},
                                      "expected_valid": c["expected"], "violated_rules": bad[cid]["failed"], "tokens": bad[cid]["tokens"]})
    # Go-side equalities (no oracle): the verdict of the validate stage must not depend on what a long-lived validator saw before,
    # nor on an earlier ValidateForSchema call with other options on the same request
    for r in results.values():
        c = by_id[r["id"]]
        if r["stage"] in ("normalize", "panic"):
            continue
        fresh = "accept" if r["accept"] else "reject"
        for field, key in (("reused", "verdict-depends-on-validator-history"), ("afteropts", "verdict-depends-on-earlier-options")):
            other = r.get(field, "skip")
            if other not in ("skip", fresh):
                k = "%s:%s-instead-of-%s" % (key, other.split(":")[0], fresh)
                nviol[k] += 1
                ctx.violation(k, "the default-options verdict of the validate stage is '%s' on a fresh validator/request but '%s' %s\n%s" % (
                    fresh, other, "on a validator that validated the preceding documents" if field == "reused" else
                    "after ValidateForSchema was called with relaxed options on the same request", r["text"]),
                    {"schema": c["schema"], "base": c["base"], "kind": c["kind"], "doc": c["doc"], "vars": c["vars"], "text": r["text"]})
    for r in results.values():
        if r["panic"]:
            c = by_id[r["id"]]
            toks = sorted(bad.get(("panic", r["id"]), {}).get("tokens", []))
            key = "panic:%s:%s" % (r["frames"], "+".join(toks))
            nviol[key] += 1
            ctx.violation(key, "panic in the admission sequence: %s\n%s" % (r["panic"], r["text"]),
                          {"schema": c["schema"], "base": c["base"], "kind": c["kind"], "doc": c["doc"], "text": r["text"], "panic": r["panic"]})
    # calibration statistics (never part of the verdict)
    if os.environ.get("VERIF_CALIB"):
        dis = [(c, results[c["id"]]) for c in cases if (not results[c["id"]]["calib"]) != c["expected"] and not results[c["id"]]["calib_err"]]
        ctx.log("calibration: spec and gqlparser disagree on %d of %d cases" % (len(dis), len(cases)))
        with open(os.path.join(lib.VERIF, ".build", "c04-calib.json"), "w") as f:
            json.dump([{"kind": c["kind"], "base": c["base"], "expected": c["expected"], "failed": c["failed"], "gqlparser": r["calib"],
                        "accept": r["accept"], "msg": r["msg"], "text": r["text"]} for c, r in dis], f, indent=1)
    stages = collections.Counter((results[c["id"]]["stage"] or "accepted") for c in cases)
    ctx.coverage.update({
        "traces_validated_against_impl": len(cases),
        "evaluations": len(cases),
        "distinct_nontrivial": len({lib.sha([c["schema"], c["doc"]]) for c in cases if c["kind"] != "Base" and not c["kind"].startswith("Rw")}),
        "rule": "one case = one document over a catalog schema (corpus operation + exactly one rule-targeted mutation in the reachable "
                "part) replayed through Request.Normalize(engine options) + ValidateForSchema and judged by TLC against SpecValid; "
                "distinct by (schema, document); non-trivial = carries a mutation",
        "generated_total": len(allcases),
        "expected_valid": sum(1 for c in cases if c["expected"]),
        "expected_invalid": sum(1 for c in cases if not c["expected"]),
        "by_mutation_kind": dict(collections.Counter(c["kind"] for c in cases)),
        "violated_rules_in_cases": dict(collections.Counter(r for c in cases for r in c["failed"])),
        "implementation_stage": dict(stages),
        "nonconforming": dict(nviol),
        "rejected_for_a_discarded_invalid_definition": lenient,
        "samples": [{"kind": c["kind"], "schema": c["schema"], "text": results[c["id"]]["text"], "expected_valid": c["expected"],
                     "violated_rules": c["failed"], "accept": results[c["id"]]["accept"], "msg": results[c["id"]]["msg"][:120]}
                    for c in (cases[:2] + [x for x in cases if not x["expected"]][:2])],
        "exhaustive": not quick,
    })
    ctx.assumptions += [
        "schemas: the 3 catalog schemas of spec/core/GQLSchema.tla; operations: corpus + one mutation (thorough: + one rewrite step)",
        "harness/internal/admit mirrors ExecutionEngine.Execute's admission code (hash-pinned); sdl printer / gqlparser round trip is self-checked per case",
        "not generated (edition-dependent or not modelled): @skip/@include on subscription roots, @defer/@stream, @oneOf, __schema/__type, "
        "variables in default values, input-object field order differences between merged fields",
    ]
