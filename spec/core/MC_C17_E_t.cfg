CONSTANTS
  QueryNames <- QN_default
  Slots <- E_Slots
  DirSlots = {}
  FieldNames = {"f"}
  ArgNames = {}
  InputNames = {"y"}
  EnumVals = {"RED"}
  Scalars = {"Int"}
  Wraps <- W_none
  Descs = {}
  Reasons <- R_both
  Urls = {}
  Features <- E_Features
  MaxSteps = 6
  ValDepth = 1
  Sampling = FALSE
  EmitSteps <- ES_all
SPECIFICATION GenSpec
INVARIANTS GenWF SpecRoundTrip Closed DeprecatedFilter Sensitive
CONSTRAINT EmitAt
VIEW GenView
CHECK_DEADLOCK FALSE
