CONSTANTS
  MaxTok = 4
  MaxDepth = 2
  TopTys = {"LIn"}
SPECIFICATION GenSpec
CONSTRAINT GenConstraint
INVARIANTS CasesWellFormed TwinDenotesSame NotProvidedOnlyAtTop
CHECK_DEADLOCK FALSE
