---------------------------- MODULE CoerceCatalog ----------------------------
(* The input-type catalog of check C06, the variable types exercised, and     *)
(* the value menus per position.  The driver prints the SDL from ToJson of    *)
(* Catalog / VarTypes, so specification and code see the same schema.         *)
EXTENDS GQLCoerce

CONSTANT D          \* menu depth: 2 = quick, 3 = thorough
CONSTANT Wide       \* TRUE: additional product menus (thorough)

Scalar == [kind |-> "scalar"]
Pad == [kind |-> "enum", values |-> <<"PADV">>, hidden |-> <<>>]
F(name, type) == [name |-> name, type |-> type, def |-> FALSE, lit |-> ""]
FD(name, type, lit) == [name |-> name, type |-> type, def |-> TRUE, lit |-> lit]
TInt == Named("Int")
TStr == Named("String")
TLeaf == Named("Leaf")

Catalog == [
  Int |-> Scalar, Float |-> Scalar, String |-> Scalar, Boolean |-> Scalar, ID |-> Scalar,
  Blob |-> Scalar,                                            \* custom scalar
  Color |-> [kind |-> "enum", values |-> <<"EVA", "EVB">>, hidden |-> <<"EVHID">>],   \* EVHID @inaccessible
  \* more enums than input objects, so that the n-th enum and the n-th input object cannot be confused unnoticed
  E1 |-> Pad, E2 |-> Pad, E3 |-> Pad, E4 |-> Pad, E5 |-> Pad,
  Shade |-> [kind |-> "enum", values |-> <<"SHA">>, hidden |-> <<>>],
  \* required / optional / defaulted / non-null-with-default
  Leaf |-> [kind |-> "input", oneOf |-> FALSE, fields |-> <<
              F("req", NonNull(TInt)), F("opt", TStr), FD("dft", TInt, "7"), FD("nnd", NonNull(TInt), "8")>>],
  \* list fields: non-null placements, nested list, list defaults
  Lists |-> [kind |-> "input", oneOf |-> FALSE, fields |-> <<
              F("a", ListOf(NonNull(TInt))), F("b", NonNull(ListOf(TInt))), F("c", ListOf(ListOf(NonNull(TInt)))),
              FD("d", ListOf(NonNull(TInt)), "[1]"), FD("e", NonNull(ListOf(NonNull(TInt))), "[2]")>>],
  \* nesting: objects in objects, lists of objects, oneOf, enum, every scalar
  Nest |-> [kind |-> "input", oneOf |-> FALSE, fields |-> <<
              F("leaf", NonNull(TLeaf)), F("leaves", ListOf(NonNull(TLeaf))), F("pick", Named("Pick")),
              F("color", Named("Color")), F("id", Named("ID")), F("blob", Named("Blob")),
              F("f", Named("Float")), F("flag", Named("Boolean"))>>],
  \* recursive
  Rec |-> [kind |-> "input", oneOf |-> FALSE, fields |-> <<
              F("v", NonNull(TInt)), F("next", Named("Rec")), F("kids", ListOf(NonNull(Named("Rec"))))>>],
  Pick |-> [kind |-> "input", oneOf |-> TRUE, fields |-> <<
              F("a", TInt), F("b", TStr), F("c", TLeaf)>>]
]

LL(a, b, c) == \* [[Int]] with the three non-null placements: a = item, b = inner list, c = outer list
  LET i == IF a THEN NonNull(TInt) ELSE TInt
      l == IF b THEN NonNull(ListOf(i)) ELSE ListOf(i)
      o == IF c THEN NonNull(ListOf(l)) ELSE ListOf(l) IN o

\* the variable types exercised; VarLits[i] = a valid default value literal for VarTypes[i] ("" = none)
VarTypes == <<
  TInt, NonNull(TInt), Named("Float"), TStr, Named("Boolean"), Named("ID"), Named("Blob"),
  Named("Color"), NonNull(Named("Color")),
  ListOf(TInt), ListOf(NonNull(TInt)), NonNull(ListOf(TInt)), NonNull(ListOf(NonNull(TInt))),
  LL(FALSE, FALSE, FALSE), LL(TRUE, FALSE, FALSE), LL(FALSE, TRUE, FALSE), LL(TRUE, TRUE, FALSE),
  LL(FALSE, FALSE, TRUE), LL(TRUE, FALSE, TRUE), LL(FALSE, TRUE, TRUE), LL(TRUE, TRUE, TRUE),
  ListOf(NonNull(Named("Color"))), ListOf(Named("ID")),
  TLeaf, NonNull(TLeaf), ListOf(NonNull(TLeaf)),
  Named("Lists"), NonNull(Named("Nest")), Named("Rec"), Named("Pick"), NonNull(ListOf(NonNull(Named("Pick")))),
  Named("Nest"), ListOf(Named("Shade")),
  ListOf(NonNull(Named("Boolean"))), ListOf(TStr), ListOf(Named("Float")) >>
VarLits == <<
  "7", "7", "7.5", "\"dv\"", "true", "\"dv\"", "\"dv\"",
  "EVA", "EVB",
  "[7]", "[7]", "[7]", "7",
  "[[7]]", "[[7]]", "", "",
  "7", "", "", "[[7],[8]]",
  "[EVA]", "",
  "{req: 7}", "{req: 7}", "{req: 7}",
  "{b: [7]}", "", "{v: 7}", "{a: 7}", "",
  "{leaf: {req: 7}}", "",
  "true", "[\"dv\"]", "" >>
ASSUME Len(VarTypes) = Len(VarLits)
NTypes == Len(VarTypes)
\* nullable variable with a default used at a Non-Null argument position (allowed by "Variables Are In Allowed Positions")
NNPos == {1, 8, 10, 24}
\* product menus (every field in {absent, null, good, bad})
ProdTypes == IF Wide THEN {24, 27, 29, 30} ELSE {24}
\* two-variable operations: indexes into VarTypes, and the names of the two variables.  The engine renames variables
\* to canonical names (a, b, ... in order of use): "b","a" swap their names under that renaming.
Pairs == << <<2, 4>>, <<25, 11>>, <<9, 2>> >>
PairNames == << <<"b", "a">>, <<"zeta", "alpha">>, <<"b", "a">> >>
\* the undeclared variable of the "extra" cases carries the canonical name the declared variable x is renamed to
ExtraName == "a"

\* ---------------------------------------------------------------- canonical values
Def(T) == Catalog[T.n]
Required(fd) == fd.type.k = "nn" /\ ~fd.def

RECURSIVE Good(_)
Good(T) ==
  IF T.k = "nn" THEN Good(T.of)
  ELSE IF T.k = "list" THEN VList(<<Good(T.of)>>)
  ELSE CASE Def(T).kind = "scalar" ->
              (CASE T.n = "Int" -> VInt [] T.n = "Float" -> VFrac [] T.n = "String" -> VStr("any")
                 [] T.n = "Boolean" -> VBool [] T.n = "ID" -> VStr("any") [] OTHER -> VStr("any"))
         [] Def(T).kind = "enum" -> VStr(Def(T).values[1])
         [] Def(T).kind = "input" ->
              IF Def(T).oneOf THEN VObjE(<<Entry(Def(T).fields[1].name, Good(Def(T).fields[1].type))>>)
              ELSE LET req == SelectSeq(Def(T).fields, Required) IN
                   VObjE([j \in 1..Len(req) |-> Entry(req[j].name, Good(req[j].type))])

\* a wrong value for T (never coercible when T is not a custom scalar)
RECURSIVE Bad(_)
Bad(T) ==
  IF T.k = "nn" THEN Bad(T.of)
  ELSE IF T.k = "list" THEN VList(<<Good(T.of), Bad(T.of)>>)
  ELSE CASE Def(T).kind = "scalar" ->
              (CASE T.n = "Int" -> VFrac [] T.n = "Float" -> VStr("any") [] T.n = "String" -> VInt
                 [] T.n = "Boolean" -> VInt [] T.n = "ID" -> VBool [] OTHER -> VBool)
         [] Def(T).kind = "enum" -> VStr("EVHID")
         [] Def(T).kind = "input" -> VInt

\* every field present (to depth d), each with its canonical value
RECURSIVE Full(_, _)
Full(T, d) ==
  IF T.k = "nn" THEN Full(T.of, d)
  ELSE IF T.k = "list" THEN VList(<<Full(T.of, d)>>)
  ELSE IF Def(T).kind # "input" \/ d = 0 THEN Good(T)
  ELSE IF Def(T).oneOf THEN Good(T)
  ELSE VObjE([j \in 1..Len(Def(T).fields) |-> Entry(Def(T).fields[j].name, Full(Def(T).fields[j].type, d - 1))])

SetField(o, name, val) ==
  IF Has(o, name) THEN VObjE([j \in 1..o.n |-> IF o.e[j].k = name THEN Entry(name, val) ELSE o.e[j]])
  ELSE VObjE(Append(o.e, Entry(name, val)))
DelField(o, name) == VObjE(SelectSeq(o.e, LAMBDA p : p.k # name))
SetOrDel(o, name, val) == IF val.t = "x" THEN DelField(o, name) ELSE SetField(o, name, val)

\* ---------------------------------------------------------------- menus
KindMenu == {VNull, VBool, VInt, VBig, VFrac, VStr("any"), VStr("EVA"), VStr("EVHID"), EmptyObj, VList(<<VInt>>)}
SmallMenu == {VNull, VBool, VInt, VFrac, VStr("any"), VStr("EVA"), VStr("EVHID")}
NonObjects(T) == {VNull, VBool, VInt, VStr("any"), VList(<<>>), VList(<<Good(T)>>)}

PairMenu(T) == {Absent, VNull, Good(T), Bad(T)}
RECURSIVE Menu(_, _)
Menu(T, d) ==
  IF T.k = "nn" THEN Menu(T.of, d)
  ELSE IF T.k = "list" THEN
    IF d = 0 THEN {VNull, VList(<<>>), Good(T.of), VList(<<Good(T.of)>>), VList(<<VNull>>), VList(<<Good(T.of), VNull>>),
                   VList(<<VNull, Good(T.of)>>), VList(<<Bad(T.of), Good(T.of)>>)}
    ELSE LET ME == Menu(T.of, d - 1) IN
         {VNull, VList(<<>>)} \cup ME \cup {VList(<<v>>) : v \in ME} \cup {VList(<<Good(T.of), v>>) : v \in ME}
           \cup {VList(<<v, Good(T.of)>>) : v \in ME}
  ELSE IF Def(T).kind # "input" THEN (IF d = 0 THEN SmallMenu ELSE KindMenu)
  ELSE IF d = 0 THEN {VNull, VInt, EmptyObj, Good(T), SetField(Good(T), "zz", VInt)}
  ELSE IF Def(T).oneOf THEN
    LET fs == Def(T).fields
        f1 == fs[1].name
        f2 == fs[2].name IN
    NonObjects(T) \cup {EmptyObj, VObjE(<<Entry("zz", VInt)>>), SetField(Good(T), "zz", VInt),
                        VObjE(<<Entry(f1, Good(fs[1].type)), Entry(f2, Good(fs[2].type))>>),
                        VObjE(<<Entry(f1, Good(fs[1].type)), Entry(f2, VNull)>>),
                        VObjE(<<Entry(f1, VNull), Entry(f2, Good(fs[2].type))>>),
                        VObjE(<<Entry(f1, VNull), Entry(f2, VNull)>>)}
      \cup UNION {{VObjE(<<Entry(fs[j].name, a)>>) : a \in Menu(fs[j].type, d - 1)} : j \in 1..Len(fs)}
  ELSE
    LET fs == Def(T).fields
        base == Full(T, 1) IN
    NonObjects(T) \cup {EmptyObj, Good(T), base, SetField(base, "zz", VInt), SetField(Good(T), "zz", VNull)}
      \cup UNION {{DelField(base, fs[j].name)} \cup {SetField(base, fs[j].name, a) : a \in Menu(fs[j].type, d - 1)} : j \in 1..Len(fs)}
      \* two fields deviate at once (thorough)
      \cup (IF Wide
            THEN UNION {{SetOrDel(SetOrDel(base, fs[jk[1]].name, a), fs[jk[2]].name, b) :
                            a \in Menu(fs[jk[1]].type, d - 1) \cup {Absent}, b \in PairMenu(fs[jk[2]].type)} :
                        jk \in {x \in (1..Len(fs)) \X (1..Len(fs)) : x[1] < x[2]}}
            ELSE {})

\* every field independently in {absent, null, good, bad}
RECURSIVE ProdEntries(_, _)
ProdEntries(fs, j) ==
  IF j > Len(fs) THEN {<<>>}
  ELSE LET rest == ProdEntries(fs, j + 1) IN
       rest \cup {<<Entry(fs[j].name, a)>> \o r : a \in {VNull, Good(fs[j].type), Bad(fs[j].type)}, r \in rest}
Prod(T) == {VObjE(e) : e \in ProdEntries(Def(T).fields, 1)}

TopMenu(i) == Menu(VarTypes[i], D) \cup (IF i \in ProdTypes THEN Prod(IF VarTypes[i].k = "nn" THEN VarTypes[i].of ELSE VarTypes[i]) ELSE {})

\* ---------------------------------------------------------------- cases
\* case = [vm, pos, extra, vars |-> <<[name, tix, dm, val]>>]
\*   vm    "obj": "variables" is an object holding the non-absent vals (plus an undeclared one if extra)
\*         "none": the request has no "variables" member      "null": "variables": null
\*   pos   "same": the variable is used at an argument of its own type      "nn": at an argument of type T!
\*   dm    "none" | "def": the variable definition carries the default VarLits[tix]
OpOf(c) == [i \in 1..Len(c.vars) |-> [name |-> c.vars[i].name, type |-> VarTypes[c.vars[i].tix], def |-> c.vars[i].dm = "def"]]
PresentEntries(c) ==
  LET pres == SelectSeq(c.vars, LAMBDA e : e.val.t # "x") IN
  [j \in 1..Len(pres) |-> Entry(pres[j].name, pres[j].val)] \o (IF c.extra THEN <<Entry(ExtraName, VStr("any"))>> ELSE <<>>)
VarsOf(c) == IF c.vm = "none" THEN Absent ELSE IF c.vm = "null" THEN VNull ELSE VObjE(PresentEntries(c))
Expected(c) == AcceptVars(Catalog, OpOf(c), VarsOf(c))
ExpectedErrs(c) == ErrPath(Catalog, OpOf(c), VarsOf(c))
ExpectedKinds(c) == ErrKinds(Catalog, OpOf(c), VarsOf(c))
AllFieldNames == UNION {{Catalog[n].fields[j].name : j \in 1..Len(Catalog[n].fields)} : n \in {x \in DOMAIN Catalog : Catalog[x].kind = "input"}} \cup {"zz"}
=============================================================================
