---------------------------- MODULE CoerceCatalog ----------------------------
(* The input-type catalog of check C06, the variable types exercised, and     *)
(* the value menus per position.  The driver prints the SDL from ToJson of    *)
(* Catalog / VarTypes, so specification and code see the same schema.         *)
EXTENDS GQLCoerce

CONSTANT D          \* menu depth: 2 = quick, 3 = thorough
CONSTANT Wide       \* TRUE: additional product menus (thorough)
CONSTANT Cat        \* which catalog schema: 1 or 2

Scalar == [kind |-> "scalar"]
Pad == [kind |-> "enum", values |-> <<"PADV">>, hidden |-> <<>>]
F(name, type) == [name |-> name, type |-> type, def |-> FALSE, lit |-> ""]
FD(name, type, lit) == [name |-> name, type |-> type, def |-> TRUE, lit |-> lit]
TInt == Named("Int")
TStr == Named("String")
TLeaf == Named("Leaf")

Catalog1 == [
  Int |-> Scalar, Float |-> Scalar, String |-> Scalar, Boolean |-> Scalar, ID |-> Scalar,
  Blob |-> Scalar,                                            \* custom scalar
  Color |-> [kind |-> "enum", values |-> <<"EVA", "EVB">>, hidden |-> <<"EVHID">>],   \* EVHID @inaccessible
  \* more enums than input objects, so that the n-th enum and the n-th input object cannot be confused unnoticed
  E1 |-> Pad, E2 |-> Pad, E3 |-> Pad, E4 |-> Pad, E5 |-> Pad,
  Shade |-> [kind |-> "enum", values |-> <<"SHA">>, hidden |-> <<>>],
  \* required / optional / defaulted / non-null-with-default
  Leaf |-> [kind |-> "input", oneOf |-> FALSE, fields |-> <<
              F("req", NonNull(TInt)), F("opt", TStr), FD("dft", TInt, "7"), FD("nnd", NonNull(TInt), "8")>>],
  \* list fields: non-null placements, nested list, list defaults
  Lists |-> [kind |-> "input", oneOf |-> FALSE, fields |-> <<
              F("a", ListOf(NonNull(TInt))), F("b", NonNull(ListOf(TInt))), F("c", ListOf(ListOf(NonNull(TInt)))),
              FD("d", ListOf(NonNull(TInt)), "[1]"), FD("e", NonNull(ListOf(NonNull(TInt))), "[2]")>>],
  \* nesting: objects in objects, lists of objects, oneOf, enum, every scalar
  Nest |-> [kind |-> "input", oneOf |-> FALSE, fields |-> <<
              F("leaf", NonNull(TLeaf)), F("leaves", ListOf(NonNull(TLeaf))), F("pick", Named("Pick")),
              F("color", Named("Color")), F("id", Named("ID")), F("blob", Named("Blob")),
              F("f", Named("Float")), F("flag", Named("Boolean"))>>],
  \* recursive
  Rec |-> [kind |-> "input", oneOf |-> FALSE, fields |-> <<
              F("v", NonNull(TInt)), F("next", Named("Rec")), F("kids", ListOf(NonNull(Named("Rec"))))>>],
  Pick |-> [kind |-> "input", oneOf |-> TRUE, fields |-> <<
              F("a", TInt), F("b", TStr), F("c", TLeaf)>>]
]

LL(a, b, c) == \* [[Int]] with the three non-null placements: a = item, b = inner list, c = outer list
  LET i == IF a THEN NonNull(TInt) ELSE TInt
      l == IF b THEN NonNull(ListOf(i)) ELSE ListOf(i)
      o == IF c THEN NonNull(ListOf(l)) ELSE ListOf(l) IN o

\* the variable types exercised; VarLits[i] = a valid default value literal for VarTypes[i] ("" = none)
VarTypes1 == <<
  TInt, NonNull(TInt), Named("Float"), TStr, Named("Boolean"), Named("ID"), Named("Blob"),
  Named("Color"), NonNull(Named("Color")),
  ListOf(TInt), ListOf(NonNull(TInt)), NonNull(ListOf(TInt)), NonNull(ListOf(NonNull(TInt))),
  LL(FALSE, FALSE, FALSE), LL(TRUE, FALSE, FALSE), LL(FALSE, TRUE, FALSE), LL(TRUE, TRUE, FALSE),
  LL(FALSE, FALSE, TRUE), LL(TRUE, FALSE, TRUE), LL(FALSE, TRUE, TRUE), LL(TRUE, TRUE, TRUE),
  ListOf(NonNull(Named("Color"))), ListOf(Named("ID")),
  TLeaf, NonNull(TLeaf), ListOf(NonNull(TLeaf)),
  Named("Lists"), NonNull(Named("Nest")), Named("Rec"), Named("Pick"), NonNull(ListOf(NonNull(Named("Pick")))),
  Named("Nest"), ListOf(Named("Shade")),
  ListOf(NonNull(Named("Boolean"))), ListOf(TStr), ListOf(Named("Float")) >>
VarLits1 == <<
  "7", "7", "7.5", "\"dv\"", "true", "\"dv\"", "\"dv\"",
  "EVA", "EVB",
  "[7]", "[7]", "[7]", "7",
  "[[7]]", "[[7]]", "", "",
  "7", "", "", "[[7],[8]]",
  "[EVA]", "",
  "{req: 7}", "{req: 7}", "{req: 7}",
  "{b: [7]}", "", "{v: 7}", "{a: 7}", "",
  "{leaf: {req: 7}}", "",
  "true", "[\"dv\"]", "" >>
\* nullable variable with a default used at a Non-Null argument position (allowed by "Variables Are In Allowed Positions")
NNPos1 == {1, 8, 10, 24}
\* product menus (every field in {absent, null, good, bad})
ProdTypes1 == IF Wide THEN {24, 27, 29, 30} ELSE {24}
\* operations with several variables: indexes into VarTypes and the variable names.  The engine renames variables to
\* canonical names (a, b, c ... in order of use), so "b","a" / "c","a","b" / "d","c","b","a" are permuted by the renaming.
Multis1 == << [tix |-> <<2, 4>>, names |-> <<"b", "a">>], [tix |-> <<25, 11>>, names |-> <<"zeta", "alpha">>],
              [tix |-> <<9, 2>>, names |-> <<"b", "a">>], [tix |-> <<2, 4, 9>>, names |-> <<"c", "a", "b">>],
              [tix |-> <<11, 2, 4, 8>>, names |-> <<"d", "c", "b", "a">>] >>
\* variables nested inside an argument literal: field(x: pre $x post)
Hosts1 == << [tix |-> 2, field |-> "t24", pre |-> "{req: ", post |-> "}"],
             [tix |-> 4, field |-> "t24", pre |-> "{req: 1, opt: ", post |-> "}"],
             [tix |-> 11, field |-> "t27", pre |-> "{b: [1], a: ", post |-> "}"],
             [tix |-> 8, field |-> "t32", pre |-> "{leaf: {req: 1}, color: ", post |-> "}"],
             [tix |-> 25, field |-> "t32", pre |-> "{leaf: ", post |-> "}"],
             [tix |-> 1, field |-> "t10", pre |-> "[1, ", post |-> "]"] >>
\* duplicate names inside objects are generated for these variable types
DupTypes1 == {24, 26, 30}

\* ---------------------------------------------------------------- second catalog: structurally different
\* deeper (mutual) recursion, a oneOf with list / input / custom-scalar members, enums inside lists inside inputs,
\* a custom scalar at every nesting level, non-null-with-default everywhere (the minimal value of every input is {}).
TNode == Named("Node")
TBlob == Named("Blob")
TColor == Named("Color")
TInner == Named("Inner")
Catalog2 == [
  Int |-> Scalar, Float |-> Scalar, String |-> Scalar, Boolean |-> Scalar, ID |-> Scalar, Blob |-> Scalar,
  Color |-> [kind |-> "enum", values |-> <<"EVA", "EVB">>, hidden |-> <<"EVHID">>],
  Node |-> [kind |-> "input", oneOf |-> FALSE, fields |-> <<
              FD("id", NonNull(Named("ID")), "\"n\""), F("meta", TBlob), F("child", TNode),
              FD("kids", NonNull(ListOf(NonNull(TNode))), "[]"), FD("tags", NonNull(ListOf(NonNull(TColor))), "[EVA]"),
              F("sel", Named("Sel"))>>],
  Sel |-> [kind |-> "input", oneOf |-> TRUE, fields |-> <<
              F("ids", ListOf(NonNull(Named("ID")))), F("node", TNode), F("blob", TBlob), F("colors", ListOf(TColor))>>],
  Wrap |-> [kind |-> "input", oneOf |-> FALSE, fields |-> <<
              FD("blob", NonNull(TBlob), "\"b\""), FD("inner", NonNull(TInner), "{n: 1}"),
              FD("list", NonNull(ListOf(NonNull(TInner))), "[]"), F("deep", Named("Deep"))>>],
  Inner |-> [kind |-> "input", oneOf |-> FALSE, fields |-> <<
              FD("n", NonNull(TInt), "1"), F("blob", TBlob), FD("color", NonNull(TColor), "EVA"),
              F("bb", ListOf(ListOf(NonNull(TBlob))))>>],
  Deep |-> [kind |-> "input", oneOf |-> FALSE, fields |-> <<
              F("wrap", Named("Wrap")), FD("inner", NonNull(TInner), "{}"), F("nodes", ListOf(ListOf(TNode)))>>]
]
VarTypes2 == <<
  TNode, NonNull(TNode), ListOf(NonNull(TNode)), Named("Sel"), NonNull(ListOf(NonNull(Named("Sel")))),
  Named("Wrap"), TInner, ListOf(ListOf(TInner)), Named("Deep"),
  ListOf(NonNull(TBlob)), NonNull(TBlob), ListOf(NonNull(ListOf(NonNull(TColor)))), NonNull(Named("ID")) >>
VarLits2 == <<
  "{}", "{}", "[]", "{blob: 1}", "",
  "{}", "{n: 2}", "", "{}",
  "[1]", "\"b\"", "[[EVA]]", "\"i\"" >>
NNPos2 == {1, 6}
ProdTypes2 == {7}
Multis2 == << [tix |-> <<13, 11, 2>>, names |-> <<"c", "a", "b">>] >>
Hosts2 == << [tix |-> 13, field |-> "t1", pre |-> "{id: ", post |-> "}"],
             [tix |-> 11, field |-> "t6", pre |-> "{blob: ", post |-> "}"],
             [tix |-> 2, field |-> "t1", pre |-> "{sel: {colors: [EVA]}, child: {child: ", post |-> "}}"] >>
DupTypes2 == {1, 7}

Catalog == IF Cat = 1 THEN Catalog1 ELSE Catalog2
VarTypes == IF Cat = 1 THEN VarTypes1 ELSE VarTypes2
VarLits == IF Cat = 1 THEN VarLits1 ELSE VarLits2
NNPos == IF Cat = 1 THEN NNPos1 ELSE NNPos2
ProdTypes == IF Cat = 1 THEN ProdTypes1 ELSE ProdTypes2
Multis == IF Cat = 1 THEN Multis1 ELSE Multis2
Hosts == IF Cat = 1 THEN Hosts1 ELSE Hosts2
DupTypes == IF Cat = 1 THEN DupTypes1 ELSE DupTypes2
ASSUME Len(VarTypes) = Len(VarLits)
NTypes == Len(VarTypes)
\* the undeclared variable of the "extra" cases carries the canonical name the declared variable x is renamed to
ExtraName == "a"

\* ---------------------------------------------------------------- canonical values
Def(T) == Catalog[T.n]
Required(fd) == fd.type.k = "nn" /\ ~fd.def

RECURSIVE Good(_)
Good(T) ==
  IF T.k = "nn" THEN Good(T.of)
  ELSE IF T.k = "list" THEN VList(<<Good(T.of)>>)
  ELSE CASE Def(T).kind = "scalar" ->
              (CASE T.n = "Int" -> VInt [] T.n = "Float" -> VFrac [] T.n = "String" -> VStr("any")
                 [] T.n = "Boolean" -> VBool [] T.n = "ID" -> VStr("any") [] OTHER -> VStr("any"))
         [] Def(T).kind = "enum" -> VStr(Def(T).values[1])
         [] Def(T).kind = "input" ->
              IF Def(T).oneOf THEN VObjE(<<Entry(Def(T).fields[1].name, Good(Def(T).fields[1].type))>>)
              ELSE LET req == SelectSeq(Def(T).fields, Required) IN
                   VObjE([j \in 1..Len(req) |-> Entry(req[j].name, Good(req[j].type))])

\* a wrong value for T (never coercible when T is not a custom scalar)
RECURSIVE Bad(_)
Bad(T) ==
  IF T.k = "nn" THEN Bad(T.of)
  ELSE IF T.k = "list" THEN VList(<<Good(T.of), Bad(T.of)>>)
  ELSE CASE Def(T).kind = "scalar" ->
              (CASE T.n = "Int" -> VFrac [] T.n = "Float" -> VStr("any") [] T.n = "String" -> VInt
                 [] T.n = "Boolean" -> VInt [] T.n = "ID" -> VBool [] OTHER -> VBool)
         [] Def(T).kind = "enum" -> VStr("EVHID")
         [] Def(T).kind = "input" -> VInt

\* every field present (to depth d), each with its canonical value
RECURSIVE Full(_, _)
Full(T, d) ==
  IF T.k = "nn" THEN Full(T.of, d)
  ELSE IF T.k = "list" THEN VList(<<Full(T.of, d)>>)
  ELSE IF Def(T).kind # "input" \/ d = 0 THEN Good(T)
  ELSE IF Def(T).oneOf THEN Good(T)
  ELSE VObjE([j \in 1..Len(Def(T).fields) |-> Entry(Def(T).fields[j].name, Full(Def(T).fields[j].type, d - 1))])

SetField(o, name, val) ==
  IF Has(o, name) THEN VObjE([j \in 1..o.n |-> IF o.e[j].k = name THEN Entry(name, val) ELSE o.e[j]])
  ELSE VObjE(Append(o.e, Entry(name, val)))
DelField(o, name) == VObjE(SelectSeq(o.e, LAMBDA p : p.k # name))
SetOrDel(o, name, val) == IF val.t = "x" THEN DelField(o, name) ELSE SetField(o, name, val)

\* ---------------------------------------------------------------- menus
KindMenu == {VNull, VBool, VInt, VBig, VFrac, VStr("any"), VStr("EVA"), VStr("EVHID"), EmptyObj, VList(<<VInt>>),
             VNum("1.0"), VNum("1e10")}
\* further spellings, used at the top level of the scalar variable types ("1e400" not for ID, see GQLCoerce)
Spellings(T) == LET b == Unwrap(T) IN
                IF b.k = "named" /\ b.n \in {"Int", "Float", "ID"}
                THEN {VNum("1e2"), VNum("-0"), VNum("100E-2"), VNum("1.5e1"), VNum("2147483648.0")}
                     \cup (IF b.n = "ID" THEN {} ELSE {VNum("1e400"), VNum("-1e400")})
                ELSE {}
SmallMenu == {VNull, VBool, VInt, VFrac, VStr("any"), VStr("EVA"), VStr("EVHID")}
NonObjects(T) == {VNull, VBool, VInt, VStr("any"), VList(<<>>), VList(<<Good(T)>>)}

PairMenu(T) == {Absent, VNull, Good(T), Bad(T)}
RECURSIVE Menu(_, _)
Menu(T, d) ==
  IF T.k = "nn" THEN Menu(T.of, d)
  ELSE IF T.k = "list" THEN
    IF d = 0 THEN {VNull, VList(<<>>), Good(T.of), VList(<<Good(T.of)>>), VList(<<VNull>>), VList(<<Good(T.of), VNull>>),
                   VList(<<VNull, Good(T.of)>>), VList(<<Bad(T.of), Good(T.of)>>)}
    ELSE LET ME == Menu(T.of, d - 1) IN
         {VNull, VList(<<>>)} \cup ME \cup {VList(<<v>>) : v \in ME} \cup {VList(<<Good(T.of), v>>) : v \in ME}
           \cup {VList(<<v, Good(T.of)>>) : v \in ME}
  ELSE IF Def(T).kind # "input" THEN (IF d = 0 THEN SmallMenu ELSE KindMenu)
  ELSE IF d = 0 THEN {VNull, VInt, EmptyObj, Good(T), SetField(Good(T), "zz", VInt)}
  ELSE IF Def(T).oneOf THEN
    LET fs == Def(T).fields
        f1 == fs[1].name
        f2 == fs[2].name IN
    NonObjects(T) \cup {EmptyObj, VObjE(<<Entry("zz", VInt)>>), SetField(Good(T), "zz", VInt),
                        VObjE(<<Entry(f1, Good(fs[1].type)), Entry(f2, Good(fs[2].type))>>),
                        VObjE(<<Entry(f1, Good(fs[1].type)), Entry(f2, VNull)>>),
                        VObjE(<<Entry(f1, VNull), Entry(f2, Good(fs[2].type))>>),
                        VObjE(<<Entry(f1, VNull), Entry(f2, VNull)>>)}
      \cup UNION {{VObjE(<<Entry(fs[j].name, a)>>) : a \in Menu(fs[j].type, d - 1)} : j \in 1..Len(fs)}
  ELSE
    LET fs == Def(T).fields
        base == Full(T, 1) IN
    NonObjects(T) \cup {EmptyObj, Good(T), base, SetField(base, "zz", VInt), SetField(Good(T), "zz", VNull)}
      \cup UNION {{DelField(base, fs[j].name)} \cup {SetField(base, fs[j].name, a) : a \in Menu(fs[j].type, d - 1)} : j \in 1..Len(fs)}
      \* two fields deviate at once (thorough)
      \cup (IF Wide
            THEN UNION {{SetOrDel(SetOrDel(base, fs[jk[1]].name, a), fs[jk[2]].name, b) :
                            a \in Menu(fs[jk[1]].type, d - 1) \cup {Absent}, b \in PairMenu(fs[jk[2]].type)} :
                        jk \in {x \in (1..Len(fs)) \X (1..Len(fs)) : x[1] < x[2]}}
            ELSE {})

\* every field independently in {absent, null, good, bad}
RECURSIVE ProdEntries(_, _)
ProdEntries(fs, j) ==
  IF j > Len(fs) THEN {<<>>}
  ELSE LET rest == ProdEntries(fs, j + 1) IN
       rest \cup {<<Entry(fs[j].name, a)>> \o r : a \in {VNull, Good(fs[j].type), Bad(fs[j].type)}, r \in rest}
Prod(T) == {VObjE(e) : e \in ProdEntries(Def(T).fields, 1)}

\* objects with a duplicate name: one occurrence good, one bad, in both orders (first field of the type)
DupObjs(T) == LET b == Unwrap(T)
                  bb == IF b.k = "list" THEN Unwrap(b.of) ELSE b
                  f == Def(bb).fields[1]
                  base == Full(bb, 1)
                  base2 == DelField(base, f.name)
                  objs == {VObjE(<<Entry(f.name, Good(f.type)), Entry(f.name, Bad(f.type))>> \o base2.e),
                           VObjE(<<Entry(f.name, Bad(f.type)), Entry(f.name, Good(f.type))>> \o base2.e),
                           VObjE(base2.e \o <<Entry(f.name, Bad(f.type)), Entry(f.name, Good(f.type))>>)} IN
              IF b.k = "list" THEN {VList(<<o>>) : o \in objs} ELSE objs
TopMenu(i) == Menu(VarTypes[i], D) \cup Spellings(VarTypes[i]) \cup (IF i \in DupTypes THEN DupObjs(VarTypes[i]) ELSE {})
              \cup (IF i \in ProdTypes THEN Prod(IF VarTypes[i].k = "nn" THEN VarTypes[i].of ELSE VarTypes[i]) ELSE {})

\* ---------------------------------------------------------------- cases
\* case = [cat, vm, pos, host, extra, dupv, dupfirst, vars |-> <<[name, tix, dm, val]>>]
\*   host  0, or index into Hosts when pos = "host" (the variable is used inside an argument literal)
\*   dupv  Absent, or the value of a second occurrence of the first variable's name in the variables object (before the
\*         first one if dupfirst)
\*   vm    "obj": "variables" is an object holding the non-absent vals (plus an undeclared one if extra)
\*         "none": the request has no "variables" member      "null": "variables": null
\*   pos   "same": the variable is used at an argument of its own type      "nn": at an argument of type T!
\*   dm    "none" | "def": the variable definition carries the default VarLits[tix]
OpOf(c) == [i \in 1..Len(c.vars) |-> [name |-> c.vars[i].name, type |-> VarTypes[c.vars[i].tix], def |-> c.vars[i].dm = "def"]]
PresentEntries(c) ==
  LET pres == SelectSeq(c.vars, LAMBDA e : e.val.t # "x")
      main == [j \in 1..Len(pres) |-> Entry(pres[j].name, pres[j].val)]
      dup == IF c.dupv.t = "x" THEN <<>> ELSE <<Entry(c.vars[1].name, c.dupv)>> IN    \* a second occurrence of the first variable's name
  (IF c.dupfirst THEN dup \o main ELSE main \o dup) \o (IF c.extra THEN <<Entry(ExtraName, VStr("any"))>> ELSE <<>>)
VarsOf(c) == IF c.vm = "none" THEN Absent ELSE IF c.vm = "null" THEN VNull ELSE VObjE(PresentEntries(c))
Expected(c) == AcceptVars(Catalog, OpOf(c), VarsOf(c))
ExpectedErrs(c) == ErrPath(Catalog, OpOf(c), VarsOf(c))
ExpectedKinds(c) == ErrKinds(Catalog, OpOf(c), VarsOf(c))
AllFieldNames == UNION {{Catalog[n].fields[j].name : j \in 1..Len(Catalog[n].fields)} : n \in {x \in DOMAIN Catalog : Catalog[x].kind = "input"}} \cup {"zz"}
=============================================================================
