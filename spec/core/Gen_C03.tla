------------------------------ MODULE Gen_C03 ------------------------------
(* Generator of C03: every corpus operation with every variable set, and     *)
(* the members of its GQLRewrite orbit up to Depth steps (BFS: exhaustive,    *)
(* -simulate: sampled walks).  A case = [base, vi, steps, canon, schema, doc, *)
(* vars]; canon = every step is one of the differences the property names    *)
(* for the canonical printed form, so the case must normalize to the same     *)
(* printed form as its base.                                                  *)
EXTENDS GQLRewrite, GQLCorpus, Json
CONSTANTS Depth
VARIABLES c
Init == \E i \in DOMAIN Corpus : \E j \in DOMAIN Corpus[i].vars :
          c = [base |-> Corpus[i].id, vi |-> j, steps |-> <<>>, canon |-> TRUE, schema |-> Corpus[i].schema,
               doc |-> Corpus[i].doc, vars |-> Corpus[i].vars[j]]
Next == /\ Len(c.steps) < Depth
        /\ \E rw \in Rewrites(SchemaById(c.schema), c.doc, c.vars) :
             \* a step is meaning preserving on its own (MC_GQLRewrite); two steps can interfere (a duplicated field whose copy
             \* then gets a variable for a literal no longer has identical arguments), so only valid members are kept
             /\ SpecValid(SchemaById(c.schema), Reachable(rw.doc))
             /\ c' = [c EXCEPT !.doc = rw.doc, !.vars = rw.vars, !.steps = Append(@, rw.kind), !.canon = @ /\ rw.canon]
Spec == Init /\ [][Next]_c
Emit == PrintT(ToJson(c))
=============================================================================
