------------------------------- MODULE MC_C17 -------------------------------
(* Model checking + generation configurations of the C17 schema generator.     *)
(* Each configuration = pools (what may be added) + enabled action groups.      *)
(* The theorems GenWF, SpecRoundTrip, Closed, DeprecatedFilter, Sensitive are   *)
(* checked in every state; with Emit as CONSTRAINT every state is also printed  *)
(* (schema + the user part of its expected introspection facts) as a test case. *)
EXTENDS GQLSchemaGen, Json
CONSTANT EmitSteps   \* the step counts at which a state is printed as a test case
QN_both == {"Query", "RootQ"}
QN_default == {"Query"}
ES_all == 0..100
ES_sim == {6, 12, 18, 24, 30, 36}
ES_none == {}

\* ---- wrapper pools
W_few == {<<>>, <<"N", "L", "N">>}
W_mid == {<<>>, <<"N">>, <<"L">>, <<"L", "N">>, <<"N", "L", "L", "N">>}
W_all == {<<>>, <<"N">>, <<"L">>,
          <<"L", "L">>, <<"L", "N">>, <<"N", "L">>,
          <<"L", "L", "L">>, <<"L", "L", "N">>, <<"L", "N", "L">>, <<"N", "L", "L">>, <<"N", "L", "N">>,
          <<"L", "L", "L", "N">>, <<"L", "L", "N", "L">>, <<"L", "N", "L", "L">>, <<"L", "N", "L", "N">>,
          <<"N", "L", "L", "L">>, <<"N", "L", "L", "N">>, <<"N", "L", "N", "L">>,
          <<"N", "L", "N", "L", "N">>, <<"N", "L", "N", "L", "N", "L", "N">>}
R_both == {[hr |-> FALSE, r |-> ""], [hr |-> TRUE, r |-> "use other"]}
R_all == R_both \cup {[hr |-> TRUE, r |-> ""], [hr |-> TRUE, r |-> "say \"no\""]}
D_one == {"plain text"}
D_all == {"plain text", "two\nlines", "with \"quotes\""}
Dir_small == {[name |-> "tag", locs |-> <<"FIELD_DEFINITION", "OBJECT", "SCALAR", "SCHEMA">>, rep |-> TRUE],
              [name |-> "auth", locs |-> <<"QUERY", "FIELD">>, rep |-> FALSE]}
Dir_all == Dir_small \cup {[name |-> "everywhere", rep |-> FALSE,
                            locs |-> <<"QUERY", "MUTATION", "SUBSCRIPTION", "FIELD", "FRAGMENT_DEFINITION", "FRAGMENT_SPREAD",
                                       "INLINE_FRAGMENT", "VARIABLE_DEFINITION", "SCHEMA", "SCALAR", "OBJECT", "FIELD_DEFINITION",
                                       "ARGUMENT_DEFINITION", "INTERFACE", "UNION", "ENUM", "ENUM_VALUE", "INPUT_OBJECT",
                                       "INPUT_FIELD_DEFINITION">>]}

\* ---- A: object / interface / union structure (interfaces implementing interfaces, narrowing, wrappers)
A_Slots == {[name |-> "Obj", kind |-> "OBJECT"], [name |-> "Node", kind |-> "INTERFACE"],
            [name |-> "Entity", kind |-> "INTERFACE"], [name |-> "U", kind |-> "UNION"]}
A_Features == {"fields", "implements", "unions"}
\* ---- B: inputs, arguments, default values of every kind, deprecations
B_Slots == {[name |-> "In", kind |-> "INPUT_OBJECT"], [name |-> "Color", kind |-> "ENUM"]}
B_Features == {"args", "inputs", "defaults", "enums", "deprecate"}
\* ---- C: directives, roots, descriptions, scalars
\*         (a type named Query can only be added while the query root is renamed: an unrelated type with a default root name)
C_Slots == {[name |-> "Mutation", kind |-> "OBJECT"], [name |-> "Other", kind |-> "OBJECT"], [name |-> "Date", kind |-> "SCALAR"],
            [name |-> "Query", kind |-> "OBJECT"]}
C_Features == {"directives", "tags", "roots", "describe", "scalars", "deprecate", "args"}
\* ---- D: the interface lattice (three interfaces implementing each other, objects implementing chains of them)
D_Slots == {[name |-> "Obj", kind |-> "OBJECT"], [name |-> "Node", kind |-> "INTERFACE"],
            [name |-> "Entity", kind |-> "INTERFACE"], [name |-> "Named", kind |-> "INTERFACE"]}
D_Features == {"implements"}
\* ---- E: several deprecated siblings (enum values, fields, input fields) with different / absent reasons
E_Slots == {[name |-> "Color", kind |-> "ENUM"], [name |-> "In", kind |-> "INPUT_OBJECT"]}
E_Features == {"fields", "inputs", "enums", "deprecate"}
F_Features == {"args", "deprecate"}   \* F: two arguments of one field, both deprecated
W_none == {<<>>}
\* ---- G: type extensions of every kind and `extend schema`
G_Slots == {[name |-> "Obj", kind |-> "OBJECT"], [name |-> "Node", kind |-> "INTERFACE"], [name |-> "U", kind |-> "UNION"],
            [name |-> "Color", kind |-> "ENUM"], [name |-> "In", kind |-> "INPUT_OBJECT"], [name |-> "Date", kind |-> "SCALAR"]}
G_Features == {"extensions", "fields", "unions", "enums", "inputs", "scalars", "roots"}
\* ---- simulation: everything
Sim_Slots == {[name |-> "Obj", kind |-> "OBJECT"], [name |-> "Other", kind |-> "OBJECT"], [name |-> "Mutation", kind |-> "OBJECT"],
              [name |-> "Query", kind |-> "OBJECT"],
              [name |-> "Subscription", kind |-> "OBJECT"],
              [name |-> "Node", kind |-> "INTERFACE"], [name |-> "Entity", kind |-> "INTERFACE"], [name |-> "Named", kind |-> "INTERFACE"],
              [name |-> "U", kind |-> "UNION"], [name |-> "V", kind |-> "UNION"],
              [name |-> "Color", kind |-> "ENUM"], [name |-> "Unit", kind |-> "ENUM"],
              [name |-> "In", kind |-> "INPUT_OBJECT"], [name |-> "Filter", kind |-> "INPUT_OBJECT"],
              [name |-> "Date", kind |-> "SCALAR"], [name |-> "JSON", kind |-> "SCALAR"]}
Sim_Features == {"extensions", "fields", "implements", "unions", "args", "inputs", "defaults", "enums", "deprecate",
                 "directives", "tags", "roots", "describe", "scalars"}

\* ---- emission: one test case per state
UserFacts == {f \in IFacts(IntrospectRaw(S, TRUE)) : f.k \notin {"deprecationReason", "default"} \/ f.v \notin {"<null>", "<none>"}}
Emit == PrintT(ToJson([s |-> S, n |-> n, exp |-> UserFacts]))
\* in sampling runs the constraint sees every candidate successor of a walk; one in four is printed
EmitAt == IF n \in EmitSteps /\ (~Sampling \/ RandomElement(1..4) = 1) THEN Emit ELSE TRUE
=============================================================================
