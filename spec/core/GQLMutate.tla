----------------------------- MODULE GQLMutate -----------------------------
(* Rule-targeted mutations of a document (generator of C04).  Every mutation *)
(* is one local edit in the *reachable* part (selected operation + fragments *)
(* it reaches); Mutants(S, doc) is the set of all [kind, doc'] over all      *)
(* positions.  A mutation is aimed at one rule but is NOT assumed to make    *)
(* the document invalid: the expected verdict is always computed by          *)
(* GQLValidate!SpecValid.                                                    *)
EXTENDS GQLValidate

----------------------------------------------------------------------------
\* reachable roots and the sites below them
ReachRoots(doc) ==
  LET ops == {i \in DOMAIN doc.ops : doc.opName = "" \/ doc.ops[i].name = doc.opName}
      names == UNION {ReachableFragNames(doc, doc.ops[i].sel) : i \in ops}
  IN {<<"op", i>> : i \in ops} \cup {<<"frag", i>> : i \in {j \in DOMAIN doc.frags : doc.frags[j].name \in names}}

\* selection sites: [r : root, p : path, s : the selection, T : enclosing type]
SelSites(S, doc) ==
  UNION {{[r |-> r, p |-> p, s |-> SelAt(RootSel(doc, r), p),
           T |-> TypeAtSel(S, doc, RootSel(doc, r), RootParent(S, doc, r), p)] : p \in SelPaths(RootSel(doc, r))}
         : r \in ReachRoots(doc)}
\* selection-set sites: [r, p, sel : the set, T : its enclosing type]
SetSites(S, doc) ==
  UNION {{[r |-> r, p |-> p, sel |-> SetAt(RootSel(doc, r), p),
           T |-> TypeAtSet(S, doc, RootSel(doc, r), RootParent(S, doc, r), p)] : p \in SetPaths(RootSel(doc, r))}
         : r \in ReachRoots(doc)}

EditSel(doc, site, es)  == WithRootSel(doc, site.r, SelReplace(RootSel(doc, site.r), site.p, es))
EditSet(doc, site, set) == WithRootSel(doc, site.r, SetReplace(RootSel(doc, site.r), site.p, set))

FieldSites(S, doc) == {x \in SelSites(S, doc) : x.s.k = "field"}

M(kind, docs) == {[kind |-> kind, doc |-> d] : d \in docs}

----------------------------------------------------------------------------
\* type-directed literals: the k-th (k \in 1..2) well-typed literal of a type
RECURSIVE ValidLit(_, _, _, _)
ValidLit(S, ty, k, fuel) ==
  IF IsNonNull(ty) THEN ValidLit(S, Unwrap(ty), k, fuel)
  ELSE IF IsListTy(ty) THEN VL(<<ValidLit(S, Unwrap(ty), k, fuel)>>)
  ELSE CASE ty.n = "Int" -> VI(k + 10)
         [] ty.n = "Float" -> IF k = 1 THEN VF("2.5") ELSE VI(k + 10)
         [] ty.n = "String" -> IF k = 1 THEN VS("m1") ELSE VS("m2")
         [] ty.n = "Boolean" -> VB(k = 1)
         [] ty.n = "ID" -> IF k = 1 THEN VS("i1") ELSE VI(k + 20)
         [] TypeKind(S, ty.n) = "ENUM" -> LET vs == S.types[ty.n].values
                                              a == CHOOSE v \in vs : TRUE
                                          IN IF k = 1 \/ vs = {a} THEN VE(a) ELSE VE(CHOOSE v \in vs \ {a} : TRUE)
         [] TypeKind(S, ty.n) = "INPUT" ->
              LET req == {f \in InputFields(S, ty.n) : IsNonNull(InputFieldDef(S, ty.n, f).type) /\ InputFieldDef(S, ty.n, f).def = Absent}
                  ks == SetToSeq(req)
              IN IF fuel = 0 THEN VNull ELSE VO(ks, [i \in DOMAIN ks |-> ValidLit(S, InputFieldDef(S, ty.n, ks[i]).type, k, fuel - 1)])
         [] OTHER -> VI(k + 30)

\* required arguments of a field / directive, filled with well-typed literals
MinArgs(S, defs) ==
  LET req == SetToSeq({a \in DOMAIN defs : IsNonNull(defs[a].type) /\ defs[a].def = Absent})
  IN [i \in DOMAIN req |-> dA(req[i], ValidLit(S, defs[req[i]].type, 1, 2))]

\* a minimal well-formed use of field g of type T under response name key ("" = no alias)
MinField(S, T, g, key) ==
  LET d == FieldDef(S, T, g)
  IN [k |-> "field", name |-> g, alias |-> IF key = g THEN "" ELSE key, on |-> "", args |-> MinArgs(S, d.args), dirs |-> <<>>,
      sel |-> IF IsComposite(S, d.type.n) THEN <<dLf("__typename")>> ELSE <<>>]

FieldNamesOf(S, T) == IF TypeKind(S, T) \in {"OBJECT", "INTERFACE"} THEN DOMAIN S.types[T].fields ELSE {}
CompositeTypes(S) == {n \in UserTypes(S) : S.types[n].kind \in {"OBJECT", "INTERFACE", "UNION"}}

----------------------------------------------------------------------------
\* values: positions inside a literal
RECURSIVE ValuePaths(_)
ValuePaths(v) ==
  {<<>>} \cup CASE v.t = "l" -> UNION {{<<i>> \o p : p \in ValuePaths(v.l[i])} : i \in DOMAIN v.l}
               [] v.t = "o" -> UNION {{<<i>> \o p : p \in ValuePaths(v.o[i])} : i \in DOMAIN v.o}
               [] OTHER -> {}
RECURSIVE ValueReplace(_, _, _)
ValueReplace(v, p, nv) ==
  IF Len(p) = 0 THEN nv
  ELSE IF v.t = "l" THEN VL([v.l EXCEPT ![p[1]] = ValueReplace(@, Tail(p), nv)])
  ELSE VO(v.k, [v.o EXCEPT ![p[1]] = ValueReplace(@, Tail(p), nv)])
RECURSIVE ValueAt(_, _)
ValueAt(v, p) == IF Len(p) = 0 THEN v ELSE IF v.t = "l" THEN ValueAt(v.l[p[1]], Tail(p)) ELSE ValueAt(v.o[p[1]], Tail(p))

\* object-literal positions of a value (for input-object field mutations)
ObjPaths(v) == {p \in ValuePaths(v) : ValueAt(v, p).t = "o"}

AnEnum(S) == LET es == {n \in UserTypes(S) : S.types[n].kind = "ENUM"} IN
             IF es = {} THEN "NOPE" ELSE CHOOSE v \in S.types[CHOOSE e \in es : TRUE].values : TRUE

\* replacement literals for WrongValueKind / EnumAsString
ValueMenu(S) ==
  {VNull, VI(1), VBig("2147483648"), VF("1.5"), VS("x"), VB(TRUE), VE(AnEnum(S)), VE("NOPE"), VS(AnEnum(S)),
   VL(<<>>), VL(<<VI(1)>>), VL(<<VS("x"), VNull>>), VL(<<VL(<<VI(1)>>)>>),
   VO(<<>>, <<>>), VO(<<"a">>, <<VI(1)>>), VO(<<"minAge">>, <<VI(1)>>), VO(<<"a">>, <<VS("x")>>)}

----------------------------------------------------------------------------
\* argument lists: j = 0 the field's arguments, j > 0 the arguments of the selection's j-th directive
ArgLocs(S, doc) ==
  {[site |-> x, j |-> 0] : x \in FieldSites(S, doc)}
  \cup UNION {{[site |-> x, j |-> j] : j \in DOMAIN x.s.dirs} : x \in SelSites(S, doc)}
GetArgs(loc) == IF loc.j = 0 THEN loc.site.s.args ELSE loc.site.s.dirs[loc.j].args
SetArgs(doc, loc, args) ==
  EditSel(doc, loc.site, <<IF loc.j = 0 THEN [loc.site.s EXCEPT !.args = args] ELSE [loc.site.s EXCEPT !.dirs[loc.j].args = args]>>)
ArgDefsAt(S, loc) ==
  IF loc.j = 0 THEN FieldDef(S, loc.site.T, loc.site.s.name).args
  ELSE IF HasDirective(S, loc.site.s.dirs[loc.j].name) THEN DirectiveDef(S, loc.site.s.dirs[loc.j].name).args ELSE NoArgs

MutDropArg(S, doc) ==
  {SetArgs(doc, loc, RemoveAt(GetArgs(loc), i)) : <<loc, i>> \in {<<l, i>> \in ArgLocs(S, doc) \X (1..8) : i \in DOMAIN GetArgs(l)}}
MutUnknownArg(S, doc) ==
  {SetArgs(doc, loc, Append(GetArgs(loc), dA("zz", VI(1)))) : loc \in ArgLocs(S, doc)}
  \cup {SetArgs(doc, loc, [GetArgs(loc) EXCEPT ![i].name = "zz"]) : <<loc, i>> \in {<<l, i>> \in ArgLocs(S, doc) \X (1..8) : i \in DOMAIN GetArgs(l)}}
MutDupArg(S, doc) ==
  {SetArgs(doc, loc, Append(GetArgs(loc), GetArgs(loc)[i])) : <<loc, i>> \in {<<l, i>> \in ArgLocs(S, doc) \X (1..8) : i \in DOMAIN GetArgs(l)}}
  \cup {SetArgs(doc, loc, Append(GetArgs(loc), dA(GetArgs(loc)[i].name, VNull))) : <<loc, i>> \in {<<l, i>> \in ArgLocs(S, doc) \X (1..8) : i \in DOMAIN GetArgs(l)}}

\* every value position of every argument: [loc, i, p]
ValuePositions(S, doc) ==
  UNION {UNION {{[loc |-> loc, i |-> i, p |-> p] : p \in ValuePaths(GetArgs(loc)[i].value)} : i \in DOMAIN GetArgs(loc)} : loc \in ArgLocs(S, doc)}
SetValue(doc, pos, nv) ==
  SetArgs(doc, pos.loc, [GetArgs(pos.loc) EXCEPT ![pos.i].value = ValueReplace(@, pos.p, nv)])

MutWrongValueKind(S, doc) ==
  {SetValue(doc, pos, nv) : <<pos, nv>> \in ValuePositions(S, doc) \X ValueMenu(S)}
  \* variable default values
  \cup UNION {UNION {{[doc EXCEPT !.ops[r[2]].vars[j].def = ValueReplace(@, p, nv)] : <<p, nv>> \in ValuePaths(doc.ops[r[2]].vars[j].def) \X ValueMenu(S)}
                     : j \in {x \in DOMAIN doc.ops[r[2]].vars : doc.ops[r[2]].vars[x].def # Absent}}
              : r \in {x \in ReachRoots(doc) : x[1] = "op"}}

\* input objects: drop a field, duplicate a field, add an unknown field, add each missing field with null
MutInputObject(S, doc) ==
  UNION {LET v == ValueAt(GetArgs(pos.loc)[pos.i].value, pos.p)
         IN {SetValue(doc, pos, VO(RemoveAt(v.k, n), RemoveAt(v.o, n))) : n \in DOMAIN v.k}
            \cup {SetValue(doc, pos, VO(Append(v.k, v.k[n]), Append(v.o, v.o[n]))) : n \in DOMAIN v.k}
            \cup {SetValue(doc, pos, VO(Append(v.k, "zz"), Append(v.o, VI(1))))}
         : pos \in {x \in ValuePositions(S, doc) : ValueAt(GetArgs(x.loc)[x.i].value, x.p).t = "o"}}

----------------------------------------------------------------------------
\* fields
MutUnknownField(S, doc) ==
  {EditSel(doc, x, <<[x.s EXCEPT !.name = "nope"]>>) : x \in FieldSites(S, doc)}
  \* a field that exists on a possible type of T (or anywhere in the schema) but not on T itself
  \cup {EditSet(doc, x, Append(x.sel, MinField(S, c[1], c[2], c[2]))) :
          <<x, c>> \in {<<y, d>> \in SetSites(S, doc) \X UNION {{<<o, g>> : g \in FieldNamesOf(S, o)} : o \in CompositeTypes(S)} :
                          IsComposite(S, y.T) /\ d[1] \in PossibleTypes(S, y.T) /\ ~HasField(S, y.T, d[2])}}
  \* a meta field where it does not exist
  \cup {EditSet(doc, x, Append(x.sel, dLf("__typenam"))) : x \in SetSites(S, doc)}

MutLeafWithSelection(S, doc) ==
  {EditSel(doc, x, <<[x.s EXCEPT !.sel = <<dLf("__typename")>>]>>) : x \in {y \in FieldSites(S, doc) : y.s.sel = <<>>}}
  \cup {EditSel(doc, x, <<[x.s EXCEPT !.sel = <<dLf("x")>>]>>) : x \in {y \in FieldSites(S, doc) : y.s.sel = <<>>}}
MutCompositeWithoutSelection(S, doc) ==
  {EditSel(doc, x, <<[x.s EXCEPT !.sel = <<>>]>>) : x \in {y \in FieldSites(S, doc) : y.s.sel # <<>>}}

\* a second selection under an existing response name (or a new field without alias), placed directly, inside an
\* inline fragment on a possible type, or inside a new named fragment
ConflictCandidates(S, x) ==   \* <<type the field is selected on, field, response name>> for set site x
  UNION {{<<X, g, key>> : <<g, key>> \in (FieldNamesOf(S, X) \cup {"__typename"}) \X
                            ({ResponseKey(x.sel[i]) : i \in {j \in DOMAIN x.sel : x.sel[j].k = "field"}} \cup {""})}
         : X \in PossibleTypes(S, x.T) \cup {x.T}}
NewFragName == "Mx"
MutConflictingResponseName(S, doc) ==
  UNION {UNION {LET X == c[1]
                    fld == MinField(S, X, c[2], IF c[3] = "" THEN c[2] ELSE c[3])
                IN (IF X = x.T THEN {EditSet(doc, x, Append(x.sel, fld))} ELSE {})
                   \cup {EditSet(doc, x, Append(x.sel, dInl(X, <<fld>>)))}
                   \cup {[EditSet(doc, x, Append(x.sel, dSpr(NewFragName))) EXCEPT !.frags = Append(@, dFrag(NewFragName, X, <<fld>>))]}
                : c \in ConflictCandidates(S, x)}
         : x \in {y \in SetSites(S, doc) : IsComposite(S, y.T)}}

\* same field, same response name, different arguments
MutConflictingArgs(S, doc) ==
  UNION {LET d == FieldDef(S, x.T, x.s.name)
         IN UNION {LET cur == SelectSeq(x.s.args, LAMBDA z : z.name # a)
                       variants == {cur, Append(cur, dA(a, ValidLit(S, d.args[a].type, 1, 2))), Append(cur, dA(a, ValidLit(S, d.args[a].type, 2, 2)))}
                   IN UNION {{EditSel(doc, x, <<x.s, [x.s EXCEPT !.args = w]>>),
                              EditSel(doc, x, <<x.s, dInl(x.T, <<[x.s EXCEPT !.args = w]>>)>>)} : w \in variants \ {x.s.args}}
                   : a \in DOMAIN d.args}
         : x \in {y \in FieldSites(S, doc) : HasField(S, y.T, y.s.name) /\ IsComposite(S, y.T)}}

\* three selections under one new response name below an interface-typed position, in every order: on object type A its
\* field f, on another object type B a field g of the same type (fine against A: the parents cannot overlap), and f on the
\* interface itself (conflicts with g on B unless g = f)
Perms3(a, b, c) == {<<a, b, c>>, <<a, c, b>>, <<b, a, c>>, <<b, c, a>>, <<c, a, b>>, <<c, b, a>>}
LeafNoArgFields(S, T) == {f \in FieldNamesOf(S, T) : IsLeafType(S, FieldDef(S, T, f).type.n) /\ MinArgs(S, FieldDef(S, T, f).args) = <<>>}
MutConflictingTriple(S, doc) ==
  UNION {UNION {UNION {{EditSet(doc, x, x.sel \o p)
                        : p \in Perms3(dInl(ab[1], <<dFA("zx", f, <<>>, <<>>)>>), dInl(ab[2], <<dFA("zx", g, <<>>, <<>>)>>), dFA("zx", f, <<>>, <<>>))}
                       : g \in {h \in LeafNoArgFields(S, ab[2]) : FieldDef(S, ab[2], h).type = FieldDef(S, x.T, f).type}}
                : <<ab, f>> \in {y \in (PossibleTypes(S, x.T) \X PossibleTypes(S, x.T)) \X LeafNoArgFields(S, x.T) :
                                 y[1][1] # y[1][2] /\ FieldDef(S, y[1][1], y[2]).type = FieldDef(S, x.T, y[2]).type}}
         : x \in {y \in SetSites(S, doc) : TypeKind(S, y.T) = "INTERFACE"}}

----------------------------------------------------------------------------
\* fragments
FragIdx(doc) == {r[2] : r \in {x \in ReachRoots(doc) : x[1] = "frag"}}

MutCyclicFragment(S, doc) ==
  {[doc EXCEPT !.frags[j].sel = Append(@, dSpr(doc.frags[i].name))] : <<i, j>> \in FragIdx(doc) \X FragIdx(doc)}
  \* through a nested selection of the first field with a sub-selection: only when the fragment's type fits
  \cup {[doc EXCEPT !.frags[j].sel = Append(@, dInl("", <<dSpr(doc.frags[i].name)>>))] : <<i, j>> \in {<<a, b>> \in FragIdx(doc) \X FragIdx(doc) : a = b}}

MutUnknownFragment(S, doc) ==
  {EditSel(doc, x, <<[x.s EXCEPT !.name = "Nope"]>>) : x \in {y \in SelSites(S, doc) : y.s.k = "spread"}}
  \cup {EditSet(doc, x, Append(x.sel, dSpr("Nope"))) : x \in SetSites(S, doc)}

TypeCondMenu(S) == UserTypes(S) \cup {"Nope", "Int", "__Type"}
MutImpossibleSpread(S, doc) ==
  \* a new inline fragment / spread of a new fragment on every type name of the schema (possible or not, composite or not)
  {EditSet(doc, x, Append(x.sel, dInl(X, <<dLf("__typename")>>))) : <<x, X>> \in SetSites(S, doc) \X TypeCondMenu(S)}
  \cup {[EditSet(doc, x, Append(x.sel, dSpr(NewFragName))) EXCEPT !.frags = Append(@, dFrag(NewFragName, X, <<dLf("__typename")>>))]
          : <<x, X>> \in SetSites(S, doc) \X TypeCondMenu(S)}
  \* retarget an existing type condition
  \cup {EditSel(doc, x, <<[x.s EXCEPT !.on = X]>>) : <<x, X>> \in {y \in SelSites(S, doc) : y.s.k = "inline"} \X (TypeCondMenu(S) \cup {""})}
  \cup {[doc EXCEPT !.frags[i].on = X] : <<i, X>> \in FragIdx(doc) \X TypeCondMenu(S)}

MutDupFragment(S, doc) ==
  {[doc EXCEPT !.frags = Append(@, doc.frags[i])] : i \in FragIdx(doc)}

----------------------------------------------------------------------------
\* variables
OpIdx(doc) == {r[2] : r \in {x \in ReachRoots(doc) : x[1] = "op"}}
VarIdx(doc) == UNION {{<<i, j>> : j \in DOMAIN doc.ops[i].vars} : i \in OpIdx(doc)}

MutUndefinedVar(S, doc) ==
  {SetValue(doc, pos, VVar("undef")) : pos \in ValuePositions(S, doc)}
  \cup {[doc EXCEPT !.ops[ij[1]].vars = RemoveAt(@, ij[2])] : ij \in VarIdx(doc)}
MutUnusedVar(S, doc) ==
  {[doc EXCEPT !.ops[i].vars = Append(@, dVar("unused", Ty("Int"), Absent))] : i \in OpIdx(doc)}
  \cup {[doc EXCEPT !.ops[i].vars = <<dVar("unused", Ty("Int"), VI(1))>> \o @] : i \in OpIdx(doc)}
MutDupVar(S, doc) ==
  {[doc EXCEPT !.ops[ij[1]].vars = Append(@, doc.ops[ij[1]].vars[ij[2]])] : ij \in VarIdx(doc)}

VarTypeMenu(S) ==
  LET base == {"Int", "String", "Boolean", "ID", "Float"} \cup {n \in UserTypes(S) : S.types[n].kind \in {"ENUM", "INPUT", "SCALAR"}}
  IN UNION {{Ty(n), NN(Ty(n)), Ls(Ty(n)), NN(Ls(NN(Ty(n))))} : n \in base} \cup {Ls(Ls(Ty("Int"))), Ls(NN(Ty("Int")))}
MutVarInWrongPosition(S, doc) ==
  {[doc EXCEPT !.ops[ij[1]].vars[ij[2]].type = ty] : <<ij, ty>> \in VarIdx(doc) \X VarTypeMenu(S)}
  \cup {[doc EXCEPT !.ops[ij[1]].vars[ij[2]].def = d] : <<ij, d>> \in VarIdx(doc) \X {Absent, VNull}}
  \* an existing variable used at another value position
  \cup UNION {{SetValue(doc, pos, VVar(doc.ops[ij[1]].vars[ij[2]].name)) : pos \in ValuePositions(S, doc)} : ij \in VarIdx(doc)}
MutNonInputVar(S, doc) ==
  {[doc EXCEPT !.ops[ij[1]].vars[ij[2]].type = ty] :
     <<ij, ty>> \in VarIdx(doc) \X UNION {{Ty(n), NN(Ty(n)), Ls(Ty(n))} : n \in CompositeTypes(S) \cup {"Nope"}}}

----------------------------------------------------------------------------
\* directives: dl = a place carrying directives
DirLocs(S, doc) ==
  {[k |-> "sel", x |-> x, i |-> 0, j |-> 0] : x \in SelSites(S, doc)}
  \cup {[k |-> "op", x |-> <<>>, i |-> i, j |-> 0] : i \in OpIdx(doc)}
  \cup {[k |-> "frag", x |-> <<>>, i |-> i, j |-> 0] : i \in FragIdx(doc)}
  \cup {[k |-> "var", x |-> <<>>, i |-> ij[1], j |-> ij[2]] : ij \in VarIdx(doc)}
GetDirs(doc, dl) ==
  CASE dl.k = "sel" -> dl.x.s.dirs [] dl.k = "op" -> doc.ops[dl.i].dirs [] dl.k = "frag" -> doc.frags[dl.i].dirs
    [] OTHER -> doc.ops[dl.i].vars[dl.j].dirs
SetDirs(doc, dl, dirs) ==
  CASE dl.k = "sel" -> EditSel(doc, dl.x, <<[dl.x.s EXCEPT !.dirs = dirs]>>)
    [] dl.k = "op" -> [doc EXCEPT !.ops[dl.i].dirs = dirs]
    [] dl.k = "frag" -> [doc EXCEPT !.frags[dl.i].dirs = dirs]
    [] OTHER -> [doc EXCEPT !.ops[dl.i].vars[dl.j].dirs = dirs]

MinDir(S, d) == dDir(d, MinArgs(S, DirectiveDef(S, d).args))
\* @deprecated has type-system locations only; @skip / @include / custom ones are placed everywhere
DirMenu(S) == ((DOMAIN S.directives) \cup {"skip", "include", "deprecated"})

MutUnknownDirective(S, doc) == {SetDirs(doc, dl, Append(GetDirs(doc, dl), dDir("nope", <<>>))) : dl \in DirLocs(S, doc)}
MutMisplacedDirective(S, doc) ==
  {SetDirs(doc, dl, Append(GetDirs(doc, dl), MinDir(S, d))) : <<dl, d>> \in DirLocs(S, doc) \X DirMenu(S)}
MutDirectiveMissingArg(S, doc) ==
  {SetDirs(doc, dl, Append(GetDirs(doc, dl), dDir(d, <<>>))) : <<dl, d>> \in DirLocs(S, doc) \X DirMenu(S)}
MutDupDirective(S, doc) ==
  UNION {{SetDirs(doc, dl, Append(GetDirs(doc, dl), GetDirs(doc, dl)[n])) : n \in DOMAIN GetDirs(doc, dl)} : dl \in DirLocs(S, doc)}
  \cup {SetDirs(doc, dl, GetDirs(doc, dl) \o <<MinDir(S, d), MinDir(S, d)>>) : <<dl, d>> \in {y \in DirLocs(S, doc) : y.k = "sel" /\ y.x.s.k = "field"} \X DirMenu(S)}

----------------------------------------------------------------------------
\* operations
SubOps(doc) == {i \in OpIdx(doc) : doc.ops[i].op = "subscription"}
MutTwoSubscriptionRoots(S, doc) ==
  UNION {LET flds == {MinField(S, S.subscription, g, key) : <<g, key>> \in FieldNamesOf(S, S.subscription) \X (FieldNamesOf(S, S.subscription) \cup {"z"})}
         IN UNION {{[doc EXCEPT !.ops[i].sel = Append(@, fld)],
                    [doc EXCEPT !.ops[i].sel = Append(@, dInl("", <<fld>>))],
                    [doc EXCEPT !.ops[i].sel = Append(@, dSpr(NewFragName)), !.frags = Append(@, dFrag(NewFragName, S.subscription, <<fld>>))]}
                   : fld \in flds}
         : i \in SubOps(doc)}
MutIntrospectionSubscriptionRoot(S, doc) ==
  UNION {{[doc EXCEPT !.ops[i].sel = <<dLf("__typename")>>],
          [doc EXCEPT !.ops[i].sel = Append(@, dLf("__typename"))],
          [doc EXCEPT !.ops[i].sel = <<dInl(S.subscription, <<dLf("__typename")>>)>>],
          [doc EXCEPT !.ops[i].sel = <<dFA("t", "__typename", <<>>, <<>>)>>]} : i \in SubOps(doc)}

MutOperations(S, doc) ==
  UNION {{[doc EXCEPT !.ops = Append(@, doc.ops[i])],                                   \* same name twice / two anonymous
          [doc EXCEPT !.ops = Append(@, [doc.ops[i] EXCEPT !.name = "Other"])],         \* anonymous + named, or two names
          [doc EXCEPT !.ops = Append(@, [doc.ops[i] EXCEPT !.name = "Other"]), !.opName = "Other"],
          [doc EXCEPT !.ops = Append(@, [doc.ops[i] EXCEPT !.name = ""])]}
         : i \in OpIdx(doc)}

\* A sibling operation (not selected by operationName) that declares a variable of the selected operation under the same
\* name with another type - with the variable still declared on the selected operation (nothing changes for the executed
\* part: valid) or with its definition removed there (the variable is undefined where it is used: invalid).  The sibling is a
\* valid operation of its own; the selected operation gets a name if it had none.
SiblingFor(S, n) ==
  CASE S.id = "pets" -> dOp("query", "Sib", <<dVar(n, NN(Ty("String")), Absent)>>, <<dF("human", <<dA("name", VVar(n))>>, <<dLf("name")>>)>>)
    [] S.id = "args" -> dOp("query", "Sib", <<dVar(n, Ty("Boolean"), Absent)>>, <<dF("b", <<dA("x", VVar(n))>>, <<>>)>>)
    [] S.id = "deep" -> dOp("query", "Sib", <<dVar(n, NN(Ty("Boolean")), Absent)>>, <<dFD("lone", <<>>, <<dDir("skip", <<dA("if", VVar(n))>>)>>, <<dLf("l")>>)>>)
    [] OTHER -> dOp("query", "Sib", <<dVar(n, NN(Ty("Boolean")), Absent)>>, <<dFD("maybe", <<>>, <<dDir("skip", <<dA("if", VVar(n))>>)>>, <<dLf("id")>>)>>)
MutSiblingOperation(S, doc) ==
  UNION {LET named == IF doc.ops[ij[1]].name = "" THEN [doc EXCEPT !.ops[ij[1]].name = "Sel", !.opName = "Sel"]
                      ELSE [doc EXCEPT !.opName = doc.ops[ij[1]].name]
             n == doc.ops[ij[1]].vars[ij[2]].name
             undef == [named EXCEPT !.ops[ij[1]].vars = RemoveAt(@, ij[2])]
         IN {[d EXCEPT !.ops = <<SiblingFor(S, n)>> \o @] : d \in {named, undef}}
            \cup {[d EXCEPT !.ops = Append(@, SiblingFor(S, n))] : d \in {named, undef}}
         : ij \in {x \in VarIdx(doc) : Len(doc.ops) = 1}}

\* definitions the request does not execute: they must not change the admission of the selected operation.
\* UnusedDefinition: valid ones (an unused fragment, an unselected operation, a second identical definition of a reached fragment)
NamedSelected(doc, i) == IF doc.ops[i].name = "" THEN [doc EXCEPT !.ops[i].name = "Sel", !.opName = "Sel"] ELSE [doc EXCEPT !.opName = doc.ops[i].name]
MutUnusedDefinition(S, doc) ==
  UNION {LET d == NamedSelected(doc, i)
         IN {[d EXCEPT !.frags = Append(@, dFrag("Unused", S.query, <<dLf("__typename")>>))],
             [d EXCEPT !.ops = Append(@, dOp("query", "Other", <<>>, <<dLf("__typename")>>))],
             [d EXCEPT !.ops = <<dOp("query", "Other", <<>>, <<dLf("__typename")>>)>> \o @]}
            \cup {[d EXCEPT !.frags = Append(@, d.frags[j])] : j \in FragIdx(d)}
         : i \in {k \in OpIdx(doc) : Len(doc.ops) = 1}}
\* DiscardedInvalid: invalid ones (the specification's rules about them are outside the guarantee: only an accepted invalid
\* selected operation or a crash counts)
MutDiscardedInvalid(S, doc) ==
  UNION {LET d == NamedSelected(doc, i)
         IN {[d EXCEPT !.frags = Append(@, dFrag("Unused", "Nope", <<dLf("nope")>>))],
             [d EXCEPT !.frags = Append(@, dFrag("Unused", S.query, <<dSpr("Unused")>>))],
             [d EXCEPT !.ops = Append(@, dOp("query", "Bad", <<>>, <<dLf("nope")>>))],
             [d EXCEPT !.ops = <<dOp("query", "Bad", <<dVar("u", Ty("Int"), Absent)>>, <<dF("__typename", <<dA("zz", VVar("w"))>>, <<>>)>>)>> \o @],
             [d EXCEPT !.ops = @ \o <<dOp("query", "Bad", <<>>, <<dLf("__typename")>>), dOp("query", "Bad", <<>>, <<dLf("__typename")>>)>>],
             [d EXCEPT !.ops = Append(@, dOp("query", "", <<>>, <<dLf("__typename")>>))]}
            \cup {[d EXCEPT !.frags = Append(@, [d.frags[j] EXCEPT !.sel = <<dLf("nope")>>, !.on = "Nope"])] : j \in FragIdx(d)}
         : i \in {k \in OpIdx(doc) : Len(doc.ops) = 1}}

----------------------------------------------------------------------------
MutationKinds == <<"UnknownField", "DropRequiredArg", "UnknownArg", "DupArg", "WrongValueKind", "InputObjectField",
                   "CyclicFragment", "UnknownFragment", "ImpossibleSpread", "UndefinedVar", "UnusedVar",
                   "VarInWrongPosition", "DupVar", "NonInputVar", "ConflictingResponseName", "ConflictingArgs", "ConflictingTriple", "SiblingOperation", "UnusedDefinition", "DiscardedInvalid", "LeafWithSelection",
                   "CompositeWithoutSelection", "UnknownDirective", "MisplacedDirective", "DirectiveMissingArg", "DupDirective",
                   "TwoSubscriptionRoots", "IntrospectionSubscriptionRoot", "Operations">>

MutantsOfKind(kind, S, doc) ==
  CASE kind = "UnknownField" -> MutUnknownField(S, doc)
    [] kind = "DropRequiredArg" -> MutDropArg(S, doc)
    [] kind = "UnknownArg" -> MutUnknownArg(S, doc)
    [] kind = "DupArg" -> MutDupArg(S, doc)
    [] kind = "WrongValueKind" -> MutWrongValueKind(S, doc)
    [] kind = "InputObjectField" -> MutInputObject(S, doc)
    [] kind = "CyclicFragment" -> MutCyclicFragment(S, doc)
    [] kind = "UnknownFragment" -> MutUnknownFragment(S, doc)
    [] kind = "ImpossibleSpread" -> MutImpossibleSpread(S, doc)
    [] kind = "UndefinedVar" -> MutUndefinedVar(S, doc)
    [] kind = "UnusedVar" -> MutUnusedVar(S, doc)
    [] kind = "VarInWrongPosition" -> MutVarInWrongPosition(S, doc)
    [] kind = "DupVar" -> MutDupVar(S, doc)
    [] kind = "NonInputVar" -> MutNonInputVar(S, doc)
    [] kind = "ConflictingResponseName" -> MutConflictingResponseName(S, doc)
    [] kind = "ConflictingArgs" -> MutConflictingArgs(S, doc)
    [] kind = "ConflictingTriple" -> MutConflictingTriple(S, doc)
    [] kind = "SiblingOperation" -> MutSiblingOperation(S, doc)
    [] kind = "UnusedDefinition" -> MutUnusedDefinition(S, doc)
    [] kind = "DiscardedInvalid" -> MutDiscardedInvalid(S, doc)
    [] kind = "LeafWithSelection" -> MutLeafWithSelection(S, doc)
    [] kind = "CompositeWithoutSelection" -> MutCompositeWithoutSelection(S, doc)
    [] kind = "UnknownDirective" -> MutUnknownDirective(S, doc)
    [] kind = "MisplacedDirective" -> MutMisplacedDirective(S, doc)
    [] kind = "DirectiveMissingArg" -> MutDirectiveMissingArg(S, doc)
    [] kind = "DupDirective" -> MutDupDirective(S, doc)
    [] kind = "TwoSubscriptionRoots" -> MutTwoSubscriptionRoots(S, doc)
    [] kind = "IntrospectionSubscriptionRoot" -> MutIntrospectionSubscriptionRoot(S, doc)
    [] kind = "Operations" -> MutOperations(S, doc)

Mutants(S, doc) == UNION {M(MutationKinds[i], MutantsOfKind(MutationKinds[i], S, doc) \ {doc}) : i \in DOMAIN MutationKinds}
=============================================================================
