SPECIFICATION Spec
INVARIANTS CatalogOK CorpusValid ReachableIdem DiscardedIrrelevant
CHECK_DEADLOCK FALSE
