CONSTANTS
  QueryNames <- QN_default
  Slots <- A_Slots
  DirSlots = {}
  FieldNames = {"f"}
  ArgNames = {}
  InputNames = {}
  EnumVals = {}
  Scalars = {"String"}
  Wraps <- W_few
  Descs = {}
  Reasons = {}
  Urls = {}
  Features <- A_Features
  MaxSteps = 3
  ValDepth = 1
  Sampling = FALSE
  EmitSteps <- ES_all
SPECIFICATION GenSpec
INVARIANTS GenWF SpecRoundTrip Closed DeprecatedFilter Sensitive
CONSTRAINT EmitAt
VIEW GenView
CHECK_DEADLOCK FALSE
