---------------------------- MODULE Gen_C15_Val ----------------------------
(* Generator + model check for the value-structure stratum of C15.           *)
(* A case is a typed argument expression for one of the harness fields       *)
(* f_<ty>(a: <ty>) built top-down: the state is a pre-order token sequence   *)
(* with typed holes; one step fills the left-most hole with a production of  *)
(* its type: a literal spelling from the pool of the type, null, a variable  *)
(* (omitted / explicit null / JSON value / with or without default), a list  *)
(* of 0..2 holes, an input object with 0..2 fields, or (top level only) no   *)
(* argument at all.  Complete states are printed as cases together with the  *)
(* JSON "twin" of the denoted value and the value itself (expected).         *)
(* BFS enumerates all cases up to MaxTok tokens, -simulate samples deeper.   *)
EXTENDS GQLLiteral, Json
CONSTANTS MaxTok, MaxDepth, TopTys
VARIABLES ty, toks

\* ---------------------------------------------------------------- pools (texts are code points; comment = the spelling)
NullLeaf == Leaf("null", <<110, 117, 108, 108>>)
\* 7  -0  0  -12  2147483647
LitInt == <<Leaf("num", <<55>>),
    Leaf("num", <<45, 48>>),
    Leaf("num", <<48>>),
    Leaf("num", <<45, 49, 50>>),
    Leaf("num", <<50, 49, 52, 55, 52, 56, 51, 54, 52, 55>>)>>
\* 7  1.50  1e3  1E+3  -1.0e-2  0.0  123456789012345  1.5E+3     (7 first: the same literal at Int, ID and Float positions)
LitFloat == <<Leaf("num", <<55>>),
    Leaf("num", <<49, 46, 53, 48>>),
    Leaf("num", <<49, 101, 51>>),
    Leaf("num", <<49, 69, 43, 51>>),
    Leaf("num", <<45, 49, 46, 48, 101, 45, 50>>),
    Leaf("num", <<48, 46, 48>>),
    Leaf("num", <<49, 50, 51, 52, 53, 54, 55, 56, 57, 48, 49, 50, 51, 52, 53>>),
    Leaf("num", <<49, 46, 53, 69, 43, 51>>)>>
\* "a"  ""  "\n\"\\"  "\u00e9\uD83D\uDE00"  """x"""  """<LF>  a<LF>   b<LF>"""
LitString == <<Leaf("str", <<97>>),
    Leaf("str", <<>>),
    Leaf("str", <<92, 110, 92, 34, 92, 92>>),
    Leaf("str", <<92, 117, 48, 48, 101, 57, 92, 117, 68, 56, 51, 68, 92, 117, 68, 69, 48, 48>>),
    Leaf("bstr", <<120>>),
    Leaf("bstr", <<10, 32, 32, 97, 10, 32, 32, 32, 98, 10>>)>>
\* true false
LitBoolean == <<Leaf("bool", <<116, 114, 117, 101>>),
    Leaf("bool", <<102, 97, 108, 115, 101>>)>>
\* A B
LitE == <<Leaf("enum", <<65>>),
    Leaf("enum", <<66>>)>>
\* 7  "a"  12345678901234567890  "0012"
LitID == <<Leaf("num", <<55>>),
    Leaf("str", <<97>>),
    Leaf("num", <<49, 50, 51, 52, 53, 54, 55, 56, 57, 48, 49, 50, 51, 52, 53, 54, 55, 56, 57, 48>>),
    Leaf("str", <<48, 48, 49, 50>>)>>
\* 12345678901234567890  1E+3  -1.0e-2  "a\tb"  true      (nested positions use the first two)
LitBig == <<Leaf("num", <<49, 50, 51, 52, 53, 54, 55, 56, 57, 48, 49, 50, 51, 52, 53, 54, 55, 56, 57, 48>>),
    Leaf("num", <<49, 69, 43, 51>>),
    Leaf("num", <<45, 49, 46, 48, 101, 45, 50>>),
    Leaf("str", <<97, 92, 116, 98>>),
    Leaf("bool", <<116, 114, 117, 101>>)>>
\* JSON values of variables:  7 0 -12
JInt == <<Leaf("num", <<55>>),
    Leaf("num", <<48>>),
    Leaf("num", <<45, 49, 50>>)>>
\* 1.50 1e3 -1.0E-2 5
JFloat == <<Leaf("num", <<49, 46, 53, 48>>),
    Leaf("num", <<49, 101, 51>>),
    Leaf("num", <<45, 49, 46, 48, 69, 45, 50>>),
    Leaf("num", <<53>>)>>
\* "a" "" "\n\"\\\/" "\u00e9\ud83d\ude00\u0000"
JString == <<Leaf("str", <<97>>),
    Leaf("str", <<>>),
    Leaf("str", <<92, 110, 92, 34, 92, 92, 92, 47>>),
    Leaf("str", <<92, 117, 48, 48, 101, 57, 92, 117, 100, 56, 51, 100, 92, 117, 100, 101, 48, 48, 92, 117, 48, 48, 48, 48>>)>>
JBoolean == LitBoolean
\* "A" "B"
JE == <<Leaf("str", <<65>>),
    Leaf("str", <<66>>)>>
\* "x" 7 12345678901234567890
JID == <<Leaf("str", <<120>>),
    Leaf("num", <<55>>),
    Leaf("num", <<49, 50, 51, 52, 53, 54, 55, 56, 57, 48, 49, 50, 51, 52, 53, 54, 55, 56, 57, 48>>)>>
\* 12345678901234567890 1.50 "s" true  [1.50,"s",null]  {"z":1e3}
JBig == <<Leaf("num", <<49, 50, 51, 52, 53, 54, 55, 56, 57, 48, 49, 50, 51, 52, 53, 54, 55, 56, 57, 48>>),
    Leaf("num", <<49, 46, 53, 48>>),
    Leaf("str", <<115>>),
    Leaf("bool", <<116, 114, 117, 101>>),
    ListE(<<JFloat[1], Leaf("str", <<115>>), NullLeaf>>),
    ObjE(<< <<122>> >>, <<JFloat[2]>>)>>
\* [7,null]  []        ["a",null]      ["A"]      [[7],null]     [1.50,"s"]
JLInt == <<ListE(<<JInt[1], NullLeaf>>), ListE(<<>>)>>
JLStr == <<ListE(<<JString[1], NullLeaf>>), ListE(<<JString[3]>>)>>
JLE == <<ListE(<<JE[1]>>)>>
JLLInt == <<ListE(<<ListE(<<JInt[1]>>), NullLeaf>>)>>
JLBig == <<ListE(<<JFloat[1], Leaf("str", <<115>>)>>)>>
\* {"i":7,"s":null}   {}   {"o":{"l":[7]},"e":"B"}
JIn == <<ObjE(<< <<105>>, <<115>> >>, <<JInt[1], NullLeaf>>),
         ObjE(<<>>, <<>>),
         ObjE(<< <<111>>, <<101>> >>, <<ObjE(<< <<108>> >>, <<ListE(<<JInt[1]>>)>>), JE[2]>>)>>
JLIn == <<ListE(<<JIn[1], NullLeaf>>)>>
\* {}   {"i":1,"o":{}}   {"s":null,"lo":[{}]}          {}  {"x":2}
JInD2 == <<ObjE(<<>>, <<>>), ObjE(<< <<120>> >>, <<JInt[1]>>)>>
JInD == <<ObjE(<<>>, <<>>),
          ObjE(<< <<105>>, <<111>> >>, <<JInt[1], ObjE(<<>>, <<>>)>>),
          ObjE(<< <<115>>, <<108, 111>> >>, <<NullLeaf, ListE(<<ObjE(<<>>, <<>>)>>)>>)>>
JLInD == <<ListE(<<JInD[1], JInD[2]>>)>>
JLInD2 == <<ListE(<<JInD2[1], NullLeaf>>)>>

ScalarTys == {"Int", "Float", "String", "Boolean", "ID", "E", "Big", "NStr"}
ListTys == {"LInt", "LStr", "LE", "LIn", "LLInt", "LBig", "LInD", "LInD2"}
ObjTys == {"In", "InD", "InD2", "M"}
LitPool(t) == CASE t = "Int" -> LitInt [] t = "Float" -> LitFloat [] t = "String" -> LitString [] t = "NStr" -> LitString
                [] t = "Boolean" -> LitBoolean [] t = "ID" -> LitID [] t = "E" -> LitE [] t = "Big" -> LitBig [] OTHER -> <<>>
JPool(t) == CASE t = "Int" -> JInt [] t = "Float" -> JFloat [] t = "String" -> JString [] t = "NStr" -> JString
              [] t = "Boolean" -> JBoolean [] t = "ID" -> JID [] t = "E" -> JE [] t = "Big" -> JBig
              [] t = "LInt" -> JLInt [] t = "LStr" -> JLStr [] t = "LE" -> JLE [] t = "LLInt" -> JLLInt [] t = "LBig" -> JLBig
              [] t = "In" -> JIn [] t = "LIn" -> JLIn [] t = "InD" -> JInD [] t = "InD2" -> JInD2 [] t = "LInD" -> JLInD
              [] t = "LInD2" -> JLInD2 [] OTHER -> <<>>
\* default value literal of a variable of that type
DefaultLit(t) == CASE t = "LInt" -> ListE(<<LitInt[1]>>) [] t = "In" -> ObjE(<< <<105>> >>, <<LitInt[1]>>)
                   [] t \in ScalarTys -> LitPool(t)[IF t \in {"String", "NStr"} THEN 3 ELSE 1] [] OTHER -> Omit
\* nested positions use the first elements of the pools only
Width(pool, d) == IF d = MaxDepth THEN Len(pool) ELSE Min2(Len(pool), 2)

Keys == { <<105>>, <<115>>, <<102>>, <<98>>, <<101>>, <<100>>, <<103>>, <<108>>, <<108, 115>>, <<111>>, <<108, 111>> }
KeysOf(t) == IF t = "In" THEN Keys ELSE {ObjKeyTy(t)[i][1] : i \in 1..Len(ObjKeyTy(t))}
KeySeqsOf(t) == LET K == KeysOf(t) IN
                {<<>>} \cup {<<a>> : a \in K} \cup {<<q[1], q[2]>> : q \in {p \in K \X K : p[1] # p[2]}}
                \cup (IF t = "M" THEN {<<q[1], q[2], q[3]>> : q \in {p \in K \X K \X K : p[1] # p[2] /\ p[1] # p[3] /\ p[2] # p[3]}} ELSE {})

\* ---------------------------------------------------------------- tokens
NoVar == [st |-> "none", j |-> Omit, hasd |-> FALSE, dv |-> Omit]
Tok(k, text, n, t, keys, d, v) == [k |-> k, text |-> text, n |-> n, ty |-> t, keys |-> keys, d |-> d, v |-> v]
Hole(t, d) == Tok("hole", <<>>, 0, t, <<>>, d, NoVar)
LeafTok(e) == Tok(e.k, e.text, 0, "", <<>>, 0, NoVar)

VarStates(t, d) ==
  (IF t = "NStr" THEN {} ELSE {[st |-> "absent", j |-> Omit, hasd |-> FALSE, dv |-> Omit],
                               [st |-> "null", j |-> Omit, hasd |-> FALSE, dv |-> Omit]})
  \cup {[st |-> "val", j |-> JPool(t)[i], hasd |-> FALSE, dv |-> Omit] : i \in 1..Width(JPool(t), d)}
  \* a variable WITH A DEFAULT: omitted by the client (the default applies, also when the variable sits inside a list or
  \* input object literal), explicit null / a value (the default does not apply; top level only to bound the state space)
  \cup (IF DefaultLit(t).k = "omit" THEN {}
        ELSE {[st |-> "absent", j |-> Omit, hasd |-> TRUE, dv |-> DefaultLit(t)]}
             \cup (IF t = "NStr" \/ d < MaxDepth THEN {}
                   ELSE {[st |-> "null", j |-> Omit, hasd |-> TRUE, dv |-> DefaultLit(t)],
                         [st |-> "val", j |-> JPool(t)[1], hasd |-> TRUE, dv |-> DefaultLit(t)]}))
\* String! position: a variable with a default may be declared String, otherwise it must be String!
DeclTy(t, vs) == IF t = "NStr" /\ vs.hasd THEN "String" ELSE t

Prods(t0, d, top) ==
  LET t == Base(t0) IN
  (IF t = "M" THEN {} ELSE
    {<<LeafTok(LitPool(t)[i])>> : i \in 1..Width(LitPool(t), d)}
    \cup (IF t = "NStr" THEN {} ELSE {<<LeafTok(NullLeaf)>>})
    \cup {<<Tok("var", <<>>, 0, DeclTy(t, vs), <<>>, 0, vs)>> : vs \in VarStates(t, d)})
  \cup (IF (t \in ListTys \/ t = "Big") /\ d > 0
        THEN {<<Tok("list", <<>>, n, "", <<>>, 0, NoVar)>> \o [x \in 1..n |-> Hole(ElemTy(t), d - 1)] : n \in 0..2}
        ELSE {})
  \cup (IF t \in ObjTys /\ d > 0
        THEN {<<Tok("obj", <<>>, Len(ks), "", ks, 0, NoVar)>> \o [x \in 1..Len(ks) |-> Hole(FieldTy(t, ks[x]), d - 1)] : ks \in KeySeqsOf(t)}
        ELSE {})
  \cup (IF t = "Big" /\ d > 0
        THEN {<<Tok("obj", <<>>, Len(ks), "", ks, 0, NoVar)>> \o [x \in 1..Len(ks) |-> Hole("Big", d - 1)] : ks \in {<< <<122>> >>, << <<122>>, <<121>> >>}}
        ELSE {})
  \cup (IF top /\ t # "M" THEN {<<LeafTok(Omit)>>} ELSE {})

\* ---------------------------------------------------------------- the generator
HasHole == \E i \in 1..Len(toks) : toks[i].k = "hole"
HoleIdx == CHOOSE i \in 1..Len(toks) : toks[i].k = "hole" /\ \A j \in 1..(i - 1) : toks[j].k # "hole"
GenInit == \E t \in TopTys : ty = t /\ toks = <<Hole(t, MaxDepth)>>
GenNext == /\ HasHole
           /\ LET i == HoleIdx
                  h == toks[i]
              IN \E p \in Prods(h.ty, h.d, i = 1 /\ Len(toks) = 1) :
                   /\ Len(toks) - 1 + Len(p) <= MaxTok
                   /\ toks' = SubSeq(toks, 1, i - 1) \o p \o SubSeq(toks, i + 1, Len(toks))
           /\ UNCHANGED ty
GenSpec == GenInit /\ [][GenNext]_<<ty, toks>>

VarName(i) == <<118>> \o AsChars(NatDigits(i))
RECURSIVE Build(_, _)
RECURSIVE BuildN(_, _, _)
Build(ts, i) ==
  LET t == ts[i] IN
  IF t.k \in {"list", "obj"} THEN
    LET kids == BuildN(ts, i + 1, t.n) IN
    [e |-> [k |-> t.k, text |-> <<>>, items |-> kids.es, keys |-> t.keys], next |-> kids.next]
  ELSE IF t.k = "var" THEN [e |-> Leaf("var", VarName(i)), next |-> i + 1]
  ELSE [e |-> Leaf(t.k, t.text), next |-> i + 1]
BuildN(ts, i, n) ==
  IF n = 0 THEN [es |-> <<>>, next |-> i]
  ELSE LET b == Build(ts, i)
           r == BuildN(ts, b.next, n - 1)
       IN [es |-> <<b.e>> \o r.es, next |-> r.next]
RECURSIVE VarsOf(_, _)
VarsOf(ts, i) ==
  IF i > Len(ts) THEN <<>>
  ELSE IF ts[i].k = "var"
       THEN <<[name |-> VarName(i), ty |-> ts[i].ty, st |-> ts[i].v.st, j |-> ts[i].v.j, hasd |-> ts[i].v.hasd, d |-> ts[i].v.dv]>> \o VarsOf(ts, i + 1)
       ELSE VarsOf(ts, i + 1)

Case0 == [ty |-> ty, expr |-> Build(toks, 1).e, vars |-> VarsOf(toks, 1), tw |-> Omit]
TheCase == [ty |-> ty, expr |-> Case0.expr, vars |-> Case0.vars, tw |-> Twin(Case0)]

Emit == IF HasHole THEN TRUE
        ELSE PrintT(ToJson([ty |-> ty, expr |-> TheCase.expr, vars |-> TheCase.vars, tw |-> TheCase.tw, expected |-> Denotes(TheCase)]))
GenConstraint == Emit

\* ---- theorems about the model, checked on every complete case
CasesWellFormed == ~HasHole => CaseOK(TheCase) /\ ~HasErr(Denotes(TheCase))
\* the JSON twin denotes the same value (JsonSpell / NumSpell / ToJExpr are right inverses of Den)
TwinDenotesSame == ~HasHole /\ TheCase.tw.k # "omit" => VEq(Den(TheCase.tw, ty, <<>>, TRUE), Denotes(TheCase))
\* values are canonical: re-reading the expected value through Canon is the identity on numbers already canonical
NotProvidedOnlyAtTop == ~HasHole => LET d == Denotes(TheCase) IN \A i \in 1..Len(d.c) : d.c[i].t # "x"
=============================================================================
