----------------------------- MODULE GQLCorpus -----------------------------
(* Seed operations over the catalog schemas: valid by construction (checked  *)
(* by TLC: CorpusValid in MC_GQLCore).  The generators of C03 / C04 start    *)
(* from these, apply meaning-preserving rewrites (GQLRewrite) and - for C04  *)
(* - one rule-targeted mutation (GQLMutate).                                 *)
(* An entry = [id, schema : catalog id, doc, vars : Seq(request variables)]  *)
(* request variables = Seq([name, value]) with JSON-kind values.             *)
EXTENDS GQLDoc

LOCAL V(n, v) == [name |-> n, value |-> v]
LOCAL E(id, sid, doc, vars) == [id |-> id, schema |-> sid, doc |-> doc, vars |-> vars]
LOCAL Skip(v) == dDir("skip", <<dA("if", v)>>)
LOCAL Incl(v) == dDir("include", <<dA("if", v)>>)
LOCAL WithDirs(s, dirs) == [s EXCEPT !.dirs = dirs]

----------------------------------------------------------------------------
\* S1 "pets"
P1 == E("P1", "pets",
  dQ(<<dF("pet", <<dA("id", VS("7"))>>, <<dLf("id"), dLf("name"), dLf("kind"),
        dInl("Dog", <<dLf("volume"), dLf("barks")>>), dInl("Cat", <<dLf("lives")>>)>>)>>),
  <<<<>>>>)

P2 == E("P2", "pets",
  dDoc(dOp("query", "", <<dVar("id", NN(Ty("ID")), Absent), dVar("up", Ty("Boolean"), VB(TRUE))>>,
          <<dF("pet", <<dA("id", VVar("id"))>>,
               <<dSpr("PF"), dF("owner", <<>>, <<dLf("name"), dF("pets", <<dA("first", VI(1))>>, <<dLf("id")>>)>>)>>)>>),
       <<dFrag("PF", "Pet", <<dLf("id"), dF("name", <<dA("upper", VVar("up"))>>, <<>>), dF("friend", <<>>, <<dLf("id")>>)>>)>>),
  << <<V("id", VS("p1"))>>, <<V("id", VI(5)), V("up", VB(FALSE))>>, <<V("id", VS("p2")), V("up", VNull)>> >>)

P3 == E("P3", "pets",
  dDoc(dOp("query", "", <<dVar("k", Ty("Kind"), Absent), dVar("n", Ty("Int"), VI(3)), dVar("s", NN(Ty("Boolean")), Absent)>>,
          <<dF("pets", <<dA("kind", VVar("k")), dA("first", VVar("n"))>>,
               <<dLf("id"),
                 dInlD("Dog", <<Skip(VVar("s"))>>, <<dFA("dv", "volume", <<>>, <<>>),
                                                    dF("tricks", <<dA("kind", VE("CAT")), dA("limit", VI(2))>>, <<>>)>>),
                 dInlD("Cat", <<Incl(VB(TRUE))>>, <<dFA("cv", "volume", <<>>, <<>>)>>)>>),
            dLf("n")>>), <<>>),
  << <<V("s", VB(FALSE))>>, <<V("k", VS("CAT")), V("n", VI(1)), V("s", VB(TRUE))>>, <<V("k", VNull), V("n", VNull), V("s", VB(FALSE))>> >>)

P4 == E("P4", "pets",
  dQ(<<dF("any", <<>>, <<dLf("__typename"), dInl("Dog", <<dLf("name"), dLf("barks")>>),
                         dInl("Cat", <<dLf("name"), dLf("lives")>>), dInl("Pet", <<dLf("id")>>)>>)>>),
  <<<<>>>>)

P5 == E("P5", "pets",
  [ops |-> <<dOp("query", "Named", <<dVar("f", Ty("Filter"), Absent), dVar("min", Ty("Int"), VI(1))>>,
      <<dF("search", <<dA("f", VO(<<"kind", "minAge", "ids", "sub">>,
                                  <<VE("CAT"), VVar("min"), VL(<<VS("a"), VI(2)>>), VO(<<"minAge">>, <<VI(3)>>)>>)),
                       dA("tags", VL(<<VS("x")>>))>>, <<dSpr("A"), dSpr("B")>>),
        dFA("s2", "search", <<dA("f", VVar("f"))>>, <<dLf("id")>>)>>)>>,
   frags |-> <<dFrag("A", "Pet", <<dLf("id"), dF("owner", <<>>, <<dLf("name")>>)>>),
               dFrag("B", "Pet", <<dF("owner", <<>>, <<dLf("age")>>), dInl("Dog", <<dF("friend", <<>>, <<dLf("id")>>)>>)>>)>>,
   opName |-> "Named"],
  << <<>>, <<V("f", VO(<<"minAge">>, <<VI(2)>>)), V("min", VI(7))>>, <<V("f", VNull)>> >>)

P6 == E("P6", "pets",
  dDoc(dOp("mutation", "", <<dVar("n", NN(Ty("Int")), Absent)>>,
          <<dF("setN", <<dA("n", VVar("n"))>>, <<>>),
            dF("rename", <<dA("id", VI(1)), dA("name", VS("x"))>>, <<dLf("id"), dLf("name")>>)>>), <<>>),
  << <<V("n", VI(4))>> >>)

P7 == E("P7", "pets", dDoc(dOp("subscription", "", <<>>, <<dF("tick", <<dA("every", VI(2))>>, <<>>)>>), <<>>), <<<<>>>>)

P9 == E("P9", "pets",
  dDoc([dOp("query", "", <<>>,
          <<WithDirs(dF("dog", <<>>,
               <<WithDirs(dLf("name"), <<dDir("rep", <<dA("n", VI(1))>>), dDir("rep", <<dA("n", VI(2))>>)>>),
                 dSprD("DF", <<dDir("tag", <<dA("label", VS("b")), dA("prio", VI(2))>>)>>),
                 dInlD("", <<dDir("tag", <<dA("label", VS("c"))>>)>>, <<dLf("volume")>>)>>),
              <<dDir("tag", <<dA("label", VS("a"))>>)>>)>>) EXCEPT !.dirs = <<dDir("opq", <<dA("x", VI(1))>>)>>],
       <<[dFrag("DF", "Dog", <<dLf("barks"), dF("friend", <<>>, <<dInl("Dog", <<dLf("barks")>>)>>)>>) EXCEPT !.dirs = <<dDir("fdef", <<>>)>>]>>),
  <<<<>>>>)

P10 == E("P10", "pets",
  dDoc(dOp("query", "", <<[dVar("v", Ty("String"), VS("bob")) EXCEPT !.dirs = <<dDir("vdef", <<dA("m", VS("x"))>>)>>]>>,
          <<dF("human", <<dA("name", VVar("v"))>>, <<dLf("name"), dF("pets", <<>>, <<dLf("name")>>)>>)>>), <<>>),
  << <<>>, <<V("v", VS("al"))>> >>)

P11 == E("P11", "pets",
  dQ(<<dF("dog", <<>>, <<dF("friend", <<>>,
        <<dInl("Cat", <<dF("friend", <<>>, <<dLf("lives")>>)>>), dInl("Dog", <<dF("friend", <<>>, <<dLf("id")>>)>>)>>)>>)>>),
  <<<<>>>>)

P12 == E("P12", "pets",
  [ops |-> <<dOp("query", "A", <<>>, <<dLf("n")>>),
             dOp("query", "B", <<dVar("id", NN(Ty("ID")), Absent)>>, <<dF("pet", <<dA("id", VVar("id"))>>, <<dLf("id")>>)>>)>>,
   frags |-> <<>>, opName |-> "B"],
  << <<V("id", VS("z"))>> >>)

P13 == E("P13", "pets",
  dQ(<<dF("pet", <<>>, <<dLf("id"), dLf("id"), dLf("name")>>),
       dF("pet", <<>>, <<dLf("name"), dF("owner", <<>>, <<dLf("name")>>)>>),
       dFA("p2", "pet", <<dA("id", VS("2"))>>, <<dLf("id")>>)>>),
  <<<<>>>>)

P8 == E("P8", "pets",
  dDoc(dOp("subscription", "S", <<dVar("e", Ty("Int"), Absent)>>, <<dSpr("SF")>>),
       <<dFrag("SF", "Subscription", <<dF("tick", <<dA("every", VVar("e"))>>, <<>>), dInl("", <<dF("tick", <<dA("every", VVar("e"))>>, <<>>)>>)>>)>>),
  << <<>>, <<V("e", VI(3))>> >>)

P14 == E("P14", "pets",
  dDoc(dOp("subscription", "", <<>>,
          <<dF("petAdded", <<>>, <<dLf("id"), dInl("Dog", <<dLf("barks")>>)>>),
            dInl("Subscription", <<dF("petAdded", <<>>, <<dF("name", <<dA("upper", VB(TRUE))>>, <<>>), dLf("__typename")>>)>>)>>), <<>>),
  <<<<>>>>)

\* variables referenced ONLY inside list literals (argument, nested in an object literal)
P15 == E("P15", "pets",
  dQV(<<dVar("first", NN(Ty("ID")), Absent), dVar("second", NN(Ty("ID")), Absent), dVar("t", NN(Ty("String")), Absent)>>,
      <<dF("search", <<dA("f", VO(<<"minAge", "ids">>, <<VI(1), VL(<<VVar("first"), VVar("second")>>)>>)), dA("tags", VL(<<VVar("t")>>))>>, <<dLf("id")>>)>>),
  << <<V("first", VS("1")), V("second", VI(2)), V("t", VS("x"))>> >>)

\* variables as arguments of a custom directive; one of them is called like a canonical name
P16 == E("P16", "pets",
  dQV(<<dVar("lab", NN(Ty("String")), Absent), dVar("id", NN(Ty("ID")), Absent), dVar("a", Ty("Int"), Absent)>>,
      <<dFD("pet", <<dA("id", VVar("id"))>>, <<dDir("tag", <<dA("label", VVar("lab")), dA("prio", VVar("a"))>>)>>,
            <<dLf("name"), dFD("id", <<>>, <<dDir("rep", <<dA("n", VVar("a"))>>)>>, <<>>)>>)>>),
  << <<V("lab", VS("L")), V("id", VS("7")), V("a", VI(3))>>, <<V("lab", VS("M")), V("id", VI(8))>> >>)

\* the object type that is unrelated to every abstract type
P17 == E("P17", "pets",
  dQ(<<dF("ant", <<>>, <<dLf("legs"), dLf("name")>>), dF("pet", <<dA("id", VS("1"))>>, <<dLf("name"), dInl("Cat", <<dLf("nick")>>)>>),
       dF("any", <<>>, <<dInl("Cat", <<dLf("nick")>>)>>)>>),
  <<<<>>>>)

----------------------------------------------------------------------------
\* S2 "args"
A1 == E("A1", "args",
  dQ(<<dF("i", <<dA("x", VI(1))>>, <<>>), dF("iN", <<dA("x", VI(2))>>, <<>>), dF("f", <<dA("x", VF("1.5"))>>, <<>>),
       dFA("f2", "f", <<dA("x", VI(3))>>, <<>>), dF("s", <<dA("x", VS("str"))>>, <<>>), dF("b", <<dA("x", VB(TRUE))>>, <<>>),
       dF("id", <<dA("x", VS("abc"))>>, <<>>), dFA("id2", "id", <<dA("x", VI(5))>>, <<>>),
       dF("e", <<dA("x", VE("BLUE"))>>, <<>>), dFA("e2", "e", <<>>, <<>>)>>),
  <<<<>>>>)

A2 == E("A2", "args",
  dQ(<<dF("li", <<dA("x", VL(<<VI(1), VNull, VI(3)>>))>>, <<>>), dFA("li1", "li", <<dA("x", VI(5))>>, <<>>),
       dFA("li2", "li", <<dA("x", VNull)>>, <<>>), dF("lin", <<dA("x", VL(<<VI(1), VI(2)>>))>>, <<>>),
       dFA("lin1", "lin", <<dA("x", VI(7))>>, <<>>),
       dF("lli", <<dA("x", VL(<<VL(<<VI(1)>>), VL(<<VI(2), VNull>>), VNull>>))>>, <<>>),
       dFA("lli1", "lli", <<dA("x", VL(<<VI(1), VI(2)>>))>>, <<>>), dFA("lli2", "lli", <<dA("x", VI(3))>>, <<>>)>>),
  <<<<>>>>)

A3 == E("A3", "args",
  dQ(<<dF("o", <<dA("x", VO(<<"a">>, <<VI(1)>>))>>, <<>>),
       dFA("o2", "o", <<dA("x", VO(<<"a", "b", "c", "d", "f", "g">>,
                                   <<VI(2), VNull, VL(<<VI(1)>>), VO(<<"a", "e">>, <<VI(3), VE("RED")>>), VI(2), VL(<<VL(<<VI(1)>>)>>)>>))>>, <<>>),
       dF("oN", <<dA("x", VO(<<"a", "c">>, <<VI(4), VI(5)>>))>>, <<>>),
       dF("lo", <<dA("x", VL(<<VO(<<"a">>, <<VI(1)>>), VO(<<"a", "b">>, <<VI(2), VS("x")>>)>>))>>, <<>>),
       dFA("lo1", "lo", <<dA("x", VO(<<"a">>, <<VI(9)>>))>>, <<>>)>>),
  <<<<>>>>)

A4 == E("A4", "args",
  dQV(<<dVar("i", Ty("Int"), Absent), dVar("iN", NN(Ty("Int")), Absent), dVar("f", Ty("Float"), VF("1.5")),
        dVar("s", Ty("String"), VS("dflt")), dVar("b", NN(Ty("Boolean")), Absent), dVar("e", Ty("Color"), VE("BLUE"))>>,
      <<dF("i", <<dA("x", VVar("i"))>>, <<>>), dF("iN", <<dA("x", VVar("iN"))>>, <<>>), dF("f", <<dA("x", VVar("f"))>>, <<>>),
        dF("s", <<dA("x", VVar("s"))>>, <<>>), dF("b", <<dA("x", VVar("b"))>>, <<>>), dF("e", <<dA("x", VVar("e"))>>, <<>>),
        dFA("i2", "i", <<dA("x", VVar("iN"))>>, <<>>), dF("two", <<dA("a", VVar("i")), dA("b", VVar("s"))>>, <<>>)>>),
  << <<V("iN", VI(1)), V("b", VB(TRUE))>>,
     <<V("i", VI(2)), V("iN", VI(3)), V("f", VI(2)), V("s", VNull), V("b", VB(FALSE)), V("e", VS("RED"))>>,
     <<V("i", VNull), V("iN", VI(0)), V("f", VF("2.5")), V("s", VS("v")), V("b", VB(FALSE)), V("e", VNull)>> >>)

A5 == E("A5", "args",
  dQV(<<dVar("l", Ls(Ty("Int")), Absent), dVar("ln", NN(Ls(NN(Ty("Int")))), Absent), dVar("i", Ty("Int"), VI(4)),
        dVar("o", Ty("In"), Absent), dVar("on", NN(Ty("In")), Absent)>>,
      <<dF("li", <<dA("x", VVar("l"))>>, <<>>), dF("lin", <<dA("x", VVar("ln"))>>, <<>>),
        dFA("li3", "li", <<dA("x", VL(<<VVar("i"), VI(2)>>))>>, <<>>),
        dF("o", <<dA("x", VVar("o"))>>, <<>>), dF("oN", <<dA("x", VVar("on"))>>, <<>>),
        dFA("o3", "o", <<dA("x", VO(<<"a", "c", "d">>, <<VVar("i"), VVar("ln"), VVar("o")>>))>>, <<>>),
        dF("lo", <<dA("x", VL(<<VVar("on")>>))>>, <<>>)>>),
  << <<V("ln", VL(<<VI(1)>>)), V("on", VO(<<"a">>, <<VI(1)>>))>>,
     <<V("l", VL(<<VI(1), VNull>>)), V("ln", VL(<<>>)), V("i", VI(9)), V("o", VO(<<"a", "d">>, <<VI(2), VO(<<"a">>, <<VI(3)>>)>>)),
       V("on", VO(<<"a", "b", "e">>, <<VI(1), VS("bb"), VS("RED")>>))>>,
     <<V("l", VNull), V("ln", VL(<<VI(5), VI(6)>>)), V("o", VNull), V("on", VO(<<"a", "c">>, <<VI(1), VL(<<VI(2)>>)>>))>> >>)

A6 == E("A6", "args",
  dQ(<<dF("any", <<dA("x", VI(1))>>, <<>>), dFA("a2", "any", <<dA("x", VS("s"))>>, <<>>),
       dFA("a3", "any", <<dA("x", VO(<<"k">>, <<VL(<<VI(1), VO(<<"z">>, <<VB(TRUE)>>)>>)>>))>>, <<>>),
       dFA("a4", "any", <<dA("x", VL(<<VF("1.5"), VS("E")>>))>>, <<>>),
       dLf("two"), dFA("two2", "two", <<dA("a", VI(2)), dA("b", VS("q"))>>, <<>>), dFA("two3", "two", <<dA("b", VNull)>>, <<>>)>>),
  <<<<>>>>)

A7 == E("A7", "args",
  dDoc([dOp("query", "", <<dVar("x", Ty("Int"), VI(1)), dVar("skip", Ty("Boolean"), VB(FALSE))>>,
          <<dF("t", <<>>, <<dLf("i"), dFA("i2", "i", <<dA("x", VVar("x"))>>, <<>>), dF("color", <<dA("not", VE("RED"))>>, <<>>),
                            dFD("self", <<>>, <<Skip(VVar("skip"))>>,
                                <<dFD("i", <<dA("x", VI(7))>>, <<dDir("tag", <<dA("label", VS("l"))>>)>>, <<>>)>>),
                            dInlD("", <<Incl(VVar("skip"))>>, <<dFA("i3", "i", <<dA("x", VI(3))>>, <<>>)>>)>>)>>)
        EXCEPT !.dirs = <<dDir("lim", <<dA("by", VO(<<"a">>, <<VI(1)>>)), dA("xs", VL(<<VI(1), VI(2)>>))>>)>>], <<>>),
  << <<>>, <<V("x", VI(5)), V("skip", VB(TRUE))>>, <<V("x", VNull), V("skip", VB(FALSE))>> >>)

A8 == E("A8", "args",
  dQV(<<dVar("a", Ty("Any"), Absent), dVar("c", Ls(Ls(Ty("Int"))), Absent)>>,
      <<dF("any", <<dA("x", VVar("a"))>>, <<>>), dF("lli", <<dA("x", VVar("c"))>>, <<>>), dF("lo", <<dA("x", VL(<<>>))>>, <<>>)>>),
  << <<>>, <<V("a", VO(<<"q">>, <<VL(<<VI(1), VS("w")>>)>>)), V("c", VL(<<VL(<<VI(1)>>), VNull>>))>>, <<V("a", VI(3)), V("c", VL(<<>>))>> >>)

A9 == E("A9", "args",
  dQV(<<dVar("a", Ty("Int"), VI(1)), dVar("b", Ty("Int"), VI(2)), dVar("s", Ty("Boolean"), VB(FALSE))>>,
      <<dF("i", <<dA("x", VVar("a"))>>, <<>>), dFA("i2", "i", <<dA("x", VVar("b"))>>, <<>>),
        dFD("s", <<dA("x", VS("k"))>>, <<Skip(VVar("s"))>>, <<>>), dFA("l", "li", <<dA("x", VL(<<VVar("a")>>))>>, <<>>)>>),
  << <<>>, <<V("a", VI(5)), V("s", VB(TRUE))>> >>)

\* equal literals in two places (extraction shares one variable between them)
A10 == E("A10", "args",
  dQ(<<dF("s", <<dA("x", VS("same"))>>, <<>>), dFA("s2", "s", <<dA("x", VS("same"))>>, <<>>),
       dF("i", <<dA("x", VI(1))>>, <<>>), dFA("i2", "i", <<dA("x", VI(1))>>, <<>>), dFA("f1", "f", <<dA("x", VI(1))>>, <<>>)>>),
  <<<<>>>>)

\* variables referenced ONLY inside list literals: argument, nested list, inside an object literal, directive argument
A11 == E("A11", "args",
  dQV(<<dVar("p", NN(Ty("Int")), Absent), dVar("q", Ty("Int"), Absent), dVar("r", Ty("Int"), Absent)>>,
      <<dF("li", <<dA("x", VL(<<VVar("p"), VVar("q")>>))>>, <<>>),
        dF("o", <<dA("x", VO(<<"a", "c">>, <<VI(1), VL(<<VVar("p")>>)>>))>>, <<>>),
        dF("lli", <<dA("x", VL(<<VL(<<VVar("q")>>)>>))>>, <<>>),
        dFD("i", <<>>, <<dDir("lim", <<dA("xs", VL(<<VVar("r"), VI(1)>>))>>)>>, <<>>)>>),
  << <<V("p", VI(1)), V("q", VI(2)), V("r", VI(3))>>, <<V("p", VI(5)), V("q", VNull)>> >>)

\* lists of (nullable) input objects with null items before objects that omit defaulted fields; rows of a nested list
A12 == E("A12", "args",
  dQV(<<dVar("v", Ls(Ty("In")), Absent), dVar("w", Ls(Ls(Ty("In"))), Absent)>>,
      <<dF("lon", <<dA("x", VVar("v"))>>, <<>>), dF("llo", <<dA("x", VVar("w"))>>, <<>>),
        dFA("l2", "lon", <<dA("x", VL(<<VNull, VO(<<"a">>, <<VI(1)>>)>>))>>, <<>>),
        dFA("l3", "llo", <<dA("x", VL(<<VNull, VL(<<VNull, VO(<<"a">>, <<VI(2)>>)>>)>>))>>, <<>>)>>),
  << <<V("v", VL(<<VNull, VO(<<"a">>, <<VI(1)>>)>>)), V("w", VL(<<VNull, VL(<<VNull, VO(<<"a">>, <<VI(2)>>)>>)>>))>>,
     <<V("v", VL(<<VO(<<"a">>, <<VI(1)>>), VNull, VO(<<"a", "b">>, <<VI(2), VS("x")>>)>>)), V("w", VL(<<VL(<<VO(<<"a">>, <<VI(1)>>)>>), VNull>>))>>,
     <<V("v", VNull)>> >>)

\* nullable variables (with and without default) in Non-Null positions that have a location default: input fields and an argument
A14 == E("A14", "args",
  dQV(<<dVar("i", Ty("Int"), Absent), dVar("s", Ty("Sub"), Absent), dVar("j", Ty("Int"), VI(3)), dVar("l", Ls(Ty("Int")), Absent)>>,
      <<dF("o", <<dA("x", VO(<<"a", "h", "k">>, <<VI(1), VVar("i"), VVar("s")>>))>>, <<>>),
        dFA("o2", "o", <<dA("x", VO(<<"a", "h", "k">>, <<VVar("j"), VVar("j"), VO(<<"z", "zs">>, <<VVar("i"), VVar("l")>>)>>))>>, <<>>),
        dF("two", <<dA("a", VVar("i"))>>, <<>>)>>),
  << <<>>, <<V("i", VI(2)), V("s", VO(<<"z">>, <<VI(4)>>)), V("l", VL(<<VI(7), VNull>>))>>, <<V("j", VI(9)), V("s", VO(<<>>, <<>>))>> >>)

\* equal literals at argument positions whose types differ only in nullability (scalar, list, input object; both orders)
A15 == E("A15", "args",
  dQ(<<dF("i", <<dA("x", VI(1))>>, <<>>), dF("iN", <<dA("x", VI(1))>>, <<>>),
       dFA("iN2", "iN", <<dA("x", VI(2))>>, <<>>), dFA("i2", "i", <<dA("x", VI(2))>>, <<>>),
       dF("li", <<dA("x", VL(<<VI(3)>>))>>, <<>>), dF("lin", <<dA("x", VL(<<VI(3)>>))>>, <<>>),
       dFA("lin2", "lin", <<dA("x", VL(<<VI(4)>>))>>, <<>>), dFA("li2", "li", <<dA("x", VL(<<VI(4)>>))>>, <<>>),
       dF("o", <<dA("x", VO(<<"a">>, <<VI(5)>>))>>, <<>>), dF("oN", <<dA("x", VO(<<"a">>, <<VI(5)>>))>>, <<>>),
       dFA("oN2", "oN", <<dA("x", VO(<<"a">>, <<VI(6)>>))>>, <<>>), dFA("o2", "o", <<dA("x", VO(<<"a">>, <<VI(6)>>))>>, <<>>),
       dF("lo", <<dA("x", VL(<<VO(<<"a">>, <<VI(7)>>)>>))>>, <<>>), dF("lon", <<dA("x", VL(<<VO(<<"a">>, <<VI(7)>>)>>))>>, <<>>),
       dFA("lon2", "lon", <<dA("x", VL(<<VO(<<"a">>, <<VI(8)>>)>>))>>, <<>>), dFA("lo2", "lo", <<dA("x", VL(<<VO(<<"a">>, <<VI(8)>>)>>))>>, <<>>)>>),
  <<<<>>>>)

\* variables named like canonical names, used only two or more levels deep in a directive-argument literal
\* (object in object, list in object, list in list in object)
A16 == E("A16", "args",
  dQV(<<dVar("a", NN(Ty("Int")), Absent), dVar("b", Ty("Int"), Absent)>>,
      <<dFD("i", <<dA("x", VI(5))>>, <<dDir("lim", <<dA("by", VO(<<"a", "d", "c">>, <<VI(1), VO(<<"a">>, <<VVar("a")>>), VL(<<VVar("a")>>)>>))>>)>>, <<>>),
        dFD("s", <<dA("x", VS("k"))>>, <<dDir("lim", <<dA("by", VO(<<"a", "g", "d">>, <<VI(2), VL(<<VL(<<VVar("b")>>)>>),
                                                                                   VO(<<"a", "d">>, <<VI(3), VO(<<"a", "g">>, <<VI(4), VL(<<VL(<<VVar("b")>>)>>)>>)>>)>>))>>)>>, <<>>),
        dF("f", <<dA("x", VF("1.5"))>>, <<>>)>>),
  << <<V("a", VI(9)), V("b", VI(8))>>, <<V("a", VI(7))>> >>)

\* a variable named like a canonical name, nested in a literal of a directive argument
A13 == E("A13", "args",
  dQV(<<dVar("a", Ty("Int"), Absent)>>,
      <<dFD("i", <<dA("x", VI(5))>>, <<dDir("lim", <<dA("xs", VL(<<VVar("a"), VI(1)>>))>>)>>, <<>>), dF("s", <<dA("x", VS("k"))>>, <<>>)>>),
  << <<V("a", VI(9))>> >>)

----------------------------------------------------------------------------
\* S3 "nest"
N1 == E("N1", "nest",
  dQ(<<dF("doc", <<>>, <<dLf("id"), dLf("url"),
        dF("pages", <<dA("from", VI(1))>>, <<dLf("n"), dF("img", <<>>, <<dF("w", <<dA("scale", VI(2))>>, <<>>), dLf("url")>>),
                                             dF("doc", <<>>, <<dLf("id")>>)>>),
        dF("cover", <<>>, <<dLf("w")>>)>>)>>),
  <<<<>>>>)

N2 == E("N2", "nest",
  dQ(<<dF("nodes", <<>>, <<dLf("id"), dInl("Res", <<dLf("url")>>), dInl("Doc", <<dF("pages", <<>>, <<dLf("id")>>)>>),
                           dInl("Page", <<dLf("n")>>)>>)>>),
  <<<<>>>>)

N3 == E("N3", "nest",
  dDoc(dOp("query", "", <<>>,
          <<dF("res", <<>>, <<dSpr("R")>>), dF("maybe", <<>>, <<dSpr("R"), dF("cover", <<>>, <<dLf("id")>>)>>),
            dF("grid", <<>>, <<dLf("w"), dLf("id")>>)>>),
       <<dFrag("R", "Res", <<dLf("id"), dLf("url"), dInl("Img", <<dLf("w")>>), dInl("Node", <<dLf("id")>>)>>)>>),
  <<<<>>>>)

N4 == E("N4", "nest",
  dQV(<<dVar("id", NN(Ty("ID")), Absent)>>,
      <<dF("node", <<dA("id", VVar("id"))>>, <<dInl("Img", <<dLf("url")>>), dInl("Page", <<dF("img", <<>>, <<dLf("url")>>)>>), dLf("id")>>)>>),
  << <<V("id", VS("n1"))>>, <<V("id", VI(12))>> >>)

N5 == E("N5", "nest",
  dQ(<<dF("res", <<>>, <<dInl("Img", <<dFA("u", "url", <<>>, <<>>)>>), dInl("Doc", <<dFA("u2", "url", <<>>, <<>>), dF("pages", <<>>, <<dF("img", <<>>, <<dLf("w")>>)>>)>>)>>)>>),
  <<<<>>>>)

\* statically skipped / included selections (normalization removes them before validation)
N6 == E("N6", "nest",
  dQ(<<dF("doc", <<>>, <<dLf("id"), dFD("cover", <<>>, <<Skip(VB(TRUE))>>, <<dLf("w"), dLf("url")>>),
                         dFD("pages", <<>>, <<Incl(VB(FALSE))>>, <<dLf("n")>>)>>),
       dFD("maybe", <<>>, <<Skip(VB(FALSE))>>, <<dLf("id"), dInlD("Doc", <<Incl(VB(FALSE))>>, <<dLf("url")>>)>>)>>),
  <<<<>>>>)

----------------------------------------------------------------------------
\* S4 "deep"
D1 == E("D1", "deep",
  dQ(<<dF("a", <<>>, <<dLf("a"), dInl("B", <<dLf("b"), dInl("C", <<dLf("c"), dInl("T1", <<dLf("t1")>>)>>)>>), dInl("T3", <<dLf("t3")>>),
                        dInl("X", <<dLf("x")>>)>>),
       dF("c", <<>>, <<dLf("a"), dInl("A", <<dLf("a")>>), dInl("B", <<dLf("b")>>), dInl("T1", <<dF("next", <<>>, <<dLf("b"), dInl("X", <<dLf("x")>>)>>)>>)>>)>>),
  <<<<>>>>)
D2 == E("D2", "deep",
  dDoc(dOp("query", "", <<>>,
          <<dF("u", <<>>, <<dLf("__typename"), dInl("X", <<dLf("x")>>), dInl("B", <<dLf("b"), dSpr("FA")>>), dInl("T4", <<dLf("t4")>>)>>),
            dF("v", <<>>, <<dInl("A", <<dLf("a")>>), dInl("X", <<dLf("x"), dInl("T2", <<dLf("t2")>>)>>), dSpr("FA")>>),
            dF("bs", <<>>, <<dSpr("FA"), dInl("X", <<dLf("x")>>), dInl("C", <<dLf("c")>>)>>),
            dF("x", <<>>, <<dLf("x"), dInl("B", <<dLf("a")>>), dInl("V", <<dInl("T2", <<dLf("t2")>>)>>)>>), dF("lone", <<>>, <<dLf("l")>>)>>),
       <<dFrag("FA", "A", <<dLf("a"), dInl("C", <<dLf("c")>>)>>)>>),
  <<<<>>>>)
D3 == E("D3", "deep",
  dQV(<<dVar("m", Ls(Ls(NN(Ty("Int")))), Absent), dVar("row", Ls(NN(Ty("Int"))), Absent), dVar("n", NN(Ty("Int")), Absent), dVar("w", Ls(Ls(Ty("In4"))), VL(<<>>))>>,
      <<dF("mat", <<dA("m", VL(<<VL(<<VI(1), VI(2)>>), VL(<<VI(3)>>), VNull>>))>>, <<>>), dFA("m1", "mat", <<dA("m", VL(<<VI(1), VI(2)>>))>>, <<>>),
        dFA("m2", "mat", <<dA("m", VI(5))>>, <<>>), dFA("m3", "mat", <<dA("m", VVar("m"))>>, <<>>), dFA("m4", "mat", <<dA("m", VL(<<VVar("row"), VL(<<VVar("n")>>)>>))>>, <<>>),
        dF("mat2", <<dA("m", VL(<<VL(<<VO(<<"q">>, <<VL(<<VI(1)>>)>>), VNull>>), VNull>>))>>, <<>>),
        dFA("n2", "mat2", <<dA("m", VO(<<"q", "r">>, <<VI(7), VL(<<VI(1), VI(2)>>)>>))>>, <<>>), dFA("n3", "mat2", <<dA("m", VVar("w"))>>, <<>>)>>),
  << <<V("n", VI(1))>>, <<V("m", VL(<<VL(<<VI(1)>>), VNull>>)), V("row", VL(<<VI(4)>>)), V("n", VI(2)), V("w", VL(<<VNull, VL(<<VNull, VO(<<"q">>, <<VL(<<>>)>>)>>)>>))>>,
     <<V("m", VI(9)), V("row", VNull), V("n", VI(3)), V("w", VO(<<"q">>, <<VI(1)>>))>> >>)

----------------------------------------------------------------------------
\* validation-only seeds (C04): schema introspection selections inside ordinary operations (4.1, 4.2)
V1 == E("V1", "pets",
  dQ(<<dF("__schema", <<>>, <<dF("queryType", <<>>, <<dLf("name")>>),
        dF("types", <<>>, <<dLf("name"), dLf("kind"),
           dF("fields", <<dA("includeDeprecated", VB(TRUE))>>, <<dLf("name"), dF("type", <<>>, <<dLf("name"), dF("ofType", <<>>, <<dLf("name")>>)>>),
                                                                 dF("args", <<>>, <<dLf("name"), dLf("defaultValue")>>)>>)>>),
        dF("directives", <<>>, <<dLf("name"), dLf("locations"), dF("args", <<>>, <<dLf("name")>>), dLf("isRepeatable")>>)>>),
       dLf("n")>>),
  <<<<>>>>)
V2 == E("V2", "args",
  dDoc(dOp("query", "", <<dVar("n", NN(Ty("String")), Absent)>>,
          <<dF("__type", <<dA("name", VVar("n"))>>, <<dLf("name"), dLf("kind"), dF("enumValues", <<>>, <<dLf("name"), dLf("isDeprecated")>>),
                dF("inputFields", <<>>, <<dLf("name"), dF("type", <<>>, <<dLf("kind")>>)>>), dF("possibleTypes", <<>>, <<dLf("name")>>), dSpr("TF")>>),
            dF("t", <<>>, <<dLf("i")>>)>>),
       <<dFrag("TF", "__Type", <<dF("interfaces", <<>>, <<dLf("name")>>), dLf("specifiedByURL")>>)>>),
  << <<V("n", VS("In"))>> >>)
V3 == E("V3", "nest",
  dQ(<<dF("doc", <<>>, <<dLf("id"), dLf("__typename")>>), dF("__type", <<dA("name", VS("Doc"))>>, <<dF("fields", <<>>, <<dLf("name")>>)>>),
       dFA("s", "__schema", <<>>, <<dLf("description")>>)>>),
  <<<<>>>>)
CorpusV == <<V1, V2, V3>>

Corpus == <<P1, P2, P3, P4, P5, P6, P7, P8, P9, P10, P11, P12, P13, P14, P15, P16, P17,
            A1, A2, A3, A4, A5, A6, A7, A8, A9, A10, A11, A12, A13, A14, A15, A16,
            N1, N2, N3, N4, N5, N6,
            D1, D2, D3>>
=============================================================================
