CONSTANTS
  Pools = "tiny"
  Sim = FALSE
  MaxCost = 6
  MaxDefs = 2
  MaxNest = 3
  MaxSel = 2
  MaxArgs = 0
  MaxDirs = 0
  MaxVars = 0
SPECIFICATION GSpec
CONSTRAINT GenConstraint
INVARIANTS TrackedAgree Balanced InlinedAtLeastSyntactic AccountingSoundFixed
CHECK_DEADLOCK FALSE
