CONSTANTS
  MaxBuild = 3
  MaxReform = 1
  MaxDepth = 2
  MaxRoots = 1
  RootFilter = {"blogPost"}
  FieldFilter = {"id", "title", "name", "relatedTopics", "suggestions", "tagGroups", "contributorTeams"}
  MaxReval = 0
  Mut = "none"
SPECIFICATION GenSpec

CHECK_DEADLOCK FALSE
