SPECIFICATION TraceSpec
CONSTRAINT HighWater
INVARIANTS Inv_Render
POSTCONDITION TraceAccepted
CHECK_DEADLOCK FALSE
