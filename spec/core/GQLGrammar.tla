------------------------------ MODULE GQLGrammar ------------------------------
(* Token-level grammar of GraphQL executable documents as a generator state   *)
(* machine (property C05).                                                    *)
(*                                                                            *)
(* A state is a partial document: the token sequence built so far, every      *)
(* token a record [s |-> spelling, r |-> grammatical role].  The role is      *)
(* given by the grammar production that emitted the token, never by its       *)
(* spelling: the name pools contain the soft keywords (query, fragment, on,   *)
(* true, null, type ...) so `query` may be a field, an alias, an argument, a  *)
(* variable, a directive, a type condition or an enum value, exactly where    *)
(* the grammar (GraphQL October 2021, sec. 2 and Appendix B) allows a Name.   *)
(*                                                                            *)
(* Depth, InlinedDepth and FieldCount are computed from the roles of a token  *)
(* sequence (the *real* selection depth / field count of the document) and    *)
(* are used by the validation pass (Trace_GQLGrammar) to judge what           *)
(* ParseWithLimits did.  ImplDepth / ImplFields model the implementation's    *)
(* token accounting (astparser/tokenizer.go TokenizeWithLimits), which looks  *)
(* at spellings only; MC_GQLGrammar checks the accounting against the real    *)
(* numbers on every generated document.                                       *)
EXTENDS Integers, Sequences, FiniteSets, TLC

CONSTANTS
  Pools,     \* "rich": full pools (simulation) | "small": few names incl. soft keywords (exhaustive BFS)
             \* | "tiny": one spelling per pool (exhaustive BFS over deeper structure)
  Sim,       \* TRUE: every pool choice is one random element (TLC -simulate)
  MaxCost,   \* budget of optional constructs (definitions, selections, arguments, directives, variables);
             \* once it is spent only completing actions are enabled
  MaxDefs,   \* definitions per document
  MaxNest,   \* nesting of selection sets
  MaxSel,    \* selections per selection set
  MaxArgs,   \* arguments per field
  MaxDirs,   \* directives per location
  MaxVars    \* variable definitions per operation

Rich == Pools = "rich"
Tiny == Pools \in {"tiny", "ops"}          \* "ops" = tiny pools with every operation kind (multi-operation documents in every order)
None == "<none>"
T(s, r) == [s |-> s, r |-> r]
Tk(ss, r) == [i \in 1..Len(ss) |-> T(ss[i], r)]

\* ---------------------------------------------------------------- pools
OpKeywords == {"query", "mutation", "subscription", "fragment"}   \* spellings that start a definition
SoftKeywords == OpKeywords \cup {"on", "true", "false", "null", "type", "input", "enum", "schema", "extend",
                                 "implements", "interface", "union", "scalar", "directive", "repeatable"}
PlainNames == {"a", "b", "_x1", "Ab"}

\* choice from a pool: the whole pool when enumerating (BFS), one random element under -simulate
Pick(S) == IF Sim THEN {RandomElement(S)} ELSE S
Opt(S) == IF Sim THEN (IF RandomElement(1..2) = 1 THEN {None} ELSE {RandomElement(S)}) ELSE S \cup {None}
OptSeq(S) == IF Sim THEN (IF RandomElement(1..2) = 1 THEN {<<>>} ELSE S) ELSE S \cup {<<>>}

FieldNames == IF Rich THEN PlainNames \cup SoftKeywords ELSE IF Tiny THEN {"a"} ELSE {"a", "query", "on"}
AliasNames == IF Rich THEN {"a", "z"} \cup SoftKeywords ELSE IF Tiny THEN {} ELSE {"fragment"}
ArgNames == IF Rich THEN PlainNames \cup SoftKeywords ELSE {"x"}
DirNames == IF Rich THEN {"skip", "include", "d"} \cup SoftKeywords ELSE {"d"}
OpNames == IF Rich THEN {"Q"} \cup SoftKeywords ELSE IF Tiny THEN {} ELSE {"Q"}
FragNames == IF Rich THEN {"F", "G"} \cup (SoftKeywords \ {"on"}) ELSE IF Tiny THEN {"F", "G"} ELSE {"F", "query"}
TypeNames == IF Rich THEN {"T", "Int"} \cup SoftKeywords ELSE {"T"}
VarNames == IF Rich THEN {"v", "w"} \cup SoftKeywords ELSE IF Tiny THEN {"v"} ELSE {"v", "query"}
OpKinds == IF Rich \/ Pools = "ops" THEN {"query", "mutation", "subscription"} ELSE IF Tiny THEN {"query"} ELSE {"query", "mutation"}

\* literal spellings, one per lexical variety (IntValue, FloatValue, StringValue incl. escapes and block strings,
\* BooleanValue, NullValue, EnumValue incl. soft keywords, Variable)
IntLits == {"0", "1", "-1", "-0", "1234567890123"}
FloatLits == {"1.5", "-1.5", "1e3", "1E3", "1.5e-3", "-0.0", "1e+3", "6.0221413e23"}
StringLits == {"\"\"", "\"s\"", "\"a b\"", "\"a\\\"b\"", "\"\\\\\"", "\"\\u00e9\\n\\t\"", "\"#{}()[]:,\"", "\"...\""}
BlockLits == {"\"\"\"\"\"\"", "\"\"\"s\"\"\"", "\"\"\"a\n  b\n  c\"\"\"", "\"\"\"\n  a\n    b\n  \"\"\"", "\"\"\"a \\\"\"\" b\"\"\"",
              "\"\"\"a \"q\" b\"\"\"", "\"\"\"a\\b\"\"\""}
\* block strings whose first line is indented / last line has trailing blanks / that end in a quote
BlockLitsEdge == {"\"\"\" \"\"\"", "\"\"\"  lead\"\"\"", "\"\"\"trail  \"\"\"", "\"\"\"say \"hi\" \"\"\"", "\"\"\"\\ x\"\"\""}
EnumLits == {"E", "RED"} \cup (SoftKeywords \ {"true", "false", "null"})
ConstAtomsRich == IntLits \cup FloatLits \cup StringLits \cup BlockLits \cup BlockLitsEdge \cup {"true", "false", "null"} \cup EnumLits
ConstAtoms == IF Rich THEN ConstAtomsRich ELSE IF Tiny THEN {"1"} ELSE {"1", "\"s\"", "query"}
VarAtoms == {"$" \o v : v \in VarNames}
ObjKeys == IF Rich THEN {"k", "query", "on", "null", "fragment"} ELSE {"k"}

\* descriptions of executable definitions and of variable definitions (September 2025 grammar; astparser supports them,
\* the independent parser does not: it is given the text without them).  Rich pools only; the literal-centred generator
\* GQLGrammarLit covers these positions exhaustively.
ExecDescLits == {"\"d\"", "\"\"\"d\"\"\"", "\"\"\"\n  two\n    lines\n  \"\"\"", "\"a \\\"q\\\" b\""}
ExecDesc(x) == IF Rich THEN OptSeq({<<T(d, "desc")>> : d \in Pick(ExecDescLits)}) ELSE {<<>>}

\* a value is a token sequence; composite values are built from atoms (nesting <= 2)
ListOf(vs) == <<"[">> \o vs \o <<"]">>
ObjOf(k, v) == <<"{", k, ":">> \o v \o <<"}">>
ValueShapes == {"a", "a2", "l0", "l1", "l2", "o0", "o1", "o2", "ll", "lo", "ol", "oo"}
Build(sh, a, b, k, j) ==
  CASE sh \in {"a", "a2"} -> <<a>>
    [] sh = "l0" -> ListOf(<<>>)
    [] sh = "l1" -> ListOf(<<a>>)
    [] sh = "l2" -> ListOf(<<a, b>>)
    [] sh = "o0" -> <<"{", "}">>
    [] sh = "o1" -> ObjOf(k, <<a>>)
    [] sh = "o2" -> <<"{", k, ":", a, j, ":", b, "}">>
    [] sh = "ll" -> ListOf(ListOf(<<a>>) \o ListOf(<<>>))
    [] sh = "lo" -> ListOf(ObjOf(k, <<a>>) \o <<b>>)
    [] sh = "ol" -> ObjOf(k, ListOf(<<a, b>>))
    [] sh = "oo" -> ObjOf(k, ObjOf(j, <<a>>))
\* (x is a dummy state-level argument: keeps TLC from caching the random choice as a constant)
ValueChoices(atoms, x) ==
  IF Rich THEN {Build(sh, a, b, k, j) : sh \in Pick(ValueShapes), a \in Pick(atoms), b \in Pick(atoms), k \in Pick(ObjKeys), j \in Pick(ObjKeys)}
  ELSE IF Tiny THEN {<<"1">>, ObjOf("k", <<"1">>)}
  ELSE {<<a>> : a \in atoms} \cup {ListOf(<<"1">>), ObjOf("k", <<"1">>), ListOf(<<>>)}
Values(x) == ValueChoices(ConstAtoms \cup VarAtoms, x)      \* argument position
ConstValues(x) == ValueChoices(ConstAtoms, x)                \* default values

TypeSpellings(x) ==
  IF Rich THEN UNION {{<<t>>, <<t, "!">>, <<"[", t, "]">>, <<"[", t, "!", "]", "!">>, <<"[", "[", t, "]", "]">>} : t \in Pick(TypeNames)}
  ELSE IF Tiny THEN {<<"T">>} ELSE {<<"T">>, <<"[", "T", "!", "]">>}
TypeChoice(x) == IF Sim THEN {RandomElement(TypeSpellings(x))} ELSE TypeSpellings(x)

\* ---------------------------------------------------------------- real depth / field count of a token sequence
Max(S) == CHOOSE m \in S : \A x \in S : x <= m
Delta(t) == IF t.r \in {"sel_open", "sh_open"} THEN 1 ELSE IF t.r = "sel_close" THEN 0 - 1 ELSE 0
\* Lv(d)[i + 1] = number of open selection sets after token i (i = 0..Len(d))
RECURSIVE LvAcc(_, _, _)
LvAcc(d, i, acc) == IF i > Len(d) THEN acc ELSE LvAcc(d, i + 1, Append(acc, acc[Len(acc)] + Delta(d[i])))
Lv(d) == LvAcc(d, 1, <<0>>)
LvlAt(d, i) == Lv(d)[i + 1]

Depth(d) == LET lv == Lv(d) IN Max({lv[i] : i \in 1..Len(lv)})           \* deepest selection-set nesting in one definition
FieldCount(d) == Cardinality({i \in 1..Len(d) : d[i].r = "field"})        \* Field selections in the whole document

DefStarts(d) == {i \in 1..Len(d) : d[i].r \in {"kw_op", "kw_frag", "sh_open"}}
DefEnd(d, i) == LET later == {j \in DefStarts(d) : j > i} IN
                IF later = {} THEN Len(d) ELSE (CHOOSE j \in later : \A k \in later : j <= k) - 1
FragStart(d, name) == {i \in DefStarts(d) : d[i].r = "kw_frag" /\ i < Len(d) /\ d[i + 1].s = name}
\* per definition (keyed by its first token): deepest nesting and the spreads with the level they sit at
DefInfo(d) == LET lv == Lv(d) IN
  [i \in DefStarts(d) |->
     [peak |-> Max({lv[j + 1] : j \in i..DefEnd(d, i)}),
      name |-> IF d[i].r = "kw_frag" /\ i < Len(d) THEN d[i + 1].s ELSE None,
      spreads |-> {[n |-> d[j].s, l |-> lv[j + 1]] : j \in {k \in i..DefEnd(d, i) : d[k].r = "spread_name"}}]]
\* depth of a definition once its fragment spreads are followed (a spread at level l puts the fragment's level 1 at l)
RECURSIVE Inl(_, _, _, _)
Inl(d, info, i, seen) ==
  Max({info[i].peak, 0}
      \cup UNION {{sp.l - 1 + Inl(d, info, k, seen \cup {sp.n}) : k \in FragStart(d, sp.n)} : sp \in {x \in info[i].spreads : x.n \notin seen}})
InlinedDepth(d) == LET info == DefInfo(d) IN
                   Max({Inl(d, info, i, IF info[i].name = None THEN {} ELSE {info[i].name}) : i \in DefStarts(d)} \cup {0})

Text(d) == IF Len(d) = 0 THEN "" ELSE
           LET RECURSIVE J(_)
               J(i) == IF i = 1 THEN d[1].s ELSE J(i - 1) \o " " \o d[i].s
           IN J(Len(d))

\* ---------------------------------------------------------------- the implementation's token accounting (model)
\* astparser/tokenizer.go TokenizeWithLimits sees spellings only: LBRACE, RBRACE, SPREAD, IDENT (and DOLLAR IDENT for a
\* variable); every other token is ignored.  fixed = the repair (fixes/C05-1): (1) query/mutation/subscription/fragment
\* start a definition only at brace level 0, otherwise they are counted like any identifier; (2) once a fragment
\* definition has been seen (sf) a `{` at brace level 0 (shorthand operation) also closes the previous definition's
\* depth accounting.  fixed = FALSE is the code as it was pinned.
AllNames == PlainNames \cup SoftKeywords \cup {"z", "x", "skip", "include", "d", "Q", "F", "G", "T", "Int", "v", "w", "E", "RED", "k", "U", "f", "g", "A", "I"}
            \cup {"QUERY", "MUTATION", "SUBSCRIPTION", "FIELD", "FRAGMENT_DEFINITION", "FRAGMENT_SPREAD", "INLINE_FRAGMENT", "VARIABLE_DEFINITION",
                  "SCHEMA", "SCALAR", "OBJECT", "FIELD_DEFINITION", "ARGUMENT_DEFINITION", "INTERFACE", "UNION", "ENUM", "ENUM_VALUE",
                  "INPUT_OBJECT", "INPUT_FIELD_DEFINITION"}
VarSpellings == {"$" \o v : v \in AllNames}
Lx(s) == IF s = "{" THEN "lbrace" ELSE IF s = "}" THEN "rbrace" ELSE IF s = "..." THEN "spread"
         ELSE IF s \in AllNames THEN "ident" ELSE IF s \in VarSpellings THEN "var" ELSE "other"
IdentOf(s) == IF Lx(s) = "var" THEN CHOOSE v \in AllNames : "$" \o v = s ELSE s

ImplInit == [g |-> 0, l |-> 0, p |-> 0, f |-> 0, sp |-> FALSE, gmax |-> 0, sf |-> FALSE]
ImplStep(a, s, fixed) ==
  LET k == Lx(s) IN
  IF k = "lbrace" THEN
    LET close == fixed /\ a.sf /\ a.l <= 0
        g0 == IF close THEN a.g + a.p ELSE a.g
        p0 == IF close THEN 0 ELSE a.p
        l0 == IF close THEN 0 ELSE a.l
    IN [a EXCEPT !.g = g0 + 1, !.l = l0 + 1, !.p = IF l0 + 1 > p0 THEN l0 + 1 ELSE p0, !.sp = FALSE,
                 !.gmax = IF g0 + 1 > a.gmax THEN g0 + 1 ELSE a.gmax]
  ELSE IF k = "rbrace" THEN [a EXCEPT !.g = a.g - 1, !.l = a.l - 1, !.sp = FALSE]
  ELSE IF k = "spread" THEN [a EXCEPT !.sp = TRUE]
  ELSE IF k \in {"ident", "var"} THEN
    IF IdentOf(s) \in OpKeywords /\ (~fixed \/ a.l <= 0)
    THEN [a EXCEPT !.g = a.g + a.p, !.l = 0, !.p = 0, !.sp = FALSE, !.sf = a.sf \/ IdentOf(s) = "fragment"]
    ELSE [a EXCEPT !.f = IF a.l > 0 /\ ~a.sp THEN a.f + 1 ELSE a.f, !.sp = FALSE]
  ELSE a
RECURSIVE ImplRun(_, _, _)
ImplRun(d, i, fixed) == IF i = 0 THEN ImplInit ELSE ImplStep(ImplRun(d, i - 1, fixed), d[i].s, fixed)
ImplFields(d, fixed) == ImplRun(d, Len(d), fixed).f          \* TokenizerStats.TotalFields
ImplDepthMax(d, fixed) == ImplRun(d, Len(d), fixed).gmax     \* largest value compared against MaxDepth
ImplTotalDepth(d, fixed) == LET a == ImplRun(d, Len(d), fixed) IN a.g + a.p     \* TokenizerStats.TotalDepth
\* the limiter's decision by the (repaired) accounting: the documented semantics is cumulative - the depth of the
\* definitions adds up (keyword-started definitions always, shorthand operations once a fragment has been seen)
ModelAccepts(d, L, F) == (L = 0 \/ ImplDepthMax(d, TRUE) <= L) /\ (F = 0 \/ ImplFields(d, TRUE) <= F)

\* limits with which ParseWithLimits is exercised: around the real numbers (0 = no limit, by the API's documentation)
LimitPairs(d) ==
  LET D == InlinedDepth(d)  S == Depth(d)  F == FieldCount(d)  M == ImplDepthMax(d, TRUE)  MF == ImplFields(d, TRUE)
      all == <<[l |-> M - 1, f |-> 0], [l |-> M, f |-> 0], [l |-> (S + M) \div 2, f |-> 0], [l |-> 0, f |-> MF - 1], [l |-> 0, f |-> MF],
               [l |-> D - 1, f |-> 0], [l |-> 0, f |-> F - 1], [l |-> D - 1, f |-> F - 1], [l |-> D, f |-> F],
               [l |-> D, f |-> F - 1], [l |-> D - 1, f |-> F], [l |-> D + 1, f |-> F + 1], [l |-> S - 1, f |-> 0],
               [l |-> 0, f |-> 1], [l |-> 1, f |-> 0], [l |-> 0, f |-> 0]>>
  IN  SelectSeq(all, LAMBDA p : p.l >= 0 /\ p.f >= 0)

\* LimitsSound: a document whose real selection depth or field count exceeds a limit is never accepted
Exceeds(d, L, F) == (L > 0 /\ InlinedDepth(d) > L) \/ (F > 0 /\ FieldCount(d) > F)
ExceedsSyntactic(d, L, F) == (L > 0 /\ Depth(d) > L) \/ (F > 0 /\ FieldCount(d) > F)
LimitsSoundFor(d, L, F, accepted) == Exceeds(d, L, F) => ~accepted

\* ---------------------------------------------------------------- token-level mutations (error paths)
\* the four families applied by the driver to every generated document; NMut is what the driver must report
\* a variable `$x` and a negative number `-1` are two lexical tokens that must be adjacent: the mutations work on
\* the sequence in which they are split, so that each part is deleted / duplicated / swapped on its own
NegPairs == {<<"-1", "1">>, <<"-0", "0">>, <<"-1.5", "1.5">>, <<"-0.0", "0.0">>}
SplitTok(t) == IF t.s \in VarSpellings THEN <<T("$", t.r), T(IdentOf(t.s), t.r)>>
               ELSE IF \E p \in NegPairs : p[1] = t.s THEN <<T("-", t.r), T((CHOOSE p \in NegPairs : p[1] = t.s)[2], t.r)>>
               ELSE <<t>>
RECURSIVE MutToksFrom(_, _)
MutToksFrom(d, i) == IF i > Len(d) THEN <<>> ELSE SplitTok(d[i]) \o MutToksFrom(d, i + 1)
MutToks(d) == MutToksFrom(d, 1)
DelAt(d, i) == SubSeq(d, 1, i - 1) \o SubSeq(d, i + 1, Len(d))
DupAt(d, i) == SubSeq(d, 1, i) \o SubSeq(d, i, Len(d))
SwapAt(d, i) == [d EXCEPT ![i] = d[i + 1], ![i + 1] = d[i]]
TruncAt(d, i) == SubSeq(d, 1, i)
Mutants(d) == LET m == MutToks(d) IN
              {DelAt(m, i) : i \in 1..Len(m)} \cup {DupAt(m, i) : i \in 1..Len(m)}
              \cup {SwapAt(m, i) : i \in 1..(Len(m) - 1)} \cup {TruncAt(m, i) : i \in 0..(Len(m) - 1)}
NMut(d) == IF Len(d) = 0 THEN 0 ELSE 4 * Len(MutToks(d)) - 1     \* counted with multiplicity (the driver does not de-duplicate)

\* ---------------------------------------------------------------- byte-level alphabet for the bounded enumeration
\* every symbol is a byte string (sequence of byte values); the driver enumerates all strings of <= n symbols
Alphabet == << <<123>>, <<125>>, <<40>>, <<41>>, <<91>>, <<93>>, <<58>>, <<61>>, <<33>>, <<36>>, <<64>>, <<38>>, <<124>>,
               <<46>>, <<34>>, <<92>>, <<35>>, <<97>>, <<49>>, <<45>>, <<32>>, <<10>>, <<0>>, <<239, 187, 191>>, <<226>> >>
\*              {        }        (       )       [       ]       :       =       !       $       @       &       |
\*              .       "       \       #       a       1       -      space    LF     NUL     BOM              truncated UTF-8 lead byte
RECURSIVE Pow(_, _)
Pow(b, e) == IF e = 0 THEN 1 ELSE b * Pow(b, e - 1)
RECURSIVE EnumCount(_, _)
EnumCount(k, n) == IF n = 0 THEN 1 ELSE Pow(k, n) + EnumCount(k, n - 1)     \* strings of length 0..n over k symbols

\* recursive productions, for the directed deep-nesting inputs: [pre, open, mid, close, post]
DeepFamilies == <<
  [name |-> "selection-set", pre |-> "", open |-> "{a", mid |-> "", close |-> "}", post |-> "", slow |-> TRUE],
  [name |-> "inline-fragment", pre |-> "{a", open |-> "{...{a", mid |-> "", close |-> "}}", post |-> "}", slow |-> TRUE],
  [name |-> "unclosed-selection", pre |-> "", open |-> "{a", mid |-> "", close |-> "", post |-> "", slow |-> TRUE],
  [name |-> "list-value", pre |-> "{a(b:", open |-> "[", mid |-> "1", close |-> "]", post |-> ")}", slow |-> FALSE],
  [name |-> "object-value", pre |-> "{a(b:", open |-> "{k:", mid |-> "1", close |-> "}", post |-> ")}", slow |-> FALSE],
  [name |-> "list-type", pre |-> "query($v:", open |-> "[", mid |-> "T", close |-> "]", post |-> "){a}", slow |-> FALSE],
  [name |-> "unclosed-list-value", pre |-> "{a(b:", open |-> "[", mid |-> "", close |-> "", post |-> "", slow |-> FALSE],
  [name |-> "list-type-sdl", pre |-> "type T{f:", open |-> "[", mid |-> "T", close |-> "]", post |-> "}", slow |-> FALSE] >>
\* slow: the printer / walker need time quadratic in the nesting for these (measured), so they are exercised less deep

\* ---------------------------------------------------------------- generator state machine
VARIABLES toks,    \* token sequence so far
          st,      \* syntactic position
          stack,   \* open selection sets: sequence of [n |-> selections so far]
          fl,      \* flags of the construct being extended: [args, dirs, vars, n]
          ndefs,   \* completed definitions
          frags,   \* names of fragment definitions so far (kept unique)
          nf, mx,  \* tracked field count and deepest nesting (cross-checked against FieldCount / Depth)
          cost     \* optional constructs used so far
gvars == <<toks, st, stack, fl, ndefs, frags, nf, mx, cost>>

Flags0 == [args |-> FALSE, dirs |-> 0, vars |-> FALSE, n |-> 0]
Budget == cost < MaxCost
Pay == cost' = cost + 1
Free == cost' = cost
Emit(ts) == toks' = toks \o ts
Top == stack[Len(stack)]
Bump == [stack EXCEPT ![Len(stack)] = [n |-> Top.n + 1]]
SpreadNamesUsed == {toks[i].s : i \in {k \in 1..Len(toks) : toks[k].r = "spread_name"}}
Coin == RandomElement(1..2) = 1

GInit == /\ toks = <<>> /\ st = "top" /\ stack = <<>> /\ fl = Flags0 /\ ndefs = 0 /\ frags = {} /\ nf = 0 /\ mx = 0 /\ cost = 0

\* (after a type-system definition a `{` would be read as that definition's body - the grammar's [lookahead != {] -
\* so in mixed documents a shorthand operation only follows a definition that ended with `}`)
StartShorthand ==
  /\ st = "top" /\ ndefs < MaxDefs /\ Budget
  /\ IF Len(toks) = 0 THEN TRUE ELSE (toks[Len(toks)].r # "sdl" \/ toks[Len(toks)].s = "}")
  /\ Emit(<<T("{", "sh_open")>>)
  /\ stack' = <<[n |-> 0]>> /\ st' = "sel" /\ fl' = Flags0
  /\ mx' = IF mx < 1 THEN 1 ELSE mx
  /\ UNCHANGED <<ndefs, frags, nf>>
  /\ Pay

StartOp ==
  /\ st = "top" /\ ndefs < MaxDefs /\ Budget
  /\ \E kw \in Pick(OpKinds), nm \in Opt(OpNames), ds \in ExecDesc(toks) :
       Emit(ds \o <<T(kw, "kw_op")>> \o (IF nm = None THEN <<>> ELSE <<T(nm, "op_name")>>))
  /\ st' = "ophead" /\ fl' = [Flags0 EXCEPT !.vars = TRUE]
  /\ UNCHANGED <<stack, ndefs, frags, nf, mx>>
  /\ Pay

\* under simulation a fragment is preferably named after a spread that is already in the document (and vice versa)
FragDefPool == LET open == SpreadNamesUsed \ (frags \cup {"on"}) IN
               IF Sim /\ open # {} /\ Coin THEN open ELSE FragNames \ frags
SpreadPool == IF Sim /\ frags # {} /\ Coin THEN frags ELSE FragNames

StartFrag ==
  /\ st = "top" /\ ndefs < MaxDefs /\ Budget /\ FragNames \ frags # {}
  /\ \E nm \in Pick(FragDefPool), ty \in Pick(TypeNames), ds \in ExecDesc(toks) :
       /\ Emit(ds \o <<T("fragment", "kw_frag"), T(nm, "frag_name"), T("on", "kw_on"), T(ty, "type_cond")>>)
       /\ frags' = frags \cup {nm}
  /\ st' = "fraghead" /\ fl' = Flags0
  /\ UNCHANGED <<stack, ndefs, nf, mx>>
  /\ Pay

OpenVars ==
  /\ st = "ophead" /\ fl.vars /\ fl.dirs = 0 /\ Budget /\ MaxVars > 0
  /\ Emit(<<T("(", "punct")>>)
  /\ st' = "vars" /\ fl' = [Flags0 EXCEPT !.n = 0]
  /\ UNCHANGED <<stack, ndefs, frags, nf, mx>>
  /\ Free

\* a directive: @name or @name(arg: value)
DirChoices(x) == {<<T("@", "at"), T(nm, "dir_name")>> \o a :
                    nm \in Pick(DirNames),
                    a \in OptSeq({<<T("(", "punct"), T(an, "arg_name"), T(":", "punct")>> \o Tk(v, "val") \o <<T(")", "punct")>> :
                                    an \in Pick(ArgNames), v \in Values(x)})}

AddVarDef ==
  /\ st = "vars" /\ fl.n < MaxVars /\ (Budget \/ fl.n = 0)
  /\ \E v \in Pick(VarNames), ty \in TypeChoice(toks),
        def \in OptSeq({<<T("=", "punct")>> \o Tk(dv, "val") : dv \in ConstValues(toks)}),
        dir \in (IF MaxDirs > 0 THEN OptSeq(DirChoices(toks)) ELSE {<<>>}), ds \in ExecDesc(toks) :
       Emit(ds \o <<T("$" \o v, "var"), T(":", "punct")>> \o Tk(ty, "type") \o def \o dir)
  /\ fl' = [fl EXCEPT !.n = fl.n + 1]
  /\ UNCHANGED <<st, stack, ndefs, frags, nf, mx>>
  /\ Pay

CloseVars ==
  /\ st = "vars" /\ fl.n >= 1
  /\ Emit(<<T(")", "punct")>>)
  /\ st' = "ophead" /\ fl' = Flags0
  /\ UNCHANGED <<stack, ndefs, frags, nf, mx>>
  /\ Free

AddDirective ==
  /\ st \in {"ophead", "fraghead", "field", "spread", "inlinehead"} /\ fl.dirs < MaxDirs /\ Budget
  /\ \E d \in DirChoices(toks) : Emit(d)
  /\ fl' = [fl EXCEPT !.dirs = fl.dirs + 1, !.args = FALSE, !.vars = FALSE]
  /\ UNCHANGED <<st, stack, ndefs, frags, nf, mx>>
  /\ Pay

OpenSel ==
  /\ \/ st \in {"ophead", "fraghead", "inlinehead"}                       \* mandatory selection set
     \/ st = "field" /\ Budget /\ Len(stack) < MaxNest
  /\ Emit(<<T("{", "sel_open")>>)
  /\ stack' = Append(stack, [n |-> 0]) /\ st' = "sel" /\ fl' = Flags0
  /\ mx' = IF mx < Len(stack) + 1 THEN Len(stack) + 1 ELSE mx
  /\ UNCHANGED <<ndefs, frags, nf>>
  /\ Free

Boundary == st \in {"sel", "field", "spread"} /\ Len(stack) > 0

AddField ==
  /\ Boundary /\ Top.n < MaxSel /\ (Budget \/ Top.n = 0)
  /\ \E al \in (IF Budget THEN Opt(AliasNames) ELSE {None}), nm \in Pick(FieldNames) :
       Emit((IF al = None THEN <<>> ELSE <<T(al, "alias"), T(":", "punct")>>) \o <<T(nm, "field")>>)
  /\ stack' = Bump /\ st' = "field" /\ fl' = [Flags0 EXCEPT !.args = TRUE]
  /\ nf' = nf + 1
  /\ UNCHANGED <<ndefs, frags, mx>>
  /\ Pay

AddSpread ==
  /\ Boundary /\ Top.n < MaxSel /\ Budget
  /\ \E nm \in Pick(SpreadPool) : Emit(<<T("...", "spread"), T(nm, "spread_name")>>)
  /\ stack' = Bump /\ st' = "spread" /\ fl' = Flags0
  /\ UNCHANGED <<ndefs, frags, nf, mx>>
  /\ Pay

AddInline ==
  /\ Boundary /\ Top.n < MaxSel /\ Budget /\ Len(stack) < MaxNest
  /\ \E ty \in Opt(TypeNames) :
       Emit(<<T("...", "spread")>> \o (IF ty = None THEN <<>> ELSE <<T("on", "kw_on"), T(ty, "type_cond")>>))
  /\ stack' = Bump /\ st' = "inlinehead" /\ fl' = Flags0
  /\ UNCHANGED <<ndefs, frags, nf, mx>>
  /\ Pay

OpenArgs ==
  /\ st = "field" /\ fl.args /\ Budget /\ MaxArgs > 0
  /\ Emit(<<T("(", "punct")>>)
  /\ st' = "args" /\ fl' = [Flags0 EXCEPT !.n = 0]
  /\ UNCHANGED <<stack, ndefs, frags, nf, mx>>
  /\ Free

AddArg ==
  /\ st = "args" /\ fl.n < MaxArgs /\ (Budget \/ fl.n = 0)
  /\ \E an \in Pick(ArgNames), v \in Values(toks) : Emit(<<T(an, "arg_name"), T(":", "punct")>> \o Tk(v, "val"))
  /\ fl' = [fl EXCEPT !.n = fl.n + 1]
  /\ UNCHANGED <<st, stack, ndefs, frags, nf, mx>>
  /\ Pay

CloseArgs ==
  /\ st = "args" /\ fl.n >= 1
  /\ Emit(<<T(")", "punct")>>)
  /\ st' = "field" /\ fl' = Flags0
  /\ UNCHANGED <<stack, ndefs, frags, nf, mx>>
  /\ Free

CloseSel ==
  /\ Boundary /\ Top.n >= 1
  /\ Emit(<<T("}", "sel_close")>>)
  /\ stack' = SubSeq(stack, 1, Len(stack) - 1)
  /\ fl' = Flags0
  /\ IF Len(stack) = 1 THEN st' = "top" /\ ndefs' = ndefs + 1 ELSE st' = "sel" /\ ndefs' = ndefs
  /\ UNCHANGED <<frags, nf, mx>>
  /\ Free

Finish == st = "top" /\ ndefs >= 1 /\ st' = "done" /\ UNCHANGED <<toks, stack, fl, ndefs, frags, nf, mx, cost>>

GNext == StartShorthand \/ StartOp \/ StartFrag \/ OpenVars \/ AddVarDef \/ CloseVars \/ AddDirective \/ OpenSel
         \/ AddField \/ AddSpread \/ AddInline \/ OpenArgs \/ AddArg \/ CloseArgs \/ CloseSel \/ Finish
GSpec == GInit /\ [][GNext]_gvars

\* ---------------------------------------------------------------- properties of the generator / of the accounting model
Done == st = "done"
\* the two ways of computing the real numbers agree (state-tracked vs. scan of the roles)
TrackedAgree == nf = FieldCount(toks) /\ mx = Depth(toks)
Balanced == /\ LET lv == Lv(toks) IN (\A i \in 1..Len(lv) : lv[i] >= 0) /\ lv[Len(lv)] = Len(stack)
            /\ Done => Len(stack) = 0
InlinedAtLeastSyntactic == InlinedDepth(toks) >= Depth(toks)
\* the accounting never under-counts (what LimitsSound needs from the implementation)
AccountingSound(fixed) == Done => /\ ImplFields(toks, fixed) >= FieldCount(toks)
                                  /\ ImplDepthMax(toks, fixed) >= InlinedDepth(toks)
AccountingSoundFixed == AccountingSound(TRUE)
AccountingSoundPinned == AccountingSound(FALSE)     \* expected to FAIL: the code as pinned (candidate defect D1)
=============================================================================
