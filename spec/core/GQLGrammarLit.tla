----------------------------- MODULE GQLGrammarLit -----------------------------
(* String literals of C05 from the character-level model of GQLLiteral          *)
(* (INSTANCE L): every block string / ordinary string whose raw content is a     *)
(* sequence of at most LitLen code points over LitAlphabet and that the          *)
(* character-level grammar accepts (L!BlockAccepts / L!OrdAccepts), placed in    *)
(* every position where the grammar has a string: argument value, variable       *)
(* default, and the descriptions of executable definitions (September 2025       *)
(* grammar, supported by astparser), variable definitions and all type-system    *)
(* definitions.  What the printer makes of such a literal is judged by value in  *)
(* Trace_GQLGrammar (PrintPreservesValue, with L!Den).                           *)
EXTENDS GQLGrammarSDL
L == INSTANCE GQLLiteral

\* code points used to build raw contents: " \ space LF a  (+ n for the ordinary escapes \n, \\, \")
BlockAlphabet == {34, 92, 32, 10, 13, 97}      \* incl. CR: LF, CR and CR LF are the line terminators of BlockStringValue()
OrdAlphabet == {34, 92, 32, 97, 110}
LitLen == IF Rich THEN 5 ELSE IF Tiny THEN 3 ELSE 4
OrdLen == 3
Chr(c) == CASE c = 34 -> "\"" [] c = 92 -> "\\" [] c = 32 -> " " [] c = 10 -> "\n" [] c = 13 -> "\r" [] c = 97 -> "a" [] c = 110 -> "n" [] c = 9 -> "\t"
RECURSIVE Str(_)
Str(r) == IF Len(r) = 0 THEN "" ELSE Chr(r[1]) \o Str(Tail(r))
SeqsUpTo(A, n) == UNION {[1..k -> A] : k \in 0..n}
BlockRaws == {r \in SeqsUpTo(BlockAlphabet, LitLen) : L!BlockAccepts(r)}
OrdRaws == {r \in SeqsUpTo(OrdAlphabet, OrdLen) : L!OrdAccepts(r)}
BlockLit(r) == "\"\"\"" \o Str(r) \o "\"\"\""
OrdLit(r) == "\"" \o Str(r) \o "\""
Lits == {BlockLit(r) : r \in BlockRaws} \cup {OrdLit(r) : r \in OrdRaws}

\* templates: a document around one string literal (roles as in GQLGrammar, so that depth / field count are real)
X(s, r) == <<T(s, r)>>
Sel == X("{", "sh_open") \o X("a", "field") \o X("}", "sel_close")
OpSel == X("{", "sel_open") \o X("a", "field") \o X("}", "sel_close")
Templates(lit) ==
  LET v == X(lit, "val")  d == X(lit, "desc") IN
  [ value |-> X("{", "sh_open") \o X("a", "field") \o X("(", "punct") \o X("x", "arg_name") \o X(":", "punct") \o v \o X(")", "punct") \o X("}", "sel_close"),
    listvalue |-> X("{", "sh_open") \o X("a", "field") \o X("(", "punct") \o X("x", "arg_name") \o X(":", "punct") \o Tk(<<"[">>, "val") \o v \o v \o Tk(<<"]">>, "val")
                  \o X(")", "punct") \o X("}", "sel_close"),
    default |-> X("query", "kw_op") \o X("(", "punct") \o X("$v", "var") \o X(":", "punct") \o X("T", "type") \o X("=", "punct") \o v \o X(")", "punct") \o OpSel,
    opdesc |-> d \o X("query", "kw_op") \o X("Q", "op_name") \o OpSel,
    fragdesc |-> d \o X("fragment", "kw_frag") \o X("F", "frag_name") \o X("on", "kw_on") \o X("T", "type_cond") \o OpSel,
    vardesc |-> X("query", "kw_op") \o X("(", "punct") \o d \o X("$v", "var") \o X(":", "punct") \o X("T", "type") \o X(")", "punct") \o OpSel,
    typedesc |-> d \o S(<<"type", "T", "{", "f", ":", "T", "}">>),
    fielddesc |-> S(<<"type", "T", "{">>) \o d \o S(<<"f", ":", "T", "g", ":", "T", "}">>),
    argdesc |-> S(<<"interface", "T", "{", "f", "(">>) \o d \o S(<<"x", ":", "T", ")", ":", "T", "}">>),
    enumdesc |-> S(<<"enum", "E", "{">>) \o d \o S(<<"A", "}">>),
    inputdesc |-> S(<<"input", "I", "{">>) \o d \o S(<<"x", ":", "T", "}">>),
    dirdesc |-> d \o S(<<"directive", "@", "d", "(">>) \o d \o S(<<"x", ":", "T", ")", "on", "FIELD">>),
    schemadesc |-> d \o S(<<"schema", "{", "query", ":", "T", "}">>),
    scalardesc |-> d \o S(<<"scalar", "T">>) \o d \o S(<<"union", "U", "=", "T">>) ]
TemplateNames == DOMAIN Templates("\"\"")

LNext ==
  /\ st = "top" /\ Len(toks) = 0
  /\ \E lit \in Pick(Lits), n \in Pick(TemplateNames) : toks' = Templates(lit)[n]
  /\ st' = "done" /\ ndefs' = 1
  /\ UNCHANGED <<stack, fl, frags, nf, mx, cost>>
LSpec == GInit /\ [][LNext]_gvars

\* the pools only contain what the character-level grammar accepts, and the spelling is the raw content between delimiters
PoolAccepted == (\A r \in BlockRaws : L!BlockAccepts(r)) /\ (\A r \in OrdRaws : L!OrdAccepts(r))
=============================================================================
