------------------------------ MODULE GQLShape ------------------------------
(***************************************************************************)
(* C20 -- what it means for a JSON answer to be "a consistent projection   *)
(* of the service data" for a GraphQL selection.                            *)
(*                                                                          *)
(*  * selections as records, schema as tables (module GQLShapeProducts is   *)
(*    generated from v2/pkg/grpctest/testdata/products.graphqls)            *)
(*  * ShapeErrs / ShapeOK : the answer has exactly the shape of the         *)
(*    selection -- response keys = collected fields incl. aliases (as a     *)
(*    set, no duplicate keys), nesting, list-ness, nullability,             *)
(*    __typename = a possible type consistent with the fragments that       *)
(*    contributed keys, leaves of the declared kind                         *)
(*  * AgreeErrs / Consistent : two answers agree on every field position    *)
(*    they have in common; a position is a path of (field name, argument    *)
(*    values) steps and list indices -- aliases, order, duplication and     *)
(*    fragments do not change positions                                     *)
(*  * the reformulation relation as actions on operations (AddAlias,        *)
(*    Reorder, Duplicate, SplitField, WrapSelf, Distribute, ToNamed,        *)
(*    Subset) -- used by Gen_C20                                            *)
(*  * RefExec: a reference executor over a free data universe (the value    *)
(*    at a position is the position), used by MC_C20 to check that the      *)
(*    relations above are satisfiable and that every reformulation          *)
(*    preserves them under GraphQL semantics                                *)
(***************************************************************************)
EXTENDS Integers, Sequences, FiniteSets, TLC, GQLShapeProducts

(* ------------------------------------------------------------------ types *)
IsNN(T)    == T.k = "nn"
IsList(T)  == T.k = "list"
IsNamed(T) == T.k = "named"
RECURSIVE NamedOf(_)
NamedOf(T) == IF IsNamed(T) THEN T.name ELSE NamedOf(T.of)
Kind(tn) == TypeKind[tn]
IsComposite(tn) == Kind(tn) \in {"OBJECT", "INTERFACE", "UNION"}
IsAbstract(tn)  == Kind(tn) \in {"INTERFACE", "UNION"}
TypenameType == [k |-> "nn", of |-> [k |-> "named", name |-> "String"]]
\* type of field fn on (object or interface) type tn
FType(tn, fn) == IF fn = "__typename" THEN TypenameType ELSE FieldType[tn][fn]
HasField(tn, fn) == fn = "__typename" \/ (tn \in DOMAIN FieldType /\ fn \in DOMAIN FieldType[tn])

(* ------------------------------------------------------------- selections *)
\* Sel == [k : {"f","i","s"}, name, alias, on : STRING, args : Seq(Arg), sel : Seq(Sel)]
\* Arg == [name, type, var, val : STRING]   (val = JSON text; arguments are always passed as variables)
Field(name, alias, args, sel) == [k |-> "f", name |-> name, alias |-> alias, on |-> "", args |-> args, sel |-> sel]
Inline(on, sel) == [k |-> "i", name |-> "", alias |-> "", on |-> on, args |-> <<>>, sel |-> sel]
Named(on, sel)  == [k |-> "s", name |-> "", alias |-> "", on |-> on, args |-> <<>>, sel |-> sel]
Key(f) == IF f.alias = "" THEN f.name ELSE f.alias
Applies(on, rt) == rt \in Possible[on]

\* CollectFields (GraphQL spec 6.3.2) for a known runtime object type rt: fragments expanded in place
RECURSIVE Flat(_, _)
Flat(sel, rt) ==
  IF Len(sel) = 0 THEN <<>>
  ELSE LET s == Head(sel) IN
       (IF s.k = "f" THEN <<s>> ELSE IF Applies(s.on, rt) THEN Flat(s.sel, rt) ELSE <<>>) \o Flat(Tail(sel), rt)
KeysOf(fl) == {Key(fl[i]) : i \in DOMAIN fl}
Min(S) == CHOOSE x \in S : \A y \in S : x <= y
RECURSIVE ConcatFrom(_, _, _)
ConcatFrom(fl, key, i) ==
  IF i > Len(fl) THEN <<>>
  ELSE (IF Key(fl[i]) = key THEN fl[i].sel ELSE <<>>) \o ConcatFrom(fl, key, i + 1)
\* the field selected under response key `key`: first occurrence, sub-selections of all occurrences merged
Merged(fl, key) ==
  LET first == fl[Min({i \in DOMAIN fl : Key(fl[i]) = key})]
  IN [first EXCEPT !.sel = ConcatFrom(fl, key, 1)]

(* ------------------------------------------------------------ tagged JSON *)
\* {"t":"n"} {"t":"b","v":TRUE} {"t":"i","v":3} {"t":"f","v":"1.5"} {"t":"s","v":"x"} {"t":"l","v":<<..>>}
\* {"t":"o","k":<<keys>>,"v":<<values>>}   (document order, duplicates representable)
JNull == [t |-> "n"]
JStr(s) == [t |-> "s", v |-> s]
JList(vs) == [t |-> "l", v |-> vs]
JObj(ks, vs) == [t |-> "o", k |-> ks, v |-> vs]
JHas(j, key) == \E i \in DOMAIN j.k : j.k[i] = key
JGet(j, key) == j.v[Min({i \in DOMAIN j.k : j.k[i] = key})]
JKeys(j) == {j.k[i] : i \in DOMAIN j.k}
LeafEq(a, b) == a.t = b.t /\ (a.t = "n" \/ a.v = b.v)

Err(c, why) == [c |-> c, why |-> why]

(* ------------------------------------------------------------------ shape *)
LeafErrs(tn, j, c) ==
  LET ok == CASE tn \in {"String", "ID"} -> j.t = "s"
              [] tn = "Int"     -> j.t = "i"
              [] tn = "Float"   -> j.t \in {"i", "f"}
              [] tn = "Boolean" -> j.t = "b"
              [] Kind(tn) = "ENUM" -> j.t = "s" /\ j.v \in EnumValues[tn]
              [] OTHER -> TRUE            \* custom scalars: any JSON
  IN IF ok THEN {} ELSE {Err(c, IF Kind(tn) = "ENUM" THEN "not-an-enum-value" ELSE "wrong-leaf-kind")}

\* does object j have exactly the response keys the selection prescribes for runtime type rt
\* (and, if __typename is among them, does it name rt)?
KeysMatch(rt, sel, j) ==
  LET fl == Flat(sel, rt) IN
  /\ JKeys(j) = KeysOf(fl)
  /\ \A i \in DOMAIN fl : fl[i].name = "__typename" =>
        LET v == JGet(j, Key(fl[i])) IN v.t = "s" /\ v.v = rt

RECURSIVE ValErrs(_, _, _, _)
RECURSIVE ObjErrsFor(_, _, _, _)
\* errors of JSON value j as the value of a field of type T with sub-selection sel; root = the root field
\* of the operation (context of the coordinates), c = <<root, parent type, field>>
ValErrs(T, sel, j, c) ==
  IF IsNN(T) THEN
     IF j.t = "n" THEN (IF <<c[1], c[2], c[3]>> \in ServiceNull \/ <<"*", c[2], c[3]>> \in ServiceNull THEN {} ELSE {Err(c, "null-in-non-null")})
     ELSE ValErrs(T.of, sel, j, c)
  ELSE IF j.t = "n" THEN {}
  ELSE IF IsList(T) THEN
     IF j.t # "l" THEN {Err(c, "not-a-list")}
     ELSE UNION {ValErrs(T.of, sel, j.v[i], c) : i \in DOMAIN j.v}
  ELSE IF ~IsComposite(T.name) THEN
     IF j.t \in {"l", "o"} THEN {Err(c, "composite-value-for-leaf")} ELSE LeafErrs(T.name, j, c)
  ELSE IF j.t # "o" THEN {Err(c, IF j.t = "l" THEN "list-for-non-list" ELSE "leaf-value-for-composite")}
  ELSE IF \E i, k \in DOMAIN j.k : i < k /\ j.k[i] = j.k[k] THEN {Err(c, "duplicate-response-key")}
  ELSE IF ~IsAbstract(T.name) THEN ObjErrsFor(T.name, sel, j, c)
  ELSE \* abstract: some possible runtime type must explain the object
     LET cands == {rt \in Possible[T.name] : KeysMatch(rt, sel, j)} IN
     IF cands = {} THEN
        \* diagnose: is __typename the problem, or the key set?
        LET tk == UNION {{Key(Flat(sel, rt)[i]) : i \in {k \in DOMAIN Flat(sel, rt) : Flat(sel, rt)[k].name = "__typename"}}
                         : rt \in Possible[T.name]}
        IN IF \E key \in tk : ~JHas(j, key) THEN {Err(c, "typename-missing")}
           ELSE IF \E key \in tk : JGet(j, key).t # "s" THEN {Err(c, "typename-not-a-string")}
           ELSE IF \E key \in tk : JGet(j, key).v \notin Possible[T.name] THEN {Err(c, "typename-not-a-possible-type")}
           ELSE {Err(c, "keys-match-no-possible-type")}
     ELSE IF \E rt \in cands : ObjErrsFor(rt, sel, j, c) = {} THEN {}
     ELSE ObjErrsFor(CHOOSE rt \in cands : TRUE, sel, j, c)

ObjErrsFor(rt, sel, j, c) ==
  LET fl   == Flat(sel, rt)
      want == KeysOf(fl)
      have == JKeys(j)
  IN  {Err(<<c[1], rt, Merged(fl, key).name>>, "missing-key") : key \in want \ have}
      \cup {Err(<<c[1], rt, key>>, "extra-key") : key \in have \ want}
      \cup UNION { LET f == Merged(fl, key) IN
                   IF f.name = "__typename"
                   THEN (IF JGet(j, key).t = "s" /\ JGet(j, key).v = rt THEN {} ELSE {Err(<<c[1], rt, "__typename">>, "typename-wrong")})
                   ELSE ValErrs(FType(rt, f.name), f.sel, JGet(j, key), <<c[1], rt, f.name>>)
                 : key \in want \cap have }

RootType(op) == IF op.kind = "mutation" THEN "Mutation" ELSE "Query"

\* the whole answer: {"data": {...}} with one entry per root response key
RespErrs(op, resp) ==
  IF resp.t # "o" THEN {Err(<<"", "", "">>, "response-not-an-object")}
  ELSE IF JHas(resp, "errors") THEN {Err(<<"", "", "">>, "error-response")}
  ELSE IF JKeys(resp) # {"data"} \/ Len(resp.k) # 1 THEN {Err(<<"", "", "">>, "response-envelope")}
  ELSE LET d  == JGet(resp, "data")
           rt == RootType(op)
           fl == Flat(op.sel, rt)
       IN IF d.t # "o" THEN {Err(<<"", rt, "">>, "data-not-an-object")}
          ELSE IF \E i, k \in DOMAIN d.k : i < k /\ d.k[i] = d.k[k] THEN {Err(<<"", rt, "">>, "duplicate-response-key")}
          ELSE {Err(<<Merged(fl, key).name, rt, Merged(fl, key).name>>, "missing-key") : key \in KeysOf(fl) \ JKeys(d)}
               \cup {Err(<<key, rt, key>>, "extra-key") : key \in JKeys(d) \ KeysOf(fl)}
               \cup UNION { LET f == Merged(fl, key) IN
                            ValErrs(FType(rt, f.name), f.sel, JGet(d, key), <<f.name, rt, f.name>>)
                          : key \in KeysOf(fl) \cap JKeys(d) }
ShapeOK(op, resp) == RespErrs(op, resp) = {}

(* -------------------------------------------------------------- agreement *)
IsNonDet(c) == <<c[1], c[2], c[3]>> \in NonDet \/ <<"*", c[2], c[3]>> \in NonDet

RECURSIVE AgreeVal(_, _, _, _, _, _)
RECURSIVE AgreeObj(_, _, _, _, _, _)
\* disagreements between jA (selected by selA) and jB (selected by selB), both values of the same position
AgreeVal(T, selA, jA, selB, jB, c) ==
  IF IsNonDet(c) THEN {}
  ELSE IF IsNN(T) THEN AgreeVal(T.of, selA, jA, selB, jB, c)
  ELSE IF jA.t = "n" \/ jB.t = "n" THEN (IF jA.t = jB.t THEN {} ELSE {Err(c, "null-vs-value")})
  ELSE IF IsList(T) THEN
     IF jA.t # "l" \/ jB.t # "l" THEN {}      \* shape error, reported by ValErrs
     ELSE IF Len(jA.v) # Len(jB.v) THEN {Err(c, "list-length-differs")}
     ELSE UNION {AgreeVal(T.of, selA, jA.v[i], selB, jB.v[i], c) : i \in DOMAIN jA.v}
  ELSE IF ~IsComposite(T.name) THEN
     IF jA.t \in {"l", "o"} \/ jB.t \in {"l", "o"} THEN {}
     ELSE IF LeafEq(jA, jB) THEN {} ELSE {Err(c, "value-differs")}
  ELSE IF jA.t # "o" \/ jB.t # "o" THEN {}
  ELSE LET cands == {rt \in Possible[T.name] : KeysMatch(rt, selA, jA) /\ KeysMatch(rt, selB, jB)} IN
       IF cands = {} THEN
          \* if one of the objects is explained by no runtime type at all it is a shape error (reported by
          \* ValErrs); otherwise the two answers are about objects of different runtime types
          IF (\E ra \in Possible[T.name] : KeysMatch(ra, selA, jA)) /\ (\E rb \in Possible[T.name] : KeysMatch(rb, selB, jB))
          THEN {Err(c, "runtime-type-differs")} ELSE {}
       ELSE IF \E rt \in cands : AgreeObj(rt, selA, jA, selB, jB, c) = {} THEN {}
       ELSE AgreeObj(CHOOSE rt \in cands : TRUE, selA, jA, selB, jB, c)

AgreeObj(rt, selA, jA, selB, jB, c) ==
  LET fa == Flat(selA, rt)
      fb == Flat(selB, rt)
  IN UNION { LET f == Merged(fa, ka)
                 g == Merged(fb, kb)
             IN IF f.name # g.name \/ f.args # g.args \/ f.name = "__typename" THEN {}
                ELSE AgreeVal(FType(rt, f.name), f.sel, JGet(jA, ka), g.sel, JGet(jB, kb), <<c[1], rt, f.name>>)
           : <<ka, kb>> \in (KeysOf(fa) \cap JKeys(jA)) \X (KeysOf(fb) \cap JKeys(jB)) }

\* positions common to (opA, respA) and (opB, respB) carry equal values.  Self-consistency (duplicated
\* fields under different response keys agree) is AgreeErrs(op, resp, op, resp).
AgreeErrs(opA, respA, opB, respB) ==
  IF respA.t # "o" \/ respB.t # "o" \/ ~JHas(respA, "data") \/ ~JHas(respB, "data") THEN {}
  ELSE LET dA == JGet(respA, "data")
           dB == JGet(respB, "data")
           rt == RootType(opA)
       IN IF dA.t # "o" \/ dB.t # "o" \/ RootType(opB) # rt THEN {}
          ELSE LET fa == Flat(opA.sel, rt)
                   fb == Flat(opB.sel, rt)
               IN UNION { LET f == Merged(fa, ka)
                              g == Merged(fb, kb)
                          IN IF f.name # g.name \/ f.args # g.args THEN {}
                             ELSE AgreeVal(FType(rt, f.name), f.sel, JGet(dA, ka), g.sel, JGet(dB, kb), <<f.name, rt, f.name>>)
                        : <<ka, kb>> \in (KeysOf(fa) \cap JKeys(dA)) \X (KeysOf(fb) \cap JKeys(dB)) }
Consistent(opA, respA, opB, respB) == AgreeErrs(opA, respA, opB, respB) = {}

(* ------------------------------------------------- paths into an operation *)
\* a path is a sequence of indices; <<>> addresses op.sel, <<i>> the selection list of op.sel[i], ...
RECURSIVE SelsAt(_, _)
SelsAt(sel, p) == IF Len(p) = 0 THEN sel ELSE SelsAt(sel[Head(p)].sel, Tail(p))
RECURSIVE PutAt(_, _, _)
PutAt(sel, p, new) ==
  IF Len(p) = 0 THEN new
  ELSE [sel EXCEPT ![Head(p)] = [@ EXCEPT !.sel = PutAt(@, Tail(p), new)]]
\* static type in which the selection list at path p is evaluated
RECURSIVE TypeAtFrom(_, _, _)
TypeAtFrom(tn, sel, p) ==
  IF Len(p) = 0 THEN tn
  ELSE LET s == sel[Head(p)] IN
       TypeAtFrom(IF s.k = "f" THEN NamedOf(FType(tn, s.name)) ELSE s.on, s.sel, Tail(p))
TypeAt(op, p) == TypeAtFrom(RootType(op), op.sel, p)
\* all paths of selection lists, up to depth D
RECURSIVE PathsFrom(_, _, _)
PathsFrom(sel, prefix, d) ==
  {prefix} \cup (IF d = 0 THEN {} ELSE
     UNION {PathsFrom(sel[i].sel, Append(prefix, i), d - 1) : i \in {k \in DOMAIN sel : Len(sel[k].sel) > 0}})
Paths(op) == PathsFrom(op.sel, <<>>, 8)

RECURSIVE NeedsSel(_, _)
\* every composite field has a selection, every leaf has none
NeedsSel(tn, sel) ==
  \A i \in DOMAIN sel :
     LET s == sel[i] IN
     IF s.k = "f"
     THEN LET ft == NamedOf(FType(tn, s.name)) IN
          IF IsComposite(ft) THEN Len(s.sel) > 0 /\ NeedsSel(ft, s.sel) ELSE Len(s.sel) = 0
     ELSE Len(s.sel) > 0 /\ NeedsSel(s.on, s.sel)
WellFormed(op) == Len(op.sel) > 0 /\ NeedsSel(RootType(op), op.sel)

RECURSIVE AliasesIn(_)
AliasesIn(sel) == UNION {{sel[i].alias} \cup AliasesIn(sel[i].sel) : i \in DOMAIN sel} \ {""}
RECURSIVE CountSels(_)
CountSels(sel) == IF Len(sel) = 0 THEN 0 ELSE 1 + CountSels(Head(sel).sel) + CountSels(Tail(sel))

RemoveAt(s, i) == SubSeq(s, 1, i - 1) \o SubSeq(s, i + 1, Len(s))
Swap(s, i) == [s EXCEPT ![i] = s[i + 1], ![i + 1] = s[i]]

(* -------------------------------------------- the reformulation relation *)
\* Each R_x(op, ...) is the reformulated operation; E_x its enabling condition.  The second component says
\* whether the result is only meaningful after the engine's upstream normalization ("norm" lane): the
\* planner never hands the datasource named fragments, root-level fragments, fragments on the enclosing
\* object type, or two selections with the same response key.
AliasSeq == <<"a1", "a2", "a3", "a4", "a5", "a6">>
AliasPool == {AliasSeq[i] : i \in DOMAIN AliasSeq}
CanAlias(op) == AliasPool \ AliasesIn(op.sel) # {}
NextAlias(op) == AliasSeq[Min({i \in DOMAIN AliasSeq : AliasSeq[i] \notin AliasesIn(op.sel)})]
MaxSels == 16     \* sanity bound on the size of a reformulated operation

\* The federation contract of an entity fetch: one fragment per representation type directly under _entities,
\* each selecting __typename; _entities itself is never aliased.  These selections are not reformulated.
RECURSIVE EZ(_, _, _)
EZ(sel, p, seen) ==
  IF Len(p) = 0 THEN seen
  ELSE LET s == sel[Head(p)] IN
       IF s.k # "f" THEN EZ(s.sel, Tail(p), seen)
       ELSE IF s.name = "_entities" THEN EZ(s.sel, Tail(p), TRUE)
       ELSE IF seen THEN FALSE ELSE EZ(s.sel, Tail(p), FALSE)
\* p addresses a selection list reached from the _entities field through fragments only
EntityZone(op, p) == EZ(op.sel, p, FALSE)
RECURSIVE HasEntitiesField(_)
HasEntitiesField(sel) == \E i \in DOMAIN sel : (sel[i].k = "f" /\ sel[i].name = "_entities") \/ (sel[i].k # "f" /\ HasEntitiesField(sel[i].sel))
Guarded(op, p, i) == LET L == SelsAt(op.sel, p) IN
                     \/ HasEntitiesField(<<L[i]>>)
                     \/ (IF EntityZone(op, p) THEN L[i].k # "f" \/ (L[i].name = "__typename" /\ L[i].alias = "") ELSE FALSE)

E_AddAlias(op, p, i) == LET L == SelsAt(op.sel, p) IN i \in DOMAIN L /\ L[i].k = "f" /\ L[i].alias = "" /\ CanAlias(op)
                        /\ ~Guarded(op, p, i)
R_AddAlias(op, p, i) == LET L == SelsAt(op.sel, p) IN
                        [op EXCEPT !.sel = PutAt(op.sel, p, [L EXCEPT ![i] = [@ EXCEPT !.alias = NextAlias(op)]])]

E_Reorder(op, p, i) == LET L == SelsAt(op.sel, p) IN i \in DOMAIN L /\ i + 1 \in DOMAIN L /\ L[i] # L[i + 1]
R_Reorder(op, p, i) == [op EXCEPT !.sel = PutAt(op.sel, p, Swap(SelsAt(op.sel, p), i))]

\* duplicate a field under a second (fresh) response key
E_Duplicate(op, p, i) == E_AddAlias(op, p, i) /\ CountSels(op.sel) + CountSels(<<SelsAt(op.sel, p)[i]>>) <= MaxSels
R_Duplicate(op, p, i) == LET L == SelsAt(op.sel, p) IN
                         [op EXCEPT !.sel = PutAt(op.sel, p, Append(L, [L[i] EXCEPT !.alias = NextAlias(op)]))]

\* duplicate a field under the SAME response key (norm lane); a composite field with >= 2 sub-selections is
\* split into two same-key selections with complementary sub-selections:  b { id name }  ->  b { id } b { name }
\* an identical copy under the same response key (id id) is plain valid GraphQL the datasource de-duplicates itself;
\* only a real split (complementary sub-selections) relies on the planner's normalization
SplitNormOnly(op, p, i) == Len(SelsAt(op.sel, p)[i].sel) >= 2
\* two selections with the same response key in one selection list that are not identical copies
RECURSIVE SameKeyDiffer(_)
SameKeyDiffer(sel) ==
  \/ \E i, k \in DOMAIN sel : i < k /\ sel[i].k = "f" /\ sel[k].k = "f" /\ Key(sel[i]) = Key(sel[k]) /\ sel[i] # sel[k]
  \/ \E i \in DOMAIN sel : SameKeyDiffer(sel[i].sel)
\* two fragments with the same type condition in one selection list (normalization merges them; the planner never
\* emits them)
RECURSIVE SameOnSiblings(_)
SameOnSiblings(sel) ==
  \/ \E i, k \in DOMAIN sel : i < k /\ sel[i].k # "f" /\ sel[k].k # "f" /\ sel[i].on = sel[k].on
  \/ \E i \in DOMAIN sel : SameOnSiblings(sel[i].sel)
E_Split(op, p, i) == LET L == SelsAt(op.sel, p) IN i \in DOMAIN L /\ L[i].k = "f" /\ CountSels(op.sel) < MaxSels
R_Split(op, p, i) == LET L == SelsAt(op.sel, p)
                         f == L[i]
                     IN [op EXCEPT !.sel = PutAt(op.sel, p,
                          IF Len(f.sel) >= 2
                          THEN Append([L EXCEPT ![i] = [@ EXCEPT !.sel = <<Head(f.sel)>>]], [f EXCEPT !.sel = Tail(f.sel)])
                          ELSE Append(L, f))]

\* move a selection into an inline fragment on the enclosing type:  f  ->  ... on T { f }
E_WrapSelf(op, p, i) == LET L == SelsAt(op.sel, p) IN i \in DOMAIN L /\ CountSels(op.sel) < MaxSels
R_WrapSelf(op, p, i) == LET L == SelsAt(op.sel, p) IN
                        [op EXCEPT !.sel = PutAt(op.sel, p, [L EXCEPT ![i] = Inline(TypeAt(op, p), <<L[i]>>)])]
\* only a field wrapped in a fragment on its abstract enclosing type is something the planner may emit; fragments
\* at the root, on the enclosing object type, or around another fragment are flattened by normalization
RECURSIVE OwnerAt(_, _)
OwnerAt(sel, p) == IF Len(p) = 1 THEN sel[p[1]] ELSE OwnerAt(sel[Head(p)].sel, Tail(p))
\* the selection list at p is the body of a fragment (wrapping anything in it yields a fragment inside a fragment)
InFragment(op, p) == IF Len(p) = 0 THEN FALSE ELSE OwnerAt(op.sel, p).k # "f"
WrapSelfNormOnly(op, p, i) == Len(p) = 0 \/ ~IsAbstract(TypeAt(op, p)) \/ SelsAt(op.sel, p)[i].k # "f" \/ InFragment(op, p)

\* ... into a named fragment (definition + spread)
R_ToNamed(op, p, i) == LET L == SelsAt(op.sel, p) IN
                       [op EXCEPT !.sel = PutAt(op.sel, p, [L EXCEPT ![i] = Named(TypeAt(op, p), <<L[i]>>)])]

\* under an abstract type, distribute a field over the member types:  f -> ... on M1 { f } ... on M2 { f }
MemberSeq(tn) == MemberSeqOf[tn]
E_Distribute(op, p, i) == LET L == SelsAt(op.sel, p) IN
                          /\ Len(p) > 0 /\ i \in DOMAIN L /\ L[i].k = "f"
                          /\ IsAbstract(TypeAt(op, p)) /\ Len(GenMembers[TypeAt(op, p)]) > 0
                          /\ CountSels(op.sel) + Len(GenMembers[TypeAt(op, p)]) * (1 + CountSels(<<L[i]>>)) <= MaxSels + 2
R_Distribute(op, p, i) == LET L == SelsAt(op.sel, p)
                              ms == GenMembers[TypeAt(op, p)]
                          IN [op EXCEPT !.sel = PutAt(op.sel, p,
                               SubSeq(L, 1, i - 1) \o [k \in DOMAIN ms |-> Inline(ms[k], <<L[i]>>)] \o SubSeq(L, i + 1, Len(L)))]

\* select a subset: drop one selection (the operation must stay well-formed)
E_Subset(op, p, i) == LET L == SelsAt(op.sel, p) IN i \in DOMAIN L /\ Len(L) >= 2 /\ ~Guarded(op, p, i)
R_Subset(op, p, i) == [op EXCEPT !.sel = PutAt(op.sel, p, RemoveAt(SelsAt(op.sel, p), i))]

(* ----------------------------------------- same operation, other variables *)
\* not a reformulation: the operation text stays the same, only the value of one field's arguments changes
\* (reuse lane: one planned datasource is loaded with several variable sets)
E_Revalue(op, p, i, as) == LET L == SelsAt(op.sel, p) IN i \in DOMAIN L /\ L[i].k = "f" /\ Len(L[i].args) > 0 /\ L[i].args # as
                           /\ L[i].name # "_entities"
R_Revalue(op, p, i, as) == LET L == SelsAt(op.sel, p) IN
                           [op EXCEPT !.sel = PutAt(op.sel, p, [L EXCEPT ![i] = [@ EXCEPT !.args = as]])]

(* ---------------------------------------------------- reference executor *)
\* A free data universe: the value found at a position is (a rendering of) the position itself; lists have
\* ListLen elements; the runtime type of an abstract position and the nullness of a nullable position are
\* functions of the position.  Mut selects a deliberately broken executor (negative sanity checks of MC_C20).
ListLen == 2
FStep(f) == [n |-> f.name, a |-> f.args, i |-> 0]
IStep(i) == [n |-> "", a |-> <<>>, i |-> i]
RtOf(tn, pos) == LET ms == MemberSeq(tn) IN ms[((Len(pos) + pos[Len(pos)].i) % Len(ms)) + 1]
\* null at: the second element of a list that is itself the second element of a list, and every nullable
\* position at depth >= 7
IsNullAt(pos) == \/ Len(pos) >= 2 /\ pos[Len(pos)].i = 2 /\ pos[Len(pos) - 1].i = 2
                 \/ Len(pos) >= 7
RECURSIVE SortedSeq(_)
SortedSeq(S) == IF S = {} THEN <<>> ELSE <<Min(S)>> \o SortedSeq(S \ {Min(S)})
LeafVal(tn, pos) ==
  CASE tn \in {"String", "ID"} -> [t |-> "s", v |-> ToString(pos)]
    [] tn = "Int"     -> [t |-> "i", v |-> Len(pos)]
    [] tn = "Float"   -> [t |-> "f", v |-> ToString(pos)]
    [] tn = "Boolean" -> [t |-> "b", v |-> Len(pos) % 2 = 0]
    [] Kind(tn) = "ENUM" -> [t |-> "s", v |-> CHOOSE e \in EnumValues[tn] : TRUE]
    [] OTHER -> [t |-> "s", v |-> ToString(pos)]

RECURSIVE ExecVal(_, _, _, _, _)
RECURSIVE ExecObj(_, _, _, _)
ExecVal(T, sel, pos, nullable, mut) ==
  IF IsNN(T) THEN ExecVal(T.of, sel, pos, FALSE, mut)
  ELSE IF nullable /\ IsNullAt(pos) THEN JNull
  ELSE IF IsList(T) THEN
     IF mut = "flatten" /\ IsList(IF IsNN(T.of) THEN T.of.of ELSE T.of)
     THEN ExecVal(T.of, sel, Append(pos, IStep(1)), TRUE, mut)      \* one nesting level lost
     ELSE JList([i \in 1..ListLen |-> ExecVal(T.of, sel, Append(pos, IStep(i)), TRUE, mut)])
  ELSE IF ~IsComposite(T.name) THEN LeafVal(T.name, pos)
  ELSE ExecObj(IF IsAbstract(T.name) THEN RtOf(T.name, pos) ELSE T.name, sel, pos, mut)

ExecObj(rt, sel, pos, mut) ==
  LET fl == Flat(sel, rt)
      \* response keys in order of first appearance
      first == {i \in DOMAIN fl : \A k \in 1..(i - 1) : Key(fl[k]) # Key(fl[i])}
      order == SortedSeq(first)
      keyOf(f) == IF mut = "dropalias" THEN f.name ELSE Key(f)
      val(f) == IF f.name = "__typename"
                THEN (IF mut = "typename" THEN JStr("Unknown") ELSE JStr(rt))
                ELSE ExecVal(FType(rt, f.name), (IF mut = "firstwins" THEN f ELSE Merged(fl, Key(f))).sel,
                             Append(pos, FStep(f)), TRUE, mut)
  IN JObj([k \in DOMAIN order |-> keyOf(fl[order[k]])], [k \in DOMAIN order |-> val(fl[order[k]])])

RefExec(op, mut) == JObj(<<"data">>, <<ExecObj(RootType(op), op.sel, <<>>, mut)>>)
=============================================================================
