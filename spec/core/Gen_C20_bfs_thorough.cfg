CONSTANTS
  MaxBuild = 3
  MaxReform = 1
  MaxDepth = 2
  MaxRoots = 1
  RootFilter = {"users", "user", "allPets", "nestedType", "recursiveType", "search", "performAction", "testContainers", "nullableFieldsType", "createUser", "blogPost"}
  FieldFilter = {}
  MaxReval = 0
  Mut = "none"
SPECIFICATION GenSpec

CHECK_DEADLOCK FALSE
