CONSTANTS
  QueryNames <- QN_both
  Slots <- C_Slots
  DirSlots <- Dir_small
  FieldNames = {}
  ArgNames = {"a"}
  InputNames = {}
  EnumVals = {}
  Scalars = {"String"}
  Wraps <- W_few
  Descs <- D_one
  Reasons <- R_both
  Urls = {"https://example.com/date"}
  Features <- C_Features
  MaxSteps = 3
  ValDepth = 1
  Sampling = FALSE
  EmitSteps <- ES_all
SPECIFICATION GenSpec
INVARIANTS GenWF SpecRoundTrip Closed DeprecatedFilter Sensitive
CONSTRAINT EmitAt
VIEW GenView
CHECK_DEADLOCK FALSE
