CONSTANTS
  MaxBuild = 3
  MaxReform = 1
  MaxDepth = 2
  MaxRoots = 1
  RootFilter = {"users", "allPets", "nestedType", "blogPost"}
  FieldFilter = {}
  MaxReval = 0
  Mut = "dropalias"
SPECIFICATION Spec
INVARIANTS RefOK
CHECK_DEADLOCK FALSE
