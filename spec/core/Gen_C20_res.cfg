CONSTANTS
  MaxBuild = 4
  MaxReform = 1
  MaxDepth = 2
  MaxRoots = 2
  RootFilter = {"users", "categories"}
  FieldFilter = {"id", "name", "productCount", "subcategories", "itemCount"}
  MaxReval = 0
  Mut = "none"
SPECIFICATION GenSpec

CHECK_DEADLOCK FALSE
