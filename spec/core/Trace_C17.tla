------------------------------ MODULE Trace_C17 ------------------------------
(* Property C17, validation pass: what the real code answered (harness/cmd/introspect,  *)
(* one NDJSON line per observation) against what GQLIntrospect prescribes.               *)
(*                                                                                      *)
(*  Answers    for every schema S and every executed introspection query q (and for the *)
(*             raw introspection.Data the Generator produced, view "gen"):              *)
(*             IFacts(observed answer) = facts of Introspect(S, q.includeDeprecated)     *)
(*             restricted to what q asks for - nothing missing, invented or mis-typed.   *)
(*  RoundTrip  the schema parsed back from the SDL of the JsonConverter's document is    *)
(*             ~ the configured schema:  Equiv(S'', Full(S)).                            *)
(*  EchoOK     harness self check: the SDL the driver printed for S parses back to ~ S.  *)
(*                                                                                      *)
(* The trace spec consumes one line per step; `mm` holds the primary mismatches of the   *)
(* line just consumed (TLC computes them; they are also printed, so that one pass over   *)
(* the log reports every non-conforming line).  Conforms (mm = {}) is the invariant of   *)
(* the strict configuration.                                                            *)
EXTENDS GQLIntrospect, Json, TLCExt, IOUtils
TraceLog == ndJsonDeserialize(IOEnv.TRACE)

VARIABLES l,      \* next line to consume
          cur,    \* line number of the current case's "schema" line (0 = none yet)
          expT,   \* facts of Introspect(S, TRUE) for the current schema
          expF,   \* facts of Introspect(S, FALSE)
          memo,   \* facts of the observations of this case that later lines refer to ("same")
          mm      \* mismatches of the line consumed last
tvars == <<l, cur, expT, expF, memo, mm>>

Ev == TraceLog[l]
IsEvent(e) == l <= Len(TraceLog) /\ Ev.ev = e /\ l' = l + 1
NoMM == {}
Problem(k, p, v) == {[d |-> "invented", k |-> k, p |-> p, q |-> "", x |-> "-", y |-> v]}
Report(set) == IF set = {} THEN TRUE ELSE PrintT(ToJson([line |-> l, case |-> TraceLog[IF Ev.ev = "schema" THEN l ELSE cur].id, mm |-> set]))

TraceInit == l = 1 /\ cur = 0 /\ expT = {} /\ expF = {} /\ memo = <<>> /\ mm = NoMM /\ TLCSet(1, 0)

T_Schema ==
  /\ IsEvent("schema")
  /\ cur' = l
  /\ expT' = IFacts(Introspect(Ev.s, TRUE))
  /\ expF' = IFacts(Introspect(Ev.s, FALSE))
  /\ memo' = <<>>
  /\ mm' = NoMM

\* facts of the observation on the current line ("same" = k: the record is identical to the one k lines earlier)
ObsFacts == IF Ev.same > 0 THEN memo[l - Ev.same - cur]
            ELSE IF Ev.root = "schema" THEN IFacts(Ev.i) ELSE TypesFacts(Ev.i)
Expected == LET all == IF Ev.inc THEN expT ELSE expF
                sub == IF Ev.root = "schema" THEN all ELSE OfType(all, Ev.name) IN
            IF Ev.prof = "namekind" THEN NameKind(sub) ELSE sub
T_Obs ==
  /\ IsEvent("obs") /\ cur > 0
  /\ LET of == ObsFacts
         res == Mismatches(Expected, IF Ev.prof = "namekind" THEN NameKind(of) ELSE of)
                  \cup (IF Ev.errs > 0 THEN Problem("errors", <<"$response">>, ToString(Ev.errs)) ELSE {}) IN
     /\ mm' = res
     /\ Report(res)
     /\ memo' = [i \in 1..(l - cur) |-> IF i < l - cur THEN memo[i] ELSE IF Ev.root = "schema" THEN of ELSE {}]
  /\ UNCHANGED <<cur, expT, expF>>

SchemaCheck(what) ==
  /\ IsEvent(what) /\ cur > 0
  /\ LET res == IF ~Ev.ok THEN Problem("unparseable", <<"$document">>, Ev.err)
                ELSE Mismatches(expT, IFacts(IntrospectRaw(IF what = "echo" THEN Full(Ev.s) ELSE Ev.s, TRUE))) IN
     /\ mm' = res
     /\ Report(res)
  /\ memo' = [i \in 1..(l - cur) |-> IF i < l - cur THEN memo[i] ELSE {}]
  /\ UNCHANGED <<cur, expT, expF>>
T_Echo == SchemaCheck("echo")
T_RoundTrip == SchemaCheck("roundtrip")

\* the implementation rejected, or crashed on, a valid schema / a valid introspection query
T_Fail ==
  /\ IsEvent("fail") /\ cur > 0
  /\ mm' = Problem("failure", <<Ev.stage>>, Ev.err)
  /\ Report(mm')
  /\ memo' = [i \in 1..(l - cur) |-> IF i < l - cur THEN memo[i] ELSE {}]
  /\ UNCHANGED <<cur, expT, expF>>

TraceNext == T_Schema \/ T_Obs \/ T_Echo \/ T_RoundTrip \/ T_Fail
TraceSpec == TraceInit /\ [][TraceNext]_tvars

\* the property on recorded behaviour: every consumed line conforms
Conforms == mm = {}

HighWater == TLCSet(1, IF l > TLCGet(1) THEN l ELSE TLCGet(1))
TraceAccepted ==
  IF TLCGet(1) = Len(TraceLog) + 1 THEN TRUE
  ELSE /\ PrintT(<<"TRACE_STUCK_AT_LINE", TLCGet(1)>>)
       /\ FALSE
=============================================================================
