CONSTANTS
  D = 2
  Wide = FALSE
SPECIFICATION TraceSpec
CONSTRAINT HighWater
INVARIANTS InvAccept InvNamesVar InvNamesPath InvNoEcho
POSTCONDITION TraceAccepted
CHECK_DEADLOCK FALSE
