CONSTANTS
  D = 2
  Wide = FALSE
  Cat = 1
SPECIFICATION TraceSpec
CONSTRAINT HighWater
INVARIANTS InvAccept InvNamesVar InvNamesPath InvNoEcho
POSTCONDITION TraceAccepted
CHECK_DEADLOCK FALSE
