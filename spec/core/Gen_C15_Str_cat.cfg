CONSTANTS
  MaxLen = 0
  Alphabet = {97}
  Seeds <- SeedsCat
SPECIFICATION GenSpec
CONSTRAINT GenConstraint
INVARIANTS JsonIsSubGrammar TwinDenotesSame PlainDenotesItself BlockNoBlankEdges BlockPlainDenotesItself BlockBlankIsEmpty
CHECK_DEADLOCK FALSE
