---------------------------- MODULE GQLValidate ----------------------------
(* The validation rules of the GraphQL specification, October 2021,          *)
(* section 5, one predicate per rule named in property C04.                  *)
(* SpecValid(S, doc) is their conjunction; callers pass Reachable(doc), i.e. *)
(* the executed operation(s) together with the fragments they reach (rules   *)
(* about discarded definitions - 5.5.1.4 Fragments Must Be Used - are not    *)
(* part of it).  Every predicate is total: where a rule cannot be evaluated  *)
(* because another rule is already violated (unknown field, unknown type,    *)
(* undefined fragment) it yields TRUE, exactly as the specification's rules   *)
(* are independent of each other.                                            *)
(* Not modelled: @defer/@stream, @oneOf,                                     *)
(* @specifiedBy, variables inside variable default values (a syntax error).  *)
EXTENDS GQLDoc

----------------------------------------------------------------------------
\* Items: every selection of a selection set (recursively, not through spreads) with its enclosing type
RECURSIVE Items(_, _, _, _)
Items(S, doc, sel, T) ==
  UNION {{[s |-> sel[i], parent |-> T]} \cup Items(S, doc, sel[i].sel, ChildType(S, doc, T, sel[i])) : i \in DOMAIN sel}

AllItems(S, doc) ==
  UNION {Items(S, doc, doc.ops[i].sel, RootType(S, doc.ops[i].op)) : i \in DOMAIN doc.ops}
  \cup UNION {Items(S, doc, doc.frags[i].sel, doc.frags[i].on) : i \in DOMAIN doc.frags}

FieldItems(S, doc)  == {it \in AllItems(S, doc) : it.s.k = "field"}
InlineItems(S, doc) == {it \in AllItems(S, doc) : it.s.k = "inline"}
SpreadItems(S, doc) == {it \in AllItems(S, doc) : it.s.k = "spread"}

\* every selection set of the document with its enclosing type
AllSets(S, doc) ==
  {[sel |-> doc.ops[i].sel, parent |-> RootType(S, doc.ops[i].op)] : i \in DOMAIN doc.ops}
  \cup {[sel |-> doc.frags[i].sel, parent |-> doc.frags[i].on] : i \in DOMAIN doc.frags}
  \cup {[sel |-> it.s.sel, parent |-> ChildType(S, doc, it.parent, it.s)] : it \in {x \in AllItems(S, doc) : x.s.sel # <<>>}}

\* every list of directives with its location
OpLoc(op) == CASE op = "query" -> "QUERY" [] op = "mutation" -> "MUTATION" [] OTHER -> "SUBSCRIPTION"
SelLoc(s) == CASE s.k = "field" -> "FIELD" [] s.k = "inline" -> "INLINE_FRAGMENT" [] OTHER -> "FRAGMENT_SPREAD"
DirSites(S, doc) ==
  {[dirs |-> doc.ops[i].dirs, loc |-> OpLoc(doc.ops[i].op)] : i \in DOMAIN doc.ops}
  \cup UNION {{[dirs |-> doc.ops[i].vars[j].dirs, loc |-> "VARIABLE_DEFINITION"] : j \in DOMAIN doc.ops[i].vars} : i \in DOMAIN doc.ops}
  \cup {[dirs |-> doc.frags[i].dirs, loc |-> "FRAGMENT_DEFINITION"] : i \in DOMAIN doc.frags}
  \cup {[dirs |-> it.s.dirs, loc |-> SelLoc(it.s)] : it \in AllItems(S, doc)}

\* every argument list with the argument definitions it is checked against (known = FALSE: field / directive undefined)
DirArgSites(S, dirs) ==
  {[args |-> dirs[i].args, known |-> HasDirective(S, dirs[i].name),
    defs |-> IF HasDirective(S, dirs[i].name) THEN DirectiveDef(S, dirs[i].name).args ELSE NoArgs] : i \in DOMAIN dirs}
FieldArgSite(S, it) ==
  [args |-> it.s.args, known |-> HasField(S, it.parent, it.s.name), defs |-> FieldDef(S, it.parent, it.s.name).args]

FieldArgSites(S, doc) == {FieldArgSite(S, it) : it \in FieldItems(S, doc)}
DirectiveArgSites(S, doc) == UNION {DirArgSites(S, ds.dirs) : ds \in DirSites(S, doc)}

----------------------------------------------------------------------------
\* 5.2.1.1 Operation Name Uniqueness, 5.2.2.1 Lone Anonymous Operation
UniqueOpNames(S, doc) ==
  \A i, j \in DOMAIN doc.ops : (i # j /\ doc.ops[i].name # "") => doc.ops[i].name # doc.ops[j].name
LoneAnonymous(S, doc) ==
  (\E i \in DOMAIN doc.ops : doc.ops[i].name = "") => Len(doc.ops) = 1

----------------------------------------------------------------------------
\* fields of a selection set with fragments expanded (the "fieldsForName" of 5.3.2 and CollectFields of 5.2.3.1):
\* a set of [f : field selection, parent : enclosing type]
RECURSIVE FieldsOf(_, _, _, _, _)
FieldsOf(S, doc, sel, T, seen) ==
  UNION {CASE sel[i].k = "field"  -> {[f |-> sel[i], parent |-> T]}
           [] sel[i].k = "inline" -> FieldsOf(S, doc, sel[i].sel, IF sel[i].on = "" THEN T ELSE sel[i].on, seen)
           [] OTHER -> IF sel[i].name \in seen \/ ~HasFrag(doc, sel[i].name) THEN {}
                       ELSE LET fr == FragByName(doc, sel[i].name)
                            IN FieldsOf(S, doc, fr.sel, fr.on, seen \cup {sel[i].name})
         : i \in DOMAIN sel}

\* 5.2.3.1 Single root field: CollectFields(subscriptionType, selectionSet, {}) has exactly one entry and it is
\* not an introspection field
SingleSubscriptionRoot(S, doc) ==
  \A i \in DOMAIN doc.ops : doc.ops[i].op = "subscription" =>
     LET fs == FieldsOf(S, doc, doc.ops[i].sel, S.subscription, {})
     IN /\ Cardinality({ResponseKey(x.f) : x \in fs}) = 1
        /\ \A x \in fs : x.f.name \notin {"__typename", "__schema", "__type"}

----------------------------------------------------------------------------
\* 5.3.1 Field Selections
FieldsOnCorrectType(S, doc) ==
  \A it \in FieldItems(S, doc) : IsComposite(S, it.parent) => HasField(S, it.parent, it.s.name)

\* 5.3.3 Leaf Field Selections
LeafSelections(S, doc) ==
  \A it \in FieldItems(S, doc) :
     LET d == FieldDef(S, it.parent, it.s.name)
     IN d # NoField => /\ IsLeafType(S, d.type.n) => it.s.sel = <<>>
                       /\ IsComposite(S, d.type.n) => it.s.sel # <<>>

\* 5.3.2 Field Selection Merging
SameArgs(a, b) == {<<a[i].name, a[i].value>> : i \in DOMAIN a} = {<<b[i].name, b[i].value>> : i \in DOMAIN b}

SubFields(S, doc, x) == FieldsOf(S, doc, x.f.sel, FieldDef(S, x.parent, x.f.name).type.n, {})

RECURSIVE SameResponseShape(_, _, _, _)
SameResponseShape(S, doc, x, y) ==
  LET dx == FieldDef(S, x.parent, x.f.name)
      dy == FieldDef(S, y.parent, y.f.name)
  IN IF dx = NoField \/ dy = NoField THEN TRUE
     ELSE /\ dx.type.w = dy.type.w
          /\ (IsLeafType(S, dx.type.n) \/ IsLeafType(S, dy.type.n)) => dx.type.n = dy.type.n
          /\ (IsComposite(S, dx.type.n) /\ IsComposite(S, dy.type.n)) =>
               LET sub == SubFields(S, doc, x) \cup SubFields(S, doc, y)
               IN \A p, q \in sub : (p # q /\ ResponseKey(p.f) = ResponseKey(q.f)) => SameResponseShape(S, doc, p, q)

RECURSIVE FieldsInSetCanMerge(_, _, _)
FieldsInSetCanMerge(S, doc, fs) ==
  \A x, y \in fs : (x # y /\ ResponseKey(x.f) = ResponseKey(y.f)) =>
     /\ SameResponseShape(S, doc, x, y)
     /\ (x.parent = y.parent \/ ~IsObjectType(S, x.parent) \/ ~IsObjectType(S, y.parent)) =>
          /\ x.f.name = y.f.name
          /\ SameArgs(x.f.args, y.f.args)
          /\ FieldsInSetCanMerge(S, doc, SubFields(S, doc, x) \cup SubFields(S, doc, y))

OverlappingFieldsCanBeMerged(S, doc) ==
  \A ss \in AllSets(S, doc) : FieldsInSetCanMerge(S, doc, FieldsOf(S, doc, ss.sel, ss.parent, {}))

----------------------------------------------------------------------------
\* 5.4.1 Argument Names, 5.4.2 Argument Uniqueness, 5.4.2.1 Required Arguments (fields and directives)
SiteArgsKnown(site)  == site.known => \A i \in DOMAIN site.args : site.args[i].name \in DOMAIN site.defs
SiteArgsUnique(site) == Unique(Names(site.args))
SiteArgsRequired(site) ==
  \A n \in DOMAIN site.defs :
     (IsNonNull(site.defs[n].type) /\ site.defs[n].def = Absent) =>
        \E i \in DOMAIN site.args : site.args[i].name = n /\ site.args[i].value # VNull

ArgumentsKnown(S, doc)    == \A site \in FieldArgSites(S, doc) : SiteArgsKnown(site)
ArgumentsUnique(S, doc)   == \A site \in FieldArgSites(S, doc) \cup DirectiveArgSites(S, doc) : SiteArgsUnique(site)
ArgumentsRequired(S, doc) == \A site \in FieldArgSites(S, doc) : SiteArgsRequired(site)

----------------------------------------------------------------------------
\* 5.6.1 Values of Correct Type, 5.6.2 Input Object Field Names, 5.6.3 Field Uniqueness, 5.6.4 Required Fields
\* (literal coercion rules of section 3; variables are checked by 5.8.5 instead)
RECURSIVE LiteralOK(_, _, _)
NamedLiteralOK(S, n, v) ==
  CASE n = "Int"     -> v.t = "i"
    [] n = "Float"   -> v.t \in {"i", "big", "f"}
    [] n = "String"  -> v.t = "s"
    [] n = "Boolean" -> v.t = "b"
    [] n = "ID"      -> v.t \in {"s", "i", "big"}
    [] TypeKind(S, n) = "SCALAR" /\ n \notin BuiltinScalars -> TRUE
    [] TypeKind(S, n) = "ENUM"  -> v.t = "e" /\ v.e \in S.types[n].values
    [] TypeKind(S, n) = "INPUT" ->
         /\ v.t = "o"
         /\ Unique(v.k)
         /\ \A i \in DOMAIN v.k : v.k[i] \in InputFields(S, n) /\ LiteralOK(S, InputFieldDef(S, n, v.k[i]).type, v.o[i])
         /\ \A f \in InputFields(S, n) :
              (IsNonNull(InputFieldDef(S, n, f).type) /\ InputFieldDef(S, n, f).def = Absent) => f \in Range(v.k)
    [] OTHER -> FALSE

LiteralOK(S, ty, v) ==
  IF v.t = "v" THEN TRUE
  ELSE IF IsNonNull(ty) THEN v.t # "n" /\ LiteralOK(S, Unwrap(ty), v)
  ELSE IF v.t = "n" THEN TRUE
  ELSE IF IsListTy(ty) THEN IF v.t = "l" THEN \A i \in DOMAIN v.l : LiteralOK(S, Unwrap(ty), v.l[i])
                            ELSE LiteralOK(S, Unwrap(ty), v)
  ELSE NamedLiteralOK(S, ty.n, v)

\* 5.6.3 is syntactic: every object literal, also one inside a custom scalar or at an undefined argument
RECURSIVE ObjectKeysUnique(_)
ObjectKeysUnique(v) ==
  CASE v.t = "l" -> \A i \in DOMAIN v.l : ObjectKeysUnique(v.l[i])
    [] v.t = "o" -> Unique(v.k) /\ \A i \in DOMAIN v.o : ObjectKeysUnique(v.o[i])
    [] OTHER -> TRUE

SiteValuesOK(S, site) ==
  \A i \in DOMAIN site.args :
     /\ ObjectKeysUnique(site.args[i].value)
     /\ site.args[i].name \in DOMAIN site.defs => LiteralOK(S, site.defs[site.args[i].name].type, site.args[i].value)

ValuesOfCorrectType(S, doc) ==
  /\ \A site \in FieldArgSites(S, doc) \cup DirectiveArgSites(S, doc) : SiteValuesOK(S, site)
  /\ \A i \in DOMAIN doc.ops : \A j \in DOMAIN doc.ops[i].vars :
       LET vd == doc.ops[i].vars[j]
       IN vd.def # Absent => /\ ObjectKeysUnique(vd.def)
                             /\ IsInputType(S, vd.type.n) => LiteralOK(S, vd.type, vd.def)

----------------------------------------------------------------------------
\* 5.5.1.1 Fragment Name Uniqueness, 5.5.1.2 Fragment Spread Type Existence, 5.5.1.3 Fragments On Composite Types,
\* 5.5.2.1 Fragment spread target defined
FragmentsWellFormed(S, doc) ==
  /\ Unique(Names(doc.frags))
  /\ \A i \in DOMAIN doc.frags : IsComposite(S, doc.frags[i].on)
  /\ \A it \in InlineItems(S, doc) : it.s.on # "" => IsComposite(S, it.s.on)
  /\ \A it \in SpreadItems(S, doc) : HasFrag(doc, it.s.name)

\* 5.5.2.2 Fragment spreads must not form cycles
FragmentsAcyclic(S, doc) ==
  \A i \in DOMAIN doc.frags : doc.frags[i].name \notin ReachableFragNames(doc, doc.frags[i].sel)

\* 5.5.2.3 Fragment spread is possible
Overlap(S, a, b) == (IsComposite(S, a) /\ IsComposite(S, b)) => PossibleTypes(S, a) \cap PossibleTypes(S, b) # {}
FragmentSpreadPossible(S, doc) ==
  /\ \A it \in InlineItems(S, doc) : it.s.on # "" => Overlap(S, it.parent, it.s.on)
  /\ \A it \in SpreadItems(S, doc) : HasFrag(doc, it.s.name) => Overlap(S, it.parent, FragByName(doc, it.s.name).on)

----------------------------------------------------------------------------
\* 5.7.1 Directives Are Defined, 5.7.2 In Valid Locations, 5.7.3 Unique Per Location; 5.4.* for directive arguments
DirectivesKnown(S, doc) ==
  \A ds \in DirSites(S, doc) : \A i \in DOMAIN ds.dirs : HasDirective(S, ds.dirs[i].name)
DirectivesLocated(S, doc) ==
  \A ds \in DirSites(S, doc) : \A i \in DOMAIN ds.dirs :
     HasDirective(S, ds.dirs[i].name) => ds.loc \in DirectiveDef(S, ds.dirs[i].name).locs
DirectivesUniquePerLocation(S, doc) ==
  \A ds \in DirSites(S, doc) : \A i, j \in DOMAIN ds.dirs :
     (i # j /\ ds.dirs[i].name = ds.dirs[j].name /\ HasDirective(S, ds.dirs[i].name)) => DirectiveDef(S, ds.dirs[i].name).repeatable
DirectivesArgsProvided(S, doc) ==
  \A site \in DirectiveArgSites(S, doc) : SiteArgsKnown(site) /\ SiteArgsRequired(site)

----------------------------------------------------------------------------
\* Variables.  A usage = [name, type : expected type at the location, locDef : the location has a default value]
RECURSIVE ValueUsages(_, _, _, _)
ValueUsages(S, ty, v, locDef) ==
  CASE v.t = "v" -> {[name |-> v.n, type |-> ty, locDef |-> locDef]}
    [] v.t = "l" -> IF IsListTy(Nullable(ty))
                    THEN UNION {ValueUsages(S, Unwrap(Nullable(ty)), v.l[i], FALSE) : i \in DOMAIN v.l}
                    ELSE {}
    [] v.t = "o" -> IF TypeKind(S, ty.n) = "INPUT"
                    THEN UNION {IF v.k[i] \in InputFields(S, ty.n)
                                THEN ValueUsages(S, InputFieldDef(S, ty.n, v.k[i]).type, v.o[i], InputFieldDef(S, ty.n, v.k[i]).def # Absent)
                                ELSE {} : i \in DOMAIN v.k}
                    ELSE {}
    [] OTHER -> {}

SiteUsages(S, site) ==
  UNION {IF site.args[i].name \in DOMAIN site.defs
         THEN ValueUsages(S, site.defs[site.args[i].name].type, site.args[i].value, site.defs[site.args[i].name].def # Absent)
         ELSE {} : i \in DOMAIN site.args}

SelUsages(S, doc, sel, T) ==
  UNION {SiteUsages(S, site) : site \in {FieldArgSite(S, it) : it \in {x \in Items(S, doc, sel, T) : x.s.k = "field"}}
                                        \cup UNION {DirArgSites(S, it.s.dirs) : it \in Items(S, doc, sel, T)}}

\* typed usages of an operation, incl. the fragments it reaches
OpUsages(S, doc, op) ==
  SelUsages(S, doc, op.sel, RootType(S, op.op))
  \cup UNION {SiteUsages(S, site) : site \in DirArgSites(S, op.dirs)}
  \cup UNION {SelUsages(S, doc, doc.frags[i].sel, doc.frags[i].on) \cup UNION {SiteUsages(S, site) : site \in DirArgSites(S, doc.frags[i].dirs)}
                : i \in {j \in DOMAIN doc.frags : doc.frags[j].name \in ReachableFragNames(doc, op.sel)}}

\* 5.8.1
VariablesUnique(S, doc) == \A i \in DOMAIN doc.ops : Unique(Names(doc.ops[i].vars))
\* 5.8.2
VariablesInputTyped(S, doc) == \A i \in DOMAIN doc.ops : \A j \in DOMAIN doc.ops[i].vars : IsInputType(S, doc.ops[i].vars[j].type.n)
\* 5.8.3 (syntactic uses: also those in positions whose type is unknown)
VariablesDefined(S, doc) == \A i \in DOMAIN doc.ops : OpVarUses(doc, doc.ops[i]) \subseteq Range(Names(doc.ops[i].vars))
\* 5.8.4
VariablesUsed(S, doc) == \A i \in DOMAIN doc.ops : Range(Names(doc.ops[i].vars)) \subseteq OpVarUses(doc, doc.ops[i])

\* 5.8.5 AreTypesCompatible / IsVariableUsageAllowed
RECURSIVE TypesCompatible(_, _)
TypesCompatible(vt, lt) ==
  IF IsNonNull(lt) THEN IsNonNull(vt) /\ TypesCompatible(Unwrap(vt), Unwrap(lt))
  ELSE IF IsNonNull(vt) THEN TypesCompatible(Unwrap(vt), lt)
  ELSE IF IsListTy(lt) THEN IsListTy(vt) /\ TypesCompatible(Unwrap(vt), Unwrap(lt))
  ELSE IF IsListTy(vt) THEN FALSE
  ELSE vt.n = lt.n

UsageAllowed(vd, u) ==
  IF IsNonNull(u.type) /\ ~IsNonNull(vd.type)
  THEN /\ (vd.def # Absent /\ vd.def # VNull) \/ u.locDef
       /\ TypesCompatible(vd.type, Unwrap(u.type))
  ELSE TypesCompatible(vd.type, u.type)

VariablesInAllowedPosition(S, doc) ==
  \A i \in DOMAIN doc.ops : \A u \in OpUsages(S, doc, doc.ops[i]) :
     \A j \in DOMAIN doc.ops[i].vars : doc.ops[i].vars[j].name = u.name => UsageAllowed(doc.ops[i].vars[j], u)

----------------------------------------------------------------------------
RuleNames == <<"UniqueOpNames", "LoneAnonymous", "SingleSubscriptionRoot", "FieldsOnCorrectType", "LeafSelections",
               "OverlappingFieldsCanBeMerged", "ArgumentsKnown", "ArgumentsUnique", "ArgumentsRequired", "ValuesOfCorrectType",
               "FragmentsWellFormed", "FragmentsAcyclic", "FragmentSpreadPossible", "DirectivesKnown", "DirectivesLocated",
               "DirectivesUniquePerLocation", "DirectivesArgsProvided", "VariablesUnique", "VariablesInputTyped",
               "VariablesDefined", "VariablesUsed", "VariablesInAllowedPosition">>

Rule(r, S, doc) ==
  CASE r = "UniqueOpNames" -> UniqueOpNames(S, doc)
    [] r = "LoneAnonymous" -> LoneAnonymous(S, doc)
    [] r = "SingleSubscriptionRoot" -> SingleSubscriptionRoot(S, doc)
    [] r = "FieldsOnCorrectType" -> FieldsOnCorrectType(S, doc)
    [] r = "LeafSelections" -> LeafSelections(S, doc)
    [] r = "OverlappingFieldsCanBeMerged" -> OverlappingFieldsCanBeMerged(S, doc)
    [] r = "ArgumentsKnown" -> ArgumentsKnown(S, doc)
    [] r = "ArgumentsUnique" -> ArgumentsUnique(S, doc)
    [] r = "ArgumentsRequired" -> ArgumentsRequired(S, doc)
    [] r = "ValuesOfCorrectType" -> ValuesOfCorrectType(S, doc)
    [] r = "FragmentsWellFormed" -> FragmentsWellFormed(S, doc)
    [] r = "FragmentsAcyclic" -> FragmentsAcyclic(S, doc)
    [] r = "FragmentSpreadPossible" -> FragmentSpreadPossible(S, doc)
    [] r = "DirectivesKnown" -> DirectivesKnown(S, doc)
    [] r = "DirectivesLocated" -> DirectivesLocated(S, doc)
    [] r = "DirectivesUniquePerLocation" -> DirectivesUniquePerLocation(S, doc)
    [] r = "DirectivesArgsProvided" -> DirectivesArgsProvided(S, doc)
    [] r = "VariablesUnique" -> VariablesUnique(S, doc)
    [] r = "VariablesInputTyped" -> VariablesInputTyped(S, doc)
    [] r = "VariablesDefined" -> VariablesDefined(S, doc)
    [] r = "VariablesUsed" -> VariablesUsed(S, doc)
    [] r = "VariablesInAllowedPosition" -> VariablesInAllowedPosition(S, doc)

\* names of the violated rules (empty = valid); doc is expected to be Reachable(d)
FailedRules(S, doc) == {RuleNames[i] : i \in {j \in DOMAIN RuleNames : ~Rule(RuleNames[j], S, doc)}}

\* there must be something to execute: an operation is selected and its root type exists
Executable(S, doc) == Len(doc.ops) > 0 /\ \A i \in DOMAIN doc.ops : RootType(S, doc.ops[i].op) # ""

SpecValid(S, doc) == Executable(S, doc) /\ FailedRules(S, doc) = {}
=============================================================================
