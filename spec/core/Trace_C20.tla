----------------------------- MODULE Trace_C20 -----------------------------
(***************************************************************************)
(* Validation of what the real gRPC datasource returned                     *)
(* (harness/cmd/grpc: grpcdatasource.NewDataSource(...).Load against        *)
(* grpctest.MockService) against the relations of GQLShape.                 *)
(* One NDJSON line = one observation [id, role, op, resp]:                  *)
(*   role "base"    a base operation and its answer                         *)
(*   role "variant" a reformulation of the last base (same lane)            *)
(*   role "xbase"   the same base in the other lane: compared with the last *)
(*                  base, then becomes the base of the variants that follow *)
(* One line is consumed per step; the invariants state the property for the *)
(* observation just consumed:                                               *)
(*   ShapeInv       the answer has exactly the shape of the selection       *)
(*   SelfInv        positions selected twice (duplicates under different    *)
(*                  response keys) carry the same value                     *)
(*   ConsistentInv  every position common to base and reformulation carries *)
(*                  the same value                                          *)
(*   ValueInv       every position the data universe (GQLShapeData) knows   *)
(*                  carries the service's value                             *)
(* Acceptance = every line consumed (high-water mark, as in Trace_SFI).     *)
(* Trace_C20_diag.cfg evaluates the same three error sets without stopping  *)
(* and prints the non-empty ones (used to report / classify violations).    *)
(***************************************************************************)
EXTENDS GQLShapeData, Json, TLCExt, IOUtils
TraceLog == ndJsonDeserialize(IOEnv.TRACE)
VARIABLES l, base, cmp, obs
tvars == <<l, base, cmp, obs>>

Nil == [id |-> "", role |-> "none", op |-> [kind |-> "query", dv |-> "", fed |-> <<>>, sel |-> <<>>],
        resp |-> JObj(<<"data">>, <<JObj(<<>>, <<>>)>>)]
Obs(line) == [id |-> line.id, role |-> line.role, op |-> line.op, resp |-> line.resp]

TraceInit == l = 1 /\ base = Nil /\ cmp = Nil /\ obs = Nil /\ TLCSet(1, 0)
TraceNext ==
  /\ l <= Len(TraceLog)
  /\ l' = l + 1
  /\ obs' = Obs(TraceLog[l])
  /\ cmp' = IF TraceLog[l].role = "base" THEN Obs(TraceLog[l]) ELSE base
  /\ base' = IF TraceLog[l].role \in {"base", "xbase"} THEN Obs(TraceLog[l]) ELSE base
TraceSpec == TraceInit /\ [][TraceNext]_tvars

ShapeE == RespErrs(obs.op, obs.resp)
SelfE  == AgreeErrs(obs.op, obs.resp, obs.op, obs.resp)
AgreeE == IF obs.role \in {"variant", "xbase"} THEN AgreeErrs(cmp.op, cmp.resp, obs.op, obs.resp) ELSE {}

DataE  == DataErrs(obs.op, obs.resp)

ShapeInv      == ShapeE = {}
ValueInv      == DataE = {}
SelfInv       == SelfE = {}
ConsistentInv == AgreeE = {}

HighWater == TLCSet(1, IF l > TLCGet(1) THEN l ELSE TLCGet(1))
TraceAccepted ==
  IF TLCGet(1) = Len(TraceLog) + 1 THEN TRUE
  ELSE /\ PrintT(<<"TRACE_STUCK_AT_LINE", TLCGet(1)>>)
       /\ FALSE

\* diagnostic mode: never stops, prints the error sets of every line that has any
Diag ==
  /\ HighWater
  /\ IF ShapeE = {} /\ SelfE = {} /\ AgreeE = {} /\ DataE = {} THEN TRUE
     ELSE PrintT(ToJson([line |-> l - 1, id |-> obs.id, against |-> cmp.id,
                         shape |-> ShapeE, self |-> SelfE, agree |-> AgreeE, data |-> DataE]))
=============================================================================
