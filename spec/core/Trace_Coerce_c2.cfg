CONSTANTS
  D = 2
  Wide = FALSE
  Cat = 2
SPECIFICATION TraceSpec
CONSTRAINT HighWater
INVARIANTS InvAccept InvNamesVar InvNamesPath InvNoEcho
POSTCONDITION TraceAccepted
CHECK_DEADLOCK FALSE
