CONSTANTS
  QueryNames <- QN_default
  Slots <- B_Slots
  DirSlots = {}
  FieldNames = {}
  ArgNames = {"a"}
  InputNames = {"y"}
  EnumVals = {"RED"}
  Scalars = {"Int", "String"}
  Wraps <- W_few
  Descs = {}
  Reasons <- R_both
  Urls = {}
  Features <- B_Features
  MaxSteps = 4
  ValDepth = 2
  Sampling = FALSE
  EmitSteps <- ES_all
SPECIFICATION GenSpec
INVARIANTS GenWF SpecRoundTrip Closed DeprecatedFilter Sensitive
CONSTRAINT EmitAt
VIEW GenView
CHECK_DEADLOCK FALSE
