------------------------------ MODULE Gen_C20 ------------------------------
(***************************************************************************)
(* Generator state machine for C20: states are (base operation, reformulated*)
(* operation) pairs over the products schema.                               *)
(*   phase "build"  : AddField / AddFrag grow a base operation field by     *)
(*                    field (every field is one the mapping covers, every   *)
(*                    argument comes from the field's argument pool)         *)
(*   Freeze         : the base is complete (every composite field has a     *)
(*                    selection)                                            *)
(*   phase "reform" : <= MaxReform steps of the reformulation relation of   *)
(*                    GQLShape (AddAlias, Reorder, Duplicate, Split,        *)
(*                    WrapSelf, ToNamed, Distribute, Subset)                *)
(* BFS enumerates every operation within the bounds and its complete orbit; *)
(* -simulate samples deeper ones.  Every visited reform state is printed    *)
(* once (GenSpec) as [base, op, steps, normOnly].                           *)
(* MC_C20 checks on the same state graph that the reformulations preserve   *)
(* shape and agreement under the reference executor.                        *)
(***************************************************************************)
EXTENDS GQLShape, Json
CONSTANTS MaxBuild,      \* fields added in the build phase (before completion)
          MaxReform,     \* reformulation steps
          MaxDepth,      \* nesting depth of selections below the root field
          MaxRoots,      \* root fields per operation
          RootFilter,    \* set of root field names to generate for, or {} for all
          FieldFilter,   \* set of non-root field names the generator may select, or {} for all
          MaxReval,      \* reuse lane: argument sets changed after Freeze (same text, other variables)
          Mut            \* "none", or the name of a deliberately broken reference executor (negative checks)
VARIABLES op, base, phase, steps, normOnly, nb
gvars == <<op, base, phase, steps, normOnly, nb>>

SeqToSet(s) == {s[i] : i \in DOMAIN s}
RootsOf(kind) == LET all == SeqToSet(IF kind = "mutation" THEN MutationRoots ELSE QueryRoots)
                 IN IF RootFilter = {} THEN all ELSE all \cap RootFilter
ArgSets(tn, fn) == IF fn \in HasArgs[tn] THEN SeqToSet(ArgPool[tn][fn]) ELSE {<<>>}
IsLeafField(tn, fn) == ~IsComposite(NamedOf(FType(tn, fn)))

\* paths of all selection lists that may receive a selection (including still empty ones)
RECURSIVE OpenPaths(_, _, _, _)
OpenPaths(tn, sel, prefix, d) ==
  {prefix} \cup
  (IF d = 0 THEN {} ELSE
   UNION { LET s == sel[i]
               ct == IF s.k = "f" THEN NamedOf(FType(tn, s.name)) ELSE s.on
           IN IF IsComposite(ct) THEN OpenPaths(ct, s.sel, Append(prefix, i), d - 1) ELSE {}
         : i \in DOMAIN sel })
BuildPaths == OpenPaths(RootType(op), op.sel, <<>>, MaxDepth + 1)
Incomplete == {p \in BuildPaths : Len(SelsAt(op.sel, p)) = 0}

NamesAt(p) == {SelsAt(op.sel, p)[i].name : i \in {k \in DOMAIN SelsAt(op.sel, p) : SelsAt(op.sel, p)[k].k = "f"}}
ArgsAt(p, fn) == {SelsAt(op.sel, p)[i].args : i \in {k \in DOMAIN SelsAt(op.sel, p) : SelsAt(op.sel, p)[k].k = "f" /\ SelsAt(op.sel, p)[k].name = fn}}
FragsAt(p) == {SelsAt(op.sel, p)[i].on : i \in {k \in DOMAIN SelsAt(op.sel, p) : SelsAt(op.sel, p)[k].k # "f"}}
HasEntities == \E i \in DOMAIN op.sel : op.sel[i].name = "_entities"

\* an entity fetch as the planner emits it: one fragment per representation type, each with __typename
EntityFrags == [k \in DOMAIN GenMembers["_Entity"] |-> Inline(GenMembers["_Entity"][k], <<Field("__typename", "", <<>>, <<>>)>>)]

Candidates(p) ==
  LET tn == TypeAt(op, p) IN
  IF Len(p) = 0 THEN RootsOf(op.kind)
  ELSE LET all == SeqToSet(GenFields[tn]) \cup (IF tn = "_Entity" THEN {} ELSE {"__typename"})
       IN IF FieldFilter = {} THEN all ELSE all \cap FieldFilter

Init ==
  /\ op \in {[kind |-> k, dv |-> "", fed |-> <<>>, sel |-> <<>>] : k \in {"query", "mutation"}}
  /\ base = op
  /\ phase = "build"
  /\ steps = <<>>
  /\ normOnly = FALSE
  /\ nb = 0

\* completing = the budget is used up; only what is needed to make the operation well-formed may be added
Completing == nb >= MaxBuild

AddField(p, fn, as) ==
  LET tn == TypeAt(op, p)
      L  == SelsAt(op.sel, p)
  IN
  /\ phase = "build"
  /\ p \in BuildPaths
  /\ as \in ArgSets(tn, fn)
  \* a field is selected once -- or again under an alias with DIFFERENT argument values (a: user(id: "1") b: user(id: "2"))
  /\ \/ fn \in Candidates(p) \ NamesAt(p)
     \/ /\ fn \in Candidates(p) \cap NamesAt(p) /\ fn \in HasArgs[tn] /\ fn # "_entities"
        /\ as \notin ArgsAt(p, fn) /\ CanAlias(op)
  /\ Len(p) = 0 => /\ Len(L) < MaxRoots
                   /\ fn = "_entities" => Len(L) = 0
                   /\ ~HasEntities
  /\ Len(p) > MaxDepth => IsLeafField(tn, fn)
  /\ fn \in RequiresFields[tn] => EntityZone(op, p) /\ Len(p) = 2
  /\ Completing => /\ Len(L) = 0
                   /\ Len(p) > 0
                   /\ IsLeafField(tn, fn)
                   /\ fn = "__typename" => ~\E g \in Candidates(p) \ {"__typename"} : IsLeafField(tn, g)
  /\ op' = [op EXCEPT !.sel = PutAt(op.sel, p, Append(L, Field(fn, IF fn \in NamesAt(p) THEN NextAlias(op) ELSE "", as,
                                                              IF fn = "_entities" THEN EntityFrags ELSE <<>>))),
                      !.fed = IF fn = "_entities" THEN EntityFed ELSE @]
  /\ nb' = nb + 1
  /\ UNCHANGED <<base, phase, steps, normOnly>>

AddFrag(p, m) ==
  LET tn == TypeAt(op, p)
      L  == SelsAt(op.sel, p)
  IN
  /\ phase = "build"
  /\ p \in BuildPaths /\ Len(p) > 0 /\ Len(p) <= MaxDepth
  /\ IsAbstract(tn) /\ tn # "_Entity"
  /\ m \in SeqToSet(GenMembers[tn]) \ FragsAt(p)
  /\ Completing => Len(L) = 0 /\ SeqToSet(GenFields[tn]) = {}
  /\ op' = [op EXCEPT !.sel = PutAt(op.sel, p, Append(L, Inline(m, <<>>)))]
  /\ nb' = nb + 1
  /\ UNCHANGED <<base, phase, steps, normOnly>>

Freeze ==
  /\ phase = "build"
  /\ WellFormed(op)
  /\ phase' = "reform"
  /\ base' = op
  /\ UNCHANGED <<op, steps, normOnly, nb>>

Step(name, p, i, new, no) ==
  /\ op' = new
  /\ steps' = Append(steps, [a |-> name, p |-> p, i |-> i])
  /\ normOnly' = (normOnly \/ no \/ SameKeyDiffer(new.sel) \/ SameOnSiblings(new.sel))
  /\ UNCHANGED <<base, phase, nb>>

\* reuse lane: after Freeze the same operation with other argument values (a chain of <= MaxReval changes)
IsReval == Len(steps) > 0 /\ steps[1].a = "Revalue"
Revalue ==
  /\ phase = "reform"
  /\ Len(steps) < MaxReval
  /\ Len(steps) = 0 \/ IsReval
  /\ \E p \in Paths(op) : \E i \in DOMAIN SelsAt(op.sel, p) :
       LET tn == TypeAt(op, p)
           f  == SelsAt(op.sel, p)[i]
       IN /\ f.k = "f" /\ Len(f.args) > 0
          /\ \E as \in ArgSets(tn, f.name) : E_Revalue(op, p, i, as) /\ Step("Revalue", p, i, R_Revalue(op, p, i, as), FALSE)

Reform ==
  /\ phase = "reform"
  /\ ~IsReval
  /\ Len(steps) < MaxReform
  /\ \E p \in Paths(op) : \E i \in DOMAIN SelsAt(op.sel, p) :
       \/ E_AddAlias(op, p, i)   /\ Step("AddAlias", p, i, R_AddAlias(op, p, i), FALSE)
       \/ E_Reorder(op, p, i)    /\ Step("Reorder", p, i, R_Reorder(op, p, i), FALSE)
       \/ E_Duplicate(op, p, i)  /\ Step("Duplicate", p, i, R_Duplicate(op, p, i), FALSE)
       \/ E_Split(op, p, i)      /\ Step("Split", p, i, R_Split(op, p, i), SplitNormOnly(op, p, i))
       \/ E_WrapSelf(op, p, i)   /\ Step("WrapSelf", p, i, R_WrapSelf(op, p, i), WrapSelfNormOnly(op, p, i))
       \/ E_WrapSelf(op, p, i)   /\ Step("ToNamed", p, i, R_ToNamed(op, p, i), TRUE)
       \/ E_Distribute(op, p, i) /\ Step("Distribute", p, i, R_Distribute(op, p, i), InFragment(op, p))
       \/ E_Subset(op, p, i)     /\ Step("Subset", p, i, R_Subset(op, p, i), FALSE)

Next ==
  \/ \E p \in BuildPaths : \E fn \in Candidates(p) : \E as \in ArgSets(TypeAt(op, p), fn) : AddField(p, fn, as)
  \/ \E p \in BuildPaths : \E m \in SeqToSet(GenMembers[TypeAt(op, p)]) : AddFrag(p, m)
  \/ Freeze
  \/ Reform
  \/ Revalue
Spec == Init /\ [][Next]_gvars

\* ----- emission: one line per *visited* reform state.  The print is a conjunct of the next-state relation, so it
\* is evaluated when the successors of a state are computed: once per distinct state in BFS, and only for the
\* states on the walk in -simulate (a CONSTRAINT would also fire for every successor the simulator merely looks at).
EmitCur == IF phase = "reform" /\ Len(steps) >= 1
           THEN PrintT(ToJson([base |-> base, op |-> op, steps |-> steps, normOnly |-> normOnly]))
           ELSE TRUE
GenSpec == Init /\ [][EmitCur /\ Next]_gvars

\* ----- MC_C20: the relations are satisfiable and every reformulation preserves them (reference executor)
RefOK ==
  phase = "reform" /\ ~IsReval =>
    LET rb == RefExec(base, Mut)
        rv == RefExec(op, Mut)
    IN /\ RespErrs(base, rb) = {}
       /\ RespErrs(op, rv) = {}
       /\ AgreeErrs(base, rb, op, rv) = {}
       /\ AgreeErrs(op, rv, op, rv) = {}
WellFormedInv == phase = "reform" => WellFormed(op) /\ WellFormed(base)
=============================================================================
