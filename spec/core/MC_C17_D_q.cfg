CONSTANTS
  QueryNames <- QN_default
  Slots <- D_Slots
  DirSlots = {}
  FieldNames = {}
  ArgNames = {}
  InputNames = {}
  EnumVals = {}
  Scalars = {"String"}
  Wraps <- W_few
  Descs = {}
  Reasons = {}
  Urls = {}
  Features <- D_Features
  MaxSteps = 5
  ValDepth = 1
  Sampling = FALSE
  EmitSteps <- ES_all
SPECIFICATION GenSpec
INVARIANTS GenWF SpecRoundTrip Closed DeprecatedFilter Sensitive
CONSTRAINT EmitAt
VIEW GenView
CHECK_DEADLOCK FALSE
