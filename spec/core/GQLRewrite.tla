------------------------------ MODULE GQLRewrite ------------------------------
(* Meaning-preserving rewrites of an operation.  Rewrites(S, doc, vars) is   *)
(* the set of [kind, canon, doc, vars] reachable in one step.                *)
(*                                                                           *)
(* Checked by TLC (MC_GQLRewrite): every step keeps the operation valid and  *)
(* Exec(S, D, doc', vars') = Exec(S, D, doc, vars) on every probe universe - *)
(* so an orbit of rewrites is an equivalence class of the reference          *)
(* semantics.                                                                *)
(* canon = TRUE marks the differences the property names for the canonical   *)
(* printed form (C03): fragment structure (named fragment <-> inline         *)
(* fragment <-> flattened), duplicated fields, variable names, literal       *)
(* versus variable arguments.  Reordering selections preserves the response  *)
(* (as a JSON value) but not the printed form: canon = FALSE.                *)
EXTENDS GQLMutate, GQLExec

RW(kind, canon, doc, vars) == [kind |-> kind, canon |-> canon, doc |-> doc, vars |-> vars]

FreshFrag(doc) == CHOOSE n \in {"Rw1", "Rw2", "Rw3", "Rw4", "Rw5"} : n \notin FragNames(doc)
AllVarNames(doc) == UNION {{doc.ops[i].vars[j].name : j \in DOMAIN doc.ops[i].vars} : i \in DOMAIN doc.ops}
FreshVar(doc) == CHOOSE n \in {"lv1", "lv2", "lv3", "lv4", "lv5"} : n \notin AllVarNames(doc)

DropUnreachableFrags(doc) ==
  LET names == UNION {ReachableFragNames(doc, doc.ops[i].sel) : i \in DOMAIN doc.ops}
  IN [doc EXCEPT !.frags = SelectSeq(@, LAMBDA f : f.name \in names)]

----------------------------------------------------------------------------
\* fragment structure
RwInlineToSpread(S, doc, vars) ==
  {LET fname == FreshFrag(doc)
       on == IF x.s.on = "" THEN x.T ELSE x.s.on
   IN RW("InlineToSpread", TRUE,
         [EditSel(doc, x, <<dSprD(fname, x.s.dirs)>>) EXCEPT !.frags = Append(@, dFrag(fname, on, x.s.sel))], vars)
   : x \in {y \in SelSites(S, doc) : y.s.k = "inline" /\ IsComposite(S, y.T)}}

RwSpreadToInline(S, doc, vars) ==
  {LET fr == FragByName(doc, x.s.name)
   IN RW("SpreadToInline", TRUE, DropUnreachableFrags(EditSel(doc, x, <<dInlD(fr.on, x.s.dirs, fr.sel)>>)), vars)
   : x \in {y \in SelSites(S, doc) : y.s.k = "spread" /\ HasFrag(doc, y.s.name)}}

RwFlatten(S, doc, vars) ==
  {RW("Flatten", TRUE, EditSel(doc, x, x.s.sel), vars)
   : x \in {y \in SelSites(S, doc) : y.s.k = "inline" /\ y.s.dirs = <<>> /\ (y.s.on = "" \/ y.s.on = y.T)}}

RwWrap(S, doc, vars) ==
  UNION {{RW("Wrap", TRUE, EditSel(doc, x, <<dInl(x.T, <<x.s>>)>>), vars),
          RW("Wrap", TRUE, EditSel(doc, x, <<dInl("", <<x.s>>)>>), vars)}
         : x \in {y \in SelSites(S, doc) : IsComposite(S, y.T)}}

\* second family: inline fragments on one type.  One inline fragment with two or more selections written as two adjacent
\* fragments (same type condition, same directives) that select the two halves - and back: two ADJACENT inline fragments with
\* the same type condition and directives merged into one.
RwSplitInline(S, doc, vars) ==
  UNION {{LET f == y.sel[i]
          IN RW("SplitInline", TRUE,
                EditSet(doc, y, ReplaceAt(y.sel, i, <<[f EXCEPT !.sel = SubSeq(f.sel, 1, 1)], [f EXCEPT !.sel = SubSeq(f.sel, 2, Len(f.sel))]>>)), vars)
          : i \in {j \in DOMAIN y.sel : y.sel[j].k = "inline" /\ Len(y.sel[j].sel) >= 2}}
         : y \in SetSites(S, doc)}
RwMergeInline(S, doc, vars) ==
  UNION {{RW("MergeInline", TRUE,
             EditSet(doc, y, ReplaceAt(RemoveAt(y.sel, i + 1), i, <<[y.sel[i] EXCEPT !.sel = @ \o y.sel[i + 1].sel]>>)), vars)
          : i \in {j \in 1..(Len(y.sel) - 1) : y.sel[j].k = "inline" /\ y.sel[j + 1].k = "inline" /\ y.sel[j].on = y.sel[j + 1].on
                                                 /\ y.sel[j].dirs = y.sel[j + 1].dirs}}
         : y \in SetSites(S, doc)}

\* type-case distribution: a field selected on an interface-typed position is selected once inside an inline fragment per
\* possible object type instead (exactly one of them applies at run time).  Same response, different printed form.
RwDistribute(S, doc, vars) ==
  {LET pts == SetToSeq(PossibleTypes(S, x.T))
   IN RW("Distribute", FALSE, EditSel(doc, x, [i \in DOMAIN pts |-> dInl(pts[i], <<x.s>>)]), vars)
   \* only where every implementation declares the field with the interface's type (else the copies cannot be merged, 5.3.2)
   : x \in {y \in FieldSites(S, doc) : TypeKind(S, y.T) = "INTERFACE" /\ PossibleTypes(S, y.T) # {} /\ HasField(S, y.T, y.s.name)
                                         /\ \A o \in PossibleTypes(S, y.T) : FieldDef(S, o, y.s.name).type = FieldDef(S, y.T, y.s.name).type}}

----------------------------------------------------------------------------
\* duplicated fields: a copy after the original (at the end of the set, or right behind it)
RwDupField(S, doc, vars) ==
  UNION {UNION {{RW("DupField", TRUE, EditSet(doc, y, Append(y.sel, y.sel[i])), vars),
                 RW("DupField", TRUE, EditSet(doc, y, InsertAt(y.sel, i + 1, y.sel[i])), vars)}
                : i \in {j \in DOMAIN y.sel : y.sel[j].k = "field"}}
         : y \in SetSites(S, doc)}

\* one field with sub-selections written as two fields that select the two halves
RwSplitField(S, doc, vars) ==
  UNION {{LET f == y.sel[i]
          IN RW("SplitField", TRUE,
                EditSet(doc, y, ReplaceAt(y.sel, i, <<[f EXCEPT !.sel = SubSeq(f.sel, 1, 1)], [f EXCEPT !.sel = SubSeq(f.sel, 2, Len(f.sel))]>>)), vars)
          : i \in {j \in DOMAIN y.sel : y.sel[j].k = "field" /\ Len(y.sel[j].sel) >= 2}}
         : y \in SetSites(S, doc)}

\* adjacent selections swapped: same response as a JSON value, different printed form
RwReorder(S, doc, vars) ==
  UNION {{RW("Reorder", FALSE, EditSet(doc, y, [y.sel EXCEPT ![i] = y.sel[i + 1], ![i + 1] = y.sel[i]]), vars)
          : i \in 1..(Len(y.sel) - 1)}
         : y \in SetSites(S, doc)}

----------------------------------------------------------------------------
\* variable names
RenameArgs(args, old, new) == [i \in DOMAIN args |-> [args[i] EXCEPT !.value = RenameInValue(@, old, new)]]
RenameDirs(dirs, old, new) == [i \in DOMAIN dirs |-> [dirs[i] EXCEPT !.args = RenameArgs(@, old, new)]]
RECURSIVE RenameSel(_, _, _)
RenameSel(sel, old, new) ==
  [i \in DOMAIN sel |-> [sel[i] EXCEPT !.args = RenameArgs(@, old, new), !.dirs = RenameDirs(@, old, new), !.sel = RenameSel(@, old, new)]]

RwRenameVar(S, doc, vars) ==
  {LET old == doc.ops[ij[1]].vars[ij[2]].name
       new == "r" \o old
   IN RW("RenameVar", TRUE,
         [doc EXCEPT !.ops = [i \in DOMAIN doc.ops |->
                                [doc.ops[i] EXCEPT !.vars = [j \in DOMAIN @ |-> IF @[j].name = old THEN [@[j] EXCEPT !.name = new] ELSE @[j]],
                                                   !.dirs = RenameDirs(@, old, new), !.sel = RenameSel(@, old, new)]],
                     !.frags = [i \in DOMAIN doc.frags |-> [doc.frags[i] EXCEPT !.dirs = RenameDirs(@, old, new), !.sel = RenameSel(@, old, new)]]],
         [i \in DOMAIN vars |-> IF vars[i].name = old THEN [vars[i] EXCEPT !.name = new] ELSE vars[i]])
   : ij \in {x \in VarIdx(doc) : ("r" \o doc.ops[x[1]].vars[x[2]].name) \notin AllVarNames(doc)}}

----------------------------------------------------------------------------
\* literal argument -> variable: a literal (without variables inside) given for a field argument of the operation becomes a
\* new variable of the argument's declared type whose request value is the JSON form of the literal
RECURSIVE LitToJSON(_)
LitToJSON(v) ==
  CASE v.t = "e" -> VS(v.e)
    [] v.t = "l" -> VL([i \in DOMAIN v.l |-> LitToJSON(v.l[i])])
    [] v.t = "o" -> VO(v.k, [i \in DOMAIN v.o |-> LitToJSON(v.o[i])])
    [] OTHER -> v

RwLitToVar(S, doc, vars) ==
  UNION {UNION {LET d == FieldDef(S, x.T, x.s.name)
                    a == x.s.args[i]
                    nv == FreshVar(doc)
                    d1 == EditSel(doc, x, <<[x.s EXCEPT !.args[i].value = VVar(nv)]>>)
                IN {RW("LitToVar", TRUE, [d1 EXCEPT !.ops[x.r[2]].vars = Append(@, dVar(nv, d.args[a.name].type, Absent))],
                       Append(vars, [name |-> nv, value |-> LitToJSON(a.value)]))}
                : i \in {j \in DOMAIN x.s.args : VarsInValue(x.s.args[j].value) = {} /\ x.s.args[j].name \in DOMAIN FieldDef(S, x.T, x.s.name).args}}
         : x \in {y \in FieldSites(S, doc) : y.r[1] = "op"}}

----------------------------------------------------------------------------
RewriteKinds == <<"InlineToSpread", "SpreadToInline", "Flatten", "Wrap", "DupField", "SplitField", "RenameVar", "LitToVar", "Reorder",
                  "SplitInline", "MergeInline", "Distribute">>

RewritesOfKind(kind, S, doc, vars) ==
  CASE kind = "InlineToSpread" -> RwInlineToSpread(S, doc, vars)
    [] kind = "SpreadToInline" -> RwSpreadToInline(S, doc, vars)
    [] kind = "Flatten" -> RwFlatten(S, doc, vars)
    [] kind = "Wrap" -> RwWrap(S, doc, vars)
    [] kind = "DupField" -> RwDupField(S, doc, vars)
    [] kind = "SplitField" -> RwSplitField(S, doc, vars)
    [] kind = "RenameVar" -> RwRenameVar(S, doc, vars)
    [] kind = "LitToVar" -> RwLitToVar(S, doc, vars)
    [] kind = "Reorder" -> RwReorder(S, doc, vars)
    [] kind = "SplitInline" -> RwSplitInline(S, doc, vars)
    [] kind = "MergeInline" -> RwMergeInline(S, doc, vars)
    [] kind = "Distribute" -> RwDistribute(S, doc, vars)

Rewrites(S, doc, vars) == UNION {RewritesOfKind(RewriteKinds[i], S, doc, vars) : i \in DOMAIN RewriteKinds}

\* the theorem TLC checks: a rewrite step preserves validity and the response on every probe universe
StepPreservesMeaning(S, doc, vars, rw) ==
  /\ SpecValid(S, Reachable(rw.doc))
  /\ \A u \in DOMAIN Probe(S) : Exec(S, Probe(S)[u], rw.doc, rw.vars) = Exec(S, Probe(S)[u], doc, vars)
=============================================================================
