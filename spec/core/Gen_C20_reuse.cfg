CONSTANTS
  MaxBuild = 4
  MaxReform = 0
  MaxDepth = 3
  MaxRoots = 1
  RootFilter = {"blogPostById", "categories"}
  FieldFilter = {"id", "relatedCategories", "categoryMetrics", "averageScore", "relatedCategory", "totalProducts"}
  MaxReval = 2
  Mut = "none"
SPECIFICATION GenSpec

CHECK_DEADLOCK FALSE
