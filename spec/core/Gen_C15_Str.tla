---------------------------- MODULE Gen_C15_Str ----------------------------
(* Generator + model check for the string stratum of C15: every string of   *)
(* length <= MaxLen over Alphabet is a candidate *spelling*; for each one    *)
(* the grammar of GQLLiteral decides whether it is an ordinary StringValue,  *)
(* the raw content of a block string, a JSON string; the state graph (a trie)*)
(* is the test suite.  Each accepted spelling is printed with the values it  *)
(* denotes and with the JSON spelling of those values (the "twin").          *)
(* The invariants are theorems about the literal model itself (model check). *)
EXTENDS GQLLiteral, Json
CONSTANTS MaxLen, Alphabet, Seeds
VARIABLES s, n    \* the spelling and the number of characters appended to its seed
\* seeds: the empty string (exhaustive enumeration up to MaxLen) / a catalogue of longer hand-picked spellings
SeedsAll == {<<>>}
SeedsAstral == {<<>>, <<92, 117, 68, 56, 51, 68, 92, 117, 68, 69, 48, 48>>, <<92, 117, 100, 56, 51, 100, 92, 117, 100, 101, 48, 48>>, <<92, 117, 68, 56, 51, 68>>, <<92, 117, 68, 69, 48, 48>>, <<92, 117, 68, 69, 48, 48, 92, 117, 68, 56, 51, 68>>}
SeedsCat == {
  <<97, 92, 117, 123, 49, 70, 54, 48, 48, 125, 98>>,   \* a\\u{1F600}b
  <<92, 117, 68, 56, 51, 68, 92, 117, 68, 69, 48, 48>>,   \* \\uD83D\\uDE00
  <<92, 117, 123, 49, 48, 70, 70, 70, 70, 125>>,   \* \\u{10FFFF}
  <<92, 117, 123, 48, 48, 52, 49, 125, 92, 117, 48, 48, 52, 49>>,   \* \\u{0041}\\u0041
  <<120, 32, 92, 34, 34, 34, 32, 121>>,   \* x \\""" y
  <<92, 34, 34, 34>>,   \* \\"""
  <<97, 13, 10, 32, 32, 98, 13, 10, 32, 32, 99>>,   \* a\r\n  b\r\n  c
  <<10, 9, 97, 10, 9, 9, 98, 10, 9>>,   \* \n\ta\n\t\tb\n\t
  <<32, 32, 97, 10, 32, 98, 10, 32, 32, 32, 99, 10>>,   \*   a\n b\n   c\n
  <<10, 10, 32, 97, 32, 10, 10, 32, 98, 10, 10>>,   \* \n\n a \n\n b\n\n
  <<97, 92, 110, 98, 92, 92, 99>>,   \* a\\nb\\\\c
  <<97, 32, 34, 113, 117, 111, 116, 101, 100, 34, 32, 98>>,   \* a "quoted" b
  <<34, 34, 120>>,   \* ""x
  <<113, 32, 34, 32>>,   \* q " 
  <<92, 92>>,   \* \\\\
  <<92, 117, 48, 48, 101, 57, 233, 128512>>,   \* \\u00e9\xe9\U0001f600
  <<92, 98, 92, 102, 92, 114, 92, 116, 92, 47>>,   \* \\b\\f\\r\\t\\/
  <<116, 97, 98, 9, 104, 101, 114, 101>>,   \* tab\there
  <<32, 10, 32, 10>>,   \*  \n \n
  <<97, 92>>,   \* a\\
  <<92, 32, 97>>,   \* \\ a
  <<34, 97>>,   \* "a
  <<97, 10, 34, 98, 34, 10>>   \* a\n"b"\n
  }
GenInit == s \in Seeds /\ n = 0
GenNext == n < MaxLen /\ n' = n + 1 /\ \E c \in Alphabet : s' = Append(s, c)
\* Seeds = {<<>>}: all strings up to MaxLen; a catalogue of longer hand-picked spellings uses Seeds = {...}, MaxLen = 0;
\* SeedsAstral: escaped surrogates (pair, halves, reversed pair) each extended by up to MaxLen characters
GenSpec == GenInit /\ [][GenNext]_<<s, n>>

ord == OrdAccepts(s)
blk == BlockAccepts(s)
js == JsonAccepts(s)
dOrd == IF ord THEN StrValue(s, FALSE) ELSE <<>>
dBlk == IF blk THEN BlockValue(s) ELSE <<>>

Emit == IF ord \/ blk \/ js
        THEN PrintT(ToJson([text |-> s, ord |-> ord, blk |-> blk, js |-> js,
                            dord |-> dOrd, dblk |-> dBlk,
                            tword |-> JsonSpell(dOrd, 1, <<>>), twblk |-> JsonSpell(dBlk, 1, <<>>)]))
        ELSE TRUE
GenConstraint == Emit

\* ---- theorems about the model (checked on every spelling)
\* the JSON string grammar is a sub-grammar of StringValue with the same meaning
JsonIsSubGrammar == js => ord /\ StrValue(s, TRUE) = StrValue(s, FALSE)
\* JsonSpell is a right inverse of the JSON string semantics: the twin denotes the same value
TwinDenotesSame == /\ ord => JsonAccepts(JsonSpell(dOrd, 1, <<>>)) /\ StrValue(JsonSpell(dOrd, 1, <<>>), TRUE) = dOrd
                   /\ blk => JsonAccepts(JsonSpell(dBlk, 1, <<>>)) /\ StrValue(JsonSpell(dBlk, 1, <<>>), TRUE) = dBlk
\* a spelling without backslash, quote, line terminator denotes itself as an ordinary string
PlainDenotesItself == (\A i \in 1..Len(s) : s[i] \notin {BSL, QUOTE, LF, CR}) => ord /\ dOrd = s
\* block strings: the value never starts or ends with a blank line, and a text without
\* line terminators / escapes / outer whitespace denotes itself
BlockNoBlankEdges == blk /\ Len(dBlk) > 0 =>
                       LET ls == SplitLines(dBlk, 1, <<>>, <<>>) IN ~Blank(ls[1]) /\ ~Blank(ls[Len(ls)])
BlockPlainDenotesItself == blk /\ (\A i \in 1..Len(s) : s[i] \notin {BSL, LF, CR}) /\ ~Blank(s) => dBlk = s
BlockBlankIsEmpty == blk /\ (\A i \in 1..Len(s) : IsWS(s[i]) \/ s[i] = LF) => dBlk = <<>>
=============================================================================
