CONSTANTS
  Depth = 1
  Stride = 3
  Offset = 1
SPECIFICATION Spec
INVARIANTS Valid SameMeaning Distinguishes
CHECK_DEADLOCK FALSE
