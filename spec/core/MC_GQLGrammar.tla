---------------------------- MODULE MC_GQLGrammar ----------------------------
(* Model checking of the document generator and of the token-accounting      *)
(* model of TokenizeWithLimits against the real depth / field count.         *)
EXTENDS GQLGrammar
=============================================================================
