CONSTANTS
  Pools = "rich"
  Sim = FALSE
  MaxCost = 0
  MaxDefs = 0
  MaxNest = 0
  MaxSel = 0
  MaxArgs = 0
  MaxDirs = 0
  MaxVars = 0
SPECIFICATION TraceSpec
CONSTRAINT HighWater
INVARIANTS LimitsSound ParseAgrees PrintPreservesValue DecisionConforms StatsConform
POSTCONDITION TraceAccepted
CHECK_DEADLOCK FALSE
