SPECIFICATION TraceSpec
CONSTRAINT HighWater
INVARIANTS ShapeInv SelfInv ConsistentInv ValueInv
POSTCONDITION TraceAccepted
CHECK_DEADLOCK FALSE
