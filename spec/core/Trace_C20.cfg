SPECIFICATION TraceSpec
CONSTRAINT HighWater
INVARIANTS ShapeInv SelfInv ConsistentInv
POSTCONDITION TraceAccepted
CHECK_DEADLOCK FALSE
