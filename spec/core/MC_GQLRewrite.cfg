CONSTANTS
  Depth = 1
  Stride = 1
  Offset = 0
SPECIFICATION Spec
INVARIANTS Valid SameMeaning Distinguishes
CHECK_DEADLOCK FALSE
