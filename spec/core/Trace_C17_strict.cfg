SPECIFICATION TraceSpec
CONSTRAINT HighWater
INVARIANT Conforms
POSTCONDITION TraceAccepted
CHECK_DEADLOCK FALSE
