CONSTANTS
  Pools = "rich"
  Sim = TRUE
  MaxCost = 12
  MaxDefs = 4
  MaxNest = 3
  MaxSel = 3
  MaxArgs = 1
  MaxDirs = 1
  MaxVars = 1
SPECIFICATION MSpec
CONSTRAINT GenMixedConstraint
CHECK_DEADLOCK FALSE
