---------------------------- MODULE Gen_GQLGrammar ----------------------------
(* Generator: every completed document of GQLGrammar (BFS: all documents up   *)
(* to the bounds; -simulate: random documents from the full pools) is printed *)
(* once as JSON together with the numbers the specification computes for it:  *)
(* real depth (syntactic and with fragment spreads followed), field count,    *)
(* the (L, F) pairs with which ParseWithLimits is to be exercised, the number *)
(* of token-level mutants, and what the accounting model predicts.            *)
EXTENDS GQLGrammar, Json
EmitDoc ==
  IF Done
  THEN PrintT(ToJson([toks |-> toks, text |-> Text(toks), depth |-> Depth(toks), idepth |-> InlinedDepth(toks),
                      fields |-> FieldCount(toks), lims |-> LimitPairs(toks), nmut |-> NMut(toks),
                      implF |-> ImplFields(toks, FALSE), implD |-> ImplDepthMax(toks, FALSE),
                      implFx |-> ImplFields(toks, TRUE), implDx |-> ImplDepthMax(toks, TRUE), implTx |-> ImplTotalDepth(toks, TRUE)]))
  ELSE TRUE
GenConstraint == EmitDoc
\* constants of the specification that direct the driver's bounded enumeration and deep-nesting inputs
EmitConst == PrintT(ToJson([alphabet |-> Alphabet, deep |-> DeepFamilies, softkw |-> SoftKeywords, opkw |-> OpKeywords]))
ConstInit == GInit /\ EmitConst
ConstSpec == ConstInit /\ [][FALSE]_gvars
=============================================================================
