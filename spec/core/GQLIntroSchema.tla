--------------------------- MODULE GQLIntroSchema ---------------------------
(* Type-system documents ("schemas") as TLA+ values for property C17.            *)
(*                                                                              *)
(* This is C17's OWN schema representation (it carries what introspection must  *)
(* describe: descriptions, default values, deprecations, directive definitions, *)
(* root type names); GQLSchema.tla of the execution properties is a different   *)
(* module.  Everything here is constant-level: record shapes, the built-ins the *)
(* base schema adds, well-formedness WF(S) (GraphQL spec, section 3, type       *)
(* system validation) and the pool of type-correct default values.              *)
(*                                                                              *)
(* All collections are SEQUENCES (they survive ToJson -> Go -> ndJsonDeserialize *)
(* unchanged); no operator here builds a set of records or of tagged values     *)
(* (TLC cannot compare values of different shapes) - only sets of strings.      *)
(*                                                                              *)
(* S  = [desc, sd, query, mutation, subscription, types, dirs]                  *)
(*        sd = the SDL carries an explicit `schema {..}` definition; ""=absent  *)
(* T  = [name, kind, desc, fields, ifaces, members, values, inputs, url, tags,  *)
(*       ext]   ext = how many trailing fields / values / input fields / members *)
(*       (scalar: its directives) are DECLARED IN A TYPE EXTENSION (`extend type *)
(*       T {..}` at the end of the document); the type system is the merged one *)
(* S also has stags (directives applied to the schema definition) and xroots    *)
(*       (mutation / subscription roots declared in `extend schema {..}`)       *)
(* F  = [name, desc, type, args, dep, tags]     tags = applied custom directives*)
(* IV = [name, desc, type, def, dep, tags]      arguments and input fields      *)
(* EV = [name, desc, dep, tags]                 (tags: type-system directive    *)
(*      applications; invisible to introspection, must not disturb it)          *)
(* D  = [name, desc, locs, rep, args]                                           *)
(* Ref= [name, w]   w = wrappers outermost first, "L" list / "N" non-null:       *)
(*                  [[T!]]!  =  [name |-> "T", w |-> <<"N","L","L","N">>]         *)
(* Dep= [d, hr, r]  d deprecated, hr an explicit reason was given, r the reason  *)
(* V  = tagged GraphQL const value: [t|->"x"] no default, [t|->"n"] null,        *)
(*      "i" int, "f" float (v is the text), "s" string, "b" bool, "e" enum,      *)
(*      "l" list (v = sequence), "o" object (k = keys, v = values)              *)
EXTENDS Integers, Sequences, FiniteSets, TLC

Range(s) == {s[i] : i \in DOMAIN s}
NoDup(s) == Cardinality(Range(s)) = Len(s)
MapSeq(s, Op(_)) == IF Len(s) = 0 THEN <<>> ELSE [i \in 1..Len(s) |-> Op(s[i])]
Idx(s) == IF Len(s) = 0 THEN <<>> ELSE [i \in 1..Len(s) |-> i]
NameSet(s) == {s[i].name : i \in DOMAIN s}
NameSeq(s) == MapSeq(s, LAMBDA x : x.name)
Has(s, nm) == \E i \in DOMAIN s : s[i].name = nm
Find(s, nm) == s[CHOOSE i \in DOMAIN s : s[i].name = nm]
Replace(s, nm, x) == [i \in 1..Len(s) |-> IF s[i].name = nm THEN x ELSE s[i]]

NoVal == [t |-> "x"]
NullVal == [t |-> "n"]
NoDep == [d |-> FALSE, hr |-> FALSE, r |-> ""]
DefaultReason == "No longer supported"
Ref(nm, w) == [name |-> nm, w |-> w]
InputVal(nm, ref, def) == [name |-> nm, desc |-> "", type |-> ref, def |-> def, dep |-> NoDep, tags |-> <<>>]
Field(nm, ref) == [name |-> nm, desc |-> "", type |-> ref, args |-> <<>>, dep |-> NoDep, tags |-> <<>>]
EnumVal(nm) == [name |-> nm, desc |-> "", dep |-> NoDep, tags |-> <<>>]
TypeDef(nm, kind) == [name |-> nm, kind |-> kind, desc |-> "", fields |-> <<>>, ifaces |-> <<>>,
                      members |-> <<>>, values |-> <<>>, inputs |-> <<>>, url |-> "", tags |-> <<>>, ext |-> 0]
DirDef(nm, locs, rep) == [name |-> nm, desc |-> "", locs |-> locs, rep |-> rep, args |-> <<>>]

\* ------------------------------------------------------------------ built-ins
BuiltinScalars == {"Int", "Float", "String", "Boolean", "ID"}
\* introspection meta types: a server may or may not list them in __schema.types (not compared)
MetaTypeNames == {"__Schema", "__Type", "__Field", "__InputValue", "__EnumValue", "__Directive",
                  "__TypeKind", "__DirectiveLocation"}
ExecutableLocs == {"QUERY", "MUTATION", "SUBSCRIPTION", "FIELD", "FRAGMENT_DEFINITION", "FRAGMENT_SPREAD",
                   "INLINE_FRAGMENT", "VARIABLE_DEFINITION"}
TypeSystemLocs == {"SCHEMA", "SCALAR", "OBJECT", "FIELD_DEFINITION", "ARGUMENT_DEFINITION", "INTERFACE", "UNION",
                   "ENUM", "ENUM_VALUE", "INPUT_OBJECT", "INPUT_FIELD_DEFINITION"}
AllLocs == ExecutableLocs \cup TypeSystemLocs

\* what asttransform/base.graphql merges into every configured schema (descriptions are not modelled)
BaseTypes == <<TypeDef("Int", "SCALAR"), TypeDef("Float", "SCALAR"), TypeDef("String", "SCALAR"),
               TypeDef("Boolean", "SCALAR"), TypeDef("ID", "SCALAR")>>
BaseDirs ==
  << [DirDef("include", <<"FIELD", "FRAGMENT_SPREAD", "INLINE_FRAGMENT">>, FALSE)
        EXCEPT !.args = <<InputVal("if", Ref("Boolean", <<"N">>), NoVal)>>],
     [DirDef("skip", <<"FIELD", "FRAGMENT_SPREAD", "INLINE_FRAGMENT">>, FALSE)
        EXCEPT !.args = <<InputVal("if", Ref("Boolean", <<"N">>), NoVal)>>],
     [DirDef("deprecated", <<"FIELD_DEFINITION", "ARGUMENT_DEFINITION", "INPUT_FIELD_DEFINITION", "ENUM_VALUE">>, FALSE)
        EXCEPT !.args = <<InputVal("reason", Ref("String", <<>>), [t |-> "s", v |-> DefaultReason])>>],
     [DirDef("specifiedBy", <<"SCALAR">>, FALSE)
        EXCEPT !.args = <<InputVal("url", Ref("String", <<"N">>), NoVal)>>],
     DirDef("oneOf", <<"INPUT_OBJECT">>, FALSE),
     [DirDef("defer", <<"FRAGMENT_SPREAD", "INLINE_FRAGMENT">>, FALSE)
        EXCEPT !.args = <<InputVal("label", Ref("String", <<>>), NoVal),
                          InputVal("if", Ref("Boolean", <<"N">>), [t |-> "b", v |-> TRUE])>>] >>
BuiltinDirNames == {"include", "skip", "deprecated", "specifiedBy", "oneOf", "defer"}
\* the configured schema = the user's document + the base schema
Full(S) == [S EXCEPT !.types = S.types \o BaseTypes, !.dirs = S.dirs \o BaseDirs]

\* ------------------------------------------------------------------ lookups
KindOf(S, nm) == IF Has(S.types, nm) THEN Find(S.types, nm).kind
                 ELSE IF nm \in BuiltinScalars THEN "SCALAR" ELSE "<unknown>"
OutputKinds == {"SCALAR", "OBJECT", "INTERFACE", "UNION", "ENUM"}
InputKinds == {"SCALAR", "ENUM", "INPUT_OBJECT"}
\* (IF, not \/ : TLC splits a disjunction that appears as a conjunct of an action and would evaluate w[1] on <<>>)
Nullable(ref) == IF Len(ref.w) = 0 THEN TRUE ELSE ref.w[1] # "N"
Required(iv) == ~Nullable(iv.type) /\ iv.def.t = "x"
SameRef(a, b) == a.name = b.name /\ a.w = b.w
ValidWrap(w) == /\ \A i \in DOMAIN w : w[i] \in {"L", "N"}
                /\ \A i \in 1..(Len(w) - 1) : ~(w[i] = "N" /\ w[i + 1] = "N")
ImplementorsOf(S, I) == {S.types[i].name : i \in {j \in DOMAIN S.types : I \in Range(S.types[j].ifaces)}}

\* ------------------------------------------------------------------ values
\* input coercion of a const value (spec 3.x "Input Coercion"), strict form (a list type wants a list)
RECURSIVE ValOK(_, _, _)
ValOK(S, ref, v) ==
  IF v.t = "n" THEN Nullable(ref)
  ELSE LET w == IF Nullable(ref) THEN ref.w ELSE Tail(ref.w) IN
       IF Len(w) > 0
       THEN v.t = "l" /\ \A i \in DOMAIN v.v : ValOK(S, Ref(ref.name, Tail(w)), v.v[i])
       ELSE LET kd == KindOf(S, ref.name) IN
            CASE ref.name = "Int" -> v.t = "i"
              [] ref.name = "Float" -> v.t \in {"i", "f"}
              [] ref.name = "String" -> v.t = "s"
              [] ref.name = "Boolean" -> v.t = "b"
              [] ref.name = "ID" -> v.t \in {"s", "i"}
              [] ref.name \notin BuiltinScalars /\ kd = "SCALAR" -> v.t \in {"s", "i", "f", "b", "o", "l"}
              [] ref.name \notin BuiltinScalars /\ kd = "ENUM" -> v.t = "e" /\ Has(Find(S.types, ref.name).values, v.v)
              [] ref.name \notin BuiltinScalars /\ kd = "INPUT_OBJECT" ->
                   /\ v.t = "o"
                   /\ LET T == Find(S.types, ref.name) IN
                      /\ NoDup(v.k)
                      /\ Range(v.k) \subseteq NameSet(T.inputs)
                      /\ \A i \in DOMAIN v.k : ValOK(S, Find(T.inputs, v.k[i]).type, v.v[i])
                      /\ \A j \in DOMAIN T.inputs : Required(T.inputs[j]) => T.inputs[j].name \in Range(v.k)
              [] OTHER -> FALSE

\* A small sequence of type-correct default values for `ref` (every kind of value: scalars incl. a string
\* with an escaped quote, enum, null, empty / one / two element lists, nested lists, minimal and full
\* input objects, object for a custom scalar), nesting bounded by d.
RECURSIVE DefaultsFor(_, _, _)
DefaultsFor(S, ref, d) ==
  LET nul == IF Nullable(ref) THEN <<NullVal>> ELSE <<>>
      w == IF Nullable(ref) THEN ref.w ELSE Tail(ref.w)
      kd == KindOf(S, ref.name)
  IN
  IF Len(w) > 0 THEN
     LET el == IF d = 0 THEN <<>> ELSE DefaultsFor(S, Ref(ref.name, Tail(w)), d - 1) IN
     <<[t |-> "l", v |-> <<>>]>>
       \o (IF Len(el) >= 1 THEN <<[t |-> "l", v |-> <<el[1]>>]>> ELSE <<>>)
       \o (IF Len(el) >= 2 THEN <<[t |-> "l", v |-> <<el[2], el[1]>>]>> ELSE <<>>)
       \o nul
  ELSE
     (CASE ref.name = "Int" -> <<[t |-> "i", v |-> 7], [t |-> "i", v |-> -3]>>
        [] ref.name = "Float" -> <<[t |-> "f", v |-> "1.5"], [t |-> "i", v |-> 2]>>
        [] ref.name = "String" -> <<[t |-> "s", v |-> "hi"], [t |-> "s", v |-> "a\"b c"], [t |-> "s", v |-> ""]>>
        [] ref.name = "Boolean" -> <<[t |-> "b", v |-> TRUE], [t |-> "b", v |-> FALSE]>>
        [] ref.name = "ID" -> <<[t |-> "s", v |-> "id1"], [t |-> "i", v |-> 5]>>
        [] ref.name \notin BuiltinScalars /\ kd = "SCALAR" ->
             <<[t |-> "s", v |-> "2020-01-01"], [t |-> "i", v |-> 12]>>
               \o (IF d > 0 THEN <<[t |-> "o", k |-> <<"k">>, v |-> <<[t |-> "l", v |-> <<[t |-> "i", v |-> 1]>>]>>]>> ELSE <<>>)
        [] ref.name \notin BuiltinScalars /\ kd = "ENUM" ->
             LET vs == Find(S.types, ref.name).values IN
             <<[t |-> "e", v |-> vs[1].name]>> \o (IF Len(vs) >= 2 THEN <<[t |-> "e", v |-> vs[Len(vs)].name]>> ELSE <<>>)
        [] ref.name \notin BuiltinScalars /\ kd = "INPUT_OBJECT" ->
             IF d = 0 THEN <<>> ELSE
             LET T == Find(S.types, ref.name)
                 C(j) == DefaultsFor(S, T.inputs[j].type, d - 1)
                 req == SelectSeq(Idx(T.inputs), LAMBDA j : Required(T.inputs[j]))
                 can == SelectSeq(Idx(T.inputs), LAMBDA j : Len(C(j)) > 0)
                 reqOK == \A i \in DOMAIN req : Len(C(req[i])) > 0
                 minObj == [t |-> "o", k |-> MapSeq(req, LAMBDA j : T.inputs[j].name), v |-> MapSeq(req, LAMBDA j : C(j)[1])]
                 fullObj == [t |-> "o", k |-> MapSeq(can, LAMBDA j : T.inputs[j].name),
                             v |-> MapSeq(can, LAMBDA j : C(j)[IF Len(C(j)) >= 2 /\ j % 2 = 0 THEN 2 ELSE 1])]
             IN IF ~reqOK THEN <<>>
                ELSE IF Len(can) > Len(req) THEN <<fullObj, minObj>> ELSE <<minObj>>
        [] OTHER -> <<>>)
     \o nul

\* ------------------------------------------------------------------ well-formedness
\* sub is a valid (covariant) field type where sup is declared (spec: IsValidImplementationFieldType)
RECURSIVE SubW(_, _, _, _, _)
SubW(S, an, aw, bn, bw) ==
  IF Len(bw) > 0 /\ bw[1] = "N" THEN Len(aw) > 0 /\ aw[1] = "N" /\ SubW(S, an, Tail(aw), bn, Tail(bw))
  ELSE IF Len(aw) > 0 /\ aw[1] = "N" THEN SubW(S, an, Tail(aw), bn, bw)
  ELSE IF Len(bw) > 0 THEN Len(aw) > 0 /\ aw[1] = "L" /\ SubW(S, an, Tail(aw), bn, Tail(bw))
  ELSE /\ Len(aw) = 0
       /\ \/ an = bn
          \/ KindOf(S, bn) = "UNION" /\ an \in Range(Find(S.types, bn).members)
          \/ KindOf(S, bn) = "INTERFACE" /\ Has(S.types, an) /\ bn \in Range(Find(S.types, an).ifaces)
IsSubRef(S, a, b) == SubW(S, a.name, a.w, b.name, b.w)

\* applied custom directives: defined, allowed at this location, not repeated unless repeatable
TagsOK(S, tags, loc) ==
  /\ \A g \in DOMAIN tags : Has(S.dirs, tags[g]) /\ loc \in Range(Find(S.dirs, tags[g]).locs)
  /\ \A g, h \in DOMAIN tags : (g # h /\ tags[g] = tags[h]) => Find(S.dirs, tags[g]).rep
KindLoc(kind) == kind   \* the directive location of a type definition is spelled like its kind

InputValsOK(S, ivs, loc) ==
  /\ NoDup(NameSeq(ivs))
  /\ \A i \in DOMAIN ivs :
       LET iv == ivs[i] IN
       /\ TagsOK(S, iv.tags, loc)
       /\ ValidWrap(iv.type.w)
       /\ KindOf(S, iv.type.name) \in InputKinds
       /\ iv.def.t # "x" => ValOK(S, iv.type, iv.def)
       /\ iv.dep.d => ~Required(iv)

ImplOK(S, t, I) ==
  /\ KindOf(S, I) = "INTERFACE" /\ I # t.name
  /\ LET it == Find(S.types, I) IN
     /\ Range(it.ifaces) \subseteq Range(t.ifaces)
     /\ \A k \in DOMAIN it.fields :
          LET fi == it.fields[k] IN
          /\ Has(t.fields, fi.name)
          /\ LET ft == Find(t.fields, fi.name) IN
             /\ IsSubRef(S, ft.type, fi.type)
             /\ \A a \in DOMAIN fi.args : /\ Has(ft.args, fi.args[a].name)
                                          /\ SameRef(Find(ft.args, fi.args[a].name).type, fi.args[a].type)
             /\ \A a \in DOMAIN ft.args : ~Has(fi.args, ft.args[a].name) => ~Required(ft.args[a])

TypeOK(S, t) ==
  CASE t.kind \in {"OBJECT", "INTERFACE"} ->
         /\ Len(t.fields) > 0 /\ NoDup(NameSeq(t.fields))
         /\ \A i \in DOMAIN t.fields :
              /\ ValidWrap(t.fields[i].type.w)
              /\ KindOf(S, t.fields[i].type.name) \in OutputKinds
              /\ InputValsOK(S, t.fields[i].args, "ARGUMENT_DEFINITION")
              /\ TagsOK(S, t.fields[i].tags, "FIELD_DEFINITION")
         /\ NoDup(t.ifaces)
         /\ \A i \in DOMAIN t.ifaces : ImplOK(S, t, t.ifaces[i])
         /\ Len(t.members) = 0 /\ Len(t.values) = 0 /\ Len(t.inputs) = 0 /\ t.url = ""
    [] t.kind = "UNION" ->
         /\ Len(t.members) > 0 /\ NoDup(t.members)
         /\ \A i \in DOMAIN t.members : KindOf(S, t.members[i]) = "OBJECT"
         /\ Len(t.fields) = 0 /\ Len(t.ifaces) = 0 /\ Len(t.values) = 0 /\ Len(t.inputs) = 0 /\ t.url = ""
    [] t.kind = "ENUM" ->
         /\ Len(t.values) > 0 /\ NoDup(NameSeq(t.values))
         /\ \A i \in DOMAIN t.values : TagsOK(S, t.values[i].tags, "ENUM_VALUE")
         /\ NameSet(t.values) \cap {"true", "false", "null"} = {}
         /\ Len(t.fields) = 0 /\ Len(t.ifaces) = 0 /\ Len(t.members) = 0 /\ Len(t.inputs) = 0 /\ t.url = ""
    [] t.kind = "INPUT_OBJECT" ->
         /\ Len(t.inputs) > 0 /\ InputValsOK(S, t.inputs, "INPUT_FIELD_DEFINITION")
         \* no input object is reachable from itself through non-null, non-list fields (sufficient form)
         /\ \A i \in DOMAIN t.inputs : KindOf(S, t.inputs[i].type.name) = "INPUT_OBJECT" => t.inputs[i].type.w # <<"N">>
         /\ Len(t.fields) = 0 /\ Len(t.ifaces) = 0 /\ Len(t.members) = 0 /\ Len(t.values) = 0 /\ t.url = ""
    [] t.kind = "SCALAR" ->
         Len(t.fields) = 0 /\ Len(t.ifaces) = 0 /\ Len(t.members) = 0 /\ Len(t.values) = 0 /\ Len(t.inputs) = 0
    [] OTHER -> FALSE

DirOK(S, d) ==
  /\ d.name \notin BuiltinDirNames
  /\ Len(d.locs) > 0 /\ NoDup(d.locs) /\ Range(d.locs) \subseteq AllLocs
  /\ InputValsOK(S, d.args, "ARGUMENT_DEFINITION")

\* what a type extension can carry: the definition itself keeps at least one element
ExtCount(t) == CASE t.kind \in {"OBJECT", "INTERFACE"} -> Len(t.fields)
                 [] t.kind = "UNION" -> Len(t.members)
                 [] t.kind = "ENUM" -> Len(t.values)
                 [] t.kind = "INPUT_OBJECT" -> Len(t.inputs)
                 [] OTHER -> IF t.url # "" \/ Len(t.tags) > 0 THEN 2 ELSE 1   \* scalar: ext <= 1 iff it has directives
ExtOK(t) == t.ext >= 0 /\ t.ext < ExtCount(t)

WF(S) ==
  /\ NoDup(NameSeq(S.types))
  /\ NameSet(S.types) \cap (BuiltinScalars \cup MetaTypeNames) = {}
  /\ KindOf(S, S.query) = "OBJECT"
  /\ S.mutation # "" => KindOf(S, S.mutation) = "OBJECT"
  /\ S.subscription # "" => KindOf(S, S.subscription) = "OBJECT"
  /\ NoDup(SelectSeq(<<S.query, S.mutation, S.subscription>>, LAMBDA x : x # ""))
  \* without a schema definition the root types are exactly the types with the default names
  /\ ~S.sd => /\ S.desc = "" /\ S.query = "Query"
              /\ S.mutation = (IF Has(S.types, "Mutation") THEN "Mutation" ELSE "")
              /\ S.subscription = (IF Has(S.types, "Subscription") THEN "Subscription" ELSE "")
  /\ \A i \in DOMAIN S.types : TypeOK(S, S.types[i]) /\ TagsOK(S, S.types[i].tags, KindLoc(S.types[i].kind)) /\ ExtOK(S.types[i])
  /\ TagsOK(S, S.stags, "SCHEMA") /\ (Len(S.stags) > 0 => S.sd)
  /\ S.xroots => (S.sd /\ (S.mutation # "" \/ S.subscription # ""))
  /\ NoDup(NameSeq(S.dirs))
  /\ \A i \in DOMAIN S.dirs : DirOK(S, S.dirs[i])
=============================================================================
