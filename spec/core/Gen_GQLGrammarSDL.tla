--------------------------- MODULE Gen_GQLGrammarSDL ---------------------------
(* Generator of type-system documents (second generator of C05): every         *)
(* completed document is printed as JSON in the same form as Gen_GQLGrammar.    *)
EXTENDS GQLGrammarSDL, Json
EmitSDL ==
  IF Done
  THEN PrintT(ToJson([toks |-> toks, text |-> Text(toks), depth |-> 0, idepth |-> 0, fields |-> 0, lims |-> <<[l |-> 0, f |-> 0], [l |-> 1, f |-> 1]>>,
                      nmut |-> NMut(toks), implF |-> 0, implD |-> 0]))
  ELSE TRUE
GenSDLConstraint == EmitSDL
=============================================================================
