CONSTANTS
  Pools = "tiny"
  Sim = FALSE
  MaxCost = 6
  MaxDefs = 2
  MaxNest = 2
  MaxSel = 1
  MaxArgs = 0
  MaxDirs = 0
  MaxVars = 0
SPECIFICATION GSpec
INVARIANTS AccountingSoundPinned
CHECK_DEADLOCK FALSE
