CONSTANTS
  Pools = "rich"
  Sim = TRUE
  MaxCost = 14
  MaxDefs = 3
  MaxNest = 4
  MaxSel = 4
  MaxArgs = 2
  MaxDirs = 2
  MaxVars = 2
SPECIFICATION GSpec
CONSTRAINT GenConstraint
CHECK_DEADLOCK FALSE
