CONSTANTS
  Part = 0
  Parts = 1
  MaxRewrites = 1
  EmitRewrites = FALSE
SPECIFICATION Spec
CONSTRAINT Emit
CHECK_DEADLOCK FALSE
