SPECIFICATION TraceSpec
CONSTRAINT Collect
POSTCONDITION TraceAccepted
CHECK_DEADLOCK FALSE
