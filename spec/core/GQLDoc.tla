------------------------------- MODULE GQLDoc -------------------------------
(* Executable documents (October 2021, section 2) as TLA+ values.            *)
(*                                                                           *)
(*  Doc  = [ops : Seq(Op), frags : Seq(Frag), opName : STRING]               *)
(*         opName = the request's operationName ("" = none given)            *)
(*  Op   = [op : "query"|"mutation"|"subscription", name : STRING ("" =      *)
(*          anonymous), vars : Seq(VarDef), dirs : Seq(Dir), sel : Seq(Sel)] *)
(*  VarDef = [name, type : TypeRef, def : value | Absent, dirs : Seq(Dir)]   *)
(*  Frag = [name, on, dirs, sel]                                             *)
(*  Sel  = one uniform record [k, name, alias, on, args, dirs, sel]          *)
(*         k = "field"  : name, alias ("" = none), args, dirs, sel           *)
(*         k = "inline" : on ("" = no type condition), dirs, sel             *)
(*         k = "spread" : name (fragment), dirs                              *)
(*  Arg  = [name, value]     Dir = [name, args : Seq(Arg)]                   *)
(* Everything is a sequence (ordered, duplicates representable) so that the  *)
(* same JSON shape is printed by TLC (ToJson) and read back (Json).          *)
EXTENDS GQLSchema

----------------------------------------------------------------------------
\* constructors
dA(n, v)   == [name |-> n, value |-> v]
dDir(n, args) == [name |-> n, args |-> args]
dF(n, args, sel)        == [k |-> "field", name |-> n, alias |-> "", on |-> "", args |-> args, dirs |-> <<>>, sel |-> sel]
dFA(al, n, args, sel)   == [k |-> "field", name |-> n, alias |-> al, on |-> "", args |-> args, dirs |-> <<>>, sel |-> sel]
dFD(n, args, dirs, sel) == [k |-> "field", name |-> n, alias |-> "", on |-> "", args |-> args, dirs |-> dirs, sel |-> sel]
dLf(n)                  == dF(n, <<>>, <<>>)
dInl(on, sel)           == [k |-> "inline", name |-> "", alias |-> "", on |-> on, args |-> <<>>, dirs |-> <<>>, sel |-> sel]
dInlD(on, dirs, sel)    == [k |-> "inline", name |-> "", alias |-> "", on |-> on, args |-> <<>>, dirs |-> dirs, sel |-> sel]
dSpr(n)                 == [k |-> "spread", name |-> n, alias |-> "", on |-> "", args |-> <<>>, dirs |-> <<>>, sel |-> <<>>]
dSprD(n, dirs)          == [k |-> "spread", name |-> n, alias |-> "", on |-> "", args |-> <<>>, dirs |-> dirs, sel |-> <<>>]
dVar(n, ty, d)          == [name |-> n, type |-> ty, def |-> d, dirs |-> <<>>]
dOp(kind, n, vars, sel) == [op |-> kind, name |-> n, vars |-> vars, dirs |-> <<>>, sel |-> sel]
dFrag(n, on, sel)       == [name |-> n, on |-> on, dirs |-> <<>>, sel |-> sel]
dDoc(op, frags)        == [ops |-> <<op>>, frags |-> frags, opName |-> ""]
dQ(sel)                 == dDoc(dOp("query", "", <<>>, sel), <<>>)
dQV(vars, sel)          == dDoc(dOp("query", "", vars, sel), <<>>)

ResponseKey(f) == IF f.alias = "" THEN f.name ELSE f.alias

----------------------------------------------------------------------------
\* sequence helpers
Range(s) == {s[i] : i \in DOMAIN s}
SeqMap(Fn(_), s) == [i \in DOMAIN s |-> Fn(s[i])]
RECURSIVE SeqFlat(_)
SeqFlat(ss) == IF Len(ss) = 0 THEN <<>> ELSE Head(ss) \o SeqFlat(Tail(ss))
RemoveAt(s, i) == SubSeq(s, 1, i - 1) \o SubSeq(s, i + 1, Len(s))
InsertAt(s, i, e) == SubSeq(s, 1, i - 1) \o <<e>> \o SubSeq(s, i, Len(s))   \* e becomes element i
ReplaceAt(s, i, es) == SubSeq(s, 1, i - 1) \o es \o SubSeq(s, i + 1, Len(s))  \* element i replaced by the sequence es
Unique(s) == \A i, j \in DOMAIN s : i # j => s[i] # s[j]
Names(s) == [i \in DOMAIN s |-> s[i].name]
SetToSeq(S) == CHOOSE s \in [1..Cardinality(S) -> S] : Range(s) = S   \* only for small sets; order is TLC's

----------------------------------------------------------------------------
\* fragments
FragNames(doc) == {doc.frags[i].name : i \in DOMAIN doc.frags}
HasFrag(doc, n) == n \in FragNames(doc)
FragByName(doc, n) == doc.frags[CHOOSE i \in DOMAIN doc.frags : doc.frags[i].name = n /\ \A j \in 1..(i - 1) : doc.frags[j].name # n]

\* names of the fragments spread directly inside a selection set (through fields and inline fragments)
RECURSIVE DirectSpreads(_)
DirectSpreads(sel) ==
  UNION {IF sel[i].k = "spread" THEN {sel[i].name} ELSE DirectSpreads(sel[i].sel) : i \in DOMAIN sel}

RECURSIVE ReachFrom(_, _, _)
ReachFrom(doc, todo, seen) ==
  IF todo = {} THEN seen
  ELSE LET n == CHOOSE x \in todo : TRUE
           next == IF HasFrag(doc, n)
                   THEN UNION {DirectSpreads(doc.frags[i].sel) : i \in {j \in DOMAIN doc.frags : doc.frags[j].name = n}}
                   ELSE {}
       IN ReachFrom(doc, (todo \cup next) \ (seen \cup {n}), seen \cup {n})

\* fragment names transitively spread from a selection set (defined or not)
ReachableFragNames(doc, sel) == ReachFrom(doc, DirectSpreads(sel), {})

\* operations the request executes: the one named opName, or (no name given) all of them - normalization
\* keeps exactly these
SelectedOps(doc) == IF doc.opName = "" THEN doc.ops
                    ELSE SelectSeq(doc.ops, LAMBDA o : o.name = doc.opName)

\* 'the operation together with the fragments it reaches'
Reachable(doc) ==
  LET ops == SelectedOps(doc)
      names == UNION {ReachableFragNames(doc, ops[i].sel) : i \in DOMAIN ops}
      \* of several definitions with one name only the first is ever reached (fragment name uniqueness, 5.5.1.1, concerns a
      \* definition that is discarded)
      first == {i \in DOMAIN doc.frags : doc.frags[i].name \in names /\ \A j \in 1..(i - 1) : doc.frags[j].name # doc.frags[i].name}
  IN [ops |-> ops, frags |-> [k \in 1..Cardinality(first) |-> doc.frags[CHOOSE i \in first : Cardinality({j \in first : j < i}) = k - 1]],
      opName |-> doc.opName]

----------------------------------------------------------------------------
\* Paths.  A path addresses a selection inside a selection set: <<i1, i2, ...>> = sel[i1].sel[i2]...
RECURSIVE SelPaths(_)
SelPaths(sel) == UNION {{<<i>>} \cup {<<i>> \o p : p \in SelPaths(sel[i].sel)} : i \in DOMAIN sel}

RECURSIVE SelAt(_, _)
SelAt(sel, p) == IF Len(p) = 1 THEN sel[p[1]] ELSE SelAt(sel[p[1]].sel, Tail(p))

\* replace the selection at path p by the sequence of selections es (<<>> removes it, two elements insert)
RECURSIVE SelReplace(_, _, _)
SelReplace(sel, p, es) ==
  IF Len(p) = 1 THEN ReplaceAt(sel, p[1], es)
  ELSE [sel EXCEPT ![p[1]].sel = SelReplace(@, Tail(p), es)]

\* the selection *set* at path p (p = <<>> is the root set)
SetAt(sel, p) == IF Len(p) = 0 THEN sel ELSE SelAt(sel, p).sel
SetReplace(sel, p, newset) == IF Len(p) = 0 THEN newset
                              ELSE SelReplace(sel, p, <<[SelAt(sel, p) EXCEPT !.sel = newset]>>)
SetPaths(sel) == {<<>>} \cup {p \in SelPaths(sel) : SelAt(sel, p).k # "spread" /\ SelAt(sel, p).sel # <<>>}

\* Roots of a document: every place a selection set hangs: <<"op", i>> or <<"frag", i>>
Roots(doc) == {<<"op", i>> : i \in DOMAIN doc.ops} \cup {<<"frag", i>> : i \in DOMAIN doc.frags}
RootSel(doc, r) == IF r[1] = "op" THEN doc.ops[r[2]].sel ELSE doc.frags[r[2]].sel
WithRootSel(doc, r, sel) ==
  IF r[1] = "op" THEN [doc EXCEPT !.ops[r[2]].sel = sel] ELSE [doc EXCEPT !.frags[r[2]].sel = sel]

\* parent type of the selection set hanging at root r
RootParent(S, doc, r) == IF r[1] = "op" THEN RootType(S, doc.ops[r[2]].op) ELSE doc.frags[r[2]].on

\* named type a selection establishes for its own sub-selection, given the enclosing type ("" = unknown)
ChildType(S, doc, parent, s) ==
  CASE s.k = "field"  -> FieldDef(S, parent, s.name).type.n
    [] s.k = "inline" -> IF s.on = "" THEN parent ELSE s.on
    [] OTHER -> ""

\* enclosing type of the selection *set* at path p below a root set whose parent type is T
RECURSIVE TypeAtSet(_, _, _, _, _)
TypeAtSet(S, doc, sel, T, p) ==
  IF Len(p) = 0 THEN T ELSE TypeAtSet(S, doc, sel[p[1]].sel, ChildType(S, doc, T, sel[p[1]]), Tail(p))
\* enclosing type of the selection at path p (the type its parent set is evaluated against)
TypeAtSel(S, doc, sel, T, p) == TypeAtSet(S, doc, sel, T, SubSeq(p, 1, Len(p) - 1))

----------------------------------------------------------------------------
\* values
RECURSIVE VarsInValue(_)
VarsInValue(v) ==
  CASE v.t = "v" -> {v.n}
    [] v.t = "l" -> UNION {VarsInValue(v.l[i]) : i \in DOMAIN v.l}
    [] v.t = "o" -> UNION {VarsInValue(v.o[i]) : i \in DOMAIN v.o}
    [] OTHER -> {}

RECURSIVE RenameInValue(_, _, _)
RenameInValue(v, old, new) ==
  CASE v.t = "v" -> IF v.n = old THEN VVar(new) ELSE v
    [] v.t = "l" -> VL([i \in DOMAIN v.l |-> RenameInValue(v.l[i], old, new)])
    [] v.t = "o" -> VO(v.k, [i \in DOMAIN v.o |-> RenameInValue(v.o[i], old, new)])
    [] OTHER -> v

ArgsVars(args) == UNION {VarsInValue(args[i].value) : i \in DOMAIN args}
DirsVars(dirs) == UNION {ArgsVars(dirs[i].args) : i \in DOMAIN dirs}

\* variables used directly in a selection set (not through spreads)
RECURSIVE SelVars(_)
SelVars(sel) == UNION {ArgsVars(sel[i].args) \cup DirsVars(sel[i].dirs) \cup SelVars(sel[i].sel) : i \in DOMAIN sel}

\* variables used by an operation incl. the fragments it reaches (5.8.3 / 5.8.4)
OpVarUses(doc, op) ==
  SelVars(op.sel) \cup DirsVars(op.dirs)
  \cup UNION {SelVars(doc.frags[i].sel) \cup DirsVars(doc.frags[i].dirs) :
                i \in {j \in DOMAIN doc.frags : doc.frags[j].name \in ReachableFragNames(doc, op.sel)}}

\* request variables: a sequence of [name, value] with JSON-kind values (no enum / variable tags)
VarsGet(vars, n) == IF \E i \in DOMAIN vars : vars[i].name = n
                    THEN vars[CHOOSE i \in DOMAIN vars : vars[i].name = n].value ELSE Absent

\* size measures used as generator bounds
RECURSIVE SelSize(_)
SelSize(sel) == IF Len(sel) = 0 THEN 0 ELSE 1 + SelSize(Head(sel).sel) + SelSize(Tail(sel))
DocSize(doc) == LET a == [i \in DOMAIN doc.ops |-> SelSize(doc.ops[i].sel)]
                    b == [i \in DOMAIN doc.frags |-> SelSize(doc.frags[i].sel)]
                    RECURSIVE Sum(_)
                    Sum(s) == IF Len(s) = 0 THEN 0 ELSE Head(s) + Sum(Tail(s))
                IN Sum(a) + Sum(b)
=============================================================================
