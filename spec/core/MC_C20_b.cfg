CONSTANTS
  MaxBuild = 3
  MaxReform = 1
  MaxDepth = 2
  MaxRoots = 1
  RootFilter = {"blogPost", "search", "performAction"}
  FieldFilter = {}
  MaxReval = 0
  Mut = "none"
SPECIFICATION Spec
INVARIANTS RefOK WellFormedInv
CHECK_DEADLOCK FALSE
