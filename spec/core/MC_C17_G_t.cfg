CONSTANTS
  QueryNames <- QN_default
  Slots <- G_Slots
  DirSlots = {}
  FieldNames = {"f"}
  ArgNames = {}
  InputNames = {"y"}
  EnumVals = {"RED"}
  Scalars = {"Int"}
  Wraps <- W_none
  Descs = {}
  Reasons = {}
  Urls = {"https://example.com/date"}
  Features <- G_Features
  MaxSteps = 5
  ValDepth = 1
  Sampling = FALSE
  EmitSteps <- ES_all
SPECIFICATION GenSpec
INVARIANTS GenWF SpecRoundTrip Closed DeprecatedFilter Sensitive
CONSTRAINT EmitAt
VIEW GenView
CHECK_DEADLOCK FALSE
