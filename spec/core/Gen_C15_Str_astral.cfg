CONSTANTS
  MaxLen = 3
  Alphabet = {97, 92, 34, 128512, 233, 10, 32, 117}
  Seeds <- SeedsAstral
SPECIFICATION GenSpec
CONSTRAINT GenConstraint
INVARIANTS JsonIsSubGrammar TwinDenotesSame PlainDenotesItself BlockNoBlankEdges BlockPlainDenotesItself BlockBlankIsEmpty
CHECK_DEADLOCK FALSE
