INIT Init
NEXT Next
