---------------------------- MODULE MC_GQLRewrite ----------------------------
(* TLC-checked theorem behind the orbits of C03: every rewrite step of        *)
(* GQLRewrite, applied to every corpus operation with every variable set,     *)
(* keeps the operation valid and leaves Exec unchanged on every probe         *)
(* universe.  Depth = number of consecutive steps explored (1 exhaustively).  *)
EXTENDS GQLRewrite, GQLCorpus
CONSTANTS Depth, Stride, Offset     \* corpus entries i with i % Stride = Offset
VARIABLES c
Init == \E i \in {k \in DOMAIN Corpus : k % Stride = Offset} : \E j \in DOMAIN Corpus[i].vars :
          c = [schema |-> Corpus[i].schema, doc |-> Corpus[i].doc, vars |-> Corpus[i].vars[j], base |-> Corpus[i].doc, bvars |-> Corpus[i].vars[j], n |-> 0]
Next == /\ c.n < Depth
        /\ \E rw \in Rewrites(SchemaById(c.schema), c.doc, c.vars) : c' = [c EXCEPT !.doc = rw.doc, !.vars = rw.vars, !.n = @ + 1]
Spec == Init /\ [][Next]_c
S == SchemaById(c.schema)
Valid == SpecValid(S, Reachable(c.doc))
SameMeaning == \A u \in DOMAIN Probe(S) : Exec(S, Probe(S)[u], c.doc, c.vars) = Exec(S, Probe(S)[u], c.base, c.bvars)
\* vacuity guard: the probe universes distinguish the corpus operations from a trivially different one
Distinguishes == c.n = 0 => \E u \in DOMAIN Probe(S) : Exec(S, Probe(S)[u], c.doc, c.vars).data # VNull
=============================================================================
