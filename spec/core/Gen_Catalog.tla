---------------------------- MODULE Gen_Catalog ----------------------------
(* Prints the schema catalog (one JSON line per schema) for the Go drivers,  *)
(* after checking that every entry is a well-formed schema (section 3).      *)
EXTENDS GQLSchema, Json
ASSUME \A i \in DOMAIN Catalog : SchemaOK(Catalog[i])
ASSUME \A i \in DOMAIN Catalog : PrintT(ToJson(Catalog[i]))
VARIABLE x
Init == x = 0
Next == x' = x
=============================================================================
