CONSTANTS
  Pools = "ops"
  Sim = FALSE
  MaxCost = 6
  MaxDefs = 3
  MaxNest = 2
  MaxSel = 1
  MaxArgs = 0
  MaxDirs = 0
  MaxVars = 0
SPECIFICATION GSpec
CONSTRAINT GenConstraint
INVARIANTS TrackedAgree Balanced InlinedAtLeastSyntactic AccountingSoundFixed
CHECK_DEADLOCK FALSE
