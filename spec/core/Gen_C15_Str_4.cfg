CONSTANTS
  MaxLen = 4
  Alphabet = {97, 34, 92, 110, 117, 48, 123, 125, 9, 32, 233, 10}
  Seeds <- SeedsAll
SPECIFICATION GenSpec
CONSTRAINT GenConstraint
INVARIANTS JsonIsSubGrammar TwinDenotesSame PlainDenotesItself BlockNoBlankEdges BlockPlainDenotesItself BlockBlankIsEmpty
CHECK_DEADLOCK FALSE
