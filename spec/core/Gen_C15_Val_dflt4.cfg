CONSTANTS
  MaxTok = 4
  MaxDepth = 2
  TopTys = {"AInt", "AStr", "AE", "ALInt", "AInD", "ALInD2", "InD", "LInD", "M"}
SPECIFICATION GenSpec
CONSTRAINT GenConstraint
INVARIANTS CasesWellFormed TwinDenotesSame NotProvidedOnlyAtTop
CHECK_DEADLOCK FALSE
