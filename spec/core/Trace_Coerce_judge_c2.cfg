CONSTANTS
  D = 2
  Wide = FALSE
  Cat = 2
SPECIFICATION TraceSpec
CONSTRAINT HighWater
CONSTRAINT Judge
POSTCONDITION TraceAccepted
CHECK_DEADLOCK FALSE
