---------------------------- MODULE GQLIntrospect ----------------------------
(* Property C17: what introspection must say about a schema.                     *)
(*                                                                              *)
(*  Introspect(S, inc)   the introspection result record the GraphQL spec        *)
(*                       (section 4 "Introspection") prescribes for the          *)
(*                       configured schema Full(S) = S + base schema;            *)
(*                       inc = the includeDeprecated argument applied to         *)
(*                       fields / args / inputFields / enumValues.               *)
(*  IFacts(I)            an introspection result as an order-insensitive set of  *)
(*                       flat facts [k, p, v] (kind, path, value - all strings): *)
(*                       types, fields, args, input fields (with type chain      *)
(*                       kind/ofType...), default values flattened leaf by leaf   *)
(*                       (=> compared as GraphQL values: object field order and  *)
(*                       spelling do not matter), enum values, interfaces,       *)
(*                       possible types, directives, locations, repeatable,      *)
(*                       deprecated flags and reasons, descriptions, roots.      *)
(*  Mismatches(E, O)     expected vs observed facts: missing / invented / changed *)
(*                       (changed = mis-typed), reduced to primary differences.  *)
(*  S1 ~ S2              Equiv: same type system = same introspection facts.     *)
(*  FromIntrospection(I) the schema an introspection result describes.           *)
(*                                                                              *)
(* Shape of an introspection record I (the same shape is produced by the Go      *)
(* driver from the implementation's JSON; nullable things are tagged because    *)
(* TLC's Json module cannot read null):                                          *)
(*  I  = [description, queryType, mutationType, subscriptionType : OptS,         *)
(*        types : Seq(FT), directives : Seq(DI)]                                 *)
(*  FT = [kind, name, description, specifiedByURL : OptS, fields, inputFields,   *)
(*        interfaces, enumValues, possibleTypes : OptL]                          *)
(*  FI = [name, description : OptS, args : OptL, type : Chain, isDeprecated :    *)
(*        OptB, deprecationReason : OptS]                                        *)
(*  IV = [name, description, type : Chain, defaultValue : [t|->"n"] | [t|->"v",  *)
(*        v|->V], isDeprecated, deprecationReason]                               *)
(*  Chain = Seq([kind, name : OptS]) the kind/name/ofType chain, outermost first *)
(*  OptS = [t|->"n"] | [t|->"s", v|->string]   OptL = [t|->"n"] | [t|->"l", v|->seq]*)
(*  OptB = [t|->"n"] | [t|->"b", v|->BOOLEAN]                                    *)
EXTENDS GQLIntroSchema

Nul == [t |-> "n"]
OS(s) == [t |-> "s", v |-> s]
OL(q) == [t |-> "l", v |-> q]
OB(b) == [t |-> "b", v |-> b]
ODesc(d) == IF d = "" THEN Nul ELSE OS(d)

\* ================================================================== Introspect
RefChain(S, ref) ==
  [i \in 1..(Len(ref.w) + 1) |->
     IF i <= Len(ref.w) THEN [kind |-> OS(IF ref.w[i] = "L" THEN "LIST" ELSE "NON_NULL"), name |-> Nul]
     ELSE [kind |-> OS(KindOf(S, ref.name)), name |-> OS(ref.name)]]
NamedChain(S, nm) == <<[kind |-> OS(KindOf(S, nm)), name |-> OS(nm)]>>
EffReason(dep) == IF ~dep.d THEN Nul ELSE OS(IF dep.hr THEN dep.r ELSE DefaultReason)
Keep(inc, x) == inc \/ ~x.dep.d

IInput(S, iv) ==
  [name |-> OS(iv.name), description |-> ODesc(iv.desc), type |-> RefChain(S, iv.type),
   defaultValue |-> IF iv.def.t = "x" THEN Nul ELSE [t |-> "v", v |-> iv.def],
   isDeprecated |-> OB(iv.dep.d), deprecationReason |-> EffReason(iv.dep)]
IInputs(S, ivs, inc) == MapSeq(SelectSeq(ivs, LAMBDA x : Keep(inc, x)), LAMBDA x : IInput(S, x))
IField(S, f, inc) ==
  [name |-> OS(f.name), description |-> ODesc(f.desc), args |-> OL(IInputs(S, f.args, inc)),
   type |-> RefChain(S, f.type), isDeprecated |-> OB(f.dep.d), deprecationReason |-> EffReason(f.dep)]
IEnumVal(e) ==
  [name |-> OS(e.name), description |-> ODesc(e.desc), isDeprecated |-> OB(e.dep.d), deprecationReason |-> EffReason(e.dep)]
IType(S, t, inc) ==
  [kind |-> OS(t.kind), name |-> OS(t.name), description |-> ODesc(t.desc),
   specifiedByURL |-> IF t.url = "" THEN Nul ELSE OS(t.url),
   fields |-> IF t.kind \in {"OBJECT", "INTERFACE"}
              THEN OL(MapSeq(SelectSeq(t.fields, LAMBDA x : Keep(inc, x)), LAMBDA x : IField(S, x, inc))) ELSE Nul,
   inputFields |-> IF t.kind = "INPUT_OBJECT" THEN OL(IInputs(S, t.inputs, inc)) ELSE Nul,
   interfaces |-> IF t.kind \in {"OBJECT", "INTERFACE"} THEN OL(MapSeq(t.ifaces, LAMBDA x : NamedChain(S, x))) ELSE Nul,
   enumValues |-> IF t.kind = "ENUM"
                  THEN OL(MapSeq(SelectSeq(t.values, LAMBDA x : Keep(inc, x)), LAMBDA x : IEnumVal(x))) ELSE Nul,
   possibleTypes |->
     IF t.kind = "UNION" THEN OL(MapSeq(t.members, LAMBDA x : NamedChain(S, x)))
     ELSE IF t.kind = "INTERFACE"
          THEN OL(MapSeq(SelectSeq(S.types, LAMBDA x : x.kind = "OBJECT" /\ t.name \in Range(x.ifaces)),
                         LAMBDA x : NamedChain(S, x.name)))
          ELSE Nul]
IDirective(S, d, inc) ==
  [name |-> OS(d.name), description |-> ODesc(d.desc), locations |-> OL(d.locs),
   args |-> OL(IInputs(S, d.args, inc)), isRepeatable |-> OB(d.rep)]
\* introspection of exactly the given document (no base schema added)
IntrospectRaw(S, inc) ==
  [description |-> ODesc(S.desc), queryType |-> OS(S.query),
   mutationType |-> IF S.mutation = "" THEN Nul ELSE OS(S.mutation),
   subscriptionType |-> IF S.subscription = "" THEN Nul ELSE OS(S.subscription),
   types |-> MapSeq(S.types, LAMBDA t : IType(S, t, inc)),
   directives |-> MapSeq(S.dirs, LAMBDA d : IDirective(S, d, inc))]
Introspect(S, inc) == IntrospectRaw(Full(S), inc)

\* ================================================================== facts
Fact(k, p, v) == [k |-> k, p |-> p, v |-> v]
SV(o) == IF o.t = "n" THEN "<null>" ELSE o.v
BV(o) == IF o.t = "n" THEN "<null>" ELSE IF o.v THEN "true" ELSE "false"
LV(o) == IF o.t = "n" THEN <<>> ELSE o.v
ElementKinds == {"type", "field", "arg", "inputField", "enumValue", "directive", "dirArg"}

RECURSIVE ChainFrom(_, _)
ChainFrom(ch, i) ==
  IF i > Len(ch) THEN ""
  ELSE SV(ch[i].kind) \o (IF ch[i].name.t = "n" THEN "" ELSE ":" \o ch[i].name.v)
       \o (IF i < Len(ch) THEN "/" ELSE "") \o ChainFrom(ch, i + 1)
ChainStr(ch) == IF Len(ch) = 0 THEN "<empty>" ELSE ChainFrom(ch, 1)

\* a GraphQL value as leaf facts: equal sets <=> equal values (object fields unordered, lists ordered)
RECURSIVE FlatV(_, _)
FlatV(p, val) ==
  CASE val.t = "n" -> {Fact("default", p, "null")}
    [] val.t = "i" -> {Fact("default", p, "int:" \o ToString(val.v))}
    [] val.t = "f" -> {Fact("default", p, "float:" \o val.v)}
    [] val.t = "s" -> {Fact("default", p, "string:" \o val.v)}
    [] val.t = "b" -> {Fact("default", p, IF val.v THEN "bool:true" ELSE "bool:false")}
    [] val.t = "e" -> {Fact("default", p, "enum:" \o val.v)}
    [] val.t = "l" -> {Fact("default", p, "list:" \o ToString(Len(val.v)))}
                        \cup UNION {FlatV(Append(p, ToString(i)), val.v[i]) : i \in DOMAIN val.v}
    [] val.t = "o" -> {Fact("default", p, "object:" \o ToString(Cardinality(Range(val.k))))}
                        \cup UNION {FlatV(Append(p, val.k[i]), val.v[i]) : i \in DOMAIN val.k}
                        \cup (IF NoDup(val.k) THEN {} ELSE {Fact("default", p, "duplicate-keys")})
    [] OTHER -> {Fact("default", p, "unparsable:" \o val.v)}   \* "bad": the implementation's text is not a GraphQL value

BuiltinHeads == BuiltinScalars \cup {"@include", "@skip", "@deprecated", "@specifiedBy", "@oneOf", "@defer"}
\* descriptions: absent = "" ; the long texts of the built-ins are not modelled
DescFacts(p, o) == IF o.t = "n" \/ p[1] \in BuiltinHeads THEN {} ELSE IF o.v = "" THEN {} ELSE {Fact("description", p, o.v)}
DupFacts(what, p, names) == IF NoDup(names) THEN {} ELSE {Fact("duplicate", p, what)}
DepFacts(p, x) == {Fact("deprecated", p, BV(x.isDeprecated)), Fact("deprecationReason", p, SV(x.deprecationReason))}

IVFacts(kind, par, iv) ==
  LET p == Append(par, SV(iv.name)) IN
  {Fact(kind, p, ChainStr(iv.type))} \cup DepFacts(p, iv) \cup DescFacts(p, iv.description)
    \cup (IF iv.defaultValue.t = "n" THEN {Fact("default", Append(p, "="), "<none>")} ELSE FlatV(Append(p, "="), iv.defaultValue.v))
IVsFacts(kind, par, o) ==
  LET ivs == LV(o) IN
  UNION {IVFacts(kind, par, ivs[i]) : i \in DOMAIN ivs} \cup DupFacts(kind, par, MapSeq(ivs, LAMBDA x : SV(x.name)))

FieldFacts(tn, f) ==
  LET p == <<tn, SV(f.name)>> IN
  {Fact("field", p, ChainStr(f.type))} \cup DepFacts(p, f) \cup DescFacts(p, f.description) \cup IVsFacts("arg", p, f.args)
EnumFacts(tn, e) ==
  LET p == <<tn, SV(e.name)>> IN {Fact("enumValue", p, "")} \cup DepFacts(p, e) \cup DescFacts(p, e.description)
RefFacts(kind, tn, o) ==   \* interfaces / possibleTypes entries: value = kind:name chain of the entry
  LET rs == LV(o) IN
  {Fact(kind, <<tn, SV(rs[i][Len(rs[i])].name)>>, ChainStr(rs[i])) : i \in {j \in DOMAIN rs : Len(rs[j]) > 0}}
    \cup DupFacts(kind, <<tn>>, MapSeq(rs, LAMBDA r : ChainStr(r)))

\* ---- named exemptions: behaviour the property statement / the GraphQL spec leave open; nothing else is exempt
\* EX_MetaTypesUnlisted      introspection meta types need not be listed in __schema.types and __type(name: "__Type")
\*                           may answer null; IF a meta type is answered, its kind must be right (fact metaType)
\* EX_NullVsEmptyList        fields / interfaces / possibleTypes / enumValues / inputFields: null and [] say the same
\*                           (LV maps both to the empty sequence)
\* EX_EmptyDescriptionIsNone description "" = no description (DescFacts emits no fact for either)
\* EX_BuiltinDescriptions    the description texts of the base schema's scalars / directives are not modelled
\* EX_DescriptionWhitespace  descriptions are compared modulo white space (normalised by the driver on both sides)
\* EX_AppliedDirectives      directive applications other than @deprecated / @specifiedBy are not part of introspection
EX_MetaTypesUnlisted == TRUE
MetaKind(tn) == IF tn \in {"__TypeKind", "__DirectiveLocation"} THEN "ENUM" ELSE "OBJECT"
TypeFacts(ft) ==
  LET tn == SV(ft.name) IN
  IF EX_MetaTypesUnlisted /\ tn \in MetaTypeNames
  THEN (IF SV(ft.kind) = MetaKind(tn) THEN {} ELSE {Fact("metaType", <<tn>>, SV(ft.kind))}) ELSE
  {Fact("type", <<tn>>, SV(ft.kind))} \cup DescFacts(<<tn>>, ft.description)
    \cup (IF ft.specifiedByURL.t = "n" THEN {} ELSE {Fact("specifiedBy", <<tn>>, ft.specifiedByURL.v)})
    \cup UNION {FieldFacts(tn, LV(ft.fields)[i]) : i \in DOMAIN LV(ft.fields)}
    \cup DupFacts("field", <<tn>>, MapSeq(LV(ft.fields), LAMBDA x : SV(x.name)))
    \cup IVsFacts("inputField", <<tn>>, ft.inputFields)
    \cup RefFacts("interface", tn, ft.interfaces)
    \cup UNION {EnumFacts(tn, LV(ft.enumValues)[i]) : i \in DOMAIN LV(ft.enumValues)}
    \cup DupFacts("enumValue", <<tn>>, MapSeq(LV(ft.enumValues), LAMBDA x : SV(x.name)))
    \cup RefFacts("possibleType", tn, ft.possibleTypes)
DirFacts(d) ==
  LET p == <<"@" \o SV(d.name)>> IN
  {Fact("directive", p, ""), Fact("repeatable", p, BV(d.isRepeatable))} \cup DescFacts(p, d.description)
    \cup {Fact("location", Append(p, LV(d.locations)[i]), "") : i \in DOMAIN LV(d.locations)}
    \cup DupFacts("location", p, LV(d.locations))
    \cup IVsFacts("dirArg", p, d.args)

TypesFacts(I) == UNION {TypeFacts(I.types[i]) : i \in DOMAIN I.types}
                   \cup DupFacts("type", <<"$schema">>, MapSeq(I.types, LAMBDA x : SV(x.name)))
SchemaFacts(I) ==
  {Fact("root", <<"$query">>, SV(I.queryType)), Fact("root", <<"$mutation">>, SV(I.mutationType)),
   Fact("root", <<"$subscription">>, SV(I.subscriptionType))}
    \cup DescFacts(<<"$schema">>, I.description)
    \cup UNION {DirFacts(I.directives[i]) : i \in DOMAIN I.directives}
    \cup DupFacts("directive", <<"$schema">>, MapSeq(I.directives, LAMBDA x : SV(x.name)))
IFacts(I) == TypesFacts(I) \cup SchemaFacts(I)

\* facts a query for one named type must report (profile "full") / name and kind only (profile "namekind")
OfType(F, tn) == {f \in F : f.p[1] = tn /\ f.k \notin {"root", "directive", "repeatable", "location", "dirArg"}}
NameKind(F) == {f \in F : f.k = "type"}

\* ================================================================== comparison
IsPrefix(a, b) == Len(a) < Len(b) /\ SubSeq(b, 1, Len(a)) = a
ElemOf(F, p) ==   \* kind of the schema element a sub-fact (default, deprecation, description...) belongs to
  LET c == {f \in F : f.k \in ElementKinds /\ (f.p = p \/ IsPrefix(f.p, p))} IN
  IF c = {} THEN "schema" ELSE (CHOOSE f \in c : \A g \in c : Len(g.p) <= Len(f.p)).k
OwnerKind(F, p) ==
  LET c == {f \in F : f.k = "type" /\ f.p = <<p[1]>>} IN IF c = {} THEN "?" ELSE (CHOOSE f \in c : TRUE).v
Qual(F, k, p) ==
  CASE k \in {"interface", "possibleType"} -> OwnerKind(F, p)
    [] k \in {"default", "deprecated", "deprecationReason", "description", "duplicate"} -> ElemOf(F, p)
    [] k \in ElementKinds -> IF Fact("deprecated", p, "true") \in F THEN "deprecated" ELSE "live"
    [] OTHER -> ""

\* E = facts the spec prescribes, O = facts the implementation reported
Mismatches(E, O) ==
  LET eo == E \ O
      oe == O \ E
      pairE == {e \in eo : \E o \in oe : o.k = e.k /\ o.p = e.p}
      changed == {[d |-> "changed", k |-> e.k, p |-> e.p, q |-> Qual(E, e.k, e.p), x |-> e.v,
                   y |-> (CHOOSE o \in oe : o.k = e.k /\ o.p = e.p).v] : e \in pairE}
      missing == {[d |-> "missing", k |-> e.k, p |-> e.p, q |-> Qual(E, e.k, e.p), x |-> e.v, y |-> "-"] : e \in eo \ pairE}
      invented == {[d |-> "invented", k |-> o.k, p |-> o.p, q |-> Qual(O, o.k, o.p), x |-> "-", y |-> o.v] :
                     o \in {o \in oe : ~\E e \in eo : o.k = e.k /\ o.p = e.p}}
      structural == {m \in missing \cup invented : m.k \in ElementKinds}
  \* primary differences only: what hangs below a missing / invented element is not reported again
  IN {m \in changed \cup missing \cup invented :
        /\ ~\E s \in structural : IsPrefix(s.p, m.p) \/ (s.p = m.p /\ m.k \notin ElementKinds)
        \* a lost / invented deprecated flag explains the difference of the reason
        /\ ~(m.k = "deprecationReason" /\ \E s \in changed : s.k = "deprecated" /\ s.p = m.p)}

\* same type system (order-insensitive; default values as values; built-ins of the base schema included on both sides)
Equiv(S1, S2) == IFacts(IntrospectRaw(S1, TRUE)) = IFacts(IntrospectRaw(S2, TRUE))

\* ================================================================== FromIntrospection
ChainRef(ch) ==
  Ref(SV(ch[Len(ch)].name),
      IF Len(ch) <= 1 THEN <<>> ELSE [i \in 1..(Len(ch) - 1) |-> IF SV(ch[i].kind) = "LIST" THEN "L" ELSE "N"])
DepFrom(x) == IF x.isDeprecated.t = "b" /\ x.isDeprecated.v
              THEN [d |-> TRUE, hr |-> x.deprecationReason.t = "s", r |-> IF x.deprecationReason.t = "s" THEN x.deprecationReason.v ELSE ""]
              ELSE NoDep
DescFrom(o) == IF o.t = "n" THEN "" ELSE o.v
IVFrom(iv) == [name |-> SV(iv.name), desc |-> DescFrom(iv.description), type |-> ChainRef(iv.type),
               def |-> IF iv.defaultValue.t = "n" THEN NoVal ELSE iv.defaultValue.v, dep |-> DepFrom(iv), tags |-> <<>>]
FieldFrom(f) == [name |-> SV(f.name), desc |-> DescFrom(f.description), type |-> ChainRef(f.type),
                 args |-> MapSeq(LV(f.args), LAMBDA x : IVFrom(x)), dep |-> DepFrom(f), tags |-> <<>>]
TypeFrom(ft) ==
  [name |-> SV(ft.name), kind |-> SV(ft.kind), desc |-> DescFrom(ft.description),
   fields |-> MapSeq(LV(ft.fields), LAMBDA x : FieldFrom(x)),
   ifaces |-> MapSeq(LV(ft.interfaces), LAMBDA r : SV(r[Len(r)].name)),
   \* possibleTypes of an interface are derived data; only a union's members are part of its definition
   members |-> IF SV(ft.kind) = "UNION" THEN MapSeq(LV(ft.possibleTypes), LAMBDA r : SV(r[Len(r)].name)) ELSE <<>>,
   values |-> MapSeq(LV(ft.enumValues), LAMBDA e : [name |-> SV(e.name), desc |-> DescFrom(e.description), dep |-> DepFrom(e), tags |-> <<>>]),
   inputs |-> MapSeq(LV(ft.inputFields), LAMBDA x : IVFrom(x)),
   url |-> IF ft.specifiedByURL.t = "n" THEN "" ELSE ft.specifiedByURL.v, tags |-> <<>>, ext |-> 0]
FromIntrospection(I) ==
  [desc |-> DescFrom(I.description), sd |-> TRUE, stags |-> <<>>, xroots |-> FALSE, query |-> SV(I.queryType),
   mutation |-> IF I.mutationType.t = "n" THEN "" ELSE I.mutationType.v,
   subscription |-> IF I.subscriptionType.t = "n" THEN "" ELSE I.subscriptionType.v,
   types |-> MapSeq(I.types, LAMBDA t : TypeFrom(t)),
   dirs |-> MapSeq(I.directives, LAMBDA d : [name |-> SV(d.name), desc |-> DescFrom(d.description), locs |-> LV(d.locations),
                                             rep |-> d.isRepeatable.t = "b" /\ d.isRepeatable.v,
                                             args |-> MapSeq(LV(d.args), LAMBDA x : IVFrom(x))])]
=============================================================================
