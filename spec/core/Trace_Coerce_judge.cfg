CONSTANTS
  D = 2
  Wide = FALSE
  Cat = 1
SPECIFICATION TraceSpec
CONSTRAINT HighWater
CONSTRAINT Judge
POSTCONDITION TraceAccepted
CHECK_DEADLOCK FALSE
