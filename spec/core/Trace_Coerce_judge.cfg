CONSTANTS
  D = 2
  Wide = FALSE
SPECIFICATION TraceSpec
CONSTRAINT HighWater
CONSTRAINT Judge
POSTCONDITION TraceAccepted
CHECK_DEADLOCK FALSE
