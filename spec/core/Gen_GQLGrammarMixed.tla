-------------------------- MODULE Gen_GQLGrammarMixed --------------------------
(* Generator of documents that mix executable and type-system definitions       *)
(* (GQLGrammarSDL!MSpec); output as Gen_GQLGrammar, with the real numbers.       *)
EXTENDS GQLGrammarSDL, Json
IsMixed == (\E i \in 1..Len(toks) : toks[i].r = "sdl") /\ (\E i \in 1..Len(toks) : toks[i].r \in {"kw_op", "kw_frag", "sh_open"})
EmitMixed ==
  IF Done /\ IsMixed
  THEN PrintT(ToJson([toks |-> toks, text |-> Text(toks), depth |-> Depth(toks), idepth |-> InlinedDepth(toks),
                      fields |-> FieldCount(toks), lims |-> LimitPairs(toks), nmut |-> NMut(toks),
                      implF |-> ImplFields(toks, FALSE), implD |-> ImplDepthMax(toks, FALSE),
                      implFx |-> ImplFields(toks, TRUE), implDx |-> ImplDepthMax(toks, TRUE), implTx |-> ImplTotalDepth(toks, TRUE)]))
  ELSE TRUE
GenMixedConstraint == EmitMixed
=============================================================================
