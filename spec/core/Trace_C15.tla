----------------------------- MODULE Trace_C15 -----------------------------
(* Validation pass of C15: every line of the NDJSON file IOEnv.TRACE is one  *)
(* observation recorded by harness/cmd/args on the real engine:              *)
(*   c      the case exactly as generated (value expression, variables, twin) *)
(*   norm   operation + Document.Input.Variables after the engine's           *)
(*          normalization steps, argument evaluated under those variables     *)
(*   sub    what the subgraph received (query + variables object), argument   *)
(*          evaluated under the received variables by an independent parser   *)
(*   twsub  the same for the JSON-variable twin of the case                   *)
(* The trace spec consumes one observation per step.  The relation of the    *)
(* property is the conjunction of the predicates below, each re-computed     *)
(* from the case with GQLLiteral!Denotes.  Two configurations:               *)
(*   Trace_C15.cfg         collect mode: prints one verdict per failing line  *)
(*                         (all failures of a batch in one TLC run)           *)
(*   Trace_C15_strict.cfg  the predicates as INVARIANTS (first failure stops) *)
(* Acceptance of the whole file = high-water mark of consumed lines.         *)
EXTENDS GQLLiteral, Json, TLCExt, IOUtils
TraceLog == ndJsonDeserialize(IOEnv.TRACE)
VARIABLE l
TraceInit == l = 1 /\ TLCSet(1, 0)
TraceNext == l <= Len(TraceLog) /\ l' = l + 1
TraceSpec == TraceInit /\ [][TraceNext]_l

Seen(ob) == ob.ok /\ ob.valid        \* the observation point was reached and its variables object could be read

\* ---- model-level sanity of the case itself (a failure here is a generator/model problem, never a verdict)
ModelCaseOK(o, d) == CaseOK(o.c) /\ ~HasErr(d)
ModelTwinSame(o, d) == o.hastw => VEq(Den(o.c.tw, o.c.ty, <<>>, TRUE), d)

\* ---- the property
NoPanic(o) == ~o.panic
VarsJSONValid(o) == /\ o.norm.ok => o.norm.valid
                    /\ o.sub.ok => o.sub.valid
                    /\ o.hastw /\ o.twsub.ok => o.twsub.valid
\* observed and supplied values are compared after input coercion (schema defaults for what was not provided)
ObsVal(ob, ty) == Coerce(Canon(ob.val, ty), ty)
Extracted(o, d) == Seen(o.norm) => VEq(ObsVal(o.norm, o.c.ty), Coerce(d, o.c.ty))
Forwarded(o, d) == Seen(o.sub) => VEq(ObsVal(o.sub, o.c.ty), Coerce(d, o.c.ty))
TwinForwarded(o) == o.hastw /\ Seen(o.twsub) => VEq(ObsVal(o.twsub, o.c.ty), Coerce(Den(o.c.tw, o.c.ty, <<>>, TRUE), o.c.ty))
FormsAgree(o) == o.hastw /\ Seen(o.sub) /\ Seen(o.twsub) => VEq(ObsVal(o.sub, o.c.ty), ObsVal(o.twsub, o.c.ty))
AbsentStaysAbsent(o, d) ==
  d.t = "x" /\ ArgDefault(o.c.ty).k = "omit" =>
    /\ Seen(o.norm) => o.norm.val.t = "x" /\ ~o.norm.haskey
    /\ Seen(o.sub) => o.sub.val.t = "x" /\ ~o.sub.haskey
NullStaysNull(o, d) == d.t = "n" => /\ Seen(o.norm) => o.norm.val.t = "n"
                                    /\ Seen(o.sub) => o.sub.val.t = "n"
\* a request that passed parsing, validation and variable extraction reaches the subgraph (generated cases are valid
\* by construction: nothing in the variable machinery may refuse them)
Reaches(o) == Seen(o.norm) => o.sub.ok
\* a second, independent variable $zz of the same request (omitted | explicit null | 7) arrives in the state it was sent in
CompanionPreserved(o) == o.c.comp # "none" => /\ Seen(o.norm) => o.norm.comp = o.c.comp
                                              /\ Seen(o.sub) => o.sub.comp = o.c.comp

Failed(o) ==
  LET d == Denotes(o.c) IN
    (IF ModelCaseOK(o, d) THEN {} ELSE {"ModelCaseOK"})
    \cup (IF ModelTwinSame(o, d) THEN {} ELSE {"ModelTwinSame"})
    \cup (IF NoPanic(o) THEN {} ELSE {"NoPanic"})
    \cup (IF VarsJSONValid(o) THEN {} ELSE {"VarsJSONValid"})
    \cup (IF Extracted(o, d) THEN {} ELSE {"Extracted"})
    \cup (IF Forwarded(o, d) THEN {} ELSE {"Forwarded"})
    \cup (IF TwinForwarded(o) THEN {} ELSE {"TwinForwarded"})
    \cup (IF FormsAgree(o) THEN {} ELSE {"FormsAgree"})
    \cup (IF AbsentStaysAbsent(o, d) THEN {} ELSE {"AbsentStaysAbsent"})
    \cup (IF NullStaysNull(o, d) THEN {} ELSE {"NullStaysNull"})
    \cup (IF CompanionPreserved(o) THEN {} ELSE {"CompanionPreserved"})
    \cup (IF Reaches(o) THEN {} ELSE {"Reaches"})

\* ---- collect mode
HighWater == TLCSet(1, IF l > TLCGet(1) THEN l ELSE TLCGet(1))
Collect ==
  /\ HighWater
  /\ IF l <= Len(TraceLog)
     THEN LET f == Failed(TraceLog[l]) IN
          IF f = {} THEN TRUE
          ELSE PrintT(ToJson([line |-> l, id |-> TraceLog[l].id, failed |-> f, expected |-> Denotes(TraceLog[l].c)]))
     ELSE TRUE
TraceAccepted ==
  IF TLCGet(1) = Len(TraceLog) + 1 THEN TRUE
  ELSE /\ PrintT(<<"TRACE_STUCK_AT_LINE", TLCGet(1)>>)
       /\ FALSE

\* ---- strict mode
Inv_Model == l <= Len(TraceLog) => LET o == TraceLog[l] IN ModelCaseOK(o, Denotes(o.c)) /\ ModelTwinSame(o, Denotes(o.c))
Inv_NoPanic == l <= Len(TraceLog) => NoPanic(TraceLog[l])
Inv_VarsJSONValid == l <= Len(TraceLog) => VarsJSONValid(TraceLog[l])
Inv_Extracted == l <= Len(TraceLog) => Extracted(TraceLog[l], Denotes(TraceLog[l].c))
Inv_Forwarded == l <= Len(TraceLog) => Forwarded(TraceLog[l], Denotes(TraceLog[l].c))
Inv_TwinForwarded == l <= Len(TraceLog) => TwinForwarded(TraceLog[l])
Inv_FormsAgree == l <= Len(TraceLog) => FormsAgree(TraceLog[l])
Inv_AbsentStaysAbsent == l <= Len(TraceLog) => AbsentStaysAbsent(TraceLog[l], Denotes(TraceLog[l].c))
Inv_NullStaysNull == l <= Len(TraceLog) => NullStaysNull(TraceLog[l], Denotes(TraceLog[l].c))
Inv_CompanionPreserved == l <= Len(TraceLog) => CompanionPreserved(TraceLog[l])
Inv_Reaches == l <= Len(TraceLog) => Reaches(TraceLog[l])
=============================================================================
