----------------------------- MODULE Trace_C03 -----------------------------
(* Validation pass of C03.  Every line of IOEnv.TRACE is one observation of  *)
(* the real admission sequence (harness/cmd/norm) on a valid operation:      *)
(*   {id, schema, doc, vars, ndoc, nvars}                                    *)
(* ndoc = the printed normalized operation re-read by gqlparser, nvars = the *)
(* normalized variables under the names ndoc uses.  TLC evaluates            *)
(*   NormValid            == SpecValid(S, Reachable(ndoc))                   *)
(*   NormPreservesMeaning == \A D \in Probe(S) :                             *)
(*                             Exec(S, D, ndoc, nvars) = Exec(S, D, doc, vars) *)
(* for every line (one per step); non-conforming lines are printed and       *)
(* counted, the POSTCONDITION demands that all lines were consumed and none  *)
(* was non-conforming.                                                       *)
EXTENDS GQLDiag, GQLExec, Json, TLCExt, IOUtils
TraceLog == ndJsonDeserialize(IOEnv.TRACE)
VARIABLE l

NormValid(S, o) == SpecValid(S, Reachable(o.ndoc))
Differing(S, o) == {u \in DOMAIN Probe(S) : Exec(S, Probe(S)[u], o.ndoc, o.nvars) # Exec(S, Probe(S)[u], o.doc, o.vars)}
NormPreservesMeaning(S, o) == Differing(S, o) = {}

TraceInit == l = 1 /\ TLCSet(1, 0) /\ TLCSet(2, 0)
TraceNext == l <= Len(TraceLog) /\ l' = l + 1
TraceSpec == TraceInit /\ [][TraceNext]_l

\* naming (not part of the verdict): variables of the original operation all of whose uses are nested in list / object
\* literals of field arguments (extraction replaces the whole literal, the definition is left behind)
RECURSIVE TopVars(_)
TopVars(sel) ==
  UNION {{sel[i].args[j].value.n : j \in {k \in DOMAIN sel[i].args : sel[i].args[k].value.t = "v"}} \cup DirsVars(sel[i].dirs) \cup TopVars(sel[i].sel)
         : i \in DOMAIN sel}
NestedOnlyVars(doc) ==
  LET top == UNION {TopVars(doc.ops[i].sel) \cup DirsVars(doc.ops[i].dirs) : i \in DOMAIN doc.ops}
             \cup UNION {TopVars(doc.frags[i].sel) \cup DirsVars(doc.frags[i].dirs) : i \in DOMAIN doc.frags}
  IN UNION {OpVarUses(doc, doc.ops[i]) : i \in DOMAIN doc.ops} \ top
\* variables nested in a list / object literal of a directive argument (neither extracted nor renamed by the implementation)
NestedInValue(v) == IF v.t \in {"l", "o"} THEN VarsInValue(v) ELSE {}
DirLitVars(dirs) == UNION {UNION {NestedInValue(dirs[i].args[j].value) : j \in DOMAIN dirs[i].args} : i \in DOMAIN dirs}
RECURSIVE SelDirLitVars(_)
SelDirLitVars(sel) == UNION {DirLitVars(sel[i].dirs) \cup SelDirLitVars(sel[i].sel) : i \in DOMAIN sel}
DirectiveLiteralVars(doc) ==
  UNION {SelDirLitVars(doc.ops[i].sel) \cup DirLitVars(doc.ops[i].dirs) : i \in DOMAIN doc.ops}
  \cup UNION {SelDirLitVars(doc.frags[i].sel) \cup DirLitVars(doc.frags[i].dirs) : i \in DOMAIN doc.frags}
DuplicatedVars(doc) ==
  UNION {{doc.ops[i].vars[j].name : j \in {k \in DOMAIN doc.ops[i].vars : \E m \in DOMAIN doc.ops[i].vars : m # k /\ doc.ops[i].vars[m].name = doc.ops[i].vars[k].name}}
         : i \in DOMAIN doc.ops}
UnusedIn(doc) == UNION {Range(Names(doc.ops[i].vars)) \ OpVarUses(doc, doc.ops[i]) : i \in DOMAIN doc.ops}

Judge ==
  IF l > Len(TraceLog) THEN TRUE
  ELSE LET o == TraceLog[l]
           S == SchemaById(o.schema)
           nd == Reachable(o.ndoc)
           failed == FailedRules(S, nd)
           valid == Executable(S, nd) /\ failed = {}
           \* the meaning is compared whenever the normalized operation can be executed by the reference semantics
           \* (an unused variable definition does not prevent that)
           diff == IF Executable(S, nd) /\ failed \subseteq {"VariablesUsed"} THEN Differing(S, o) ELSE {}
           tokens == {IF t = "VariablesUsed" /\ UnusedIn(nd) \subseteq NestedOnlyVars(Reachable(o.doc)) THEN "VariablesUsed/nested-only-variable"
                      ELSE IF t = "VariablesUnique" /\ DuplicatedVars(nd) \subseteq DirectiveLiteralVars(Reachable(o.doc))
                           THEN "VariablesUnique/directive-literal-variable" ELSE t
                      : t \in TokensOf(S, nd, failed)}
           \* does the known defect (ExecAlt) explain the difference?
           alt == diff # {} /\ \A u \in DOMAIN Probe(S) : Exec(S, Probe(S)[u], o.ndoc, o.nvars) = ExecAlt(S, Probe(S)[u], o.doc, o.vars)
       IN /\ TLCSet(1, IF l > TLCGet(1) THEN l ELSE TLCGet(1))
          /\ IF valid /\ diff = {} THEN TRUE
             ELSE /\ PrintT(ToJson([nonconforming |-> o.id, valid |-> valid, tokens |-> tokens, universes |-> diff, alt |-> alt]))
                  /\ TLCSet(2, TLCGet(2) + 1)

\* the same relations as plain invariants (replay mode / binding demonstration)
NormValidInv == l <= Len(TraceLog) => NormValid(SchemaById(TraceLog[l].schema), TraceLog[l])
NormPreservesMeaningInv == l <= Len(TraceLog) => NormPreservesMeaning(SchemaById(TraceLog[l].schema), TraceLog[l])

AllConsumedAndConforming ==
  IF TLCGet(1) = Len(TraceLog) /\ TLCGet(2) = 0 THEN TRUE
  ELSE /\ PrintT(<<"TRACE_RESULT", TLCGet(1), Len(TraceLog), TLCGet(2)>>)
       /\ FALSE
=============================================================================
