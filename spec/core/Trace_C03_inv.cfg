SPECIFICATION TraceSpec
INVARIANTS NormValidInv NormPreservesMeaningInv
CHECK_DEADLOCK FALSE
