SPECIFICATION TraceSpec
CONSTRAINT HighWater
INVARIANTS Inv_Model Inv_NoPanic Inv_VarsJSONValid Inv_Extracted Inv_Forwarded Inv_TwinForwarded Inv_FormsAgree Inv_AbsentStaysAbsent Inv_NullStaysNull Inv_CompanionPreserved Inv_Reaches
POSTCONDITION TraceAccepted
CHECK_DEADLOCK FALSE
