CONSTANTS
  MaxBuild = 3
  MaxReform = 1
  MaxDepth = 2
  MaxRoots = 1
  RootFilter = {"category", "categoriesByKind", "categories", "testContainers", "testContainer", "user", "typeFilterWithArguments", "recursiveType"}
  FieldFilter = {"id", "name", "kind", "subcategories", "nullMetrics", "description", "isActive", "recursiveType", "filterField1", "filterField2"}
  MaxReval = 0
  Mut = "none"
SPECIFICATION GenSpec

CHECK_DEADLOCK FALSE
