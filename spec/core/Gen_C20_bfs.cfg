CONSTANTS
  MaxBuild = 3
  MaxReform = 1
  MaxDepth = 2
  MaxRoots = 1
  RootFilter = {"users", "allPets", "nestedType"}
  FieldFilter = {}
  MaxReval = 0
  Mut = "none"
SPECIFICATION GenSpec

CHECK_DEADLOCK FALSE
