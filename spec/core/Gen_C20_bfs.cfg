CONSTANTS
  MaxBuild = 3
  MaxReform = 1
  MaxDepth = 2
  MaxRoots = 1
  RootFilter = {"users", "allPets", "nestedType"}
  Mut = "none"
SPECIFICATION Spec
CONSTRAINT GenConstraint
CHECK_DEADLOCK FALSE
