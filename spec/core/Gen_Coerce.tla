----------------------------- MODULE Gen_Coerce -----------------------------
(* Generator of C06: the state graph is the test suite.  Level 1 states pick *)
(* a variable type (or a pair of types), level 2 states are complete cases:  *)
(* variable definition(s) with / without default, the JSON value per         *)
(* variable from the menus of CoerceCatalog (or absent), and the shape of    *)
(* the request's "variables" member.  Each case is printed with the verdict  *)
(* the specification prescribes.                                             *)
EXTENDS CoerceCatalog, Json
VARIABLE st

Var(name, i, dm, v) == [name |-> name, tix |-> i, dm |-> dm, val |-> v]
Case(vm, pos, extra, vars) == [stage |-> "case", vm |-> vm, pos |-> pos, extra |-> extra, vars |-> vars]
DMs(i) == IF VarLits[i] = "" THEN {"none"} ELSE {"none", "def"}

SingleCases(i) ==
  LET T == VarTypes[i] IN
  \* a value (or no entry) inside a variables object
  {Case("obj", "same", FALSE, <<Var("x", i, dm, v)>>) : dm \in DMs(i), v \in TopMenu(i) \cup {Absent}}
  \* no variables member / variables: null
  \cup {Case(vm, "same", FALSE, <<Var("x", i, dm, Absent)>>) : vm \in {"none", "null"}, dm \in DMs(i)}
  \* an undeclared variable next to it is ignored
  \cup {Case("obj", "same", TRUE, <<Var("x", i, dm, v)>>) : dm \in DMs(i), v \in {Absent, Good(T), Bad(T)}}
  \* nullable variable with default at a Non-Null position (explicit null is not generated: it is coercible for the
  \* variable but a field error for the argument, the statement does not say which of the two the gate should report)
  \cup (IF i \in NNPos
        THEN {Case("obj", "nn", FALSE, <<Var("x", i, "def", v)>>) : v \in (Menu(T, D) \ {VNull}) \cup {Absent}}
             \cup {Case("none", "nn", FALSE, <<Var("x", i, "def", Absent)>>)}
        ELSE {})

PairCases(k) ==
  LET i == Pairs[k][1]
      j == Pairs[k][2]
      n1 == PairNames[k][1]
      n2 == PairNames[k][2] IN
  {Case("obj", "same", FALSE, <<Var(n1, i, "none", a), Var(n2, j, "none", b)>>) : a \in PairMenu(VarTypes[i]), b \in PairMenu(VarTypes[j])}
  \cup {Case("none", "same", FALSE, <<Var(n1, i, "none", Absent), Var(n2, j, "none", Absent)>>)}
  \cup {Case("obj", "same", FALSE, <<Var(n1, i, "def", a), Var(n2, j, "none", b)>>) : a \in {Absent, VNull}, b \in {Good(VarTypes[j]), Bad(VarTypes[j])}}

GenInit == st \in {[stage |-> "type", tix |-> i] : i \in 1..NTypes} \cup {[stage |-> "pair", k |-> k] : k \in 1..Len(Pairs)}
GenNext == \/ st.stage = "type" /\ st' \in SingleCases(st.tix)
           \/ st.stage = "pair" /\ st' \in PairCases(st.k)
GenSpec == GenInit /\ [][GenNext]_st

Emit == IF st.stage = "case"
        THEN PrintT(ToJson([case |-> st, expected |-> [accept |-> Expected(st), errs |-> ExpectedErrs(st), kinds |-> ExpectedKinds(st)]]))
        ELSE TRUE
\* printed once: the schema and the variable types, for the driver
Header == IF st.stage = "type" /\ st.tix = 1
          THEN PrintT(ToJson([header |-> [schema |-> Catalog, vartypes |-> VarTypes, varlits |-> VarLits, nnpos |-> NNPos, extraname |-> ExtraName, ninit |-> NTypes + Len(Pairs)]]))
          ELSE TRUE
GenConstraint == Emit /\ Header

\* ---------------------------------------------------------------- model checking: laws of the definition
IsCase == st.stage = "case"
One == st.vars[1]
T1 == VarTypes[One.tix]
HasVal == IsCase /\ Len(st.vars) = 1 /\ st.vm = "obj" /\ One.val.t # "x"
\* Coercible and Errs are two readings of the same rules
ErrsAgree == IsCase => (Expected(st) <=> ExpectedErrs(st) = {})
\* 3.12: Non-Null adds exactly the rejection of null
NonNullLaw == HasVal => /\ Coercible(Catalog, NonNull(T1), One.val) => Coercible(Catalog, T1, One.val)
                        /\ (T1.k # "nn" /\ One.val.t # "n" /\ Coercible(Catalog, T1, One.val)) => Coercible(Catalog, NonNull(T1), One.val)
                        /\ (One.val.t = "n") => (Coercible(Catalog, T1, One.val) <=> T1.k # "nn")
\* 3.11: a non-list, non-null value v is coercible to [T] iff it is coercible to T
ListLaw == HasVal /\ One.val.t \notin {"l", "n"} => (Coercible(Catalog, ListOf(T1), One.val) <=> Coercible(Catalog, T1, One.val))
\* 3.11: a list is coercible iff every item is
ItemLaw == HasVal /\ One.val.t = "l" /\ T1.k = "list" =>
             (Coercible(Catalog, T1, One.val) <=> \A i \in 1..One.val.n : Coercible(Catalog, T1.of, One.val.v[i]))
\* Int values are Float and ID values
NumLaw == HasVal => /\ Coercible(Catalog, Named("Int"), One.val) => Coercible(Catalog, Named("Float"), One.val) /\ Coercible(Catalog, Named("ID"), One.val)
                    /\ Coercible(Catalog, Named("Blob"), One.val)      \* custom scalar: every JSON value (null included, the type is nullable)
                    /\ Coercible(Catalog, NonNull(Named("Blob")), One.val) <=> One.val.t # "n"
\* the canonical values are what their names say
GoodBad == st.stage = "type" => /\ Coercible(Catalog, VarTypes[st.tix], Good(VarTypes[st.tix]))
                               /\ Coercible(Catalog, VarTypes[st.tix], Full(VarTypes[st.tix], 2))
                               /\ (~Coercible(Catalog, VarTypes[st.tix], Bad(VarTypes[st.tix])) \/ VarTypes[st.tix] = Named("Blob"))
\* no declared variable without value and default is accepted when it is Non-Null (6.1.2), whatever the request shape
AbsentLaw == IsCase /\ Len(st.vars) = 1 /\ One.val.t = "x" => (Expected(st) <=> (One.dm = "def" \/ T1.k # "nn"))
\* an undeclared variable changes nothing
ExtraLaw == IsCase /\ st.extra => (Expected(st) <=> Expected([st EXCEPT !.extra = FALSE]))
=============================================================================
