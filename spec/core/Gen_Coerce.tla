----------------------------- MODULE Gen_Coerce -----------------------------
(* Generator of C06: the state graph is the test suite.  Level 1 states pick *)
(* a variable type (or a pair of types), level 2 states are complete cases:  *)
(* variable definition(s) with / without default, the JSON value per         *)
(* variable from the menus of CoerceCatalog (or absent), and the shape of    *)
(* the request's "variables" member.  Each case is printed with the verdict  *)
(* the specification prescribes.                                             *)
EXTENDS CoerceCatalog, Json
VARIABLE st

Var(name, i, dm, v) == [name |-> name, tix |-> i, dm |-> dm, val |-> v]
CaseX(vm, pos, host, extra, dupv, dupfirst, vars) ==
  [stage |-> "case", cat |-> Cat, vm |-> vm, pos |-> pos, host |-> host, extra |-> extra, dupv |-> dupv, dupfirst |-> dupfirst, vars |-> vars]
Case(vm, pos, extra, vars) == CaseX(vm, pos, 0, extra, Absent, FALSE, vars)
DMs(i) == IF VarLits[i] = "" THEN {"none"} ELSE {"none", "def"}

SingleCases(i) ==
  LET T == VarTypes[i] IN
  \* a value (or no entry) inside a variables object
  {Case("obj", "same", FALSE, <<Var("x", i, dm, v)>>) : dm \in DMs(i), v \in TopMenu(i) \cup {Absent}}
  \* no variables member / variables: null
  \cup {Case(vm, "same", FALSE, <<Var("x", i, dm, Absent)>>) : vm \in {"none", "null"}, dm \in DMs(i)}
  \* an undeclared variable next to it is ignored
  \cup {Case("obj", "same", TRUE, <<Var("x", i, dm, v)>>) : dm \in DMs(i), v \in {Absent, Good(T), Bad(T)}}
  \* nullable variable with default at a Non-Null position.  An explicit null is coercible for the variable (6.1.2); that
  \* the argument then is null is a field error of execution (6.4.1), not a reason to refuse the request
  \cup (IF i \in NNPos
        THEN {Case("obj", "nn", FALSE, <<Var("x", i, "def", v)>>) : v \in Menu(T, D) \cup {Absent}}
             \cup {Case("none", "nn", FALSE, <<Var("x", i, "def", Absent)>>)}
        ELSE {})

\* the variable is used inside an argument literal
HostCases(k) ==
  LET h == Hosts[k] IN
  {CaseX("obj", "host", k, FALSE, Absent, FALSE, <<Var("x", h.tix, "none", v)>>) : v \in Menu(VarTypes[h.tix], D) \cup {Absent}}
  \cup {CaseX("none", "host", k, FALSE, Absent, FALSE, <<Var("x", h.tix, "none", Absent)>>)}

\* several variables, every one independently absent / null / good / bad
RECURSIVE VarTuples(_, _)
VarTuples(m, j) ==
  IF j > Len(m.tix) THEN {<<>>}
  ELSE {<<Var(m.names[j], m.tix[j], "none", a)>> \o r : a \in PairMenu(VarTypes[m.tix[j]]), r \in VarTuples(m, j + 1)}
MultiCases(k) ==
  LET m == Multis[k]
      i == m.tix[1]
      rest == [j \in 1..(Len(m.tix) - 1) |-> Var(m.names[j + 1], m.tix[j + 1], "none", Good(VarTypes[m.tix[j + 1]]))] IN
  {Case("obj", "same", FALSE, vs) : vs \in VarTuples(m, 1)}
  \cup {Case("none", "same", FALSE, [j \in 1..Len(m.tix) |-> Var(m.names[j], m.tix[j], "none", Absent)])}
  \cup (IF VarLits[i] = "" THEN {} ELSE {Case("obj", "same", FALSE, <<Var(m.names[1], i, "def", a)>> \o rest) : a \in {Absent, VNull}})

GenInit == st \in {[stage |-> "type", tix |-> i] : i \in 1..NTypes} \cup {[stage |-> "multi", k |-> k] : k \in 1..Len(Multis)}
                  \cup {[stage |-> "host", k |-> k] : k \in 1..Len(Hosts)}
GenNext == \/ st.stage = "type" /\ st' \in SingleCases(st.tix)
           \/ st.stage = "multi" /\ st' \in MultiCases(st.k)
           \/ st.stage = "host" /\ st' \in HostCases(st.k)
GenSpec == GenInit /\ [][GenNext]_st

Emit == IF st.stage = "case"
        THEN PrintT(ToJson([case |-> st, expected |-> [accept |-> Expected(st), errs |-> ExpectedErrs(st), kinds |-> ExpectedKinds(st)]]))
        ELSE TRUE
\* printed once: the schema and the variable types, for the driver
Header == IF st.stage = "type" /\ st.tix = 1
          THEN PrintT(ToJson([header |-> [schema |-> Catalog, vartypes |-> VarTypes, varlits |-> VarLits, nnpos |-> NNPos, extraname |-> ExtraName, hosts |-> Hosts, cat |-> Cat,
                                          ninit |-> NTypes + Len(Multis) + Len(Hosts)]]))
          ELSE TRUE
GenConstraint == Emit /\ Header

\* ---------------------------------------------------------------- model checking: laws of the definition
IsCase == st.stage = "case"
One == st.vars[1]
T1 == VarTypes[One.tix]
HasVal == IsCase /\ Len(st.vars) = 1 /\ st.vm = "obj" /\ One.val.t # "x" /\ st.dupv.t = "x"
RECURSIVE BaseName(_)
BaseName(T) == IF T.k = "named" THEN T.n ELSE BaseName(T.of)
\* Coercible and Errs are two readings of the same rules
ErrsAgree == IsCase => (Expected(st) <=> ExpectedErrs(st) = {})
\* 3.12: Non-Null adds exactly the rejection of null
NonNullLaw == HasVal => /\ Coercible(Catalog, NonNull(T1), One.val) => Coercible(Catalog, T1, One.val)
                        /\ (T1.k # "nn" /\ One.val.t # "n" /\ Coercible(Catalog, T1, One.val)) => Coercible(Catalog, NonNull(T1), One.val)
                        /\ (One.val.t = "n") => (Coercible(Catalog, T1, One.val) <=> T1.k # "nn")
\* 3.11: a non-list, non-null value v is coercible to [T] iff it is coercible to T
ListLaw == HasVal /\ One.val.t \notin {"l", "n"} => (Coercible(Catalog, ListOf(T1), One.val) <=> Coercible(Catalog, T1, One.val))
\* 3.11: a list is coercible iff every item is
ItemLaw == HasVal /\ One.val.t = "l" /\ T1.k = "list" =>
             (Coercible(Catalog, T1, One.val) <=> \A i \in 1..One.val.n : Coercible(Catalog, T1.of, One.val.v[i]))
\* Int values are Float and ID values
NumLaw == HasVal => /\ Coercible(Catalog, Named("Int"), One.val) => Coercible(Catalog, Named("Float"), One.val) /\ Coercible(Catalog, Named("ID"), One.val)
                    /\ Coercible(Catalog, Named("Blob"), One.val)      \* custom scalar: every JSON value (null included, the type is nullable)
                    /\ Coercible(Catalog, NonNull(Named("Blob")), One.val) <=> One.val.t # "n"
\* the canonical values are what their names say
GoodBad == st.stage = "type" => /\ Coercible(Catalog, VarTypes[st.tix], Good(VarTypes[st.tix]))
                               /\ Coercible(Catalog, VarTypes[st.tix], Full(VarTypes[st.tix], 2))
                               /\ (~Coercible(Catalog, VarTypes[st.tix], Bad(VarTypes[st.tix])) \/ BaseName(VarTypes[st.tix]) = "Blob")
\* no declared variable without value and default is accepted when it is Non-Null (6.1.2), whatever the request shape
AbsentLaw == IsCase /\ Len(st.vars) = 1 /\ One.val.t = "x" /\ st.dupv.t = "x" => (Expected(st) <=> (One.dm = "def" \/ T1.k # "nn"))
\* an undeclared variable changes nothing
ExtraLaw == IsCase /\ st.extra => (Expected(st) <=> Expected([st EXCEPT !.extra = FALSE]))
=============================================================================
