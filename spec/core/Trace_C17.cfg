SPECIFICATION TraceSpec
CONSTRAINT HighWater
POSTCONDITION TraceAccepted
CHECK_DEADLOCK FALSE
