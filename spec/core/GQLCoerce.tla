------------------------------ MODULE GQLCoerce ------------------------------
(* GraphQL input coercion as executable TLA+.                                *)
(*                                                                           *)
(* Sources: GraphQL specification (October 2021) section 3.5 (scalars: Int,   *)
(* Float, String, Boolean, ID "Input Coercion"), 3.9 enums, 3.10 input       *)
(* objects, 3.11 lists, 3.12 non-null, 6.1.2 CoerceVariableValues, and the   *)
(* OneOf input objects RFC (now in the draft: "exactly one entry, non-null").*)
(*                                                                           *)
(* Everything is parameterised by a schema S: a record  type name -> def.    *)
(*   def = [kind |-> "scalar"]                                               *)
(*       | [kind |-> "enum",  values |-> <<accessible names>>, hidden |-> <<inaccessible names>>] *)
(*       | [kind |-> "input", oneOf |-> BOOLEAN, fields |-> <<field>>]       *)
(*   field = [name, type, def (has a default value), lit (its literal)]      *)
(* Type references:  Named(n) | ListOf(t) | NonNull(t).                      *)
(*                                                                           *)
(* JSON values are tagged records (TLC cannot hold null / fractions /        *)
(* integers >= 2^31, and every leaf of a test value is a unique sentinel that *)
(* the driver chooses, so the spec only needs the *class* of a leaf):        *)
(*   [t |-> "n"]  null          [t |-> "b"]  true/false                      *)
(*   [t |-> "i"]  an integer in [-2^31, 2^31)                                *)
(*   [t |-> "I"]  an integer outside that range                              *)
(*   [t |-> "f"]  a number with a fractional part                            *)
(*   [t |-> "s", v |-> c]  a string; c = the text if it is one of the enum   *)
(*                         value names of the catalog, else "any"            *)
(*   [t |-> "l", n |-> length, v |-> <<items>>]                              *)
(*   [t |-> "o", n |-> size,   e |-> <<[k |-> key, v |-> value]>>]  (keys unique) *)
(*   [t |-> "x"]  absent (only as "no entry" marker, never inside a value)   *)
EXTENDS Integers, Sequences, FiniteSets, TLC

Named(n)   == [k |-> "named", n |-> n]
ListOf(t)  == [k |-> "list", of |-> t]
NonNull(t) == [k |-> "nn", of |-> t]

Absent == [t |-> "x"]
VNull  == [t |-> "n"]
VBool  == [t |-> "b"]
VInt   == [t |-> "i"]
VBig   == [t |-> "I"]
VFrac  == [t |-> "f"]
VStr(c)  == [t |-> "s", v |-> c]
VList(s) == [t |-> "l", n |-> Len(s), v |-> s]
VObjE(e) == [t |-> "o", n |-> Len(e), e |-> e]
EmptyObj == VObjE(<<>>)
Entry(k, v) == [k |-> k, v |-> v]

KeyIdx(o, name) == {j \in 1..o.n : o.e[j].k = name}
Has(o, name) == KeyIdx(o, name) # {}
Get(o, name) == o.e[CHOOSE j \in KeyIdx(o, name) : TRUE].v
\* Duplicate names: RFC 8259 section 4 calls the behaviour of receivers "unpredictable" (first wins, last wins, error).
\* The variables are forwarded to other software, so an object is coercible only if EVERY occurrence of a name is
\* (then every reading is); an object whose occurrences are all coercible may also be refused and is not generated.
Occ(o, name) == {o.e[j].v : j \in KeyIdx(o, name)}
HasDup(o) == \E a, b \in 1..o.n : a # b /\ o.e[a].k = o.e[b].k

\* ---------------------------------------------------------------- scalars (spec 3.5.1 - 3.5.5, "Input Coercion")
\*  Int:     only integer input values that fit 32 bit signed
\*  Float:   integer and float input values
\*  String:  only string input values
\*  Boolean: only boolean input values
\*  ID:      string or integer input values ("any other input value, including float input values, must raise a request error")
\*  custom:  coercion is defined by the implementation; the library passes custom scalars through, every non-null JSON value is coercible
\* [t |-> "N", v |-> spelling]: a JSON number written in a particular way.  JSON (RFC 8259) numbers are values, not
\* spellings: 1.0, 1e2, -0, 100E-2 are the integers 1, 100, 0, 1; 1e10 and 2147483648.0 are integers outside int32;
\* 1e400 is outside the finite IEEE 754 doubles (spec 3.5.2: a Float input "not representable by finite IEEE 754"
\* must raise a request error; it is not generated for ID, where the specifications leave the answer open).
VNum(sp) == [t |-> "N", v |-> sp]
SpellClass(sp) == CASE sp \in {"1.0", "1e2", "-0", "100E-2", "1.5e1"} -> "i"
                    [] sp \in {"1e10", "2147483648.0"} -> "I"
                    [] sp \in {"1e400", "-1e400"} -> "X"
Cls(v) == IF v.t = "N" THEN SpellClass(v.v) ELSE v.t
ScalarOK(n, v) ==
  CASE n = "Int"     -> Cls(v) = "i"
    [] n = "Float"   -> Cls(v) \in {"i", "I", "f"}
    [] n = "String"  -> v.t = "s"
    [] n = "Boolean" -> v.t = "b"
    [] n = "ID"      -> Cls(v) \in {"s", "i", "I"}
    [] OTHER         -> TRUE
Tag(v) == IF v.t = "N" THEN "N" \o v.v ELSE v.t      \* for kinds

FieldIdx(d, name) == {f \in 1..Len(d.fields) : d.fields[f].name = name}
IsEnumValue(d, v) == v.t = "s" /\ \E j \in 1..Len(d.values) : d.values[j] = v.v

\* ---------------------------------------------------------------- Coercible(S, T, v): v is present (possibly null)
RECURSIVE Coercible(_, _, _)
Coercible(S, T, v) ==
  IF T.k = "nn" THEN v.t # "n" /\ Coercible(S, T.of, v)                      \* 3.12: null for Non-Null is an error
  ELSE IF v.t = "n" THEN TRUE                                               \* nullable type: null coerces to null
  ELSE IF T.k = "list" THEN
         IF v.t = "l" THEN \A i \in 1..v.n : Coercible(S, T.of, v.v[i])     \* 3.11: item-wise
         ELSE Coercible(S, T.of, v)                                         \* 3.11: a non-list value is a list of size one (recursively)
  ELSE LET d == S[T.n] IN
       CASE d.kind = "scalar" -> ScalarOK(T.n, v)
         [] d.kind = "enum"   -> IsEnumValue(d, v)                          \* 3.9 (inaccessible values do not exist for clients)
         [] d.kind = "input"  ->
              /\ v.t = "o"                                                  \* 3.10: must be a map
              /\ \A j \in 1..v.n : FieldIdx(d, v.e[j].k) # {}               \* no entry whose name is not a field of the type
              /\ \A f \in 1..Len(d.fields) :
                    LET fd == d.fields[f] IN
                    IF Has(v, fd.name) THEN \A w \in Occ(v, fd.name) : Coercible(S, fd.type, w)   \* includes: explicit null only for nullable fields
                    ELSE fd.def \/ fd.type.k # "nn"                         \* absent: default, or not required
              /\ d.oneOf => (v.n = 1 /\ v.e[1].v.t # "n")                   \* OneOf: exactly one entry and it is non-null

\* ---------------------------------------------------------------- offending positions
\* Errs(S,T,v,p,c,m): the offences of value v of type T located at path p, as records [p |-> path, k |-> kind].
\* Empty iff Coercible.  Paths are rendered in the format graphql-js and the library use (name.field[index]).
\* For a missing / undefined field both the path of the object and the path of the field are acceptable; for a
\* non-list value at a list position both p and p[0] are (the pipeline wraps the value before validating).
\* kind = m \o rule \o "@" \o c names the broken rule and where: c is the context of the position ("var" the
\* variable itself, "item" a list item, "field" an input field without default, "dfield" an input field with a
\* default value, "ditem" an item of a list inside an input field with a default value); m = "mixedlist:" inside
\* a list of input objects / enums in which a non-object item precedes an object item (else "").  Kinds only
\* classify disagreements (keys of findings); the verdict does not depend on them.
Idx(p, i) == p \o "[" \o ToString(i) \o "]"
Sub(p, f) == p \o "." \o f
E(p, k) == [p |-> p, k |-> k]
ItemCtx(c) == IF c \in {"dfield", "ditem"} THEN "ditem" ELSE "item"
IsHidden(d, v) == v.t = "s" /\ \E j \in 1..Len(d.hidden) : d.hidden[j] = v.v
Unwrap(T) == IF T.k = "nn" THEN T.of ELSE T
Mixed(S, T, v) == /\ Unwrap(T.of).k = "named"
                  /\ S[Unwrap(T.of).n].kind \in {"input", "enum"}
                  /\ \E a, b \in 1..v.n : a < b /\ v.v[a].t # "o" /\ v.v[b].t = "o"
RECURSIVE Errs(_, _, _, _, _, _)
Errs(S, T, v, p, c, m) ==
  IF T.k = "nn" THEN (IF v.t = "n" THEN {E(p, m \o "null@" \o c)} ELSE Errs(S, T.of, v, p, c, m))
  ELSE IF v.t = "n" THEN {}
  ELSE IF T.k = "list" THEN
         IF v.t = "l" THEN LET mm == IF Mixed(S, T, v) THEN "mixedlist:" ELSE m IN
                           UNION {Errs(S, T.of, v.v[i], Idx(p, i - 1), ItemCtx(c), mm) : i \in 1..v.n}
         ELSE Errs(S, T.of, v, p, ItemCtx(c), m) \cup Errs(S, T.of, v, Idx(p, 0), ItemCtx(c), m)
  ELSE LET d == S[T.n] IN
       CASE d.kind = "scalar" -> IF ScalarOK(T.n, v) THEN {} ELSE {E(p, m \o T.n \o ":" \o Tag(v) \o "@" \o c)}
         [] d.kind = "enum"   -> IF IsEnumValue(d, v) THEN {}
                                 ELSE {E(p, m \o "enum:" \o (IF v.t # "s" THEN Tag(v) ELSE IF IsHidden(d, v) THEN "inaccessible" ELSE "unknown") \o "@" \o c)}
         [] d.kind = "input"  ->
              IF v.t # "o" THEN {E(p, m \o "input:" \o Tag(v) \o "@" \o c)}
              ELSE LET mo == IF HasDup(v) THEN "dupkey:" ELSE m IN
                   UNION {IF FieldIdx(d, v.e[j].k) = {}
                          THEN {E(p, mo \o "field:unknown@" \o c), E(Sub(p, v.e[j].k), mo \o "field:unknown@" \o c)} ELSE {} : j \in 1..v.n}
                   \cup UNION {LET fd == d.fields[f] IN
                               IF Has(v, fd.name) THEN UNION {Errs(S, fd.type, w, Sub(p, fd.name), IF fd.def THEN "dfield" ELSE "field", mo) : w \in Occ(v, fd.name)}
                               ELSE IF fd.def \/ fd.type.k # "nn" THEN {}
                               ELSE {E(p, mo \o "field:missing@" \o c), E(Sub(p, fd.name), mo \o "field:missing@" \o c)}
                               : f \in 1..Len(d.fields)}
                   \cup (IF d.oneOf /\ v.n # 1 THEN {E(p, mo \o "oneof:count@" \o c)} ELSE {})
                   \cup (IF d.oneOf /\ v.n = 1 /\ v.e[1].v.t = "n" THEN {E(p, mo \o "oneof:null@" \o c)} ELSE {})

\* ---------------------------------------------------------------- variables of an operation (6.1.2 CoerceVariableValues)
\* op   = <<[name, type, def (has a default value)]>>   the variable definitions
\* vars = Absent (request without a "variables" member) | VNull ("variables": null) | an object value
VarValues(vars, name) == IF vars.t = "o" THEN Occ(vars, name) ELSE {}      \* several only for duplicate names
VarOK(S, vd, vars) ==
  IF VarValues(vars, vd.name) = {} THEN vd.def \/ vd.type.k # "nn"        \* no value: default value, else error iff Non-Null
  ELSE \A v \in VarValues(vars, vd.name) : Coercible(S, vd.type, v)       \* value (incl. explicit null): coerce
VarErrs(S, vd, vars) ==
  IF VarValues(vars, vd.name) = {}
  THEN (IF vd.def \/ vd.type.k # "nn" THEN {}
        ELSE {E(vd.name, "var:missing:" \o (CASE vars.t = "x" -> "novars" [] vars.t = "n" -> "nullvars" [] OTHER -> "obj"))})
  ELSE UNION {Errs(S, vd.type, v, vd.name, "var", IF HasDup(vars) THEN "dupkey:" ELSE "") : v \in VarValues(vars, vd.name)}

AcceptVars(S, op, vars) == \A i \in 1..Len(op) : VarOK(S, op[i], vars)
Offending(S, op, vars) == {i \in 1..Len(op) : ~VarOK(S, op[i], vars)}
\* ErrPath: every position a rejection may point at;  ErrKinds: the rules that are broken
ErrPath(S, op, vars) == UNION {{e.p : e \in VarErrs(S, op[i], vars)} : i \in 1..Len(op)}
ErrKinds(S, op, vars) == UNION {{e.k : e \in VarErrs(S, op[i], vars)} : i \in 1..Len(op)}

\* ---------------------------------------------------------------- the examples of the specification text
ExSchema == [Int |-> [kind |-> "scalar"], String |-> [kind |-> "scalar"],
             ExampleInputObject |-> [kind |-> "input", oneOf |-> FALSE, fields |-> <<
                [name |-> "a", type |-> Named("String"), def |-> FALSE, lit |-> ""],
                [name |-> "b", type |-> NonNull(Named("Int")), def |-> FALSE, lit |-> ""]>>]]
ExT == Named("ExampleInputObject")
I3 == VList(<<VInt, VInt, VInt>>)
\* 3.11 table
ASSUME Coercible(ExSchema, ListOf(Named("Int")), I3)
ASSUME ~Coercible(ExSchema, ListOf(Named("Int")), VList(<<VInt, VStr("any"), VBool>>))
ASSUME Coercible(ExSchema, ListOf(Named("Int")), VInt)
ASSUME Coercible(ExSchema, ListOf(Named("Int")), VNull)
ASSUME Coercible(ExSchema, ListOf(ListOf(Named("Int"))), VList(<<VList(<<VInt>>), VList(<<VInt, VInt>>)>>))
ASSUME Coercible(ExSchema, ListOf(ListOf(Named("Int"))), VInt)
ASSUME Coercible(ExSchema, ListOf(ListOf(Named("Int"))), VNull)
\* 3.10 table
ASSUME Coercible(ExSchema, ExT, VObjE(<<Entry("a", VStr("any")), Entry("b", VInt)>>))
ASSUME Coercible(ExSchema, ExT, VObjE(<<Entry("a", VNull), Entry("b", VInt)>>))
ASSUME Coercible(ExSchema, ExT, VObjE(<<Entry("b", VInt)>>))
ASSUME ~Coercible(ExSchema, ExT, VStr("any"))
ASSUME ~Coercible(ExSchema, ExT, VObjE(<<Entry("a", VStr("any")), Entry("b", VStr("any"))>>))
ASSUME ~Coercible(ExSchema, ExT, VObjE(<<Entry("a", VStr("any"))>>))
ASSUME ~Coercible(ExSchema, ExT, EmptyObj)
ASSUME ~Coercible(ExSchema, ExT, VObjE(<<Entry("b", VNull)>>))
ASSUME ~Coercible(ExSchema, ExT, VObjE(<<Entry("a", VStr("any")), Entry("b", VInt), Entry("c", VStr("any"))>>))
\* number spellings and duplicate names
ASSUME Coercible(ExSchema, Named("Int"), VNum("1.0")) /\ Coercible(ExSchema, Named("Int"), VNum("-0")) /\ ~Coercible(ExSchema, Named("Int"), VNum("1e10"))
ASSUME ~Coercible(ExSchema, ExT, VObjE(<<Entry("b", VInt), Entry("b", VNull)>>)) /\ ~Coercible(ExSchema, ExT, VObjE(<<Entry("b", VNull), Entry("b", VInt)>>))
\* 6.1.2
ASSUME AcceptVars(ExSchema, <<[name |-> "x", type |-> NonNull(Named("Int")), def |-> TRUE]>>, Absent)
ASSUME ~AcceptVars(ExSchema, <<[name |-> "x", type |-> NonNull(Named("Int")), def |-> FALSE]>>, Absent)
ASSUME ~AcceptVars(ExSchema, <<[name |-> "x", type |-> NonNull(Named("Int")), def |-> TRUE]>>, VObjE(<<Entry("x", VNull)>>))
ASSUME AcceptVars(ExSchema, <<[name |-> "x", type |-> Named("Int"), def |-> TRUE]>>, VObjE(<<Entry("x", VNull)>>))
ASSUME AcceptVars(ExSchema, <<[name |-> "x", type |-> Named("Int"), def |-> FALSE]>>, VObjE(<<Entry("unused", VBool)>>))
=============================================================================
