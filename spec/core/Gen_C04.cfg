CONSTANTS
  Part = 0
  Parts = 1
  MaxRewrites = 0
  EmitRewrites = TRUE
SPECIFICATION Spec
CONSTRAINT Emit
CHECK_DEADLOCK FALSE
