CONSTANTS
  Part = 0
  Parts = 1
SPECIFICATION Spec
CONSTRAINT Emit
CHECK_DEADLOCK FALSE
