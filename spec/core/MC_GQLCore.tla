----------------------------- MODULE MC_GQLCore -----------------------------
(* Model-level checks of spec/core that need no implementation:              *)
(*  - every catalog schema is a well-formed type system (SchemaOK),          *)
(*  - every corpus operation is valid by construction (CorpusValid) and its  *)
(*    request variables are coercible for its variable definitions,          *)
(*  - Reachable is idempotent and validity is insensitive to definitions     *)
(*    outside the reachable part.                                            *)
EXTENDS GQLValidate, GQLCorpus
VARIABLE i
Init == i = 1
All == Corpus \o CorpusV
Next == i < Len(All) /\ i' = i + 1
Spec == Init /\ [][Next]_i
E == All[i]
S == SchemaById(E.schema)
CatalogOK == \A k \in DOMAIN Catalog : SchemaOK(Catalog[k])
CorpusValid == SpecValid(S, Reachable(E.doc))
ReachableIdem == Reachable(Reachable(E.doc)) = Reachable(E.doc)
\* an unused fragment or an unselected operation does not change the verdict
DiscardedIrrelevant ==
  LET junk == [name |-> "Unused", on |-> "Nope", dirs |-> <<>>, sel |-> <<dLf("nope")>>]
      d2 == [E.doc EXCEPT !.frags = Append(@, junk)]
  IN SpecValid(S, Reachable(d2)) = SpecValid(S, Reachable(E.doc))
=============================================================================
