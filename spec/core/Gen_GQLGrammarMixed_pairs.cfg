CONSTANTS
  Pools = "tiny"
  Sim = FALSE
  MaxCost = 0
  MaxDefs = 2
  MaxNest = 0
  MaxSel = 0
  MaxArgs = 0
  MaxDirs = 0
  MaxVars = 0
SPECIFICATION PSpec
CONSTRAINT GenMixedConstraint
CHECK_DEADLOCK FALSE
