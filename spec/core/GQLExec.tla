------------------------------- MODULE GQLExec -------------------------------
(* Reference execution of a GraphQL operation (October 2021, section 6) over *)
(* a synthetic "probe" backend.                                              *)
(*                                                                           *)
(*   Exec(S, D, doc, vars) = [data, errs]                                    *)
(*                                                                           *)
(* CoerceVariableValues (6.1.2), CollectFields with type conditions and      *)
(* @skip/@include (6.3.2), grouping by response name and merging of the      *)
(* sub-selections, CoerceArgumentValues (6.4.1), CompleteValue with lists,   *)
(* Non-Null and propagation of null to the nearest nullable parent (6.4.4).  *)
(* Response objects are unordered maps (the property speaks of the response  *)
(* as a JSON value); errs is the set of response paths with a field error.   *)
(*                                                                           *)
(* Probe backends.  A universe D does not store data: the value of a leaf    *)
(* field IS the triple (object, field, coerced arguments), an object is      *)
(* identified by the path of (field, coerced arguments, index) that leads to *)
(* it - so field values are injective functions of (object, field, coerced   *)
(* arguments) by construction and any change of a selected field, argument   *)
(* value, alias or type condition changes the response.  D only decides      *)
(*   - the runtime type of abstract positions (rotation D.shift of S.order), *)
(*   - the length of lists (D.len),                                          *)
(*   - which (type, field) resolve to null (D.nulls) and which list fields   *)
(*     have a null last item (D.nullItems): in Non-Null positions these are  *)
(*     field errors and exercise null propagation.                           *)
(* The alias __internal_typename (literal.INTERNAL_TYPENAME) is an engine convention: the *)
(* normalizer adds it to a selection set it emptied and the planner drops it *)
(* from the response; Exec ignores it.                                       *)
EXTENDS GQLDoc

----------------------------------------------------------------------------
\* coerced input values: n, b, i, f, s, e, l as in GQLSchema; input objects (and argument lists) become unordered maps,
\* represented as sets of <<name, value>> pairs
VM(m) == [t |-> "m", m |-> m]
IntToFloat(i) == VF(ToString(i))

\* 3.5 .. 3.12 input coercion of a literal (isLit, may contain variables) or of a JSON request value.
\* cv : variable name -> coerced value | Absent.   Result: coerced value, or Absent ("no value": a variable without value)
RECURSIVE Coerce(_, _, _, _, _), CoerceAny(_, _)

\* custom scalars take any value; enums inside them are their names (what a JSON encoding keeps)
CoerceAny(v, cv) ==
  CASE v.t = "v" -> IF v.n \in DOMAIN cv THEN cv[v.n] ELSE Absent
    [] v.t = "e" -> VS(v.e)
    [] v.t = "l" -> VL([i \in DOMAIN v.l |-> LET x == CoerceAny(v.l[i], cv) IN IF x = Absent THEN VNull ELSE x])
    [] v.t = "o" -> LET keep == {i \in DOMAIN v.k : CoerceAny(v.o[i], cv) # Absent}
                    IN VM({<<k, CoerceAny(v.o[CHOOSE i \in keep : v.k[i] = k], cv)>> : k \in {v.k[i] : i \in keep}})
    [] OTHER -> v

CoerceNamed(S, n, v, cv, isLit) ==
  CASE n = "Int"     -> v
    [] n = "Float"   -> IF v.t = "i" THEN IntToFloat(v.i) ELSE IF v.t = "big" THEN VF(v.big) ELSE v
    [] n = "String"  -> v
    [] n = "Boolean" -> v
    [] n = "ID"      -> IF v.t = "i" THEN VS(ToString(v.i)) ELSE IF v.t = "big" THEN VS(v.big) ELSE v
    [] TypeKind(S, n) = "ENUM"  -> IF v.t = "s" THEN VE(v.s) ELSE v
    [] TypeKind(S, n) = "INPUT" ->
         \* 3.10: fields given (a variable without value counts as not given), then defaults
         LET given == {i \in DOMAIN v.k : Coerce(S, InputFieldDef(S, n, v.k[i]).type, v.o[i], cv, isLit) # Absent}
             gnames == {v.k[i] : i \in given}
             dnames == {f \in InputFields(S, n) \ gnames : InputFieldDef(S, n, f).def # Absent}
         IN VM({<<f, IF f \in gnames THEN Coerce(S, InputFieldDef(S, n, f).type, v.o[CHOOSE i \in given : v.k[i] = f], cv, isLit)
                         ELSE Coerce(S, InputFieldDef(S, n, f).type, InputFieldDef(S, n, f).def, cv, TRUE)>> : f \in gnames \cup dnames})
    [] OTHER -> CoerceAny(v, cv)

Coerce(S, ty, v, cv, isLit) ==
  IF v.t = "v" THEN (IF v.n \in DOMAIN cv THEN cv[v.n] ELSE Absent)
  ELSE IF v.t = "n" THEN VNull
  ELSE IF IsNonNull(ty) THEN Coerce(S, Unwrap(ty), v, cv, isLit)
  ELSE IF IsListTy(ty) THEN
         IF v.t = "l" THEN VL([i \in DOMAIN v.l |-> LET x == Coerce(S, Unwrap(ty), v.l[i], cv, isLit) IN IF x = Absent THEN VNull ELSE x])
         ELSE LET x == Coerce(S, Unwrap(ty), v, cv, isLit) IN IF x = Absent THEN Absent ELSE VL(<<x>>)   \* 3.11 single value
  ELSE CoerceNamed(S, ty.n, v, cv, isLit)

\* 6.1.2 CoerceVariableValues (the generator only produces coercible values; no request errors are modelled)
CoerceVars(S, op, vars) ==
  LET has(n) == VarsGet(vars, n) # Absent
      defs == {i \in DOMAIN op.vars : has(op.vars[i].name) \/ op.vars[i].def # Absent}
  IN [n \in {op.vars[i].name : i \in defs} |->
        LET vd == op.vars[CHOOSE i \in defs : op.vars[i].name = n]
        IN IF has(n) THEN Coerce(S, vd.type, VarsGet(vars, n), <<>>, FALSE) ELSE Coerce(S, vd.type, vd.def, <<>>, TRUE)]

\* 6.4.1 CoerceArgumentValues: the set of <<argument name, coerced value>> for the arguments that have a value
\* cv = [top, nested]: the variable values seen by a variable that IS the argument value and by a variable nested in a list /
\* object literal.  The specification does not distinguish them (Exec: top = nested); ExecAlt models a known defect.
CoerceArgs(S, defs, args, cv) ==
  LET given(n) == \E i \in DOMAIN args : args[i].name = n
      lit(n) == args[CHOOSE i \in DOMAIN args : args[i].name = n].value
      val(n) == IF given(n) /\ ~(lit(n).t = "v" /\ lit(n).n \notin DOMAIN cv.top)
                THEN (IF lit(n).t = "v" THEN cv.top[lit(n).n] ELSE Coerce(S, defs[n].type, lit(n), cv.nested, TRUE))
                ELSE IF defs[n].def # Absent THEN Coerce(S, defs[n].type, defs[n].def, cv.nested, TRUE) ELSE Absent
  IN {<<n, val(n)>> : n \in {a \in DOMAIN defs : val(a) # Absent}}

----------------------------------------------------------------------------
\* 6.3.2 CollectFields.  Returns the sequence of field selections that apply to an object of type objType.
DirIf(s, name, cv) ==   \* value of @name(if:) on s: "T", "F", or "-" (directive absent)
  IF \E i \in DOMAIN s.dirs : s.dirs[i].name = name
  THEN LET d == s.dirs[CHOOSE i \in DOMAIN s.dirs : s.dirs[i].name = name]
           v == d.args[CHOOSE j \in DOMAIN d.args : d.args[j].name = "if"].value
           b == IF v.t = "v" THEN cv.top[v.n] ELSE v
       IN IF b.b THEN "T" ELSE "F"
  ELSE "-"
Skipped(s, cv) == DirIf(s, "skip", cv) = "T" \/ DirIf(s, "include", cv) = "F"

InternalPlaceholder == "__internal_typename"

RECURSIVE Collect(_, _, _, _, _, _)
Collect(S, doc, cv, objType, sel, seen) ==
  IF Len(sel) = 0 THEN <<>>
  ELSE LET s == Head(sel)
           here == IF Skipped(s, cv) THEN <<>>
                   ELSE CASE s.k = "field"  -> IF ResponseKey(s) = InternalPlaceholder THEN <<>> ELSE <<s>>
                          [] s.k = "inline" -> IF s.on = "" \/ TypeApplies(S, objType, s.on)
                                               THEN Collect(S, doc, cv, objType, s.sel, seen) ELSE <<>>
                          [] OTHER -> IF s.name \in seen \/ ~HasFrag(doc, s.name) THEN <<>>
                                      ELSE LET fr == FragByName(doc, s.name)
                                           IN IF TypeApplies(S, objType, fr.on)
                                              THEN Collect(S, doc, cv, objType, fr.sel, seen \cup {s.name}) ELSE <<>>
       IN here \o Collect(S, doc, cv, objType, Tail(sel), seen)

----------------------------------------------------------------------------
\* the probe backend
Min(s) == CHOOSE x \in s : \A y \in s : x <= y
\* runtime type of an abstract (or object) position: the first possible type in S.order rotated by salt
PickType(S, D, T, salt) ==
  IF TypeKind(S, T) = "OBJECT" THEN T
  ELSE LET n == Len(S.order)
           rot == (D.shift + salt) % n
           ks == {k \in 0..(n - 1) : S.order[((rot + k) % n) + 1] \in PossibleTypes(S, T)}
       IN S.order[((rot + Min(ks)) % n) + 1]

\* results: [ok, val, errs]; ok = FALSE: a field error must propagate to the parent (val is then irrelevant)
Res(ok, val, errs) == [ok |-> ok, val |-> val, errs |-> errs]
RObj(m) == [t |-> "obj", m |-> m]

RECURSIVE ExecSet(_, _, _, _, _, _, _, _), Complete(_, _, _, _, _, _, _, _, _, _)

\* 6.3 ExecuteSelectionSet on the collected fields; a failed (Non-Null) entry fails the whole object
ExecSet(S, D, doc, cv, fields, objType, oid, path) ==
  LET keys == {ResponseKey(fields[i]) : i \in DOMAIN fields}
      one(k) == LET fs == SelectSeq(fields, LAMBDA f : ResponseKey(f) = k)
                    f1 == fs[1]
                    sub == SeqFlat([i \in DOMAIN fs |-> fs[i].sel])
                IN IF f1.name = "__typename" THEN Res(TRUE, [t |-> "tn", n |-> objType], {})
                   ELSE LET d == FieldDef(S, objType, f1.name)
                            ca == CoerceArgs(S, d.args, f1.args, cv)
                        IN Complete(S, D, doc, cv, d.type, <<objType, f1.name>>, Append(oid, <<f1.name, ca>>), sub, Append(path, k), TRUE)
      res == [k \in keys |-> one(k)]
      errs == UNION {res[k].errs : k \in keys}
  IN IF \E k \in keys : ~res[k].ok THEN Res(FALSE, VNull, errs)
     ELSE Res(TRUE, RObj([k \in keys |-> res[k].val]), errs)

\* 6.4.3 CompleteValue at a position of type ty; tf = <<object type, field>> that produced it, oid = identity of the position,
\* top = this is the field's own value (where D.nulls applies), not an item
Complete(S, D, doc, cv, ty, tf, oid, sub, path, top) ==
  IF IsNonNull(ty) THEN
       LET r == Complete(S, D, doc, cv, Unwrap(ty), tf, oid, sub, path, top)
       IN IF ~r.ok THEN r
          ELSE IF r.val = VNull THEN Res(FALSE, VNull, IF r.errs = {} THEN {path} ELSE r.errs)
          ELSE r
  ELSE IF top /\ tf \in D.nulls THEN Res(TRUE, VNull, {})
  ELSE IF IsListTy(ty) THEN
       LET n == D.len
           item(i) == IF i = n /\ tf \in D.nullItems
                      THEN (IF IsNonNull(Unwrap(ty)) THEN Res(FALSE, VNull, {Append(path, i)}) ELSE Res(TRUE, VNull, {}))
                      ELSE Complete(S, D, doc, cv, Unwrap(ty), tf, Append(oid, <<"#", i>>), sub, Append(path, i), FALSE)
           rs == [i \in 1..n |-> item(i)]
           errs == UNION {rs[i].errs : i \in 1..n}
       IN IF \E i \in 1..n : ~rs[i].ok THEN Res(TRUE, VNull, errs)       \* a failed item nulls the (nullable) list
          ELSE Res(TRUE, VL([i \in 1..n |-> rs[i].val]), errs)
  ELSE IF IsLeafType(S, ty.n) THEN Res(TRUE, [t |-> "leaf", at |-> oid], {})
  ELSE LET last == oid[Len(oid)]
           rt == PickType(S, D, ty.n, Len(oid) + (IF last[1] = "#" THEN last[2] ELSE 0))
           r == ExecSet(S, D, doc, cv, Collect(S, doc, cv, rt, sub, {}), rt, oid, path)
       IN IF r.ok THEN r ELSE Res(TRUE, VNull, r.errs)                    \* a failed object becomes null here (nullable position)

\* the operation a request executes
TheOp(doc) == LET ops == SelectedOps(doc) IN ops[1]

\* variables that have a request value (defaults ignored)
CoerceVarsGivenOnly(S, op, vars) ==
  LET defs == {i \in DOMAIN op.vars : VarsGet(vars, op.vars[i].name) # Absent}
  IN [n \in {op.vars[i].name : i \in defs} |->
        Coerce(S, op.vars[CHOOSE i \in defs : op.vars[i].name = n].type, VarsGet(vars, n), <<>>, FALSE)]

ExecG(S, D, doc, vars, alt) ==
  LET op == TheOp(doc)
      cvAll == CoerceVars(S, op, vars)
      cv == [top |-> cvAll, nested |-> IF alt THEN CoerceVarsGivenOnly(S, op, vars) ELSE cvAll]
      root == RootType(S, op.op)
      r == ExecSet(S, D, doc, cv, Collect(S, doc, cv, root, op.sel, {}), root, <<>>, <<>>)
  IN [data |-> IF r.ok THEN r.val ELSE VNull, errs |-> r.errs]

Exec(S, D, doc, vars) == ExecG(S, D, doc, vars, FALSE)

\* NOT the specification: the semantics under the known defect "a variable nested in a list / object literal that has no
\* request value is replaced by nothing (null item / omitted field) although it has a default value".  Used by Trace_C03
\* only to name a meaning change.
ExecAlt(S, D, doc, vars) == ExecG(S, D, doc, vars, TRUE)

----------------------------------------------------------------------------
\* Probe universes of the catalog schemas
Universe(shift, len, nulls, nullItems) == [shift |-> shift, len |-> len, nulls |-> nulls, nullItems |-> nullItems]

Probe(S) ==
  CASE S.id = "pets" ->
         <<Universe(0, 2, {}, {}),
           Universe(1, 1, {<<"Dog", "owner">>, <<"Cat", "volume">>, <<"Query", "n">>, <<"Human", "age">>}, {}),
           Universe(2, 2, {<<"Cat", "lives">>, <<"Human", "name">>}, {<<"Query", "any">>, <<"Query", "search">>, <<"Human", "pets">>})>>
    [] S.id = "args" ->
         <<Universe(0, 2, {}, {}),
           Universe(1, 1, {<<"Query", "s">>, <<"T", "self">>}, {}),
           Universe(0, 2, {<<"T", "i">>, <<"Query", "lo">>}, {})>>
    [] S.id = "nest" ->
         <<Universe(0, 2, {}, {}),
           Universe(1, 1, {<<"Img", "url">>, <<"Doc", "cover">>, <<"Query", "maybe">>}, {}),
           Universe(2, 2, {<<"Img", "w">>, <<"Page", "n">>}, {<<"Query", "nodes">>, <<"Query", "grid">>}),
           Universe(1, 2, {}, {<<"Doc", "pages">>, <<"Query", "res">>})>>
    [] S.id = "deep" ->
         <<Universe(0, 2, {}, {}), Universe(1, 2, {<<"T1", "next">>, <<"T2", "x">>}, {}), Universe(2, 1, {<<"T1", "c">>}, {<<"Query", "v">>}),
           Universe(3, 2, {}, {<<"Query", "bs">>})>>
    [] OTHER -> <<Universe(0, 2, {}, {})>>
=============================================================================
