CONSTANTS
  Pools = "tiny"
  Sim = FALSE
  MaxCost = 0
  MaxDefs = 1
  MaxNest = 0
  MaxSel = 0
  MaxArgs = 0
  MaxDirs = 0
  MaxVars = 0
SPECIFICATION LSpec
CONSTRAINT GenLitConstraint
INVARIANT PoolAccepted
CHECK_DEADLOCK FALSE
