CONSTANTS
  QueryNames <- QN_both
  Slots <- Sim_Slots
  DirSlots <- Dir_all
  FieldNames = {"f", "g", "h"}
  ArgNames = {"a", "b"}
  InputNames = {"y", "z"}
  EnumVals = {"RED", "GREEN"}
  Scalars = {"Int", "Float", "String", "Boolean", "ID"}
  Wraps <- W_all
  Descs <- D_all
  Reasons <- R_all
  Urls = {"https://example.com/date"}
  Features <- Sim_Features
  MaxSteps = 36
  ValDepth = 3
  Sampling = TRUE
  EmitSteps <- ES_sim
SPECIFICATION GenSpec
INVARIANTS GenWF
CONSTRAINT EmitAt
CHECK_DEADLOCK FALSE
