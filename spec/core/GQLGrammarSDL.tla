----------------------------- MODULE GQLGrammarSDL -----------------------------
(* Token-level generator of type-system documents (GraphQL October 2021,       *)
(* sec. 3 and Appendix B "Type System"): schema / scalar / object / interface  *)
(* / union / enum / input object / directive definitions and the extensions,   *)
(* with descriptions (string and block string), directives with arguments,     *)
(* argument definitions with default values, list / non-null types.  Second    *)
(* generator of property C05: these documents have no selections, so they are  *)
(* exercised for totality and the print round trip only.                       *)
(* One action appends one complete definition; every optional part is chosen   *)
(* from a pool (all subsets of the optional parts under BFS with the small     *)
(* pools, random under -simulate with the rich pools).                         *)
EXTENDS GQLGrammar

S(ss) == Tk(ss, "sdl")

SdlNames == IF Rich THEN {"T", "U", "Int"} \cup SoftKeywords ELSE {"T"}
SdlFieldNames == IF Rich THEN PlainNames \cup SoftKeywords ELSE {"f"}
SdlEnumValues == IF Rich THEN {"A", "RED"} \cup (SoftKeywords \ {"true", "false", "null"}) ELSE {"A"}
AllLocations == {"QUERY", "MUTATION", "SUBSCRIPTION", "FIELD", "FRAGMENT_DEFINITION", "FRAGMENT_SPREAD", "INLINE_FRAGMENT", "VARIABLE_DEFINITION",
              "SCHEMA", "SCALAR", "OBJECT", "FIELD_DEFINITION", "ARGUMENT_DEFINITION", "INTERFACE", "UNION", "ENUM", "ENUM_VALUE",
              "INPUT_OBJECT", "INPUT_FIELD_DEFINITION"}

Locations == IF Rich THEN AllLocations ELSE {"FIELD", "OBJECT"}

DescLits == IF Rich THEN {"\"d\"", "\"\"", "\"a \\\"q\\\" b\"", "\"\"\"d\"\"\"", "\"\"\"\n  two\n    lines\n  \"\"\"", "\"\"\"\nline one\nline two\n\"\"\"",
                          "\"\"\"code:\n    indented\nback\"\"\""}
            ELSE IF Tiny THEN {"\"d\""} ELSE {"\"d\"", "\"\"\"\n  two\n    lines\n  \"\"\""}
Desc(x) == OptSeq({S(<<d>>) : d \in Pick(DescLits)})

\* const directives: @d | @d(x: value) | two of them
OneDir(x) == {S(<<"@", nm>>) \o a : nm \in Pick(DirNames),
                a \in OptSeq({S(<<"(", an, ":">>) \o S(v) \o S(<<")">>) : an \in Pick(ArgNames), v \in ConstValues(x)})}
Dirs(x) == IF Rich THEN OptSeq({a \o b : a \in OneDir(x), b \in OptSeq(OneDir(x))}) ELSE OptSeq({S(<<"@", "d">>)})

TypeRefs(x) == {S(t) : t \in TypeChoice(x)}
DefaultVal(x) == OptSeq({S(<<"=">>) \o S(v) : v \in ConstValues(x)})
InputValueDef(x) == {d \o S(<<n, ":">>) \o t \o dv \o dr : d \in Desc(x), n \in Pick(ArgNames), t \in TypeRefs(x), dv \in DefaultVal(x), dr \in Dirs(x)}
\* one or two input value definitions
InputValueDefs(x) == IF Rich THEN {a \o b : a \in InputValueDef(x), b \in OptSeq(InputValueDef(x))} ELSE InputValueDef(x)
ArgsDef(x) == OptSeq({S(<<"(">>) \o a \o S(<<")">>) : a \in InputValueDefs(x)})
FieldDef(x) == {d \o S(<<n>>) \o a \o S(<<":">>) \o t \o dr : d \in Desc(x), n \in Pick(SdlFieldNames), a \in ArgsDef(x), t \in TypeRefs(x), dr \in Dirs(x)}
FieldDefs(x) == IF Rich THEN {a \o b : a \in FieldDef(x), b \in OptSeq(FieldDef(x))} ELSE FieldDef(x)
FieldsBody(x) == OptSeq({S(<<"{">>) \o f \o S(<<"}">>) : f \in FieldDefs(x)})
Implements(x) == OptSeq({S(<<"implements">>) \o amp \o S(<<a>>) \o more :
                           amp \in (IF Tiny THEN {<<>>} ELSE OptSeq({S(<<"&">>)})), a \in Pick(SdlNames),
                           more \in (IF Tiny THEN {S(<<"&", "U">>)} ELSE OptSeq({S(<<"&", b>>) : b \in Pick(SdlNames)}))})
EnumValueDef(x) == {d \o S(<<v>>) \o dr : d \in Desc(x), v \in Pick(SdlEnumValues), dr \in Dirs(x)}
EnumBody(x) == OptSeq({S(<<"{">>) \o a \o b \o S(<<"}">>) : a \in EnumValueDef(x), b \in (IF Rich THEN OptSeq(EnumValueDef(x)) ELSE {<<>>})})
UnionMembers(x) == OptSeq({S(<<"=">>) \o bar \o S(<<a>>) \o more :
                             bar \in OptSeq({S(<<"|">>)}), a \in Pick(SdlNames), more \in OptSeq({S(<<"|", b>>) : b \in Pick(SdlNames)})})
InputBody(x) == OptSeq({S(<<"{">>) \o a \o S(<<"}">>) : a \in InputValueDefs(x)})
RootOps(x) == {S(<<"{", "query", ":", q>>) \o more \o S(<<"}">>) :
                 q \in Pick(SdlNames), more \in OptSeq({S(<<k, ":", m>>) : k \in Pick({"mutation", "subscription"}), m \in Pick(SdlNames)})}
DirLocs(x) == {bar \o S(<<a>>) \o more : bar \in OptSeq({S(<<"|">>)}), a \in Pick(Locations), more \in OptSeq({S(<<"|", b>>) : b \in Pick(Locations)})}

Kinds == {"schema", "scalar", "type", "interface", "union", "enum", "input", "directive",
          "x-schema", "x-scalar", "x-type", "x-interface", "x-union", "x-enum", "x-input"}
\* extensions must extend something: the optional parts are not all absent
NonEmpty(parts) == \E i \in 1..Len(parts) : Len(parts[i]) > 0

Definition(k, x) ==
  CASE k = "schema" -> {d \o S(<<"schema">>) \o dr \o r : d \in Desc(x), dr \in Dirs(x), r \in RootOps(x)}
    [] k = "scalar" -> {d \o S(<<"scalar", n>>) \o dr : d \in Desc(x), n \in Pick(SdlNames), dr \in Dirs(x)}
    [] k = "type" -> {d \o S(<<"type", n>>) \o im \o dr \o b : d \in Desc(x), n \in Pick(SdlNames), im \in Implements(x), dr \in Dirs(x), b \in FieldsBody(x)}
    [] k = "interface" -> {d \o S(<<"interface", n>>) \o im \o dr \o b : d \in Desc(x), n \in Pick(SdlNames), im \in Implements(x), dr \in Dirs(x), b \in FieldsBody(x)}
    [] k = "union" -> {d \o S(<<"union", n>>) \o dr \o m : d \in Desc(x), n \in Pick(SdlNames), dr \in Dirs(x), m \in UnionMembers(x)}
    [] k = "enum" -> {d \o S(<<"enum", n>>) \o dr \o b : d \in Desc(x), n \in Pick(SdlNames), dr \in Dirs(x), b \in EnumBody(x)}
    [] k = "input" -> {d \o S(<<"input", n>>) \o dr \o b : d \in Desc(x), n \in Pick(SdlNames), dr \in Dirs(x), b \in InputBody(x)}
    [] k = "directive" -> {d \o S(<<"directive", "@", n>>) \o a \o rep \o S(<<"on">>) \o l :
                             d \in Desc(x), n \in Pick(DirNames), a \in ArgsDef(x), rep \in OptSeq({S(<<"repeatable">>)}), l \in DirLocs(x)}
    [] k = "x-schema" -> {S(<<"extend", "schema">>) \o dr \o r : dr \in Dirs(x), r \in OptSeq(RootOps(x))} \ {S(<<"extend", "schema">>)}
    [] k = "x-scalar" -> {S(<<"extend", "scalar", n>>) \o dr : n \in Pick(SdlNames), dr \in Dirs(x) \ {<<>>}}
    [] k = "x-type" -> {S(<<"extend", "type", n>>) \o im \o dr \o b : n \in Pick(SdlNames), im \in Implements(x), dr \in Dirs(x), b \in FieldsBody(x)}
    [] k = "x-interface" -> {S(<<"extend", "interface", n>>) \o im \o dr \o b : n \in Pick(SdlNames), im \in Implements(x), dr \in Dirs(x), b \in FieldsBody(x)}
    [] k = "x-union" -> {S(<<"extend", "union", n>>) \o dr \o m : n \in Pick(SdlNames), dr \in Dirs(x), m \in UnionMembers(x)}
    [] k = "x-enum" -> {S(<<"extend", "enum", n>>) \o dr \o b : n \in Pick(SdlNames), dr \in Dirs(x), b \in EnumBody(x)}
    [] k = "x-input" -> {S(<<"extend", "input", n>>) \o dr \o b : n \in Pick(SdlNames), dr \in Dirs(x), b \in InputBody(x)}

\* an extension with no directive, no body and no interfaces extends nothing (not generated)
Bare(k, def) == k \in {"x-type", "x-interface", "x-union", "x-enum", "x-input"} /\ Len(def) = 3

SInit == GInit
AddDef ==
  /\ st = "top" /\ ndefs < MaxDefs
  /\ \E k \in Pick(Kinds) : \E def \in Definition(k, toks) : ~Bare(k, def) /\ toks' = toks \o def
  /\ ndefs' = ndefs + 1
  /\ UNCHANGED <<st, stack, fl, frags, nf, mx, cost>>
SFinish == st = "top" /\ ndefs >= 1 /\ st' = "done" /\ UNCHANGED <<toks, stack, fl, ndefs, frags, nf, mx, cost>>
SNext == AddDef \/ SFinish
SSpec == SInit /\ [][SNext]_gvars

\* documents that mix executable and type-system definitions (Document : Definition+, any order)
MNext == GNext \/ AddDef
MSpec == GInit /\ [][MNext]_gvars

\* ---------------------------------------------------------------- pairs: every kind of type-system definition, with and
\* without a body, next to every kind of executable definition, in both orders (BFS, exhaustive)
BodyLess == {<<"scalar", "T">>, <<"scalar", "T", "@", "d">>, <<"type", "T">>, <<"type", "T", "@", "d">>, <<"type", "T", "implements", "U">>,
             <<"interface", "T">>, <<"interface", "T", "@", "d">>, <<"union", "U">>, <<"union", "U", "@", "d">>, <<"union", "U", "=", "T">>,
             <<"enum", "E">>, <<"enum", "E", "@", "d">>, <<"input", "I">>, <<"input", "I", "@", "d">>, <<"directive", "@", "d", "on", "FIELD">>,
             <<"directive", "@", "d", "(", "x", ":", "T", ")", "on", "FIELD">>,
             <<"extend", "schema", "@", "d">>, <<"extend", "scalar", "T", "@", "d">>, <<"extend", "type", "T", "@", "d">>,
             <<"extend", "type", "T", "implements", "U">>, <<"extend", "interface", "T", "@", "d">>, <<"extend", "union", "U", "@", "d">>,
             <<"extend", "union", "U", "=", "T">>, <<"extend", "enum", "E", "@", "d">>, <<"extend", "input", "I", "@", "d">>}
WithBody == {<<"type", "T", "{", "f", ":", "T", "}">>, <<"interface", "T", "{", "f", ":", "T", "}">>, <<"enum", "E", "{", "A", "}">>,
             <<"input", "I", "{", "x", ":", "T", "}">>, <<"schema", "{", "query", ":", "T", "}">>, <<"schema", "@", "d", "{", "query", ":", "T", "}">>,
             <<"extend", "schema", "{", "query", ":", "T", "}">>, <<"extend", "schema", "@", "d", "{", "query", ":", "T", "}">>,
             <<"extend", "type", "T", "{", "f", ":", "T", "}">>, <<"extend", "interface", "T", "{", "f", "(", "x", ":", "T", ")", ":", "T", "}">>,
             <<"extend", "enum", "E", "{", "A", "}">>, <<"extend", "input", "I", "{", "x", ":", "T", "}">>}
BodyA == <<T("{", "sel_open"), T("a", "field"), T("}", "sel_close")>>
ExecDefs == {<<T("query", "kw_op")>> \o BodyA, <<T("query", "kw_op"), T("Q", "op_name")>> \o BodyA, <<T("mutation", "kw_op")>> \o BodyA,
             <<T("subscription", "kw_op")>> \o BodyA, <<T("query", "kw_op"), T("@", "at"), T("d", "dir_name")>> \o BodyA,
             <<T("\"d\"", "desc"), T("query", "kw_op")>> \o BodyA,
             <<T("query", "kw_op"), T("(", "punct"), T("$v", "var"), T(":", "punct"), T("T", "type"), T(")", "punct")>> \o BodyA,
             <<T("fragment", "kw_frag"), T("F", "frag_name"), T("on", "kw_on"), T("T", "type_cond")>> \o BodyA}
Shorthand == <<T("{", "sh_open"), T("a", "field"), T("}", "sel_close")>>
Pairs == {S(sd) \o ed : sd \in BodyLess \cup WithBody, ed \in ExecDefs} \cup {ed \o S(sd) : sd \in BodyLess \cup WithBody, ed \in ExecDefs}
         \cup {S(sd) \o Shorthand : sd \in WithBody} \cup {Shorthand \o S(sd) : sd \in BodyLess \cup WithBody}
         \cup {S(a) \o S(b) \o <<T("query", "kw_op")>> \o BodyA : a \in {<<"input", "I", "{", "x", ":", "T", "}">>, <<"type", "T", "{", "f", ":", "T", "}">>},
                                                              b \in BodyLess}
PNext == /\ st = "top" /\ Len(toks) = 0
         /\ \E p \in Pairs : toks' = p
         /\ st' = "done" /\ ndefs' = 2
         /\ UNCHANGED <<stack, fl, frags, nf, mx, cost>>
PSpec == GInit /\ [][PNext]_gvars

\* type-system documents contain no selections
NoSelections == Depth(toks) = 0 /\ FieldCount(toks) = 0 /\ InlinedDepth(toks) = 0
=============================================================================
