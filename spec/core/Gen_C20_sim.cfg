CONSTANTS
  MaxBuild = 5
  MaxReform = 3
  MaxDepth = 3
  MaxRoots = 2
  RootFilter = {}
  FieldFilter = {}
  MaxReval = 2
  Mut = "none"
SPECIFICATION GenSpec

CHECK_DEADLOCK FALSE
