CONSTANTS
  MaxBuild = 5
  MaxReform = 3
  MaxDepth = 3
  MaxRoots = 2
  RootFilter = {}
  Mut = "none"
SPECIFICATION GenSpec
CHECK_DEADLOCK FALSE
