CONSTANTS
  MaxBuild = 3
  MaxReform = 2
  MaxDepth = 2
  MaxRoots = 1
  RootFilter = {"users", "allPets", "nestedType"}
  FieldFilter = {}
  MaxReval = 0
  Mut = "none"
SPECIFICATION Spec
INVARIANTS RefOK WellFormedInv
CHECK_DEADLOCK FALSE
