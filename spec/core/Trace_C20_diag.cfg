SPECIFICATION TraceSpec
CONSTRAINT Diag
POSTCONDITION TraceAccepted
CHECK_DEADLOCK FALSE
