SPECIFICATION TraceSpec
CONSTRAINT Judge
POSTCONDITION AllConsumedAndConforming
CHECK_DEADLOCK FALSE
