CONSTANTS
  QueryNames <- QN_default
  Slots = {}
  DirSlots = {}
  FieldNames = {}
  ArgNames = {"a", "b"}
  InputNames = {"y"}
  EnumVals = {"RED"}
  Scalars = {"Int"}
  Wraps <- W_none
  Descs = {}
  Reasons <- R_both
  Urls = {}
  Features <- F_Features
  MaxSteps = 4
  ValDepth = 1
  Sampling = FALSE
  EmitSteps <- ES_all
SPECIFICATION GenSpec
INVARIANTS GenWF SpecRoundTrip Closed DeprecatedFilter Sensitive
CONSTRAINT EmitAt
VIEW GenView
CHECK_DEADLOCK FALSE
