---------------------------- MODULE Trace_C15R ----------------------------
(* Validation pass for the variable renderers of template data sources     *)
(* (resolve/variables_renderer.go).  Each line of IOEnv.TRACE is one        *)
(* observation of harness/cmd/args -mode render: a JSON value j of type ty  *)
(* rendered by the REAL renderer of kind json | plain | gql | csv inside a  *)
(* hand-built resolve.InputTemplate, read back by independent parsers:      *)
(*   json  {"v":<x>}                 must be JSON, member v denotes Den(j)  *)
(*   gql   {"query":"{f(a: <x>)}"}   must be JSON, the GraphQL argument     *)
(*                                   literal denotes Den(j) at type ty      *)
(*   plain <x>                       a string renders as its characters,    *)
(*                                   anything else as JSON denoting Den(j)  *)
(*   csv   <x1>,<x2>,..              items as plain text joined by commas   *)
EXTENDS GQLLiteral, Json, TLCExt, IOUtils
TraceLog == ndJsonDeserialize(IOEnv.TRACE)
VARIABLE l
TraceInit == l = 1 /\ TLCSet(1, 0)
TraceNext == l <= Len(TraceLog) /\ l' = l + 1
TraceSpec == TraceInit /\ [][TraceNext]_l

DJ(o) == Den(o.c.j, o.c.ty, <<>>, TRUE)
CsvItem(e) == IF e.k = "str" THEN StrValue(e.text, TRUE) ELSE e.text
RECURSIVE CsvText(_, _)
CsvText(items, i) == IF i > Len(items) THEN <<>>
                     ELSE (IF i > 1 THEN <<44>> ELSE <<>>) \o CsvItem(items[i]) \o CsvText(items, i + 1)

ModelCaseOK(o) == ExprOK(o.c.j, TRUE) /\ ~HasErr(DJ(o))
RenderNoPanic(o) == ~o.panic
RenderValid(o) == o.c.kind \in {"json", "gql"} \/ (o.c.kind = "plain" /\ o.c.j.k # "str") => o.valid
RenderDenotes(o) ==
  CASE o.c.kind \in {"json", "gql"} -> o.valid => VEq(Canon(o.outv, o.c.ty), DJ(o))
    [] o.c.kind = "plain" -> IF o.c.j.k = "str" THEN o.outtext = StrValue(o.c.j.text, TRUE)
                             ELSE o.valid => VEq(Canon(o.outv, o.c.ty), DJ(o))
    [] o.c.kind = "csv" -> o.outtext = CsvText(o.c.j.items, 1)
    [] OTHER -> FALSE

Failed(o) == (IF ModelCaseOK(o) THEN {} ELSE {"ModelCaseOK"})
             \cup (IF RenderNoPanic(o) THEN {} ELSE {"RenderNoPanic"})
             \cup (IF RenderValid(o) THEN {} ELSE {"RenderValid"})
             \cup (IF RenderDenotes(o) THEN {} ELSE {"RenderDenotes"})

HighWater == TLCSet(1, IF l > TLCGet(1) THEN l ELSE TLCGet(1))
Collect ==
  /\ HighWater
  /\ IF l <= Len(TraceLog)
     THEN LET f == Failed(TraceLog[l]) IN
          IF f = {} THEN TRUE
          ELSE PrintT(ToJson([line |-> l, id |-> TraceLog[l].id, failed |-> f, expected |-> DJ(TraceLog[l])]))
     ELSE TRUE
TraceAccepted ==
  IF TLCGet(1) = Len(TraceLog) + 1 THEN TRUE
  ELSE /\ PrintT(<<"TRACE_STUCK_AT_LINE", TLCGet(1)>>)
       /\ FALSE
Inv_Render == l <= Len(TraceLog) => Failed(TraceLog[l]) = {}
=============================================================================
