\* model checking of the coercion laws and generation of the cases in one run
CONSTANTS
  D = 4
  Wide = FALSE
  Cat = 2
SPECIFICATION GenSpec
INVARIANTS ErrsAgree NonNullLaw ListLaw ItemLaw NumLaw GoodBad AbsentLaw ExtraLaw
CONSTRAINT GenConstraint
CHECK_DEADLOCK FALSE
