---------------------------- MODULE GQLSchemaGen ----------------------------
(* Bounded schema GENERATOR for property C17: a state machine whose states are    *)
(* schemas (GQLIntroSchema form) and whose actions add one thing each: a type of  *)
(* any kind, a field with a wrapped type ([[T!]]! ...), an argument / input field  *)
(* with a default value of any kind, an interface implementation (also interface   *)
(* implements interface, with the transitive closure and the inherited fields),    *)
(* a covariant narrowing, a union member, an enum value, a deprecation with or     *)
(* without reason (fields, arguments, input fields, enum values, directive args),  *)
(* a description, a custom (repeatable) directive with locations and arguments, an *)
(* applied directive, mutation / subscription roots with custom names, a           *)
(* specifiedBy URL.  Every action keeps the schema VALID (theorem GenWF, checked   *)
(* by TLC): the property quantifies over valid schemas only.                       *)
(* TLC's state graph of this machine is the test suite: BFS = every schema within  *)
(* the pools, -simulate = random long walks (Sampling = TRUE picks parameters with  *)
(* RandomElement instead of enumerating them).                                     *)
EXTENDS GQLIntrospect

CONSTANTS
  QueryNames,   \* names the query root type may have
  Slots,        \* set of [name, kind]: the types that may be added
  DirSlots,     \* set of [name, locs, rep]: the directives that may be defined
  FieldNames, ArgNames, InputNames, EnumVals,   \* name pools
  Scalars,      \* built-in scalars usable in type references
  Wraps,        \* set of wrapper sequences usable for type references
  Descs,        \* description texts
  Reasons,      \* set of [hr, r]: deprecation without / with an explicit reason
  Urls,         \* specifiedBy URLs
  Features,     \* enabled action groups
  MaxSteps, ValDepth,
  Sampling      \* TRUE in -simulate runs

VARIABLES S, n
gvars == <<S, n>>

On(f) == f \in Features
Pick(set) == IF Sampling /\ set # {} THEN {RandomElement(set)} ELSE set
T(nm) == Find(S.types, nm)
NamesOfKind(ks) == {S.types[i].name : i \in {j \in DOMAIN S.types : S.types[j].kind \in ks}}
OutNames == NamesOfKind(OutputKinds) \cup Scalars
InNames == NamesOfKind(InputKinds) \cup Scalars
Impls(I) == ImplementorsOf(S, I)
SetTypes(ts) == S' = [S EXCEPT !.types = ts]
UpdType(nm, t) == SetTypes(Replace(S.types, nm, t))
UpdField(t, f, fd) == UpdType(t.name, [t EXCEPT !.fields = Replace(t.fields, f, fd)])
Dep(rc) == [d |-> TRUE, hr |-> rc.hr, r |-> rc.r]
\* candidate default values: index 0 = no default
Defaults(ref) == IF On("defaults") THEN DefaultsFor(S, ref, ValDepth) ELSE <<>>
DefAt(ds, k) == IF k = 0 THEN NoVal ELSE ds[k]
AnyInputValue(P(_)) ==   \* some argument / input field / directive argument satisfies P
  \/ \E i \in DOMAIN S.types :
       \/ \E j \in DOMAIN S.types[i].inputs : P(S.types[i].inputs[j])
       \/ \E j \in DOMAIN S.types[i].fields : \E a \in DOMAIN S.types[i].fields[j].args : P(S.types[i].fields[j].args[a])
  \/ \E i \in DOMAIN S.dirs : \E a \in DOMAIN S.dirs[i].args : P(S.dirs[i].args[a])
ObjectDefaultExists == AnyInputValue(LAMBDA iv : iv.def.t # "x" /\ KindOf(S, iv.type.name) = "INPUT_OBJECT")

Init ==
  /\ n = 0
  /\ \E q \in QueryNames : \E sd \in BOOLEAN :
       /\ (q # "Query" => sd)
       /\ S = [desc |-> "", sd |-> sd, stags |-> <<>>, xroots |-> FALSE, query |-> q, mutation |-> "", subscription |-> "",
               types |-> <<[TypeDef(q, "OBJECT") EXCEPT !.fields = <<Field("id", Ref("ID", <<"N">>))>>]>>,
               dirs |-> <<>>]

\* ------------------------------------------------------------------ types
AddType(slot) ==
  /\ slot.name \notin NameSet(S.types)
  /\ LET base == TypeDef(slot.name, slot.kind)
         idF == Field("id", Ref("ID", <<"N">>))
         add(t) == S' = [S EXCEPT !.types = Append(S.types, t),
                                  \* without a schema definition a type with a default root name IS that root
                                  !.mutation = IF ~S.sd /\ slot.name = "Mutation" THEN "Mutation" ELSE S.mutation,
                                  !.subscription = IF ~S.sd /\ slot.name = "Subscription" THEN "Subscription" ELSE S.subscription]
     IN
     /\ slot.name \in {"Mutation", "Subscription"} => slot.kind = "OBJECT"
     /\ \/ slot.kind = "OBJECT" /\ add([base EXCEPT !.fields = <<idF>>])
        \/ slot.kind = "INTERFACE" /\ On("implements") /\ add([base EXCEPT !.fields = <<idF>>])
        \/ slot.kind = "UNION" /\ On("unions") /\ \E o \in Pick(NamesOfKind({"OBJECT"})) : add([base EXCEPT !.members = <<o>>])
        \/ slot.kind = "ENUM" /\ On("enums") /\ add([base EXCEPT !.values = <<EnumVal("V0")>>])
        \/ slot.kind = "INPUT_OBJECT" /\ On("inputs") /\ add([base EXCEPT !.inputs = <<InputVal("x", Ref("Int", <<>>), NoVal)>>])
        \/ slot.kind = "SCALAR" /\ On("scalars") /\ add(base)

SetRoot(which, o) ==
  /\ On("roots") /\ S.sd
  /\ o \in NamesOfKind({"OBJECT"}) \ {S.query, S.mutation, S.subscription}
  /\ \/ which = "mutation" /\ S.mutation = "" /\ S' = [S EXCEPT !.mutation = o]
     \/ which = "subscription" /\ S.subscription = "" /\ S' = [S EXCEPT !.subscription = o]

\* ------------------------------------------------------------------ fields, arguments, input fields
AddField(tn, f, ref) ==
  /\ On("fields")
  /\ LET t == T(tn)
         targets == {tn} \cup (IF t.kind = "INTERFACE" THEN Impls(tn) ELSE {}) IN   \* implementors inherit the field
     /\ t.kind \in {"OBJECT", "INTERFACE"}
     /\ \A x \in targets : ~Has(T(x).fields, f)
     /\ SetTypes([i \in 1..Len(S.types) |->
                    IF S.types[i].name \in targets
                    THEN [S.types[i] EXCEPT !.fields = Append(S.types[i].fields, Field(f, ref))] ELSE S.types[i]])

AddArg(tn, f, a, ref, dv) ==
  /\ On("args")
  /\ LET t == T(tn)
         iv == InputVal(a, ref, dv)
         targets == {tn} \cup (IF t.kind = "INTERFACE" THEN Impls(tn) ELSE {}) IN
     /\ t.kind \in {"OBJECT", "INTERFACE"} /\ Has(t.fields, f)
     /\ \A x \in targets : ~Has(Find(T(x).fields, f).args, a)
     \* an argument the interface field does not have must not be required
     /\ \A x \in targets : \A j \in Range(T(x).ifaces) : (j \notin targets /\ Has(T(j).fields, f)) => ~Required(iv)
     /\ SetTypes([i \in 1..Len(S.types) |->
                    IF S.types[i].name \in targets
                    THEN LET fd == Find(S.types[i].fields, f) IN
                         [S.types[i] EXCEPT !.fields = Replace(S.types[i].fields, f, [fd EXCEPT !.args = Append(fd.args, iv)])]
                    ELSE S.types[i]])

AddInput(tn, x, ref, dv) ==
  /\ On("inputs")
  /\ LET t == T(tn)
         iv == InputVal(x, ref, dv) IN
     /\ t.kind = "INPUT_OBJECT" /\ ~Has(t.inputs, x)
     /\ KindOf(S, ref.name) = "INPUT_OBJECT" => ref.w # <<"N">>     \* no unbreakable cycle
     /\ Required(iv) => ~ObjectDefaultExists                        \* existing object defaults stay complete
     /\ UpdType(tn, [t EXCEPT !.inputs = Append(t.inputs, iv)])

\* ------------------------------------------------------------------ interfaces, unions, enums
FieldCompat(tf, jf) ==
  /\ SameRef(tf.type, jf.type)
  /\ \A a \in DOMAIN jf.args : Has(tf.args, jf.args[a].name) /\ SameRef(Find(tf.args, jf.args[a].name).type, jf.args[a].type)
  /\ \A a \in DOMAIN tf.args : ~Has(jf.args, tf.args[a].name) => ~Required(tf.args[a])

Implement(tn, I) ==
  /\ On("implements")
  /\ LET t == T(tn)
         it == T(I) IN
     /\ t.kind \in {"OBJECT", "INTERFACE"} /\ it.kind = "INTERFACE" /\ tn # I
     /\ I \notin Range(t.ifaces) /\ tn \notin Range(it.ifaces)
     /\ t.kind = "INTERFACE" => Impls(tn) = {}
     /\ \A k \in DOMAIN it.fields : Has(t.fields, it.fields[k].name) => FieldCompat(Find(t.fields, it.fields[k].name), it.fields[k])
     \* the transitive closure of interfaces and the inherited fields come with it
     /\ UpdType(tn, [t EXCEPT !.ifaces = t.ifaces \o SelectSeq(<<I>> \o it.ifaces, LAMBDA z : z \notin Range(t.ifaces)),
                              !.fields = t.fields \o SelectSeq(it.fields, LAMBDA fd : ~Has(t.fields, fd.name))])

\* covariance: an implementing field may be non-null where the interface field is nullable
Narrow(tn, f) ==
  /\ On("implements")
  /\ LET t == T(tn) IN
     /\ t.kind \in {"OBJECT", "INTERFACE"} /\ Has(t.fields, f)
     /\ t.kind = "INTERFACE" => Impls(tn) = {}
     /\ \E j \in Range(t.ifaces) : Has(T(j).fields, f)
     /\ LET fd == Find(t.fields, f) IN
        /\ Nullable(fd.type)
        /\ UpdField(t, f, [fd EXCEPT !.type = Ref(fd.type.name, <<"N">> \o fd.type.w)])

AddMember(u, o) ==
  /\ On("unions")
  /\ T(u).kind = "UNION" /\ T(o).kind = "OBJECT" /\ o \notin Range(T(u).members)
  /\ UpdType(u, [T(u) EXCEPT !.members = Append(T(u).members, o)])

AddEnumValue(e, v) ==
  /\ On("enums")
  /\ T(e).kind = "ENUM" /\ ~Has(T(e).values, v)
  /\ UpdType(e, [T(e) EXCEPT !.values = Append(T(e).values, EnumVal(v))])

\* ------------------------------------------------------------------ deprecations
DepField(tn, f, rc) ==
  /\ On("deprecate") /\ T(tn).kind \in {"OBJECT", "INTERFACE"} /\ Has(T(tn).fields, f)
  /\ LET fd == Find(T(tn).fields, f) IN ~fd.dep.d /\ UpdField(T(tn), f, [fd EXCEPT !.dep = Dep(rc)])
DepArg(tn, f, a, rc) ==
  /\ On("deprecate") /\ T(tn).kind \in {"OBJECT", "INTERFACE"} /\ Has(T(tn).fields, f)
  /\ LET fd == Find(T(tn).fields, f) IN
     /\ Has(fd.args, a)
     /\ LET iv == Find(fd.args, a) IN
        /\ ~iv.dep.d /\ ~Required(iv)
        /\ UpdField(T(tn), f, [fd EXCEPT !.args = Replace(fd.args, a, [iv EXCEPT !.dep = Dep(rc)])])
DepInput(tn, x, rc) ==
  /\ On("deprecate") /\ T(tn).kind = "INPUT_OBJECT" /\ Has(T(tn).inputs, x)
  /\ LET iv == Find(T(tn).inputs, x) IN
     /\ ~iv.dep.d /\ ~Required(iv)
     /\ UpdType(tn, [T(tn) EXCEPT !.inputs = Replace(T(tn).inputs, x, [iv EXCEPT !.dep = Dep(rc)])])
DepEnum(e, v, rc) ==
  /\ On("deprecate") /\ T(e).kind = "ENUM" /\ Has(T(e).values, v)
  /\ LET ev == Find(T(e).values, v) IN
     ~ev.dep.d /\ UpdType(e, [T(e) EXCEPT !.values = Replace(T(e).values, v, [ev EXCEPT !.dep = Dep(rc)])])

\* ------------------------------------------------------------------ directives
\* every place where a custom directive is applied, as <<where..., tags>>
AllTags ==
  {<<"s", "$schema", S.stags>>, <<"x", "$schema", IF S.xroots THEN <<"x">> ELSE <<>> >>} \cup
  UNION {{<<"t", S.types[i].name, S.types[i].tags>>, <<"x", S.types[i].name, SubSeq(<<"x", "x", "x", "x", "x", "x", "x", "x">>, 1, S.types[i].ext)>>}
           \cup {<<"f", S.types[i].name, S.types[i].fields[j].name, S.types[i].fields[j].tags>> : j \in DOMAIN S.types[i].fields}
           \cup UNION {{<<"a", S.types[i].name, S.types[i].fields[j].name, S.types[i].fields[j].args[a].name, S.types[i].fields[j].args[a].tags>> :
                          a \in DOMAIN S.types[i].fields[j].args} : j \in DOMAIN S.types[i].fields}
           \cup {<<"i", S.types[i].name, S.types[i].inputs[j].name, S.types[i].inputs[j].tags>> : j \in DOMAIN S.types[i].inputs}
           \cup {<<"v", S.types[i].name, S.types[i].values[j].name, S.types[i].values[j].tags>> : j \in DOMAIN S.types[i].values}
         : i \in DOMAIN S.types}
Applied(dn) == \E x \in AllTags : dn \in Range(x[Len(x)])
UpdDir(d) == S' = [S EXCEPT !.dirs = Replace(S.dirs, d.name, d)]
AddDir(slot) ==
  /\ On("directives") /\ ~Has(S.dirs, slot.name)
  /\ S' = [S EXCEPT !.dirs = Append(S.dirs, DirDef(slot.name, slot.locs, slot.rep))]
AddDirArg(dn, a, ref, dv) ==
  /\ On("directives") /\ Has(S.dirs, dn)
  /\ LET d == Find(S.dirs, dn)
         iv == InputVal(a, ref, dv) IN
     /\ ~Has(d.args, a)
     \* a directive that is already applied somewhere only gets optional arguments
     /\ Required(iv) => ~Applied(dn)
     /\ UpdDir([d EXCEPT !.args = Append(d.args, iv)])
DepDirArg(dn, a, rc) ==
  /\ On("deprecate") /\ Has(S.dirs, dn) /\ Has(Find(S.dirs, dn).args, a)
  /\ LET d == Find(S.dirs, dn)
         iv == Find(d.args, a) IN
     /\ ~iv.dep.d /\ ~Required(iv)
     /\ UpdDir([d EXCEPT !.args = Replace(d.args, a, [iv EXCEPT !.dep = Dep(rc)])])
\* Type-system directive applications (`scalar Money @format`, `type T @tag`, `RED @tag`, `a: Int @tag` ...): invisible to
\* introspection (only @deprecated / @specifiedBy are reflected) and must not disturb it.
CanApply(dn, loc, tags) ==
  /\ On("tags") /\ Has(S.dirs, dn)
  /\ LET d == Find(S.dirs, dn) IN
     /\ loc \in Range(d.locs)
     /\ \A a \in DOMAIN d.args : ~Required(d.args[a])
     /\ Len(tags) < 2 /\ (dn \in Range(tags) => d.rep)
TagType(tn, dn) == CanApply(dn, KindLoc(T(tn).kind), T(tn).tags) /\ UpdType(tn, [T(tn) EXCEPT !.tags = Append(T(tn).tags, dn)])
TagEnumValue(e, v, dn) ==
  /\ T(e).kind = "ENUM" /\ Has(T(e).values, v)
  /\ LET ev == Find(T(e).values, v) IN
     /\ CanApply(dn, "ENUM_VALUE", ev.tags)
     /\ UpdType(e, [T(e) EXCEPT !.values = Replace(T(e).values, v, [ev EXCEPT !.tags = Append(ev.tags, dn)])])
TagArg(tn, f, a, dn) ==
  /\ T(tn).kind \in {"OBJECT", "INTERFACE"} /\ Has(T(tn).fields, f) /\ Has(Find(T(tn).fields, f).args, a)
  /\ LET fd == Find(T(tn).fields, f)
         iv == Find(fd.args, a) IN
     /\ CanApply(dn, "ARGUMENT_DEFINITION", iv.tags)
     /\ UpdField(T(tn), f, [fd EXCEPT !.args = Replace(fd.args, a, [iv EXCEPT !.tags = Append(iv.tags, dn)])])
TagInput(tn, x, dn) ==
  /\ T(tn).kind = "INPUT_OBJECT" /\ Has(T(tn).inputs, x)
  /\ LET iv == Find(T(tn).inputs, x) IN
     /\ CanApply(dn, "INPUT_FIELD_DEFINITION", iv.tags)
     /\ UpdType(tn, [T(tn) EXCEPT !.inputs = Replace(T(tn).inputs, x, [iv EXCEPT !.tags = Append(iv.tags, dn)])])
TagSchema(dn) == S.sd /\ CanApply(dn, "SCHEMA", S.stags) /\ S' = [S EXCEPT !.stags = Append(S.stags, dn)]
\* Type extensions: one more trailing element of the type (a scalar: its directives) is declared in `extend <kind> T ..`;
\* the mutation / subscription roots are declared in `extend schema {..}`.  The type system stays the same (merged).
Extend(tn) == On("extensions") /\ T(tn).ext + 1 < ExtCount(T(tn)) /\ UpdType(tn, [T(tn) EXCEPT !.ext = T(tn).ext + 1])
ExtendSchema == On("extensions") /\ S.sd /\ ~S.xroots /\ (S.mutation # "" \/ S.subscription # "") /\ S' = [S EXCEPT !.xroots = TRUE]
\* ... and to a field definition (sits next to @deprecated in the SDL)
Tag(tn, f, dn) ==
  /\ On("tags") /\ T(tn).kind \in {"OBJECT", "INTERFACE"} /\ Has(T(tn).fields, f) /\ Has(S.dirs, dn)
  /\ LET d == Find(S.dirs, dn)
         fd == Find(T(tn).fields, f) IN
     /\ "FIELD_DEFINITION" \in Range(d.locs)
     /\ \A a \in DOMAIN d.args : ~Required(d.args[a])
     /\ Len(fd.tags) < 2 /\ (dn \in Range(fd.tags) => d.rep)
     /\ UpdField(T(tn), f, [fd EXCEPT !.tags = Append(fd.tags, dn)])

\* ------------------------------------------------------------------ descriptions, specifiedBy
DescType(tn, ds) == On("describe") /\ T(tn).desc = "" /\ UpdType(tn, [T(tn) EXCEPT !.desc = ds])
DescField(tn, f, ds) ==
  /\ On("describe") /\ T(tn).kind \in {"OBJECT", "INTERFACE"} /\ Has(T(tn).fields, f)
  /\ LET fd == Find(T(tn).fields, f) IN fd.desc = "" /\ UpdField(T(tn), f, [fd EXCEPT !.desc = ds])
DescArg(tn, f, a, ds) ==
  /\ On("describe") /\ T(tn).kind \in {"OBJECT", "INTERFACE"} /\ Has(T(tn).fields, f)
  /\ LET fd == Find(T(tn).fields, f) IN
     /\ Has(fd.args, a) /\ Find(fd.args, a).desc = ""
     /\ UpdField(T(tn), f, [fd EXCEPT !.args = Replace(fd.args, a, [Find(fd.args, a) EXCEPT !.desc = ds])])
DescInput(tn, x, ds) ==
  /\ On("describe") /\ T(tn).kind = "INPUT_OBJECT" /\ Has(T(tn).inputs, x) /\ Find(T(tn).inputs, x).desc = ""
  /\ UpdType(tn, [T(tn) EXCEPT !.inputs = Replace(T(tn).inputs, x, [Find(T(tn).inputs, x) EXCEPT !.desc = ds])])
DescEnum(e, v, ds) ==
  /\ On("describe") /\ T(e).kind = "ENUM" /\ Has(T(e).values, v) /\ Find(T(e).values, v).desc = ""
  /\ UpdType(e, [T(e) EXCEPT !.values = Replace(T(e).values, v, [Find(T(e).values, v) EXCEPT !.desc = ds])])
DescDir(dn, ds) == On("describe") /\ Has(S.dirs, dn) /\ Find(S.dirs, dn).desc = "" /\ UpdDir([Find(S.dirs, dn) EXCEPT !.desc = ds])
DescDirArg(dn, a, ds) ==
  /\ On("describe") /\ Has(S.dirs, dn) /\ Has(Find(S.dirs, dn).args, a) /\ Find(Find(S.dirs, dn).args, a).desc = ""
  /\ LET d == Find(S.dirs, dn) IN UpdDir([d EXCEPT !.args = Replace(d.args, a, [Find(d.args, a) EXCEPT !.desc = ds])])
DescSchema(ds) == On("describe") /\ S.sd /\ S.desc = "" /\ S' = [S EXCEPT !.desc = ds]
SpecifiedBy(tn, url) == On("scalars") /\ T(tn).kind = "SCALAR" /\ T(tn).url = "" /\ UpdType(tn, [T(tn) EXCEPT !.url = url])

\* ------------------------------------------------------------------ next-state relation
TN == NameSet(S.types)
OutRefs == {Ref(nm, w) : nm \in OutNames, w \in Wraps}
InRefs == {Ref(nm, w) : nm \in InNames, w \in Wraps}
FieldsOf(tn) == NameSet(T(tn).fields)
ArgsOf(tn, f) == IF Has(T(tn).fields, f) THEN NameSet(Find(T(tn).fields, f).args) ELSE {}

\* one action of class c (BFS: every instance; sampling: one random instance)
Act(c) ==
  \/ c = "type" /\ \E slot \in Pick(Slots) : AddType(slot)
  \/ c = "root" /\ \E w \in Pick({"mutation", "subscription"}) : \E o \in Pick(TN) : SetRoot(w, o)
  \/ c = "field" /\ \E tn \in Pick(TN) : \E f \in Pick(FieldNames) : \E ref \in Pick(OutRefs) : AddField(tn, f, ref)
  \/ c = "arg" /\ \E tn \in Pick(NamesOfKind({"OBJECT", "INTERFACE"})) : \E f \in Pick(FieldsOf(tn)) : \E a \in Pick(ArgNames) : \E ref \in Pick(InRefs) :
                    LET ds == Defaults(ref) IN \E k \in Pick(0..Len(ds)) : AddArg(tn, f, a, ref, DefAt(ds, k))
  \/ c = "input" /\ \E tn \in Pick(NamesOfKind({"INPUT_OBJECT"})) : \E x \in Pick(InputNames) : \E ref \in Pick(InRefs) :
                      LET ds == Defaults(ref) IN \E k \in Pick(0..Len(ds)) : AddInput(tn, x, ref, DefAt(ds, k))
  \/ c = "implement" /\ \E tn \in Pick(NamesOfKind({"OBJECT", "INTERFACE"})) : \E I \in Pick(NamesOfKind({"INTERFACE"})) : Implement(tn, I)
  \/ c = "narrow" /\ \E tn \in Pick(NamesOfKind({"OBJECT", "INTERFACE"})) : \E f \in Pick(FieldsOf(tn)) : Narrow(tn, f)
  \/ c = "member" /\ \E u \in Pick(NamesOfKind({"UNION"})) : \E o \in Pick(NamesOfKind({"OBJECT"})) : AddMember(u, o)
  \/ c = "enumval" /\ \E e \in Pick(NamesOfKind({"ENUM"})) : \E v \in Pick(EnumVals) : AddEnumValue(e, v)
  \/ c = "dep.field" /\ \E rc \in Pick(Reasons) : \E tn \in Pick(NamesOfKind({"OBJECT", "INTERFACE"})) : \E f \in Pick(FieldsOf(tn)) : DepField(tn, f, rc)
  \/ c = "dep.arg" /\ \E rc \in Pick(Reasons) : \E tn \in Pick(NamesOfKind({"OBJECT", "INTERFACE"})) : \E f \in Pick(FieldsOf(tn)) :
                        \E a \in Pick(ArgsOf(tn, f)) : DepArg(tn, f, a, rc)
  \/ c = "dep.input" /\ \E rc \in Pick(Reasons) : \E tn \in Pick(NamesOfKind({"INPUT_OBJECT"})) : \E x \in Pick(NameSet(T(tn).inputs)) : DepInput(tn, x, rc)
  \/ c = "dep.enum" /\ \E rc \in Pick(Reasons) : \E e \in Pick(NamesOfKind({"ENUM"})) : \E v \in Pick(NameSet(T(e).values)) : DepEnum(e, v, rc)
  \/ c = "dep.dirarg" /\ \E rc \in Pick(Reasons) : \E dn \in Pick(NameSet(S.dirs)) : \E a \in Pick(NameSet(Find(S.dirs, dn).args)) : DepDirArg(dn, a, rc)
  \/ c = "dir" /\ \E slot \in Pick(DirSlots) : AddDir(slot)
  \/ c = "dirarg" /\ \E dn \in Pick(NameSet(S.dirs)) : \E a \in Pick(ArgNames) : \E ref \in Pick(InRefs) :
                       LET ds == Defaults(ref) IN \E k \in Pick(0..Len(ds)) : AddDirArg(dn, a, ref, DefAt(ds, k))
  \/ c = "tag" /\ \E tn \in Pick(NamesOfKind({"OBJECT", "INTERFACE"})) : \E f \in Pick(FieldsOf(tn)) : \E dn \in Pick(NameSet(S.dirs)) : Tag(tn, f, dn)
  \/ c = "tag.schema" /\ \E dn \in Pick(NameSet(S.dirs)) : TagSchema(dn)
  \/ c = "extend" /\ \E tn \in Pick(TN) : Extend(tn)
  \/ c = "extend.schema" /\ ExtendSchema
  \/ c = "tag.type" /\ \E tn \in Pick(TN) : \E dn \in Pick(NameSet(S.dirs)) : TagType(tn, dn)
  \/ c = "tag.enum" /\ \E e \in Pick(NamesOfKind({"ENUM"})) : \E v \in Pick(NameSet(T(e).values)) : \E dn \in Pick(NameSet(S.dirs)) : TagEnumValue(e, v, dn)
  \/ c = "tag.arg" /\ \E tn \in Pick(NamesOfKind({"OBJECT", "INTERFACE"})) : \E f \in Pick(FieldsOf(tn)) : \E a \in Pick(ArgsOf(tn, f)) :
                        \E dn \in Pick(NameSet(S.dirs)) : TagArg(tn, f, a, dn)
  \/ c = "tag.input" /\ \E tn \in Pick(NamesOfKind({"INPUT_OBJECT"})) : \E x \in Pick(NameSet(T(tn).inputs)) : \E dn \in Pick(NameSet(S.dirs)) : TagInput(tn, x, dn)
  \/ c = "desc.type" /\ \E ds \in Pick(Descs) : \E tn \in Pick(TN) : DescType(tn, ds)
  \/ c = "desc.field" /\ \E ds \in Pick(Descs) : \E tn \in Pick(NamesOfKind({"OBJECT", "INTERFACE"})) : \E f \in Pick(FieldsOf(tn)) : DescField(tn, f, ds)
  \/ c = "desc.arg" /\ \E ds \in Pick(Descs) : \E tn \in Pick(NamesOfKind({"OBJECT", "INTERFACE"})) : \E f \in Pick(FieldsOf(tn)) :
                         \E a \in Pick(ArgsOf(tn, f)) : DescArg(tn, f, a, ds)
  \/ c = "desc.input" /\ \E ds \in Pick(Descs) : \E tn \in Pick(NamesOfKind({"INPUT_OBJECT"})) : \E x \in Pick(NameSet(T(tn).inputs)) : DescInput(tn, x, ds)
  \/ c = "desc.enum" /\ \E ds \in Pick(Descs) : \E e \in Pick(NamesOfKind({"ENUM"})) : \E v \in Pick(NameSet(T(e).values)) : DescEnum(e, v, ds)
  \/ c = "desc.dir" /\ \E ds \in Pick(Descs) : \E dn \in Pick(NameSet(S.dirs)) : DescDir(dn, ds)
  \/ c = "desc.dirarg" /\ \E ds \in Pick(Descs) : \E dn \in Pick(NameSet(S.dirs)) : \E a \in Pick(NameSet(Find(S.dirs, dn).args)) : DescDirArg(dn, a, ds)
  \/ c = "desc.schema" /\ \E ds \in Pick(Descs) : DescSchema(ds)
  \/ c = "url" /\ \E tn \in Pick(NamesOfKind({"SCALAR"})) : \E url \in Pick(Urls) : SpecifiedBy(tn, url)

Classes == {"type", "root", "field", "arg", "input", "implement", "narrow", "member", "enumval",
            "dep.field", "dep.arg", "dep.input", "dep.enum", "dep.dirarg", "dir", "dirarg", "tag", "tag.type", "tag.enum", "tag.arg", "tag.input", "tag.schema", "extend", "extend.schema",
            "desc.type", "desc.field", "desc.arg", "desc.input", "desc.enum", "desc.dir", "desc.dirarg", "desc.schema", "url"}
\* sampling weights: structure (types, fields, arguments, implementations) is preferred over decoration
Weighted == {<<"type", i>> : i \in 1..8} \cup {<<"field", i>> : i \in 1..6} \cup {<<"arg", i>> : i \in 1..6}
              \cup {<<"input", i>> : i \in 1..4} \cup {<<"implement", i>> : i \in 1..6} \cup {<<"member", i>> : i \in 1..2}
              \cup {<<"enumval", i>> : i \in 1..2} \cup {<<"dirarg", i>> : i \in 1..2} \cup {<<"tag.type", i>> : i \in 1..3}
              \cup {<<"dir", i>> : i \in 1..2} \cup {<<"extend", i>> : i \in 1..3} \cup {<<c, 1>> : c \in Classes}
\* sampling: every weighted copy draws its own random instance, TLC then picks one successor uniformly
Chosen == IF Sampling THEN Weighted ELSE {<<c, 1>> : c \in Classes}

Next ==
  /\ n < MaxSteps
  /\ n' = n + 1
  /\ \E cw \in Chosen : Act(cw[1])

GenSpec == Init /\ [][Next]_gvars
\* VIEW: schemas that differ only in the order of definitions are one state (one representative is explored)
GenView == <<IFacts(IntrospectRaw(S, TRUE)), S.sd, n, AllTags>>

\* ------------------------------------------------------------------ theorems checked by TLC (model checking step)
GenWF == WF(S)
\* introspection loses nothing: the schema described by Introspect(S) has the same type system as the configured schema
SpecRoundTrip == Equiv(FromIntrospection(Introspect(S, TRUE)), Full(S))
\* every type mentioned anywhere in the introspection result is listed in __schema.types with that kind
Closed ==
  LET F == IFacts(Introspect(S, TRUE))
      listed == {f.v \o ":" \o f.p[1] : f \in {g \in F : g.k = "type"}} IN
  /\ \A f \in F : f.k \in {"interface", "possibleType"} => f.v \in listed
  /\ \A f \in F : f.k = "root" /\ f.v # "<null>" => ("OBJECT:" \o f.v) \in listed
\* includeDeprecated: false hides exactly the deprecated elements (and what hangs below them)
DeprecatedFilter ==
  LET A == IFacts(Introspect(S, TRUE))
      B == IFacts(Introspect(S, FALSE))
      dep == {f.p : f \in {g \in A : g.k = "deprecated" /\ g.v = "true"}} IN
  /\ B \subseteq A
  /\ \A f \in A \ B : \E p \in dep : p = f.p \/ IsPrefix(p, f.p)
  /\ \A f \in B : ~\E p \in dep : p = f.p \/ IsPrefix(p, f.p)
\* the comparison is discriminating: a schema that differs in one element is not equivalent, and the difference is
\* reported as exactly one primary mismatch
DropLastField(t) == [t EXCEPT !.fields = SubSeq(t.fields, 1, Len(t.fields) - 1)]
Sensitive ==
  LET E == IFacts(Introspect(S, TRUE)) IN
  \A i \in DOMAIN S.types :
    LET t == S.types[i] IN
    /\ (t.kind = "OBJECT" /\ Len(t.fields) > 1 /\ Impls(t.name) = {}) =>
         LET m == Mismatches(E, IFacts(Introspect([S EXCEPT !.types = Replace(S.types, t.name, DropLastField(t))], TRUE))) IN
         Cardinality(m) = 1 /\ \A x \in m : x.d = "missing" /\ x.k = "field"
    /\ (Len(t.ifaces) > 0) =>
         LET m == Mismatches(E, IFacts(Introspect([S EXCEPT !.types = Replace(S.types, t.name, [t EXCEPT !.ifaces = Tail(t.ifaces)])], TRUE))) IN
         \E x \in m : x.d = "missing" /\ x.k = "interface" /\ x.q = t.kind
    /\ \A j \in DOMAIN t.fields :
         /\ t.fields[j].dep.d =>
              LET fd == [t.fields[j] EXCEPT !.dep = NoDep]
                  m == Mismatches(E, IFacts(Introspect([S EXCEPT !.types = Replace(S.types, t.name, [t EXCEPT !.fields = Replace(t.fields, fd.name, fd)])], TRUE))) IN
              \E x \in m : x.d = "changed" /\ x.k = "deprecated" /\ x.q = "field"
         /\ Len(t.fields[j].type.w) > 0 =>
              LET fd == [t.fields[j] EXCEPT !.type = Ref(t.fields[j].type.name, Tail(t.fields[j].type.w))]
                  m == Mismatches(E, IFacts(Introspect([S EXCEPT !.types = Replace(S.types, t.name, [t EXCEPT !.fields = Replace(t.fields, fd.name, fd)])], TRUE))) IN
              Cardinality(m) = 1 /\ \A x \in m : x.d = "changed" /\ x.k = "field"
         /\ \A a \in DOMAIN t.fields[j].args :
              t.fields[j].args[a].def.t # "x" =>
                LET iv == [t.fields[j].args[a] EXCEPT !.def = NoVal]
                    fd == [t.fields[j] EXCEPT !.args = Replace(t.fields[j].args, iv.name, iv)]
                    m == Mismatches(E, IFacts(Introspect([S EXCEPT !.types = Replace(S.types, t.name, [t EXCEPT !.fields = Replace(t.fields, fd.name, fd)])], TRUE))) IN
                m # {} /\ \A x \in m : x.k = "default" /\ x.q = "arg"
=============================================================================
