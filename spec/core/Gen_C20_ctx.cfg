CONSTANTS
  MaxBuild = 4
  MaxReform = 1
  MaxDepth = 2
  MaxRoots = 1
  RootFilter = {"categories"}
  FieldFilter = {"id", "name", "kind", "childCategories", "totalProducts"}
  MaxReval = 0
  Mut = "none"
SPECIFICATION GenSpec

CHECK_DEADLOCK FALSE
