------------------------------- MODULE GQLDiag -------------------------------
(* Diagnosis of a non-conforming observation of C04.  NOT part of the        *)
(* verdict (that is accept <=> SpecValid, GQLValidate): these operators only *)
(* name *why* a document is invalid, finely enough that one root cause in    *)
(* the implementation maps to one key of known-findings.json and a different *)
(* gap shows up under a different key.                                       *)
(*  - Tokens(S, doc): one token "Rule/detail" per violated rule and reason.   *)
(*  - PruneStatic(doc, vars): model of what the normalizer's @skip/@include  *)
(*    stage (astnormalization/directive_include_skip.go) removes before the  *)
(*    validator sees the operation.                                          *)
EXTENDS GQLValidate

KindLetter(S, n) == CASE IsComposite(S, n) -> "C" [] TypeKind(S, n) = "ENUM" -> "E" [] TypeKind(S, n) = "SCALAR" -> "S" [] OTHER -> "U"
\* letter of a selected field: T = the __typename meta field, else the kind of its type
FieldLetter(S, x) == IF x.f.name = "__typename" THEN "T" ELSE KindLetter(S, FieldDef(S, x.parent, x.f.name).type.n)
\* unordered pair of kind letters
PairLetters(a, b) == IF a = b THEN a \o b
                     ELSE IF "C" \in {a, b} THEN "C" \o (CHOOSE x \in {a, b} : x # "C")
                     ELSE IF "E" \in {a, b} THEN "E" \o (CHOOSE x \in {a, b} : x # "E")
                     ELSE IF "S" \in {a, b} THEN "S" \o (CHOOSE x \in {a, b} : x # "S")
                     ELSE a \o b

----------------------------------------------------------------------------
\* 5.3.2: reasons why the fields of a set cannot be merged
RECURSIVE ShapeReasons(_, _, _, _)
ShapeReasons(S, doc, x, y) ==
  LET dx == FieldDef(S, x.parent, x.f.name)
      dy == FieldDef(S, y.parent, y.f.name)
      kk == PairLetters(FieldLetter(S, x), FieldLetter(S, y))
  IN IF dx = NoField \/ dy = NoField THEN {}
     ELSE (IF dx.type.w # dy.type.w THEN {kk \o "-wrappers"} ELSE {})
          \cup (IF (IsLeafType(S, dx.type.n) \/ IsLeafType(S, dy.type.n)) /\ dx.type.n # dy.type.n THEN {kk \o "-type"} ELSE {})
          \cup (IF IsComposite(S, dx.type.n) /\ IsComposite(S, dy.type.n)
                THEN LET sub == SubFields(S, doc, x) \cup SubFields(S, doc, y)
                     IN UNION {IF p # q /\ ResponseKey(p.f) = ResponseKey(q.f) THEN ShapeReasons(S, doc, p, q) ELSE {} : <<p, q>> \in sub \X sub}
                ELSE {})

RECURSIVE MergeReasons(_, _, _)
MergeReasons(S, doc, fs) ==
  UNION {IF x # y /\ ResponseKey(x.f) = ResponseKey(y.f)
         THEN LET kk == PairLetters(FieldLetter(S, x), FieldLetter(S, y))
              IN ShapeReasons(S, doc, x, y)
                 \cup (IF x.parent = y.parent \/ ~IsObjectType(S, x.parent) \/ ~IsObjectType(S, y.parent)
                       THEN (IF x.f.name # y.f.name THEN {kk \o "-name"} ELSE {})
                            \cup (IF ~SameArgs(x.f.args, y.f.args) THEN {kk \o "-args"} ELSE {})
                            \cup MergeReasons(S, doc, SubFields(S, doc, x) \cup SubFields(S, doc, y))
                       ELSE {})
         ELSE {} : <<x, y>> \in fs \X fs}

DiagMerge(S, doc) == UNION {MergeReasons(S, doc, FieldsOf(S, doc, ss.sel, ss.parent, {})) : ss \in AllSets(S, doc)}

----------------------------------------------------------------------------
\* 5.6: reasons why a literal is not of the expected type; ctx = arg | item | field | default
Expect(S, n) == IF n \in BuiltinScalars THEN n
                ELSE CASE TypeKind(S, n) = "SCALAR" -> "CUSTOM" [] TypeKind(S, n) = "ENUM" -> "ENUM" [] TypeKind(S, n) = "INPUT" -> "INPUT" [] OTHER -> "UNKNOWN"

RECURSIVE LiteralReasons(_, _, _, _)
LiteralReasons(S, ty, v, ctx) ==
  IF v.t = "v" THEN {}
  ELSE IF IsNonNull(ty) THEN IF v.t = "n" THEN {"null-for-nonnull@" \o ctx} ELSE LiteralReasons(S, Unwrap(ty), v, ctx)
  ELSE IF v.t = "n" THEN {}
  ELSE IF IsListTy(ty) THEN IF v.t = "l" THEN UNION {LiteralReasons(S, Unwrap(ty), v.l[i], "item") : i \in DOMAIN v.l}
                            ELSE LiteralReasons(S, Unwrap(ty), v, ctx)
  ELSE IF NamedLiteralOK(S, ty.n, v) THEN {}
  ELSE IF TypeKind(S, ty.n) = "INPUT" /\ v.t = "o"
       THEN (IF ~Unique(v.k) THEN {"object-dup-field"} ELSE {})
            \cup (IF \E i \in DOMAIN v.k : v.k[i] \notin InputFields(S, ty.n) THEN {"object-unknown-field"} ELSE {})
            \cup (IF \E f \in InputFields(S, ty.n) : IsNonNull(InputFieldDef(S, ty.n, f).type) /\ InputFieldDef(S, ty.n, f).def = Absent /\ f \notin Range(v.k)
                  THEN {"object-missing-field"} ELSE {})
            \cup UNION {IF v.k[i] \in InputFields(S, ty.n) THEN LiteralReasons(S, InputFieldDef(S, ty.n, v.k[i]).type, v.o[i], "field") ELSE {} : i \in DOMAIN v.k}
       ELSE IF TypeKind(S, ty.n) = "ENUM" /\ v.t = "e" THEN {"enum-unknown-value"}
       ELSE {v.t \o "-for-" \o Expect(S, ty.n) \o "@" \o ctx}

SiteValueReasons(S, site) ==
  UNION {(IF ObjectKeysUnique(site.args[i].value) THEN {} ELSE {"object-dup-field-untyped"})
         \cup (IF site.args[i].name \in DOMAIN site.defs THEN LiteralReasons(S, site.defs[site.args[i].name].type, site.args[i].value, "arg") ELSE {})
         : i \in DOMAIN site.args}

DiagValues(S, doc) ==
  UNION {SiteValueReasons(S, site) : site \in FieldArgSites(S, doc) \cup DirectiveArgSites(S, doc)}
  \cup UNION {UNION {LET vd == doc.ops[i].vars[j]
                     IN IF vd.def = Absent THEN {}
                        ELSE (IF ObjectKeysUnique(vd.def) THEN {} ELSE {"object-dup-field-untyped"})
                             \cup (IF IsInputType(S, vd.type.n) THEN LiteralReasons(S, vd.type, vd.def, "default") ELSE {})
                     : j \in DOMAIN doc.ops[i].vars} : i \in DOMAIN doc.ops}

----------------------------------------------------------------------------
\* variables
RECURSIVE ListDepth(_)
ListDepth(ty) == IF Len(ty.w) = 0 THEN 0 ELSE (IF ty.w[1] = "L" THEN 1 ELSE 0) + ListDepth(Unwrap(ty))

\* usage context: the variable is the whole argument value, a list item or an input-object field
RECURSIVE ValueUsagesCtx(_, _, _, _, _)
ValueUsagesCtx(S, ty, v, locDef, ctx) ==
  CASE v.t = "v" -> {[name |-> v.n, type |-> ty, locDef |-> locDef, ctx |-> ctx]}
    [] v.t = "l" -> IF IsListTy(Nullable(ty))
                    THEN UNION {ValueUsagesCtx(S, Unwrap(Nullable(ty)), v.l[i], FALSE, "item") : i \in DOMAIN v.l}
                    ELSE {}
    [] v.t = "o" -> IF TypeKind(S, ty.n) = "INPUT"
                    THEN UNION {IF v.k[i] \in InputFields(S, ty.n)
                                THEN ValueUsagesCtx(S, InputFieldDef(S, ty.n, v.k[i]).type, v.o[i], InputFieldDef(S, ty.n, v.k[i]).def # Absent, "field")
                                ELSE {} : i \in DOMAIN v.k}
                    ELSE {}
    [] OTHER -> {}

UsageCtxOf(S, doc, op, u) ==   \* contexts in which the typed usage u occurs in the operation
  LET sites == {FieldArgSite(S, it) : it \in FieldItems(S, doc)} \cup DirectiveArgSites(S, doc)
  IN {c.ctx : c \in {w \in UNION {UNION {IF site.args[i].name \in DOMAIN site.defs
                                         THEN ValueUsagesCtx(S, site.defs[site.args[i].name].type, site.args[i].value,
                                                             site.defs[site.args[i].name].def # Absent, "arg")
                                         ELSE {} : i \in DOMAIN site.args} : site \in sites}
                     : w.name = u.name /\ w.type = u.type /\ w.locDef = u.locDef}}

DiagVarPos(S, doc) ==
  UNION {UNION {UNION {IF doc.ops[i].vars[j].name = u.name /\ ~UsageAllowed(doc.ops[i].vars[j], u)
                       THEN LET vt == doc.ops[i].vars[j].type
                                why == IF ListDepth(vt) # ListDepth(u.type) THEN "listdepth"
                                       ELSE IF vt.n # u.type.n THEN "name" ELSE "nullability"
                            IN {c \o ":" \o why : c \in UsageCtxOf(S, doc, doc.ops[i], u)}
                       ELSE {} : j \in DOMAIN doc.ops[i].vars} : u \in OpUsages(S, doc, doc.ops[i])} : i \in DOMAIN doc.ops}

\* feature of a VALID document (naming of a rejected valid operation): a nullable variable without a non-null default sits in a
\* Non-Null input-field / argument position that is allowed only because the location has a default value (5.8.5)
AllUsagesCtx(S, doc) ==
  LET sites == {FieldArgSite(S, it) : it \in FieldItems(S, doc)} \cup DirectiveArgSites(S, doc)
  IN UNION {UNION {IF site.args[i].name \in DOMAIN site.defs
                   THEN ValueUsagesCtx(S, site.defs[site.args[i].name].type, site.args[i].value, site.defs[site.args[i].name].def # Absent, "arg")
                   ELSE {} : i \in DOMAIN site.args} : site \in sites}
LocationDefaultFeatures(S, doc) ==
  {"location-default@" \o u.ctx : u \in {w \in AllUsagesCtx(S, doc) :
      IsNonNull(w.type) /\ w.locDef /\ \E i \in DOMAIN doc.ops : \E j \in DOMAIN doc.ops[i].vars :
         doc.ops[i].vars[j].name = w.name /\ ~IsNonNull(doc.ops[i].vars[j].type) /\ doc.ops[i].vars[j].def \in {Absent, VNull}}}

DiagVarDefined(S, doc) ==
  UNION {LET undefined == OpVarUses(doc, doc.ops[i]) \ Range(Names(doc.ops[i].vars))
             typed == {u.name : u \in OpUsages(S, doc, doc.ops[i])}
         IN {IF n \in typed THEN "typed-position" ELSE "untyped-position" : n \in undefined} : i \in DOMAIN doc.ops}

----------------------------------------------------------------------------
\* directives: the location of the offending directive
DiagDirKnown(S, doc) == UNION {{ds.loc : i \in {j \in DOMAIN ds.dirs : ~HasDirective(S, ds.dirs[j].name)}} : ds \in DirSites(S, doc)}
DiagDirLocated(S, doc) ==
  UNION {{ds.dirs[i].name \o "@" \o ds.loc : i \in {j \in DOMAIN ds.dirs : HasDirective(S, ds.dirs[j].name) /\ ds.loc \notin DirectiveDef(S, ds.dirs[j].name).locs}}
         : ds \in DirSites(S, doc)}
DiagDirUnique(S, doc) ==
  UNION {{ds.loc : i \in {j \in DOMAIN ds.dirs : \E k \in DOMAIN ds.dirs : k # j /\ ds.dirs[k].name = ds.dirs[j].name /\ HasDirective(S, ds.dirs[j].name)
                                                                       /\ ~DirectiveDef(S, ds.dirs[j].name).repeatable}}
         : ds \in DirSites(S, doc)}
DiagDirArgs(S, doc) ==
  UNION {UNION {LET site == CHOOSE x \in DirArgSites(S, <<ds.dirs[i]>>) : TRUE
                IN (IF SiteArgsKnown(site) THEN {} ELSE {"unknown-argument@" \o ds.loc})
                   \cup (IF SiteArgsRequired(site) THEN {} ELSE {"missing-argument@" \o ds.loc})
                : i \in DOMAIN ds.dirs} : ds \in DirSites(S, doc)}

DiagSubscription(S, doc) ==
  UNION {IF doc.ops[i].op # "subscription" THEN {}
         ELSE LET fs == FieldsOf(S, doc, doc.ops[i].sel, S.subscription, {})
              IN (IF Cardinality({ResponseKey(x.f) : x \in fs}) # 1 THEN {"count"} ELSE {})
                 \cup (IF \E x \in fs : x.f.name \in {"__typename", "__schema", "__type"} THEN {"introspection"} ELSE {})
         : i \in DOMAIN doc.ops}

DiagLeaf(S, doc) ==
  UNION {LET d == FieldDef(S, it.parent, it.s.name)
         IN IF d = NoField THEN {}
            ELSE (IF IsLeafType(S, d.type.n) /\ it.s.sel # <<>> THEN {IF it.s.name = "__typename" THEN "selection-on-__typename" ELSE "selection-on-leaf"} ELSE {})
                 \cup (IF IsComposite(S, d.type.n) /\ it.s.sel = <<>> THEN {"missing-selection"} ELSE {})
         : it \in FieldItems(S, doc)}

DiagFragments(S, doc) ==
  (IF Unique(Names(doc.frags)) THEN {} ELSE {"duplicate-name"})
  \cup (IF \A i \in DOMAIN doc.frags : IsComposite(S, doc.frags[i].on) THEN {} ELSE {"definition-condition-not-composite"})
  \cup (IF \A it \in InlineItems(S, doc) : it.s.on # "" => IsComposite(S, it.s.on) THEN {} ELSE {"inline-condition-not-composite"})
  \cup (IF \A it \in SpreadItems(S, doc) : HasFrag(doc, it.s.name) THEN {} ELSE {"undefined-spread"})

DiagFor(r, S, doc) ==
  CASE r = "OverlappingFieldsCanBeMerged" -> DiagMerge(S, doc)
    [] r = "ValuesOfCorrectType" -> DiagValues(S, doc)
    [] r = "VariablesInAllowedPosition" -> DiagVarPos(S, doc)
    [] r = "VariablesDefined" -> DiagVarDefined(S, doc)
    [] r = "DirectivesKnown" -> DiagDirKnown(S, doc)
    [] r = "DirectivesLocated" -> DiagDirLocated(S, doc)
    [] r = "DirectivesUniquePerLocation" -> DiagDirUnique(S, doc)
    [] r = "DirectivesArgsProvided" -> DiagDirArgs(S, doc)
    [] r = "SingleSubscriptionRoot" -> DiagSubscription(S, doc)
    [] r = "LeafSelections" -> DiagLeaf(S, doc)
    [] r = "FragmentsWellFormed" -> DiagFragments(S, doc)
    [] OTHER -> {}

\* one token per violated rule (failed = FailedRules(S, doc)) and reason
TokensOf(S, doc, failed) ==
  UNION {LET d == DiagFor(r, S, doc) IN IF d = {} THEN {r} ELSE {r \o "/" \o x : x \in d} : r \in failed}
Tokens(S, doc) == TokensOf(S, doc, FailedRules(S, doc))

----------------------------------------------------------------------------
\* Model of astnormalization/directive_include_skip.go: a @skip / @include with exactly one argument "if" whose value is a
\* boolean literal, or a variable with a boolean request value or (else) a default value, is evaluated: the selection is
\* removed (a removed last selection is replaced by the alias __internal_typename: __typename) or the
\* directive is dropped.
StaticBool(doc, vars, d) ==   \* "T", "F" or "?" (not statically known)
  IF d.name \notin {"skip", "include"} \/ Len(d.args) # 1 \/ d.args[1].name # "if" THEN "?"
  ELSE LET v == d.args[1].value
       IN CASE v.t = "b" -> IF v.b THEN "T" ELSE "F"
            [] v.t = "v" ->
                 LET rv == VarsGet(vars, v.n)
                     defs == UNION {{doc.ops[i].vars[j] : j \in {k \in DOMAIN doc.ops[i].vars : doc.ops[i].vars[k].name = v.n /\ doc.ops[i].vars[k].def # Absent}} : i \in DOMAIN doc.ops}
                 IN IF rv.t = "b" THEN (IF rv.b THEN "T" ELSE "F")
                    ELSE IF defs # {} /\ \A x \in defs : x.def.t = "b" /\ x.def.b = (CHOOSE y \in defs : TRUE).def.b
                         THEN (IF (CHOOSE y \in defs : TRUE).def.b THEN "T" ELSE "F")
                         ELSE "?"
            [] OTHER -> "?"

\* the implementation also evaluates a variable whose default value is not a boolean (reading garbage): such documents get
\* a name of their own
GarbageStatic(doc, vars, d) ==
  /\ d.name \in {"skip", "include"} /\ Len(d.args) = 1 /\ d.args[1].name = "if" /\ d.args[1].value.t = "v"
  /\ VarsGet(vars, d.args[1].value.n).t # "b"
  /\ \E i \in DOMAIN doc.ops : \E j \in DOMAIN doc.ops[i].vars :
        doc.ops[i].vars[j].name = d.args[1].value.n /\ doc.ops[i].vars[j].def # Absent /\ doc.ops[i].vars[j].def.t # "b"
HasGarbageStatic(S, doc, vars) ==
  \E ds \in DirSites(S, doc) : \E i \in DOMAIN ds.dirs : GarbageStatic(doc, vars, ds.dirs[i])

Removed(doc, vars, s) ==
  \E i \in DOMAIN s.dirs : (s.dirs[i].name = "skip" /\ StaticBool(doc, vars, s.dirs[i]) = "T")
                           \/ (s.dirs[i].name = "include" /\ StaticBool(doc, vars, s.dirs[i]) = "F")
KeepDirs(doc, vars, dirs) == SelectSeq(dirs, LAMBDA d : StaticBool(doc, vars, d) = "?")

Placeholder == [k |-> "field", name |-> "__typename", alias |-> "__internal_typename", on |-> "", args |-> <<>>, dirs |-> <<>>, sel |-> <<>>]

RECURSIVE PruneSel(_, _, _)
PruneSel(doc, vars, sel) ==
  LET kept == SelectSeq(sel, LAMBDA s : ~Removed(doc, vars, s))
      out == [i \in DOMAIN kept |-> [kept[i] EXCEPT !.dirs = KeepDirs(doc, vars, @), !.sel = PruneSel(doc, vars, @)]]
  IN IF Len(sel) > 0 /\ Len(out) = 0 THEN <<Placeholder>> ELSE out

PruneStatic0(doc, vars) ==
  [doc EXCEPT !.ops = [i \in DOMAIN doc.ops |-> [doc.ops[i] EXCEPT !.sel = PruneSel(doc, vars, @), !.dirs = KeepDirs(doc, vars, @),
                                                                   !.vars = [j \in DOMAIN @ |-> [@[j] EXCEPT !.dirs = KeepDirs(doc, vars, @)]]]],
              !.frags = [i \in DOMAIN doc.frags |-> [doc.frags[i] EXCEPT !.sel = PruneSel(doc, vars, @), !.dirs = KeepDirs(doc, vars, @)]]]

\* variables whose every use disappeared with a removed selection are deleted by the normalizer (variables that were
\* never used at all are kept so that validation still reports them)
PruneStatic(doc, vars) ==
  LET p == PruneStatic0(doc, vars)
  IN [p EXCEPT !.ops = [i \in DOMAIN p.ops |->
        [p.ops[i] EXCEPT !.vars = SelectSeq(@, LAMBDA v : ~(v.name \in OpVarUses(doc, doc.ops[i]) /\ v.name \notin OpVarUses(p, p.ops[i])))]]]
=============================================================================
