--------------------------- MODULE Gen_GQLGrammarLit ---------------------------
(* Generator of the literal-centred documents of GQLGrammarLit (same output as Gen_GQLGrammar). *)
EXTENDS GQLGrammarLit, Json
EmitLit ==
  IF Done
  THEN PrintT(ToJson([toks |-> toks, text |-> Text(toks), depth |-> Depth(toks), idepth |-> InlinedDepth(toks),
                      fields |-> FieldCount(toks), lims |-> <<[l |-> 0, f |-> 0], [l |-> 1, f |-> 1]>>, nmut |-> NMut(toks),
                      implF |-> ImplFields(toks, FALSE), implD |-> 0, implFx |-> ImplFields(toks, TRUE), implDx |-> 0]))
  ELSE TRUE
GenLitConstraint == EmitLit
=============================================================================
