--------------------------- MODULE Trace_GQLGrammar ---------------------------
(* Validation pass of C05: what the real parser did with the generated        *)
(* documents (harness/cmd/parse) is read back as NDJSON, one observation per  *)
(* line, and judged with the operators of GQLGrammar.                         *)
(*                                                                            *)
(*   {"k":"doc", toks, text, depth, idepth, fields, nmut, acc, astF, astD, nmutSeen}                    *)
(*        the document (token sequence with roles, as generated), the numbers *)
(*        the generator printed for it, and what ParseGraphqlDocumentBytes    *)
(*        did: accepted?, fields / selection depth of the produced AST, how   *)
(*        many token-level mutants the driver evaluated.                      *)
(*   {"k":"lim", L, F, acc, statD, statF, dacc, chk}  ParseWithLimits(L, F)   *)
(*        on the current document, the statistics it returned, whether the    *)
(*        document parses without limits, whether conformance is judged       *)
(*   {"k":"lit", blk, src, oblk, out}   one string literal of the current     *)
(*        document (block?, raw content between the delimiters as code        *)
(*        points) and the literal at the same place of the printed document   *)
(*   {"k":"enum", kk, maxlen, count, alphabet}  the bounded enumeration       *)
(*   {"k":"end"}                                                              *)
(*                                                                            *)
(* Binding (enabling conditions; a line that does not satisfy them leaves the *)
(* trace stuck): the parsed text is the spelling of the token sequence, the   *)
(* numbers travelling with the document are the ones this module computes,    *)
(* every mutant and every enumerated string was evaluated.                    *)
(* Judged per observation (state predicates LimitsSound, ParseAgrees): in the *)
(* collecting configuration a false predicate is printed (the run continues   *)
(* so that every unsound observation is reported and classified); in the      *)
(* strict configuration they are INVARIANTS.                                  *)
EXTENDS GQLGrammar, Json, TLCExt, IOUtils
Lit == INSTANCE GQLLiteral        \* character-level model of string literals: the value a literal denotes (Lit!Den)
TraceLog == ndJsonDeserialize(IOEnv.TRACE)
VARIABLES l,      \* next line
          obs     \* last observation: [k, L, F, acc, astF, astD]
tvars == <<gvars, l, obs>>
Ev == TraceLog[l]
NoObs == [k |-> "none", L |-> 0, F |-> 0, acc |-> FALSE, astF |-> 0, astD |-> 0, blk |-> FALSE, src |-> <<>>, oblk |-> FALSE, out |-> <<>>,
          chk |-> FALSE, dacc |-> FALSE, statD |-> 0, statF |-> 0]

TraceInit ==
  /\ l = 1 /\ TLCSet(1, 0)
  /\ toks = <<>> /\ st = "done" /\ stack = <<>> /\ fl = Flags0 /\ ndefs = 0 /\ frags = {} /\ nf = 0 /\ mx = 0 /\ cost = 0
  /\ obs = NoObs

IsLine(k) == l <= Len(TraceLog) /\ Ev.k = k /\ l' = l + 1
Keep == UNCHANGED <<st, stack, fl, ndefs, frags, cost>>

T_Doc ==
  /\ IsLine("doc")
  /\ toks' = Ev.toks
  /\ Ev.text = Text(Ev.toks)
  /\ Ev.depth = Depth(Ev.toks) /\ Ev.idepth = InlinedDepth(Ev.toks) /\ Ev.fields = FieldCount(Ev.toks)
  /\ Ev.nmut = NMut(Ev.toks) /\ Ev.nmutSeen \in {0, NMut(Ev.toks)}
  /\ nf' = Ev.fields /\ mx' = Ev.depth
  /\ obs' = [NoObs EXCEPT !.k = "doc", !.acc = Ev.acc, !.astF = Ev.astF, !.astD = Ev.astD]
  /\ Keep

T_Lim ==
  /\ IsLine("lim")
  /\ Len(toks) > 0
  /\ obs' = [NoObs EXCEPT !.k = "lim", !.L = Ev.L, !.F = Ev.F, !.acc = Ev.acc, !.chk = Ev.chk, !.dacc = Ev.dacc, !.statD = Ev.statD, !.statF = Ev.statF]
  /\ UNCHANGED <<toks, nf, mx>> /\ Keep

\* the literal is one of the current document's string tokens: delimiters + raw content spell the token
CodeSeq(x) == [i \in 1..Len(x) |-> x[i]]
T_Lit ==
  /\ IsLine("lit")
  /\ Ev.tok \in 1..Len(toks) /\ Ev.len = Len(toks[Ev.tok].s)
  /\ obs' = [NoObs EXCEPT !.k = "lit", !.blk = Ev.blk, !.src = CodeSeq(Ev.src), !.oblk = Ev.oblk, !.out = CodeSeq(Ev.out)]
  /\ UNCHANGED <<toks, nf, mx>> /\ Keep

T_Enum ==
  /\ IsLine("enum")
  /\ Ev.alphabet = Alphabet /\ Ev.kk = Len(Alphabet)
  /\ Ev.count = EnumCount(Ev.kk, Ev.maxlen)
  /\ obs' = NoObs
  /\ UNCHANGED <<toks, nf, mx>> /\ Keep

T_End == IsLine("end") /\ obs' = NoObs /\ UNCHANGED <<toks, nf, mx>> /\ Keep

TraceNext == T_Doc \/ T_Lim \/ T_Lit \/ T_Enum \/ T_End
TraceSpec == TraceInit /\ [][TraceNext]_tvars

\* ---------------------------------------------------------------- the judged properties
\* a document whose real selection depth or field count exceeds a limit is never accepted
LimitsSound == obs.k = "lim" => LimitsSoundFor(toks, obs.L, obs.F, obs.acc)
\* the same with the weaker notion of depth (deepest nesting inside one definition, spreads not followed)
LimitsSoundSyntactic == obs.k = "lim" => (ExceedsSyntactic(toks, obs.L, obs.F) => ~obs.acc)
\* an accepted document is the document that was written: as many fields, as deep
ParseAgrees == (obs.k = "doc" /\ obs.acc) => (obs.astF = FieldCount(toks) /\ obs.astD = Depth(toks))

\* conformance with the specification of the accounting (the repaired model of TokenizeWithLimits: cumulative depth over the
\* definitions, every identifier inside braces a field): for a document the parser accepts, ParseWithLimits(L, F) accepts exactly
\* when the model does, and without limits it reports the model's TotalDepth / TotalFields
DecisionConforms == (obs.k = "lim" /\ obs.chk /\ obs.dacc) => (obs.acc <=> ModelAccepts(toks, obs.L, obs.F))
StatsConform == (obs.k = "lim" /\ obs.chk /\ obs.acc /\ obs.L = 0 /\ obs.F = 0) =>
                  (obs.statD = ImplTotalDepth(toks, TRUE) /\ obs.statF = ImplFields(toks, TRUE))

\* printing preserves what every string literal and description denotes (block strings: BlockStringValue of the raw
\* content with \""" unescaped; ordinary strings: the escape sequences resolved), whatever spelling the printer chooses
DenLit(blk, r) == Lit!Den(Lit!Leaf(IF blk THEN "bstr" ELSE "str", r), "String", <<>>, FALSE)
PrintPreservesValue == obs.k = "lit" => Lit!VEq(DenLit(obs.blk, obs.src), DenLit(obs.oblk, obs.out))

Judge ==
  /\ IF ~DecisionConforms \/ ~StatsConform
     THEN PrintT(ToJson([k |-> "nonconform", line |-> l - 1, decision |-> ~DecisionConforms, modelD |-> ImplDepthMax(toks, TRUE),
                         modelT |-> ImplTotalDepth(toks, TRUE), modelF |-> ImplFields(toks, TRUE)]))
     ELSE TRUE
  /\ IF ~PrintPreservesValue
     THEN PrintT(ToJson([k |-> "valuediff", line |-> l - 1]))
     ELSE TRUE
  /\ IF ~LimitsSound
     THEN PrintT(ToJson([k |-> "unsound", line |-> l - 1, L |-> obs.L, F |-> obs.F, depth |-> Depth(toks), idepth |-> InlinedDepth(toks),
                         fields |-> FieldCount(toks), syntactic |-> ~LimitsSoundSyntactic]))
     ELSE TRUE
  /\ IF ~ParseAgrees
     THEN PrintT(ToJson([k |-> "disagree", line |-> l - 1, astF |-> obs.astF, astD |-> obs.astD, depth |-> Depth(toks), fields |-> FieldCount(toks)]))
     ELSE TRUE

\* high-water mark of consumed lines
HighWater == TLCSet(1, IF l > TLCGet(1) THEN l ELSE TLCGet(1))
Collect == HighWater /\ Judge
TraceAccepted ==
  IF TLCGet(1) = Len(TraceLog) + 1 THEN TRUE
  ELSE /\ PrintT(<<"TRACE_STUCK_AT_LINE", TLCGet(1)>>)
       /\ FALSE
=============================================================================
