SPECIFICATION TraceSpec
INVARIANT ConformsInv
CHECK_DEADLOCK FALSE
