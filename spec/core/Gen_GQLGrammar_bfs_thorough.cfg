CONSTANTS
  Pools = "small"
  Sim = FALSE
  MaxCost = 3
  MaxDefs = 2
  MaxNest = 2
  MaxSel = 2
  MaxArgs = 1
  MaxDirs = 1
  MaxVars = 1
SPECIFICATION GSpec
CONSTRAINT GenConstraint
INVARIANTS TrackedAgree Balanced InlinedAtLeastSyntactic AccountingSoundFixed
CHECK_DEADLOCK FALSE
