---------------------------- MODULE Trace_Coerce ----------------------------
(* Validation of C06: every line of the NDJSON file is one observation of the *)
(* real code (harness/cmd/vars) on one generated case; the case is echoed in  *)
(* the line, so the verdict is recomputed here from the specification and     *)
(* compared with what the code did.  One line is consumed per step.           *)
(*   AcceptOK     accepted <=> AcceptVars                (both directions)    *)
(*   NamesVarOK   a rejection names an offending variable ("$name" quoted)    *)
(*   NamesPathOK  ... and, unless that variable's offence is at its root, the *)
(*                path of one of its offending positions                      *)
(*   NoEchoOK     with content exposure disabled no sentinel leaf of the      *)
(*                variables occurs in the message                             *)
(* Two configurations: Trace_Coerce.cfg states them as INVARIANTS (strict);   *)
(* Trace_Coerce_judge.cfg prints a verdict record for every line that breaks  *)
(* one of them and goes on, so that all disagreements of a batch are reported *)
(* by one TLC run (check driver: judge, then strict on the remaining lines).  *)
EXTENDS CoerceCatalog, Json, TLCExt, IOUtils
TraceLog == ndJsonDeserialize(IOEnv.TRACE)
VARIABLE l
Done == l > Len(TraceLog)
Ln == TraceLog[l]
C == Ln.case

TraceInit == l = 1 /\ TLCSet(1, 0)
TraceNext == l <= Len(TraceLog) /\ l' = l + 1
TraceSpec == TraceInit /\ [][TraceNext]_l

Want == Expected(C)
InQ(s) == \E j \in 1..Ln.nq : Ln.q[j] = s
Off == Offending(Catalog, OpOf(C), VarsOf(C))
PathsOf(i) == {e.p : e \in VarErrs(Catalog, OpOf(C)[i], VarsOf(C))}
Rejected == ~Ln.acc /\ ~Want
\* the position is named: the offence is at the variable itself, or the path of an offending position is quoted,
\* or the offending position is a field directly under the variable and the field name is quoted (Field "f" ...)
NamedPos(i) == \/ C.vars[i].name \in PathsOf(i)
               \/ \E p \in PathsOf(i) : InQ(p)
               \/ \E f \in AllFieldNames : Sub(C.vars[i].name, f) \in PathsOf(i) /\ InQ(f)

AcceptOK    == Ln.acc <=> Want
NamesVarOK  == Rejected => \E i \in Off : InQ("$" \o C.vars[i].name)
NamesPathOK == Rejected => \E i \in Off : /\ InQ("$" \o C.vars[i].name)
                                          /\ NamedPos(i)
NoEchoOK    == Ln.expose \/ Ln.leak = 0

InvAccept    == Done \/ AcceptOK
InvNamesVar  == Done \/ NamesVarOK
InvNamesPath == Done \/ NamesPathOK
InvNoEcho    == Done \/ NoEchoOK

Verdict == [id |-> Ln.id, who |-> Ln.who, line |-> l, want |-> Want, acc |-> Ln.acc,
            acceptOK |-> AcceptOK, namesVarOK |-> NamesVarOK, namesPathOK |-> NamesPathOK, noEchoOK |-> NoEchoOK,
            kinds |-> ExpectedKinds(C), errs |-> ExpectedErrs(C)]
Judge == IF ~Done /\ ~(AcceptOK /\ NamesVarOK /\ NamesPathOK /\ NoEchoOK) THEN PrintT(ToJson(Verdict)) ELSE TRUE

\* high-water mark of consumed lines
HighWater == TLCSet(1, IF l > TLCGet(1) THEN l ELSE TLCGet(1))
TraceAccepted ==
  IF TLCGet(1) = Len(TraceLog) + 1 THEN TRUE
  ELSE /\ PrintT(<<"TRACE_STUCK_AT_LINE", TLCGet(1)>>)
       /\ FALSE
=============================================================================
