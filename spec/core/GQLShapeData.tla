---------------------------- MODULE GQLShapeData ----------------------------
(***************************************************************************)
(* C20, value oracle: "consistent projections OF THE SERVICE DATA".         *)
(* The deterministic part of grpctest.MockService as a data universe: for   *)
(* a root field and its argument values, RootData gives the service's       *)
(* answer as a tree over FIELD NAMES (not response keys), written from the  *)
(* rules in v2/pkg/grpctest/mockservice.go, mockservice_enums.go, util.go   *)
(* (ids / names are functions of the arguments and of the list index).      *)
(* A tree may be partial: fields it does not mention (field resolvers,      *)
(* fields whose rule is not modelled) are not judged.  A tree only lists a  *)
(* field with arguments if the mock ignores them.  op.dv selects the data   *)
(* variant the driver's service answers with ("" = stock mock, "v1").       *)
(*   DataErrs(op, resp)  every selected position whose value the universe   *)
(*                       knows carries exactly that value:                  *)
(*                       resp(q)[p] = Expected(p)  (also null-ness and list *)
(*                       lengths: null <-> [] or an off-by-one index is a   *)
(*                       change Consistent cannot see, this relation can)   *)
(***************************************************************************)
EXTENDS GQLShape

\* ----- data trees
DV(j) == [d |-> "v", j |-> j]
DS(s) == DV(JStr(s))
DI(i) == DV([t |-> "i", v |-> i])
DB(b) == DV([t |-> "b", v |-> b])
DN    == DV(JNull)
DO(tn, f) == [d |-> "o", tn |-> tn, f |-> f]     \* f : field name -> data tree
DL(s) == [d |-> "l", v |-> s]
N(i) == ToString(i)
ArgStr(f, name) == f.args[CHOOSE i \in DOMAIN f.args : f.args[i].name = name].str

\* ----- mockservice_enums.go / util.go
KindSeq == <<"BOOK", "ELECTRONICS", "FURNITURE", "OTHER">>
Proto(kind) == "CATEGORY_KIND_" \o kind            \* productv1.CategoryKind.String()
\* createSubcategories(categoryId, kind, count)
Subcats(catId, kind, n) ==
  DL([j \in 1..n |-> DO("Subcategory",
        "id" :> DS(catId \o "-subcategory-" \o N(j))
     @@ "name" :> DS(Proto(kind) \o " Subcategory " \o N(j))
     @@ "description" :> DS("Subcategory " \o N(j) \o " for " \o catId)
     @@ "isActive" :> DB(TRUE))])
\* mockservice_resolve.go: field resolvers whose result is a function of the PARENT's context (id, name) and of the
\* parent's index i0 (0-based) in the resolver request -- every parent must be resolved with its own context
\* ResolveCategoryChildCategories (context "id name"; the include argument is ignored)
ChildCategories(id, name, i0) ==
  DL([k \in 1..2 |-> DO("Category",
        "id" :> DS("child-category-" \o id \o "-" \o N(i0 + k - 1))
     @@ "name" :> DS("Child Category " \o name \o " " \o N(i0 + k - 1))
     @@ "kind" :> DS("OTHER"))])
\* ResolveCategoryTotalProducts: (i0 + 1) * 42
TotalProducts(i0) == DI((i0 + 1) * 42)
\* QueryCategories: one category per kind, i = 1..4, i subcategories
Categories ==
  DL([i \in 1..4 |-> DO("Category",
        "id" :> DS("category-" \o N(i))
     @@ "name" :> DS(Proto(KindSeq[i]) \o " Category")
     @@ "kind" :> DS(KindSeq[i])
     @@ "subcategories" :> Subcats("category-" \o N(i), KindSeq[i], i)
     @@ "nullMetrics" :> DN
     @@ "childCategories" :> ChildCategories("category-" \o N(i), Proto(KindSeq[i]) \o " Category", i - 1)
     @@ "totalProducts" :> TotalProducts(i - 1))])

\* ----- data variant "v1" (harness/cmd/grpc variantService): data the stock mock never returns
\* categories whose context field `name` holds the proto3 default value in a non-last parent
V1Names == <<"Alpha", "", "Gamma">>
CategoriesV1 ==
  DL([i \in 1..3 |-> DO("Category",
        "id" :> DS("category-" \o N(i)) @@ "name" :> DS(V1Names[i]) @@ "kind" :> DS("BOOK")
     @@ "subcategories" :> DN @@ "nullMetrics" :> DN
     @@ "childCategories" :> ChildCategories("category-" \o N(i), V1Names[i], i - 1)
     @@ "totalProducts" :> TotalProducts(i - 1))])
\* nested lists with NULL inner lists (mixed nullability per level)
SL(s) == DL([i \in DOMAIN s |-> DS(s[i])])
BlogPostV1 ==
  DO("BlogPost", "id" :> DS("blog-v1") @@ "title" :> DS("Variant 1")
     @@ "relatedTopics" :> DL(<<SL(<<"a", "b">>), DN, SL(<<"c">>)>>)              \* [[String!]]!
     @@ "suggestions" :> DL(<<SL(<<"s1">>), DN, SL(<<"s2", "s3">>)>>)             \* [[String]]
     @@ "tagGroups" :> DL(<<SL(<<"x">>), SL(<<"y", "z">>)>>)                      \* [[String!]!]!
     @@ "contributorTeams" :> DL(<<DL(<<DO("User", "id" :> DS("u1") @@ "name" :> DS("U 1"))>>), DN>>))   \* [[User!]]
\* QueryCategory(id): no subcategories set (nullable list -> null)
Category(id) ==
  DO("Category", "id" :> DS(id) @@ "name" :> DS("Category " \o id) @@ "kind" :> DS("BOOK")
                 @@ "subcategories" :> DN @@ "nullMetrics" :> DN)
\* QueryCategoriesByKind(kind): 3 categories, the i-th with i subcategories
CategoriesByKind(kind) ==
  DL([i \in 1..3 |-> DO("Category",
        "id" :> DS(Proto(kind) \o "-category-" \o N(i))
     @@ "name" :> DS(Proto(kind) \o " Category " \o N(i))
     @@ "kind" :> DS(kind)
     @@ "nullMetrics" :> DN
     @@ "subcategories" :> DL([j \in 1..i |-> DO("Subcategory",
            "id" :> DS(Proto(kind) \o "-subcategory-" \o N(j))
         @@ "name" :> DS(Proto(kind) \o " Subcategory " \o N(j))
         @@ "description" :> DS(Proto(kind) \o " Subcategory " \o N(j))
         @@ "isActive" :> DB(TRUE))]))])

\* ----- mockservice.go
Users == DL([i \in 1..3 |-> DO("User", "id" :> DS("user-" \o N(i)) @@ "name" :> DS("User " \o N(i)))])
User(id) == DO("User", "id" :> DS(id) @@ "name" :> DS("User " \o id))
NestedType ==
  DL([i \in 1..2 |-> DO("NestedTypeA",
        "id" :> DS("nested-a-" \o N(i)) @@ "name" :> DS("Nested A " \o N(i))
     @@ "b" :> DO("NestedTypeB",
           "id" :> DS("nested-b-" \o N(i)) @@ "name" :> DS("Nested B " \o N(i))
        @@ "c" :> DO("NestedTypeC", "id" :> DS("nested-c-" \o N(i)) @@ "name" :> DS("Nested C " \o N(i)))))])
RECURSIVE Recursive(_)
Recursive(l) == DO("RecursiveType",
      "id" :> DS("recursive-" \o N(l)) @@ "name" :> DS("Level " \o N(l))
   @@ "recursiveType" :> (IF l = 3 THEN DN ELSE Recursive(l + 1)))
TypeFilterWithArguments(a, b) ==
  DL([i \in 1..2 |-> DO("TypeWithMultipleFilterFields",
        "id" :> DS("multi-filter-" \o N(i)) @@ "name" :> DS("MultiFilter " \o N(i))
     @@ "filterField1" :> DS(a) @@ "filterField2" :> DS(b))])
TestContainers ==
  DL([i \in 1..3 |-> DO("TestContainer",
        "id" :> DS("container-" \o N(i)) @@ "name" :> DS("TestContainer " \o N(i))
     @@ "description" :> DS("Description for container " \o N(i)))])
TestContainer(id) ==
  DO("TestContainer", "id" :> DS(id) @@ "name" :> DS("TestContainer-" \o id)
                      @@ "description" :> DS("Description for TestContainer " \o id))
\* QueryAllPets: 2 cats (volume i+3) then 2 dogs (volume i+5)
Pet(tn, low, cap, i, vol) ==
  DO(tn, "__typename" :> DS(tn)
      @@ "id" :> DS(low \o "-" \o N(i)) @@ "name" :> DS(cap \o " " \o N(i)) @@ "kind" :> DS("Breed " \o N(i))
      @@ (IF tn = "Cat" THEN "meowVolume" ELSE "barkVolume") :> DI(vol)
      @@ "owner" :> DO("Owner", "id" :> DS("owner-" \o low \o "-" \o N(i)) @@ "name" :> DS(cap \o " Owner " \o N(i))
                                @@ "contact" :> DO("ContactInfo", "email" :> DS(low \o "-owner-" \o N(i) \o "@example.com")))
      @@ "breed" :> DO(tn \o "Breed", "id" :> DS("breed-" \o low \o "-" \o N(i)) @@ "name" :> DS(cap \o " Breed " \o N(i))
                                      @@ "origin" :> DS("Various")))
AllPets == DL(<<Pet("Cat", "cat", "Cat", 1, 4), Pet("Cat", "cat", "Cat", 2, 5),
                Pet("Dog", "dog", "Dog", 1, 6), Pet("Dog", "dog", "Dog", 2, 7)>>)

\* ----- the universe: root field (with its arguments) -> data tree
KnownRoots == {"users", "user", "nestedType", "recursiveType", "typeFilterWithArguments", "categories", "category",
               "categoriesByKind", "testContainers", "testContainer", "allPets"}
RootData(f) ==
  CASE f.name = "users" -> Users
    [] f.name = "user" -> User(ArgStr(f, "id"))
    [] f.name = "nestedType" -> NestedType
    [] f.name = "recursiveType" -> Recursive(1)
    [] f.name = "typeFilterWithArguments" -> TypeFilterWithArguments(ArgStr(f, "filterField1"), ArgStr(f, "filterField2"))
    [] f.name = "categories" -> Categories
    [] f.name = "category" -> Category(ArgStr(f, "id"))
    [] f.name = "categoriesByKind" -> CategoriesByKind(ArgStr(f, "kind"))
    [] f.name = "testContainers" -> TestContainers
    [] f.name = "testContainer" -> TestContainer(ArgStr(f, "id"))
    [] f.name = "allPets" -> AllPets
KnownRootsV1 == {"categories", "blogPost"}
RootDataV1(f) == IF f.name = "categories" THEN CategoriesV1 ELSE BlogPostV1

\* ----- resp(q)[p] = Expected(p)
RECURSIVE DataVal(_, _, _, _)
DataVal(sel, d, j, c) ==
  IF d.d = "v" THEN
     IF d.j.t = "n" THEN (IF j.t = "n" THEN {} ELSE {Err(c, "value-but-service-has-none")})
     ELSE IF j.t \in {"o", "l"} THEN {}                  \* shape error, reported by ValErrs
     ELSE IF LeafEq(j, d.j) THEN {}
     ELSE {Err(c, IF j.t = "n" THEN "null-but-service-has-a-value" ELSE IF d.j.t = "n" THEN "value-but-service-has-none" ELSE "not-the-service-value")}
  ELSE IF j.t = "n" THEN {Err(c, "null-but-service-has-a-value")}
  ELSE IF d.d = "l" THEN
     IF j.t # "l" THEN {}
     ELSE IF Len(j.v) # Len(d.v) THEN {Err(c, "list-length-not-the-service's")}
     ELSE UNION {DataVal(sel, d.v[i], j.v[i], c) : i \in DOMAIN j.v}
  ELSE IF j.t # "o" THEN {}
  ELSE LET fl == Flat(sel, d.tn) IN
       UNION { LET f == Merged(fl, key) IN
               IF f.name \in DOMAIN d.f /\ JHas(j, key)
               THEN DataVal(f.sel, d.f[f.name], JGet(j, key), <<c[1], d.tn, f.name>>)
               ELSE {}
             : key \in KeysOf(fl) }

DataErrs(op, resp) ==
  IF resp.t # "o" \/ ~JHas(resp, "data") \/ op.kind # "query" THEN {}
  ELSE LET dd == JGet(resp, "data") IN
       IF dd.t # "o" THEN {}
       ELSE LET fl == Flat(op.sel, "Query") IN
            UNION { LET f == Merged(fl, key) IN
                    IF op.dv = "" /\ f.name \in KnownRoots /\ JHas(dd, key)
                    THEN DataVal(f.sel, RootData(f), JGet(dd, key), <<f.name, "Query", f.name>>)
                    ELSE IF op.dv = "v1" /\ f.name \in KnownRootsV1 /\ JHas(dd, key)
                    THEN DataVal(f.sel, RootDataV1(f), JGet(dd, key), <<f.name, "Query", f.name>>)
                    ELSE {}
                  : key \in KeysOf(fl) }
=============================================================================
