----------------------------- MODULE GQLSchema -----------------------------
(* GraphQL type system (October 2021, section 3) as TLA+ values, and a       *)
(* catalog of small concrete schemas used by the generators of C03 / C04.    *)
(*                                                                           *)
(* A schema is a record                                                      *)
(*   [id, query, mutation, subscription  : type names ("" = no such root),   *)
(*    order      : the object types in a fixed order (used by GQLExec to     *)
(*                 choose runtime types deterministically),                  *)
(*    types      : name -> TypeDef,                                          *)
(*    directives : name -> [locs : SUBSET Locations, args : name -> ArgDef,  *)
(*                          repeatable : BOOLEAN]]                           *)
(*   TypeDef = [kind   : OBJECT|INTERFACE|UNION|ENUM|SCALAR|INPUT,           *)
(*              fields : name -> [type : TypeRef, args : name -> ArgDef,     *)
(*                                def : value | Absent],   (INPUT: def used) *)
(*              ifaces : set of interface names it implements,               *)
(*              members: set of union members,  values : set of enum values] *)
(*   ArgDef  = [type : TypeRef, def : value | Absent]                        *)
(*   TypeRef = [n : named type, w : wrappers outermost first, "N" = non-null,*)
(*              "L" = list],  e.g. [Int!]! = [n |-> "Int", w |-> <<N,L,N>>]  *)
(* Values are tagged records whose payload field is named after the tag, so  *)
(* that TLC never compares payloads of different kinds (records are compared *)
(* field name first): [t|->"n"] null, [t|->"b", b|->TRUE], [t|->"i", i|->3], *)
(* [t|->"big", big|->"2147483648"] int beyond 32 bit, [t|->"f",         *)
(* f|->"1.5"] float spelling, [t|->"s", s|->..], [t|->"e", e|->"RED"] enum,  *)
(* [t|->"l", l|->seq], [t|->"o", k|->names, o|->values] (ordered, duplicates *)
(* representable), [t|->"v", n|->name] variable, [t|->"x"] absent.           *)
EXTENDS Integers, Sequences, FiniteSets, TLC

----------------------------------------------------------------------------
\* value constructors
VNull      == [t |-> "n"]
Absent     == [t |-> "x"]
VB(b)      == [t |-> "b", b |-> b]
VI(i)      == [t |-> "i", i |-> i]
VBig(s)    == [t |-> "big", big |-> s]
VF(s)      == [t |-> "f", f |-> s]
VS(s)      == [t |-> "s", s |-> s]
VE(s)      == [t |-> "e", e |-> s]
VL(seq)    == [t |-> "l", l |-> seq]
VO(ks, vs) == [t |-> "o", k |-> ks, o |-> vs]
VVar(n)    == [t |-> "v", n |-> n]

\* type reference constructors
Ty(n)  == [n |-> n, w |-> <<>>]
NN(ty) == [n |-> ty.n, w |-> <<"N">> \o ty.w]
Ls(ty) == [n |-> ty.n, w |-> <<"L">> \o ty.w]

IsNonNull(ty)  == Len(ty.w) > 0 /\ ty.w[1] = "N"
IsListTy(ty)   == Len(ty.w) > 0 /\ ty.w[1] = "L"
IsNamedTy(ty)  == Len(ty.w) = 0
Unwrap(ty)     == [n |-> ty.n, w |-> Tail(ty.w)]       \* strip the outermost wrapper
Nullable(ty)   == IF IsNonNull(ty) THEN Unwrap(ty) ELSE ty

NoArgs == <<>>
Arg(ty, d)      == [type |-> ty, def |-> d]
Fld(ty, args)   == [type |-> ty, args |-> args, def |-> Absent]
InF(ty, d)      == [type |-> ty, args |-> NoArgs, def |-> d]

ObjT(fields, ifaces) == [kind |-> "OBJECT", fields |-> fields, ifaces |-> ifaces, members |-> {}, values |-> {}]
IfaceT(fields, ifaces) == [kind |-> "INTERFACE", fields |-> fields, ifaces |-> ifaces, members |-> {}, values |-> {}]
UnionT(members) == [kind |-> "UNION", fields |-> <<>>, ifaces |-> {}, members |-> members, values |-> {}]
EnumT(values)   == [kind |-> "ENUM", fields |-> <<>>, ifaces |-> {}, members |-> {}, values |-> values]
ScalarT         == [kind |-> "SCALAR", fields |-> <<>>, ifaces |-> {}, members |-> {}, values |-> {}]
InputT(fields)  == [kind |-> "INPUT", fields |-> fields, ifaces |-> {}, members |-> {}, values |-> {}]

BuiltinScalars == {"Int", "Float", "String", "Boolean", "ID"}

ExecLocations == {"QUERY", "MUTATION", "SUBSCRIPTION", "FIELD", "FRAGMENT_DEFINITION", "FRAGMENT_SPREAD",
                  "INLINE_FRAGMENT", "VARIABLE_DEFINITION"}

DirD(locs, args, rep) == [locs |-> locs, args |-> args, repeatable |-> rep]

\* directives every schema has (3.13); @deprecated / @specifiedBy have type-system locations only
BuiltinDirectives ==
  [skip    |-> DirD({"FIELD", "FRAGMENT_SPREAD", "INLINE_FRAGMENT"}, [if |-> Arg(NN(Ty("Boolean")), Absent)], FALSE),
   include |-> DirD({"FIELD", "FRAGMENT_SPREAD", "INLINE_FRAGMENT"}, [if |-> Arg(NN(Ty("Boolean")), Absent)], FALSE),
   deprecated |-> DirD({"FIELD_DEFINITION", "ARGUMENT_DEFINITION", "INPUT_FIELD_DEFINITION", "ENUM_VALUE"},
                       [reason |-> Arg(Ty("String"), VS("No longer supported"))], FALSE)]

----------------------------------------------------------------------------
\* Schema introspection types (October 2021, section 4.2), part of every schema
IntroTypes ==
  [__Schema |-> ObjT([description |-> Fld(Ty("String"), NoArgs), types |-> Fld(NN(Ls(NN(Ty("__Type")))), NoArgs),
                      queryType |-> Fld(NN(Ty("__Type")), NoArgs), mutationType |-> Fld(Ty("__Type"), NoArgs),
                      subscriptionType |-> Fld(Ty("__Type"), NoArgs), directives |-> Fld(NN(Ls(NN(Ty("__Directive")))), NoArgs)], {}),
   __Type |-> ObjT([kind |-> Fld(NN(Ty("__TypeKind")), NoArgs), name |-> Fld(Ty("String"), NoArgs), description |-> Fld(Ty("String"), NoArgs),
                    fields |-> Fld(Ls(NN(Ty("__Field"))), [includeDeprecated |-> Arg(Ty("Boolean"), VB(FALSE))]),
                    interfaces |-> Fld(Ls(NN(Ty("__Type"))), NoArgs), possibleTypes |-> Fld(Ls(NN(Ty("__Type"))), NoArgs),
                    enumValues |-> Fld(Ls(NN(Ty("__EnumValue"))), [includeDeprecated |-> Arg(Ty("Boolean"), VB(FALSE))]),
                    inputFields |-> Fld(Ls(NN(Ty("__InputValue"))), NoArgs), ofType |-> Fld(Ty("__Type"), NoArgs),
                    specifiedByURL |-> Fld(Ty("String"), NoArgs)], {}),
   __Field |-> ObjT([name |-> Fld(NN(Ty("String")), NoArgs), description |-> Fld(Ty("String"), NoArgs),
                     args |-> Fld(NN(Ls(NN(Ty("__InputValue")))), NoArgs), type |-> Fld(NN(Ty("__Type")), NoArgs),
                     isDeprecated |-> Fld(NN(Ty("Boolean")), NoArgs), deprecationReason |-> Fld(Ty("String"), NoArgs)], {}),
   __InputValue |-> ObjT([name |-> Fld(NN(Ty("String")), NoArgs), description |-> Fld(Ty("String"), NoArgs),
                          type |-> Fld(NN(Ty("__Type")), NoArgs), defaultValue |-> Fld(Ty("String"), NoArgs)], {}),
   __EnumValue |-> ObjT([name |-> Fld(NN(Ty("String")), NoArgs), description |-> Fld(Ty("String"), NoArgs),
                         isDeprecated |-> Fld(NN(Ty("Boolean")), NoArgs), deprecationReason |-> Fld(Ty("String"), NoArgs)], {}),
   __Directive |-> ObjT([name |-> Fld(NN(Ty("String")), NoArgs), description |-> Fld(Ty("String"), NoArgs),
                         locations |-> Fld(NN(Ls(NN(Ty("__DirectiveLocation")))), NoArgs),
                         args |-> Fld(NN(Ls(NN(Ty("__InputValue")))), NoArgs), isRepeatable |-> Fld(NN(Ty("Boolean")), NoArgs)], {}),
   __TypeKind |-> EnumT({"SCALAR", "OBJECT", "INTERFACE", "UNION", "ENUM", "INPUT_OBJECT", "LIST", "NON_NULL"}),
   __DirectiveLocation |-> EnumT({"QUERY", "MUTATION", "SUBSCRIPTION", "FIELD", "FRAGMENT_DEFINITION", "FRAGMENT_SPREAD", "INLINE_FRAGMENT",
                                  "VARIABLE_DEFINITION", "SCHEMA", "SCALAR", "OBJECT", "FIELD_DEFINITION", "ARGUMENT_DEFINITION", "INTERFACE",
                                  "UNION", "ENUM", "ENUM_VALUE", "INPUT_OBJECT", "INPUT_FIELD_DEFINITION"})]
IntroTypeNames == DOMAIN IntroTypes
WithIntro(raw) == [raw EXCEPT !.types = IntroTypes @@ @]
UserTypes(S) == (DOMAIN S.types) \ IntroTypeNames
SchemaField == Fld(NN(Ty("__Schema")), NoArgs)
TypeField == Fld(Ty("__Type"), [name |-> Arg(NN(Ty("String")), Absent)])

----------------------------------------------------------------------------
\* lookups (total: unknown names give the *None* records, never a TLC error)
HasType(S, n)   == n \in BuiltinScalars \/ n \in DOMAIN S.types
TypeKind(S, n)  == IF n \in BuiltinScalars THEN "SCALAR"
                   ELSE IF n \in DOMAIN S.types THEN S.types[n].kind ELSE "NONE"
IsComposite(S, n) == TypeKind(S, n) \in {"OBJECT", "INTERFACE", "UNION"}
IsLeafType(S, n)  == TypeKind(S, n) \in {"SCALAR", "ENUM"}
IsInputType(S, n) == TypeKind(S, n) \in {"SCALAR", "ENUM", "INPUT"}
IsObjectType(S, n) == TypeKind(S, n) = "OBJECT"

NoField == [type |-> Ty(""), args |-> NoArgs, def |-> Absent]
TypenameField == Fld(NN(Ty("String")), NoArgs)

\* field definition of an output type, incl. the meta fields __typename (4.4) and, on the query root type, __schema / __type (4.1)
FieldDef(S, T, f) ==
  IF f = "__typename" /\ IsComposite(S, T) THEN TypenameField
  ELSE IF f = "__schema" /\ T = S.query THEN SchemaField
  ELSE IF f = "__type" /\ T = S.query THEN TypeField
  ELSE IF T \in DOMAIN S.types /\ S.types[T].kind \in {"OBJECT", "INTERFACE"} /\ f \in DOMAIN S.types[T].fields
       THEN S.types[T].fields[f]
       ELSE NoField
HasField(S, T, f) == FieldDef(S, T, f) # NoField

InputFieldDef(S, T, f) ==
  IF T \in DOMAIN S.types /\ S.types[T].kind = "INPUT" /\ f \in DOMAIN S.types[T].fields
  THEN S.types[T].fields[f] ELSE NoField
InputFields(S, T) == IF T \in DOMAIN S.types /\ S.types[T].kind = "INPUT" THEN DOMAIN S.types[T].fields ELSE {}

AllDirectives(S) == [d \in (DOMAIN BuiltinDirectives) \cup (DOMAIN S.directives) |->
                        IF d \in DOMAIN S.directives THEN S.directives[d] ELSE BuiltinDirectives[d]]
HasDirective(S, d) == d \in DOMAIN BuiltinDirectives \/ d \in DOMAIN S.directives
DirectiveDef(S, d) == IF d \in DOMAIN S.directives THEN S.directives[d] ELSE BuiltinDirectives[d]

ObjectTypes(S) == {n \in DOMAIN S.types : S.types[n].kind = "OBJECT"}

\* 5.5.2.3 GetPossibleTypes
PossibleTypes(S, T) ==
  CASE TypeKind(S, T) = "OBJECT"    -> {T}
    [] TypeKind(S, T) = "INTERFACE" -> {o \in ObjectTypes(S) : T \in S.types[o].ifaces}
    [] TypeKind(S, T) = "UNION"     -> S.types[T].members
    [] OTHER -> {}

\* 6.4.3 DoesFragmentTypeApply(objectType, fragmentType)
TypeApplies(S, obj, fragType) == obj \in PossibleTypes(S, fragType)

RootType(S, op) == CASE op = "query" -> S.query [] op = "mutation" -> S.mutation [] op = "subscription" -> S.subscription [] OTHER -> ""

----------------------------------------------------------------------------
\* Catalog.

\* ---- S1 "pets": objects, interface, union, enum, input object, arguments with defaults, custom directives
S1 == WithIntro(
  [id |-> "pets", query |-> "Query", mutation |-> "Mutation", subscription |-> "Subscription",
   order |-> <<"Dog", "Cat", "Human", "Query", "Mutation", "Subscription", "Ant">>,
   types |-> [
     Pet |-> IfaceT([id |-> Fld(NN(Ty("ID")), NoArgs),
                     name |-> Fld(NN(Ty("String")), [upper |-> Arg(Ty("Boolean"), VB(FALSE))]),
                     owner |-> Fld(Ty("Human"), NoArgs),
                     kind |-> Fld(NN(Ty("Kind")), NoArgs),
                     friend |-> Fld(Ty("Pet"), NoArgs)], {}),
     Dog |-> ObjT([id |-> Fld(NN(Ty("ID")), NoArgs),
                   name |-> Fld(NN(Ty("String")), [upper |-> Arg(Ty("Boolean"), VB(FALSE))]),
                   owner |-> Fld(Ty("Human"), NoArgs),
                   friend |-> Fld(Ty("Pet"), NoArgs),
                   kind |-> Fld(NN(Ty("Kind")), NoArgs),
                   volume |-> Fld(Ty("Int"), NoArgs),
                   barks |-> Fld(NN(Ty("Boolean")), NoArgs),
                   tricks |-> Fld(Ls(NN(Ty("String"))), [kind |-> Arg(Ty("Kind"), VE("DOG")), limit |-> Arg(Ty("Int"), Absent)])],
                  {"Pet"}),
     Cat |-> ObjT([id |-> Fld(NN(Ty("ID")), NoArgs),
                   name |-> Fld(NN(Ty("String")), [upper |-> Arg(Ty("Boolean"), VB(FALSE))]),
                   owner |-> Fld(Ty("Human"), NoArgs),
                   friend |-> Fld(Ty("Cat"), NoArgs),
                   kind |-> Fld(NN(Ty("Kind")), NoArgs),
                   volume |-> Fld(Ty("String"), NoArgs),
                   nick |-> Fld(NN(Ty("String")), NoArgs),
                   lives |-> Fld(NN(Ty("Int")), NoArgs)],
                  {"Pet"}),
     CatOrDog |-> UnionT({"Cat", "Dog"}),
     \* the first object type in declaration (name) order; unrelated to the first interface (Pet) and the first union
     Ant |-> ObjT([legs |-> Fld(Ty("Int"), NoArgs), name |-> Fld(NN(Ty("String")), NoArgs)], {}),
     Human |-> ObjT([name |-> Fld(NN(Ty("String")), NoArgs),
                     age |-> Fld(Ty("Int"), NoArgs),
                     pets |-> Fld(Ls(NN(Ty("Pet"))), [first |-> Arg(Ty("Int"), VI(2))])], {}),
     Kind |-> EnumT({"DOG", "CAT"}),
     Filter |-> InputT([kind |-> InF(Ty("Kind"), VE("DOG")),
                        minAge |-> InF(NN(Ty("Int")), Absent),
                        ids |-> InF(Ls(NN(Ty("ID"))), Absent),
                        sub |-> InF(Ty("Filter"), Absent)]),
     Query |-> ObjT([pet |-> Fld(Ty("Pet"), [id |-> Arg(NN(Ty("ID")), VS("1"))]),
                     pets |-> Fld(NN(Ls(NN(Ty("Pet")))), [kind |-> Arg(Ty("Kind"), Absent), first |-> Arg(Ty("Int"), VI(2))]),
                     any |-> Fld(Ls(Ty("CatOrDog")), NoArgs),
                     human |-> Fld(Ty("Human"), [name |-> Arg(NN(Ty("String")), Absent)]),
                     dog |-> Fld(Ty("Dog"), NoArgs),
                     ant |-> Fld(Ty("Ant"), NoArgs),
                     n |-> Fld(Ty("Int"), NoArgs),
                     search |-> Fld(Ls(Ty("Pet")), [f |-> Arg(Ty("Filter"), Absent), tags |-> Arg(Ls(NN(Ty("String"))), Absent)])], {}),
     Mutation |-> ObjT([setN |-> Fld(Ty("Int"), [n |-> Arg(NN(Ty("Int")), Absent)]),
                        rename |-> Fld(Ty("Pet"), [id |-> Arg(NN(Ty("ID")), Absent), name |-> Arg(NN(Ty("String")), Absent)])], {}),
     Subscription |-> ObjT([tick |-> Fld(Ty("Int"), [every |-> Arg(Ty("Int"), VI(1))]),
                            petAdded |-> Fld(Ty("Pet"), NoArgs)], {})],
   directives |-> [
     tag  |-> DirD({"FIELD", "FRAGMENT_SPREAD", "INLINE_FRAGMENT"}, [label |-> Arg(NN(Ty("String")), Absent), prio |-> Arg(Ty("Int"), VI(0))], FALSE),
     rep  |-> DirD({"FIELD"}, [n |-> Arg(Ty("Int"), Absent)], TRUE),
     opq  |-> DirD({"QUERY", "SUBSCRIPTION"}, [x |-> Arg(Ty("Int"), Absent)], FALSE),
     fdef |-> DirD({"FRAGMENT_DEFINITION"}, NoArgs, FALSE),
     vdef |-> DirD({"VARIABLE_DEFINITION"}, [m |-> Arg(Ty("String"), Absent)], FALSE)]])

\* ---- S2 "args": every input type shape: scalars, enum, lists (nested, non-null), input objects, custom scalar
S2 == WithIntro(
  [id |-> "args", query |-> "Query", mutation |-> "", subscription |-> "",
   order |-> <<"T", "Query">>,
   types |-> [
     Any   |-> ScalarT,
     Color |-> EnumT({"RED", "GREEN", "BLUE"}),
     In    |-> InputT([a |-> InF(NN(Ty("Int")), Absent),
                       b |-> InF(Ty("String"), VS("d")),
                       c |-> InF(Ls(NN(Ty("Int"))), Absent),
                       d |-> InF(Ty("In"), Absent),
                       e |-> InF(Ty("Color"), VE("GREEN")),
                       f |-> InF(Ty("Float"), Absent),
                       g |-> InF(Ls(Ls(Ty("Int"))), Absent),
                       \* Non-Null input fields WITH a default value (location defaults of 5.8.5)
                       h |-> InF(NN(Ty("Int")), VI(5)),
                       k |-> InF(NN(Ty("Sub")), VO(<<>>, <<>>))]),
     Sub   |-> InputT([z |-> InF(Ty("Int"), VI(1)), zs |-> InF(NN(Ls(Ty("Int"))), VL(<<VI(1)>>))]),
     T     |-> ObjT([i |-> Fld(Ty("Int"), [x |-> Arg(Ty("Int"), VI(7))]),
                     color |-> Fld(Ty("Color"), [not |-> Arg(Ty("Color"), Absent)]),
                     self |-> Fld(Ty("T"), NoArgs)], {}),
     Query |-> ObjT([i   |-> Fld(Ty("String"), [x |-> Arg(Ty("Int"), Absent)]),
                     iN  |-> Fld(Ty("String"), [x |-> Arg(NN(Ty("Int")), Absent)]),
                     f   |-> Fld(Ty("String"), [x |-> Arg(Ty("Float"), Absent)]),
                     s   |-> Fld(Ty("String"), [x |-> Arg(Ty("String"), Absent)]),
                     b   |-> Fld(Ty("String"), [x |-> Arg(Ty("Boolean"), Absent)]),
                     id  |-> Fld(Ty("String"), [x |-> Arg(Ty("ID"), Absent)]),
                     e   |-> Fld(Ty("String"), [x |-> Arg(Ty("Color"), VE("RED"))]),
                     li  |-> Fld(Ty("String"), [x |-> Arg(Ls(Ty("Int")), Absent)]),
                     lin |-> Fld(Ty("String"), [x |-> Arg(NN(Ls(NN(Ty("Int")))), Absent)]),
                     lli |-> Fld(Ty("String"), [x |-> Arg(Ls(Ls(Ty("Int"))), Absent)]),
                     o   |-> Fld(Ty("String"), [x |-> Arg(Ty("In"), Absent)]),
                     oN  |-> Fld(Ty("String"), [x |-> Arg(NN(Ty("In")), Absent)]),
                     lo  |-> Fld(Ty("String"), [x |-> Arg(Ls(NN(Ty("In"))), Absent)]),
                     lon |-> Fld(Ty("String"), [x |-> Arg(Ls(Ty("In")), Absent)]),
                     llo |-> Fld(Ty("String"), [x |-> Arg(Ls(Ls(Ty("In"))), Absent)]),
                     any |-> Fld(Ty("String"), [x |-> Arg(Ty("Any"), Absent)]),
                     two |-> Fld(Ty("String"), [a |-> Arg(NN(Ty("Int")), VI(1)), b |-> Arg(Ty("String"), Absent)]),
                     t   |-> Fld(Ty("T"), NoArgs)], {})],
   directives |-> [
     tag |-> DirD({"FIELD", "FRAGMENT_SPREAD", "INLINE_FRAGMENT"}, [label |-> Arg(NN(Ty("String")), Absent), prio |-> Arg(Ty("Int"), VI(0))], FALSE),
     lim |-> DirD({"FIELD", "QUERY"}, [by |-> Arg(Ty("In"), Absent), xs |-> Arg(Ls(Ty("Int")), Absent)], FALSE)]])

\* ---- S3 "nest": list / non-null nesting for null propagation, interface implementing an interface,
\*                 same field with different nullability in two implementations (url)
S3 == WithIntro(
  [id |-> "nest", query |-> "Query", mutation |-> "", subscription |-> "",
   order |-> <<"Img", "Doc", "Page", "Query">>,
   types |-> [
     Node |-> IfaceT([id |-> Fld(NN(Ty("ID")), NoArgs)], {}),
     Res  |-> IfaceT([id |-> Fld(NN(Ty("ID")), NoArgs), url |-> Fld(Ty("String"), NoArgs)], {"Node"}),
     Img  |-> ObjT([id |-> Fld(NN(Ty("ID")), NoArgs), url |-> Fld(Ty("String"), NoArgs),
                    w |-> Fld(NN(Ty("Int")), [scale |-> Arg(Ty("Int"), VI(1))])], {"Res", "Node"}),
     Doc  |-> ObjT([id |-> Fld(NN(Ty("ID")), NoArgs), url |-> Fld(NN(Ty("String")), NoArgs),
                    pages |-> Fld(NN(Ls(NN(Ty("Page")))), [from |-> Arg(Ty("Int"), VI(0))]),
                    cover |-> Fld(Ty("Img"), NoArgs)], {"Res", "Node"}),
     Page |-> ObjT([id |-> Fld(NN(Ty("ID")), NoArgs), n |-> Fld(NN(Ty("Int")), NoArgs),
                    img |-> Fld(NN(Ty("Img")), NoArgs), doc |-> Fld(Ty("Doc"), NoArgs)], {"Node"}),
     Query |-> ObjT([node |-> Fld(Ty("Node"), [id |-> Arg(NN(Ty("ID")), Absent)]),
                     nodes |-> Fld(NN(Ls(Ty("Node"))), NoArgs),
                     res |-> Fld(Ls(NN(Ty("Res"))), NoArgs),
                     doc |-> Fld(NN(Ty("Doc")), NoArgs),
                     maybe |-> Fld(Ty("Doc"), NoArgs),
                     grid |-> Fld(Ls(Ls(Ty("Img"))), NoArgs)], {})],
   directives |-> <<>>])

\* ---- S4 "deep": interface-implements-interface chains (C : B : A), an unrelated interface X, unions whose members implement
\*                 different interfaces (fragment rules 5.5.2.3 across interface / union / object), list-of-list inputs
S4 == WithIntro(
  [id |-> "deep", query |-> "Query", mutation |-> "", subscription |-> "",
   order |-> <<"T1", "T2", "T3", "T4", "Lone", "Query">>,
   types |-> [
     A |-> IfaceT([a |-> Fld(Ty("Int"), NoArgs)], {}),
     B |-> IfaceT([a |-> Fld(Ty("Int"), NoArgs), b |-> Fld(Ty("Int"), NoArgs)], {"A"}),
     C |-> IfaceT([a |-> Fld(Ty("Int"), NoArgs), b |-> Fld(Ty("Int"), NoArgs), c |-> Fld(NN(Ty("Int")), NoArgs)], {"B", "A"}),
     X |-> IfaceT([x |-> Fld(Ty("String"), NoArgs)], {}),
     T1 |-> ObjT([a |-> Fld(Ty("Int"), NoArgs), b |-> Fld(Ty("Int"), NoArgs), c |-> Fld(NN(Ty("Int")), NoArgs), t1 |-> Fld(Ty("Int"), NoArgs),
                  next |-> Fld(Ty("B"), NoArgs)], {"C", "B", "A"}),
     T2 |-> ObjT([a |-> Fld(Ty("Int"), NoArgs), b |-> Fld(Ty("Int"), NoArgs), x |-> Fld(Ty("String"), NoArgs), t2 |-> Fld(Ty("Int"), NoArgs)], {"B", "A", "X"}),
     T3 |-> ObjT([a |-> Fld(Ty("Int"), NoArgs), t3 |-> Fld(Ty("Int"), NoArgs)], {"A"}),
     T4 |-> ObjT([x |-> Fld(Ty("String"), NoArgs), t4 |-> Fld(Ty("Int"), NoArgs)], {"X"}),
     Lone |-> ObjT([l |-> Fld(Ty("Int"), NoArgs)], {}),
     U |-> UnionT({"T1", "T4"}),
     V |-> UnionT({"T2", "T3"}),
     In4 |-> InputT([r |-> InF(Ls(Ls(Ty("Int"))), VL(<<VL(<<VI(1)>>)>>)), q |-> InF(NN(Ls(NN(Ty("Int")))), Absent)]),
     Query |-> ObjT([a |-> Fld(Ty("A"), NoArgs), bs |-> Fld(Ls(NN(Ty("B"))), NoArgs), c |-> Fld(Ty("C"), NoArgs), u |-> Fld(Ty("U"), NoArgs),
                     v |-> Fld(Ls(Ty("V")), NoArgs), x |-> Fld(Ty("X"), NoArgs), lone |-> Fld(Ty("Lone"), NoArgs),
                     mat |-> Fld(Ty("String"), [m |-> Arg(Ls(Ls(NN(Ty("Int")))), Absent)]),
                     mat2 |-> Fld(Ty("String"), [m |-> Arg(NN(Ls(Ls(Ty("In4")))), Absent)])], {})],
   directives |-> <<>>])

Catalog == <<S1, S2, S3, S4>>
CatalogIds == {Catalog[i].id : i \in 1..Len(Catalog)}
SchemaById(id) == CHOOSE s \in {Catalog[i] : i \in 1..Len(Catalog)} : s.id = id

----------------------------------------------------------------------------
\* Well-formedness of a schema (3.*): what the catalog must satisfy; checked by TLC (MC_GQLCore).
TypeRefOK(S, ty) == HasType(S, ty.n) /\ \A i \in 1..(Len(ty.w) - 1) : ~(ty.w[i] = "N" /\ ty.w[i + 1] = "N")

\* IsValidImplementationFieldType (3.6.1)
RECURSIVE SubTypeRef(_, _, _)
SubTypeRef(S, a, b) ==  \* a (implementation) is a valid covariant type for b (interface field)
  IF IsNonNull(a) THEN SubTypeRef(S, Unwrap(a), Nullable(b))
  ELSE IF IsNonNull(b) THEN FALSE
  ELSE IF IsListTy(a) THEN IsListTy(b) /\ SubTypeRef(S, Unwrap(a), Unwrap(b))
  ELSE IF IsListTy(b) THEN FALSE
  ELSE a.n = b.n \/ (TypeKind(S, a.n) = "OBJECT" /\ a.n \in PossibleTypes(S, b.n))
            \/ (TypeKind(S, a.n) = "INTERFACE" /\ b.n \in S.types[a.n].ifaces)

ImplementsOK(S, T, I) ==
  /\ TypeKind(S, I) = "INTERFACE"
  /\ S.types[I].ifaces \subseteq S.types[T].ifaces          \* transitive interfaces are listed
  /\ \A f \in DOMAIN S.types[I].fields :
       /\ f \in DOMAIN S.types[T].fields
       /\ SubTypeRef(S, S.types[T].fields[f].type, S.types[I].fields[f].type)
       /\ \A a \in DOMAIN S.types[I].fields[f].args :
            a \in DOMAIN S.types[T].fields[f].args /\ S.types[T].fields[f].args[a].type = S.types[I].fields[f].args[a].type
       /\ \A a \in (DOMAIN S.types[T].fields[f].args) \ (DOMAIN S.types[I].fields[f].args) :
            ~(IsNonNull(S.types[T].fields[f].args[a].type) /\ S.types[T].fields[f].args[a].def = Absent)

SchemaOK(S) ==
  /\ TypeKind(S, S.query) = "OBJECT"
  /\ {S.order[i] : i \in DOMAIN S.order} = ObjectTypes(S) \ IntroTypeNames /\ Len(S.order) = Cardinality(ObjectTypes(S) \ IntroTypeNames)
  /\ IntroTypeNames \subseteq DOMAIN S.types
  /\ S.mutation = "" \/ TypeKind(S, S.mutation) = "OBJECT"
  /\ S.subscription = "" \/ TypeKind(S, S.subscription) = "OBJECT"
  /\ (DOMAIN S.types) \cap BuiltinScalars = {}
  /\ \A n \in DOMAIN S.types :
       LET td == S.types[n] IN
       /\ td.kind \in {"OBJECT", "INTERFACE", "UNION", "ENUM", "SCALAR", "INPUT"}
       /\ td.kind \in {"OBJECT", "INTERFACE", "INPUT"} => DOMAIN td.fields # {}
       /\ \A f \in DOMAIN td.fields :
            /\ TypeRefOK(S, td.fields[f].type)
            /\ IF td.kind = "INPUT" THEN IsInputType(S, td.fields[f].type.n)
               ELSE ~(TypeKind(S, td.fields[f].type.n) = "INPUT")
            /\ \A a \in DOMAIN td.fields[f].args :
                 TypeRefOK(S, td.fields[f].args[a].type) /\ IsInputType(S, td.fields[f].args[a].type.n)
       /\ \A i \in td.ifaces : ImplementsOK(S, n, i)
       /\ td.kind = "UNION" => td.members # {} /\ \A m \in td.members : TypeKind(S, m) = "OBJECT"
       /\ td.kind = "ENUM" => td.values # {} /\ td.values \cap {"true", "false", "null"} = {}
  /\ \A d \in DOMAIN S.directives :
       /\ d \notin DOMAIN BuiltinDirectives
       /\ S.directives[d].locs # {}
       /\ \A a \in DOMAIN S.directives[d].args :
            TypeRefOK(S, S.directives[d].args[a].type) /\ IsInputType(S, S.directives[d].args[a].type.n)
=============================================================================
