CONSTANTS
  Pools = "rich"
  Sim = TRUE
  MaxCost = 32
  MaxDefs = 4
  MaxNest = 3
  MaxSel = 5
  MaxArgs = 0
  MaxDirs = 0
  MaxVars = 0
SPECIFICATION GSpec
CONSTRAINT GenConstraint
CHECK_DEADLOCK FALSE
