----------------------------- MODULE GQLLiteral -----------------------------
(* Character-level model of GraphQL input-value literals and of the JSON     *)
(* spellings of the same values (property C15).                              *)
(*                                                                           *)
(* Every text is a sequence of Unicode code points (Seq(Nat)), never a TLA+  *)
(* string: StringValue / block string / IntValue / FloatValue source text,   *)
(* names, JSON spellings.  Denotes (operator Den) maps a value *expression*  *)
(* (literal syntax tree whose leaves carry their source text, variables with *)
(* their runtime state) to the GraphQL value it denotes, as a uniformly      *)
(* tagged record  [t, s, e, c, k]:                                           *)
(*    t = "x" not provided | "n" null | "s" string (s = code points)         *)
(*      | "num" (s = <<sign>> \o significant digits, e = decimal exponent)   *)
(*      | "e" enum (s = name) | "b" (s = <<0|1>>) | "l" (c = items)          *)
(*      | "o" (k = keys, c = values) | "err"                                 *)
(* Numeric equality is on the decimal value, not the spelling.               *)
(*                                                                           *)
(* References: GraphQL October 2021 sec. 2.9 (Input Values), 2.9.4 String    *)
(* Value incl. BlockStringValue(); September 2025 edition for the variable   *)
(* width escape \u{...} and surrogate pairs; sec. 6.4.1 CoerceArgumentValues *)
(* (variable without runtime value -> default, else "not provided"; inside   *)
(* an input object the field is omitted, inside a list it is null);          *)
(* RFC 8259 for JSON strings and numbers.                                    *)
EXTENDS Integers, Sequences, FiniteSets, TLC

\* ---------------------------------------------------------------- characters
QUOTE == 34
BSL == 92
TAB == 9
LF == 10
CR == 13
SP == 32
LBRACE == 123
RBRACE == 125
MINUS == 45
PLUS == 43
DOT == 46
ZERO == 48
LowerU == 117
QQQ == <<QUOTE, QUOTE, QUOTE>>

Min2(a, b) == IF a < b THEN a ELSE b
IsDigit(c) == c >= 48 /\ c <= 57
HexVal(c) == IF c >= 48 /\ c <= 57 THEN c - 48
             ELSE IF c >= 97 /\ c <= 102 THEN c - 87
             ELSE IF c >= 65 /\ c <= 70 THEN c - 55 ELSE 0 - 1
IsHex(c) == HexVal(c) >= 0
IsWS(c) == c = TAB \/ c = SP
\* SourceCharacter (October 2021): TAB, LF, CR, U+0020 and above
SourceChar(c) == c = TAB \/ c = LF \/ c = CR \/ c >= 32
IsHighSur(c) == c >= 55296 /\ c <= 56319
IsLowSur(c) == c >= 56320 /\ c <= 57343
IsSur(c) == c >= 55296 /\ c <= 57343

\* value of the single-character escapes  \" \\ \/ \b \f \n \r \t   (0-1 = not an escape character)
EscVal(d) == CASE d = 34 -> 34 [] d = 92 -> 92 [] d = 47 -> 47 [] d = 98 -> 8 [] d = 102 -> 12
               [] d = 110 -> 10 [] d = 114 -> 13 [] d = 116 -> 9 [] OTHER -> 0 - 1

Bad == [ok |-> FALSE, v |-> <<>>]

RECURSIVE HexNum(_, _, _, _)
\* value of the hex digits s[i..j]; saturates above 16^6 (TLC integers are 32 bit)
HexNum(s, i, j, acc) == IF i > j THEN acc
                        ELSE HexNum(s, i + 1, j, IF acc > 16777216 THEN acc ELSE acc * 16 + HexVal(s[i]))

\* ---------------------------------------------------------------- quoted strings (GraphQL StringValue / JSON string)
(* Scan(s, i, acc, json): semantic value of the StringCharacters s[i..]; ok = FALSE when the grammar     *)
(* rejects.  json = TRUE is the JSON string grammar (RFC 8259): no raw control characters, no \u{..}.     *)
(* The result is a sequence of UTF-16-style units for \uXXXX (surrogates combined afterwards).            *)
RECURSIVE Scan(_, _, _, _)
Scan(s, i, acc, json) ==
  IF i > Len(s) THEN [ok |-> TRUE, v |-> acc]
  ELSE LET c == s[i] IN
    IF c = QUOTE \/ c = LF \/ c = CR THEN Bad
    ELSE IF c # BSL THEN
      IF (json /\ c < 32) \/ ~SourceChar(c) \/ IsSur(c) THEN Bad ELSE Scan(s, i + 1, Append(acc, [u |-> c, esc |-> FALSE]), json)
    ELSE IF i = Len(s) THEN Bad
    ELSE LET d == s[i + 1] IN
      IF d = LowerU THEN
        IF i + 2 <= Len(s) /\ s[i + 2] = LBRACE THEN
          \* variable-width escape \u{X..}: at least one hex digit, a Unicode scalar value
          IF json \/ ~(\E j \in (i + 4)..Len(s) : s[j] = RBRACE) THEN Bad
          ELSE LET j == CHOOSE j \in (i + 4)..Len(s) : s[j] = RBRACE /\ \A m \in (i + 4)..(j - 1) : s[m] # RBRACE
                   n == HexNum(s, i + 3, j - 1, 0)
               IN IF (\A m \in (i + 3)..(j - 1) : IsHex(s[m])) /\ n <= 1114111 /\ ~IsSur(n)
                  THEN Scan(s, j + 1, Append(acc, [u |-> n, esc |-> FALSE]), json) ELSE Bad
        ELSE IF i + 5 <= Len(s) /\ \A m \in (i + 2)..(i + 5) : IsHex(s[m])
             THEN Scan(s, i + 6, Append(acc, [u |-> HexNum(s, i + 2, i + 5, 0), esc |-> TRUE]), json)
             ELSE Bad
      ELSE IF EscVal(d) >= 0 THEN Scan(s, i + 2, Append(acc, [u |-> EscVal(d), esc |-> FALSE]), json)
      ELSE Bad

(* an escaped surrogate pair (backslash-u D83D, backslash-u DE00) denotes one supplementary code point; *)
(* a lone surrogate is rejected                                                                         *)
RECURSIVE Combine(_, _, _)
Combine(us, i, acc) ==
  IF i > Len(us) THEN [ok |-> TRUE, v |-> acc]
  ELSE LET c == us[i].u IN
    IF IsHighSur(c) THEN
      IF i < Len(us) /\ IsLowSur(us[i + 1].u)
      THEN Combine(us, i + 2, Append(acc, 65536 + (c - 55296) * 1024 + (us[i + 1].u - 56320)))
      ELSE Bad
    ELSE IF IsLowSur(c) THEN Bad
    ELSE Combine(us, i + 1, Append(acc, c))

Quoted(s, json) == LET r == Scan(s, 1, <<>>, json) IN IF r.ok THEN Combine(r.v, 1, <<>>) ELSE Bad
OrdAccepts(s) == Quoted(s, FALSE).ok      \* "s" is a GraphQL StringValue
JsonAccepts(s) == Quoted(s, TRUE).ok      \* "s" is a JSON string
StrValue(s, json) == Quoted(s, json).v

\* ---------------------------------------------------------------- block strings
(* position of the first closing triple quote when scanning S from i (0 = none); \""" is the only escape *)
RECURSIVE BlockClose(_, _)
BlockClose(S, i) ==
  IF i + 2 > Len(S) THEN 0
  ELSE IF i + 3 <= Len(S) /\ S[i] = BSL /\ S[i + 1] = QUOTE /\ S[i + 2] = QUOTE /\ S[i + 3] = QUOTE THEN BlockClose(S, i + 4)
  ELSE IF S[i] = QUOTE /\ S[i + 1] = QUOTE /\ S[i + 2] = QUOTE THEN i
  ELSE BlockClose(S, i + 1)

\* """r""" is one block-string token whose raw content is exactly r
BlockAccepts(r) == (\A i \in 1..Len(r) : SourceChar(r[i]) /\ ~IsSur(r[i])) /\ BlockClose(r \o QQQ, 1) = Len(r) + 1

RECURSIVE Unescape3(_, _, _)
Unescape3(r, i, acc) ==
  IF i > Len(r) THEN acc
  ELSE IF i + 3 <= Len(r) /\ r[i] = BSL /\ r[i + 1] = QUOTE /\ r[i + 2] = QUOTE /\ r[i + 3] = QUOTE
       THEN Unescape3(r, i + 4, acc \o QQQ)
       ELSE Unescape3(r, i + 1, Append(acc, r[i]))

RECURSIVE SplitLines(_, _, _, _)
SplitLines(s, i, cur, acc) ==
  IF i > Len(s) THEN Append(acc, cur)
  ELSE IF s[i] = LF THEN SplitLines(s, i + 1, <<>>, Append(acc, cur))
  ELSE IF s[i] = CR THEN SplitLines(s, IF i < Len(s) /\ s[i + 1] = LF THEN i + 2 ELSE i + 1, <<>>, Append(acc, cur))
  ELSE SplitLines(s, i + 1, Append(cur, s[i]), acc)

LeadWS(line) == IF \E i \in 1..Len(line) : ~IsWS(line[i])
                THEN (CHOOSE i \in 1..Len(line) : ~IsWS(line[i]) /\ \A j \in 1..(i - 1) : IsWS(line[j])) - 1
                ELSE Len(line)
Blank(line) == LeadWS(line) = Len(line)

RECURSIVE JoinLines(_, _, _)
JoinLines(lines, i, j) == IF i > j THEN <<>> ELSE IF i = j THEN lines[i] ELSE lines[i] \o <<LF>> \o JoinLines(lines, i + 1, j)

\* BlockStringValue(rawValue), October 2021 sec. 2.9.4
BlockStringValue(raw) ==
  LET lines == SplitLines(raw, 1, <<>>, <<>>)
      cand == {LeadWS(lines[i]) : i \in {j \in 2..Len(lines) : ~Blank(lines[j])}}
      ci == IF cand = {} THEN 0 - 1 ELSE CHOOSE m \in cand : \A x \in cand : m <= x
      ded == [i \in 1..Len(lines) |->
                IF i = 1 \/ ci < 0 THEN lines[i]
                ELSE SubSeq(lines[i], Min2(ci, Len(lines[i])) + 1, Len(lines[i]))]
      nb == {i \in 1..Len(ded) : ~Blank(ded[i])}
  IN IF nb = {} THEN <<>>
     ELSE JoinLines(ded, CHOOSE i \in nb : \A x \in nb : i <= x, CHOOSE i \in nb : \A x \in nb : i >= x)

BlockValue(r) == BlockStringValue(Unescape3(r, 1, <<>>))

\* ---------------------------------------------------------------- numbers (IntValue / FloatValue / JSON number: the same grammar)
NumParts(t) ==
  LET n == Len(t)
      neg == n >= 1 /\ t[1] = MINUS
      i0 == IF neg THEN 2 ELSE 1
      DigitsEnd(i) == IF \E j \in i..n : ~IsDigit(t[j])
                      THEN CHOOSE j \in i..n : ~IsDigit(t[j]) /\ \A m \in i..(j - 1) : IsDigit(t[m])
                      ELSE n + 1
      ie == DigitsEnd(i0)
      hasFrac == ie <= n /\ t[ie] = DOT
      fe == IF hasFrac THEN DigitsEnd(ie + 1) ELSE ie
      hasExp == fe <= n /\ (t[fe] = 101 \/ t[fe] = 69)
      hasSign == hasExp /\ fe + 1 <= n /\ (t[fe + 1] = PLUS \/ t[fe + 1] = MINUS)
      es == IF hasSign THEN fe + 2 ELSE fe + 1
      ee == IF hasExp THEN DigitsEnd(es) ELSE fe
  IN [neg |-> neg, i0 |-> i0, ie |-> ie, hasFrac |-> hasFrac, fe |-> fe, hasExp |-> hasExp,
      eneg |-> hasSign /\ t[fe + 1] = MINUS, es |-> es, ee |-> ee,
      ok |-> /\ ie > i0
             /\ (t[i0] # ZERO \/ ie = i0 + 1)
             /\ (hasFrac => fe > ie + 1)
             /\ (hasExp => ee > es /\ ee - es <= 6)
             /\ ee = n + 1]
NumAccepts(t) == NumParts(t).ok
IsFloatSpelling(t) == NumParts(t).hasFrac \/ NumParts(t).hasExp

RECURSIVE DecNum(_, _, _, _)
DecNum(t, i, j, acc) == IF i > j THEN acc ELSE DecNum(t, i + 1, j, acc * 10 + (t[i] - 48))
RECURSIVE StripLead(_)
StripLead(d) == IF Len(d) > 0 /\ d[1] = 0 THEN StripLead(Tail(d)) ELSE d
RECURSIVE StripTrail(_, _)
StripTrail(d, e) == IF Len(d) > 0 /\ d[Len(d)] = 0 THEN StripTrail(SubSeq(d, 1, Len(d) - 1), e + 1) ELSE [d |-> d, e |-> e]

\* canonical decimal value  (-1)^neg * 0.d1d2.. is avoided: value = digits * 10^e, digits without leading/trailing zeros; zero = <<>>, e = 0, no sign
NumValue(t) ==
  LET p == NumParts(t)
      ds == [i \in 1..((p.ie - p.i0) + (IF p.hasFrac THEN p.fe - p.ie - 1 ELSE 0)) |->
               IF i <= p.ie - p.i0 THEN t[p.i0 + i - 1] - 48 ELSE t[p.ie + (i - (p.ie - p.i0))] - 48]
      ex == IF p.hasExp THEN (IF p.eneg THEN 0 - DecNum(t, p.es, p.ee - 1, 0) ELSE DecNum(t, p.es, p.ee - 1, 0)) ELSE 0
      e0 == ex - (IF p.hasFrac THEN p.fe - p.ie - 1 ELSE 0)
      st == StripTrail(StripLead(ds), e0)
  IN IF Len(st.d) = 0 THEN [neg |-> FALSE, d |-> <<>>, e |-> 0] ELSE [neg |-> p.neg, d |-> st.d, e |-> st.e]

\* ---------------------------------------------------------------- values
VX == [t |-> "x", s |-> <<>>, e |-> 0, c |-> <<>>, k |-> <<>>]
VNull == [t |-> "n", s |-> <<>>, e |-> 0, c |-> <<>>, k |-> <<>>]
VErr == [t |-> "err", s |-> <<>>, e |-> 0, c |-> <<>>, k |-> <<>>]
VStr(cp) == [t |-> "s", s |-> cp, e |-> 0, c |-> <<>>, k |-> <<>>]
VEnum(cp) == [t |-> "e", s |-> cp, e |-> 0, c |-> <<>>, k |-> <<>>]
VBool(b) == [t |-> "b", s |-> <<IF b THEN 1 ELSE 0>>, e |-> 0, c |-> <<>>, k |-> <<>>]
VNum(nv) == [t |-> "num", s |-> <<IF nv.neg THEN 1 ELSE 0>> \o nv.d, e |-> nv.e, c |-> <<>>, k |-> <<>>]
VList(items) == [t |-> "l", s |-> <<>>, e |-> 0, c |-> items, k |-> <<>>]
VObj(keys, vals) == [t |-> "o", s |-> <<>>, e |-> 0, c |-> vals, k |-> keys]

RECURSIVE Zeros(_)
Zeros(n) == IF n <= 0 THEN <<>> ELSE <<0>> \o Zeros(n - 1)
RECURSIVE NatDigits(_)
NatDigits(n) == IF n < 10 THEN <<n>> ELSE Append(NatDigits(n \div 10), n % 10)
AsChars(ds) == [i \in 1..Len(ds) |-> ds[i] + 48]

(* ID accepts a string or an integer and is serialised as a string: the integer n and the string of its  *)
(* decimal digits are the same ID.  Non-integral numbers are not IDs.                                    *)
IdOfNum(nv) == IF nv.e < 0 \/ nv.e > 40 THEN VErr
               ELSE IF Len(nv.d) = 0 THEN VStr(<<ZERO>>)
               ELSE VStr((IF nv.neg THEN <<MINUS>> ELSE <<>>) \o AsChars(nv.d \o Zeros(nv.e)))

\* ---------------------------------------------------------------- the schema of the harness (harness/cmd/args: types, inFields)
\* types with an argument default are separate type codes (A..): same GraphQL type, root field f_<code>(a: T = default)
Base(ty) == CASE ty = "AInt" -> "Int" [] ty = "AStr" -> "String" [] ty = "AE" -> "E" [] ty = "ALInt" -> "LInt"
              [] ty = "AInD" -> "InD" [] ty = "ALInD2" -> "LInD2" [] OTHER -> ty
ElemTy(t0) == LET ty == Base(t0) IN
              CASE ty = "LInt" -> "Int" [] ty = "LStr" -> "String" [] ty = "LE" -> "E" [] ty = "LIn" -> "In"
                [] ty = "LLInt" -> "LInt" [] ty = "LBig" -> "Big" [] ty = "Big" -> "Big"
                [] ty = "LInD" -> "InD" [] ty = "LInD2" -> "InD2" [] OTHER -> "?"
InFieldTy(key) == CASE key = <<105>> -> "Int" [] key = <<115>> -> "String" [] key = <<102>> -> "Float"
                    [] key = <<98>> -> "Boolean" [] key = <<101>> -> "E" [] key = <<100>> -> "ID" [] key = <<103>> -> "Big"
                    [] key = <<108>> -> "LInt" [] key = <<108, 115>> -> "LStr" [] key = <<111>> -> "In"
                    [] key = <<108, 111>> -> "LIn" [] OTHER -> "?"
(* InD  { i: Int = 7, s: String = "d\t\"q", e: E = B, f: Float = 1.5e1, l: [Int] = [1, 2], o: InD2 = {y: "z"},      *)
(*        lo: [InD2] = [{x: 1}, {}], n: Int }          InD2 { x: Int = 9, y: String }                             *)
(* M    is not a type: the pseudo object of the arguments of  f_M(a: Int, b: Int, c: ID, d: String, e: [Int], f: Float) *)
ObjKeyTy(ty) ==
  CASE ty = "InD" -> << <<<<105>>, "Int">>, <<<<115>>, "String">>, <<<<101>>, "E">>, <<<<102>>, "Float">>, <<<<108>>, "LInt">>,
                        <<<<111>>, "InD2">>, <<<<108, 111>>, "LInD2">>, <<<<110>>, "Int">> >>
    [] ty = "InD2" -> << <<<<120>>, "Int">>, <<<<121>>, "String">> >>
    [] ty = "M" -> << <<<<97>>, "Int">>, <<<<98>>, "Int">>, <<<<99>>, "ID">>, <<<<100>>, "String">>, <<<<101>>, "LInt">>,
                      <<<<102>>, "Float">> >>
    [] OTHER -> <<>>
FieldTy(t0, key) ==
  LET ty == Base(t0) IN
  IF ty = "Big" THEN "Big" ELSE IF ty = "In" THEN InFieldTy(key)
  ELSE LET kt == ObjKeyTy(ty) IN
       IF \E i \in 1..Len(kt) : kt[i][1] = key THEN kt[CHOOSE i \in 1..Len(kt) : kt[i][1] = key][2] ELSE "?"
TrueText == <<116, 114, 117, 101>>

\* ---------------------------------------------------------------- Denotes
(* Expressions:  [k, text, items, keys]  with k in str | bstr | num | enum | bool | null | var | list | obj | omit.   *)
(* Variables:    [name, ty, st, j, hasd, d]  st in absent | null | val;  j = JSON-mode expression (strings are JSON  *)
(* string spellings, enums are strings), d = default value literal.                                                *)
RECURSIVE KeepProvided(_, _, _, _, _)
KeepProvided(keys, vals, i, ak, av) ==
  IF i > Len(keys) THEN VObj(ak, av)
  ELSE IF vals[i].t = "x" THEN KeepProvided(keys, vals, i + 1, ak, av)
  ELSE KeepProvided(keys, vals, i + 1, Append(ak, keys[i]), Append(av, vals[i]))

RECURSIVE Den(_, _, _, _)
Den(e, ty, vars, json) ==
  CASE e.k = "omit" -> VX
    [] e.k = "null" -> VNull
    [] e.k = "str" -> LET q == Quoted(e.text, json) IN
                      IF ~q.ok THEN VErr ELSE IF json /\ Base(ty) = "E" THEN VEnum(q.v) ELSE VStr(q.v)
    [] e.k = "bstr" -> IF BlockAccepts(e.text) THEN VStr(BlockValue(e.text)) ELSE VErr
    [] e.k = "num" -> IF ~NumAccepts(e.text) THEN VErr
                      ELSE IF ty = "ID" THEN IdOfNum(NumValue(e.text)) ELSE VNum(NumValue(e.text))
    [] e.k = "enum" -> VEnum(e.text)
    [] e.k = "bool" -> VBool(e.text = TrueText)
    [] e.k = "var" ->
         IF ~(\E i \in 1..Len(vars) : vars[i].name = e.text) THEN VErr
         ELSE LET v == vars[CHOOSE i \in 1..Len(vars) : vars[i].name = e.text] IN
              CASE v.st = "val" -> Den(v.j, ty, <<>>, TRUE)
                [] v.st = "null" -> VNull
                [] OTHER -> IF v.hasd THEN Den(v.d, ty, <<>>, FALSE) ELSE VX
    [] e.k = "list" ->
         VList([i \in 1..Len(e.items) |->
                  LET x == Den(e.items[i], ElemTy(ty), vars, json) IN IF x.t = "x" THEN VNull ELSE x])
    [] e.k = "obj" ->
         KeepProvided(e.keys, [i \in 1..Len(e.items) |-> Den(e.items[i], FieldTy(ty, e.keys[i]), vars, json)], 1, <<>>, <<>>)
    [] OTHER -> VErr

Denotes(c) == Den(c.expr, c.ty, c.vars, FALSE)

RECURSIVE HasErr(_)
HasErr(v) == v.t = "err" \/ \E i \in 1..Len(v.c) : HasErr(v.c[i])

\* ---------------------------------------------------------------- values observed on the implementation side
(* The harness reports  [t, s, c, k]  with numbers as raw JSON/GraphQL spellings (t = "numraw"); Canon gives *)
(* them the meaning defined above (type directed, like Den).                                                *)
RECURSIVE Canon(_, _)
Canon(v, ty) ==
  CASE v.t = "numraw" -> IF ~NumAccepts(v.s) THEN VErr
                         ELSE IF ty = "ID" THEN IdOfNum(NumValue(v.s)) ELSE VNum(NumValue(v.s))
    [] v.t = "l" -> VList([i \in 1..Len(v.c) |-> Canon(v.c[i], ElemTy(ty))])
    [] v.t = "o" -> VObj(v.k, [i \in 1..Len(v.c) |-> Canon(v.c[i], FieldTy(ty, v.k[i]))])
    [] v.t \in {"x", "n", "s", "e", "b"} -> [t |-> v.t, s |-> v.s, e |-> 0, c |-> <<>>, k |-> <<>>]
    [] OTHER -> VErr

(* equality of GraphQL values: lists are ordered, input objects are unordered maps without duplicate keys *)
RECURSIVE VEq(_, _)
VEq(a, b) ==
  /\ a.t = b.t
  /\ a.t # "err"
  /\ CASE a.t = "l" -> Len(a.c) = Len(b.c) /\ \A i \in 1..Len(a.c) : VEq(a.c[i], b.c[i])
       [] a.t = "o" -> /\ Len(a.k) = Len(b.k)
                       /\ \A i, j \in 1..Len(a.k) : i # j => a.k[i] # a.k[j]
                       /\ \A i, j \in 1..Len(b.k) : i # j => b.k[i] # b.k[j]
                       /\ \A i \in 1..Len(a.k) : \E j \in 1..Len(b.k) : a.k[i] = b.k[j] /\ VEq(a.c[i], b.c[j])
       [] OTHER -> a.s = b.s /\ a.e = b.e

\* ---------------------------------------------------------------- the same value as a JSON variable ("twin")
RECURSIVE JsonSpell(_, _, _)
JsonSpell(cp, i, acc) ==
  IF i > Len(cp) THEN acc
  ELSE LET c == cp[i] IN
    JsonSpell(cp, i + 1,
      acc \o (CASE c = QUOTE -> <<BSL, QUOTE>> [] c = BSL -> <<BSL, BSL>> [] c = LF -> <<BSL, 110>> [] c = CR -> <<BSL, 114>>
                [] c = TAB -> <<BSL, 116>> [] c = 8 -> <<BSL, 98>> [] c = 12 -> <<BSL, 102>>
                [] c < 32 /\ c \notin {8, 9, 10, 12, 13} ->
                     <<BSL, LowerU, ZERO, ZERO, (IF c >= 16 THEN 49 ELSE 48),
                       (LET h == c % 16 IN IF h < 10 THEN 48 + h ELSE 87 + h)>>
                [] OTHER -> <<c>>))

NumSpell(v) ==   \* v.t = "num": a JSON number with that value (not the literal's own spelling)
  LET neg == v.s[1] = 1
      d == Tail(v.s)
      sign == IF neg THEN <<MINUS>> ELSE <<>>
  IN IF Len(d) = 0 THEN <<ZERO>>
     ELSE IF v.e >= 0 /\ v.e <= 25 THEN sign \o AsChars(d \o Zeros(v.e))
     ELSE sign \o AsChars(d) \o <<101>> \o (IF v.e < 0 THEN <<MINUS>> ELSE <<>>) \o AsChars(NatDigits(IF v.e < 0 THEN 0 - v.e ELSE v.e))

Leaf(kind, text) == [k |-> kind, text |-> text, items |-> <<>>, keys |-> <<>>]
Omit == Leaf("omit", <<>>)
RECURSIVE ToJExpr(_)
ToJExpr(v) ==
  CASE v.t = "n" -> Leaf("null", <<110, 117, 108, 108>>)
    [] v.t = "s" -> Leaf("str", JsonSpell(v.s, 1, <<>>))
    [] v.t = "e" -> Leaf("str", v.s)
    [] v.t = "b" -> Leaf("bool", IF v.s = <<1>> THEN TrueText ELSE <<102, 97, 108, 115, 101>>)
    [] v.t = "num" -> Leaf("num", NumSpell(v))
    [] v.t = "l" -> [k |-> "list", text |-> <<>>, items |-> [i \in 1..Len(v.c) |-> ToJExpr(v.c[i])], keys |-> <<>>]
    [] v.t = "o" -> [k |-> "obj", text |-> <<>>, items |-> [i \in 1..Len(v.c) |-> ToJExpr(v.c[i])], keys |-> v.k]
    [] OTHER -> Omit
Twin(c) == LET d == Denotes(c) IN IF d.t = "x" \/ HasErr(d) THEN Omit ELSE ToJExpr(d)

\* ---------------------------------------------------------------- schema defaults and input coercion (sec. 3.10, 6.4.1)
ListE(items) == [k |-> "list", text |-> <<>>, items |-> items, keys |-> <<>>]
ObjE(keys, items) == [k |-> "obj", text |-> <<>>, items |-> items, keys |-> keys]
Num(text) == Leaf("num", text)
\* "d\t\"q"  (escapes in a schema default)
DefStr == Leaf("str", <<100, 92, 116, 92, 34, 113>>)
FieldDefault(ty, key) ==
  CASE ty = "InD" /\ key = <<105>> -> Num(<<55>>)
    [] ty = "InD" /\ key = <<115>> -> DefStr
    [] ty = "InD" /\ key = <<101>> -> Leaf("enum", <<66>>)
    [] ty = "InD" /\ key = <<102>> -> Num(<<49, 46, 53, 101, 49>>)
    [] ty = "InD" /\ key = <<108>> -> ListE(<<Num(<<49>>), Num(<<50>>)>>)
    [] ty = "InD" /\ key = <<111>> -> ObjE(<< <<121>> >>, <<Leaf("str", <<122>>)>>)
    [] ty = "InD" /\ key = <<108, 111>> -> ListE(<<ObjE(<< <<120>> >>, <<Num(<<49>>)>>), ObjE(<<>>, <<>>)>>)
    [] ty = "InD2" /\ key = <<120>> -> Num(<<57>>)
    [] OTHER -> Omit
\* f_AInt(a: Int = 7)  f_AStr(a: String = "d\t\"q")  f_AE(a: E = B)  f_ALInt(a: [Int] = [1, null])
\* f_AInD(a: InD = {s: "given"})  f_ALInD2(a: [InD2] = [{}, {x: 2}])
ArgDefault(ty) ==
  CASE ty = "AInt" -> Num(<<55>>) [] ty = "AStr" -> DefStr [] ty = "AE" -> Leaf("enum", <<66>>)
    [] ty = "ALInt" -> ListE(<<Num(<<49>>), Leaf("null", <<110, 117, 108, 108>>)>>)
    [] ty = "AInD" -> ObjE(<< <<115>> >>, <<Leaf("str", <<103, 105, 118, 101, 110>>)>>)
    [] ty = "ALInD2" -> ListE(<<ObjE(<<>>, <<>>), ObjE(<< <<120>> >>, <<Num(<<50>>)>>)>>)
    [] OTHER -> Omit
HasDefaults(ty) == ty \in {"InD", "InD2"}

(* Coerce(v, ty): the value the service computes from a provided / not provided value: a not provided argument takes  *)
(* the argument default, a not provided input field its field default (recursively coerced), an explicit null stays *)
(* null.  Identity on types without defaults.                                                                       *)
RECURSIVE Coerce(_, _)
RECURSIVE CoerceObj(_, _, _, _, _, _)
CoerceObj(v, ty, kt, i, ak, av) ==
  IF i > Len(kt) THEN VObj(ak, av)
  ELSE LET key == kt[i][1]
           fty == kt[i][2]
       IN IF \E j \in 1..Len(v.k) : v.k[j] = key
          THEN CoerceObj(v, ty, kt, i + 1, Append(ak, key), Append(av, Coerce(v.c[CHOOSE j \in 1..Len(v.k) : v.k[j] = key], fty)))
          ELSE IF FieldDefault(ty, key).k # "omit"
          THEN CoerceObj(v, ty, kt, i + 1, Append(ak, key), Append(av, Coerce(Den(FieldDefault(ty, key), fty, <<>>, FALSE), fty)))
          ELSE CoerceObj(v, ty, kt, i + 1, ak, av)
Coerce(v, t0) ==
  LET ty == Base(t0) IN
  CASE v.t = "x" -> IF ArgDefault(t0).k # "omit" THEN Coerce(Den(ArgDefault(t0), ty, <<>>, FALSE), ty) ELSE v
    [] v.t = "l" -> VList([i \in 1..Len(v.c) |-> Coerce(v.c[i], ElemTy(ty))])
    [] v.t = "o" /\ HasDefaults(ty) ->
         IF (\E i, j \in 1..Len(v.k) : i # j /\ v.k[i] = v.k[j]) \/ (\E i \in 1..Len(v.k) : FieldTy(ty, v.k[i]) = "?")
         THEN VErr ELSE CoerceObj(v, ty, ObjKeyTy(ty), 1, <<>>, <<>>)
    [] v.t = "o" -> VObj(v.k, [i \in 1..Len(v.c) |-> Coerce(v.c[i], FieldTy(ty, v.k[i]))])
    [] OTHER -> v

\* ---------------------------------------------------------------- well-formed cases (what the generators may emit)
RECURSIVE ExprOK(_, _)
ExprOK(e, json) ==
  CASE e.k = "str" -> Quoted(e.text, json).ok
    [] e.k = "bstr" -> ~json /\ BlockAccepts(e.text)
    [] e.k = "num" -> NumAccepts(e.text)
    [] e.k \in {"list", "obj"} -> \A i \in 1..Len(e.items) : ExprOK(e.items[i], json)
    [] OTHER -> TRUE
CaseOK(c) == /\ ExprOK(c.expr, FALSE)
             /\ ExprOK(c.tw, TRUE)
             /\ \A i \in 1..Len(c.vars) : ExprOK(c.vars[i].j, TRUE) /\ ExprOK(c.vars[i].d, FALSE)
=============================================================================
