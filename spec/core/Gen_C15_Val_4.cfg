CONSTANTS
  MaxTok = 4
  MaxDepth = 2
  TopTys = {"Int", "Float", "String", "Boolean", "ID", "E", "Big", "NStr", "LInt", "LStr", "LE", "LIn", "LLInt", "LBig", "In"}
SPECIFICATION GenSpec
CONSTRAINT GenConstraint
INVARIANTS CasesWellFormed TwinDenotesSame NotProvidedOnlyAtTop
CHECK_DEADLOCK FALSE
