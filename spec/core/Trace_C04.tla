----------------------------- MODULE Trace_C04 -----------------------------
(* Validation pass of C04.  Every line of the NDJSON file IOEnv.TRACE is one *)
(* observation recorded from the real admission sequence (harness/cmd/       *)
(* validate): {id, schema, doc, accept}.  The relation the property states   *)
(*      accept  <=>  SpecValid(S, Reachable(doc))                            *)
(* is evaluated by TLC for every line.  One observation is consumed per      *)
(* step; a non-conforming observation is printed (so that all of them are    *)
(* reported in one pass) and counted; the POSTCONDITION demands that every   *)
(* line was consumed (high-water mark) and none was non-conforming.          *)
EXTENDS GQLDiag, Json, TLCExt, IOUtils
TraceLog == ndJsonDeserialize(IOEnv.TRACE)
VARIABLE l

Expected(o) == SpecValid(SchemaById(o.schema), Reachable(o.doc))
Conforms(o) == o.accept <=> Expected(o)

\* Naming of an accepted-but-invalid observation for known-findings keys (GQLDiag; not part of the verdict).  o.ndoc is the
\* operation the validator saw (printed by the library after Normalize, re-read by gqlparser).
\*  - ndoc still invalid: the validator missed the reasons that are present in ndoc     -> ValidatorMisses/<rule>/<reason>
\*  - ndoc valid: normalization removed the invalid part before validation; if removing the statically skipped selections
\*    (GQLDiag!PruneStatic) already makes it valid                                      -> StaticSkipInclude/<rule>
\*    otherwise (merged fields, inlined fragment definitions, ...)                      -> NormalizationHides/<rule>/<reason>
WhyInvalid(S, o, full, failedFull) ==
  LET seen == Reachable(o.ndoc)
      failedSeen == IF Len(seen.ops) > 0 /\ seen.ops[1].op # "unparseable" THEN FailedRules(S, seen) ELSE {}
      pruned == Reachable(PruneStatic(full, o.vars))
      failedPruned == FailedRules(S, pruned)
  IN IF Len(seen.ops) > 0 /\ seen.ops[1].op = "unparseable" THEN {"UnparseableNormalizedOperation"}
     ELSE IF failedSeen = {} /\ HasGarbageStatic(S, full, o.vars) THEN {"StaticSkipIncludeNonBooleanDefault/" \o r : r \in failedFull}
     ELSE IF failedSeen # {} THEN {"ValidatorMisses/" \o t : t \in TokensOf(S, seen, failedSeen)}
     ELSE IF failedPruned = {} /\ Executable(S, pruned) THEN {"StaticSkipInclude/" \o r : r \in failedFull}
     ELSE {"NormalizationHides/" \o t : t \in TokensOf(S, pruned, failedPruned)}

TraceInit == l = 1 /\ TLCSet(1, 0) /\ TLCSet(2, 0)
TraceNext == l <= Len(TraceLog) /\ l' = l + 1
TraceSpec == TraceInit /\ [][TraceNext]_l

\* evaluated once per state (CONSTRAINT): judge observation l
Judge ==
  IF l > Len(TraceLog) THEN TRUE
  ELSE LET o == TraceLog[l]
           S == SchemaById(o.schema)
           full == Reachable(o.doc)
           failed == FailedRules(S, full)
           expected == Executable(S, full) /\ failed = {}
       IN /\ TLCSet(1, IF l > TLCGet(1) THEN l ELSE TLCGet(1))
          \* a panic is a violation of its own (reported by the driver); here it only gets its name
          /\ o.panicked => PrintT(ToJson([panicked |-> o.id, tokens |-> TokensOf(S, full, failed)]))
          /\ PrintT(ToJson([judged |-> o.id, e |-> expected, f |-> failed]))
          /\ IF o.accept <=> expected THEN TRUE
             ELSE /\ PrintT(ToJson([nonconforming |-> o.id, accept |-> o.accept, expected |-> expected, failed |-> failed,
                                     tokens |-> IF o.accept THEN WhyInvalid(S, o, full, failed) ELSE LocationDefaultFeatures(S, full)]))
                  /\ TLCSet(2, TLCGet(2) + 1)

\* the same relation as a plain invariant (used by the replay mode and the binding demonstration)
ConformsInv == l <= Len(TraceLog) => Conforms(TraceLog[l])

AllConsumedAndConforming ==
  IF TLCGet(1) = Len(TraceLog) /\ TLCGet(2) = 0 THEN TRUE
  ELSE /\ PrintT(<<"TRACE_RESULT", TLCGet(1), Len(TraceLog), TLCGet(2)>>)
       /\ FALSE
=============================================================================
