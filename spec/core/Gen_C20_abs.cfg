CONSTANTS
  MaxBuild = 4
  MaxReform = 1
  MaxDepth = 3
  MaxRoots = 1
  RootFilter = {"testContainers"}
  FieldFilter = {"details", "pet", "status", "__typename", "id", "name", "kind", "meowVolume", "message"}
  MaxReval = 0
  Mut = "none"
SPECIFICATION GenSpec

CHECK_DEADLOCK FALSE
