SPECIFICATION TraceSpec
CONSTRAINT HighWater
INVARIANT HarnessOK
POSTCONDITION TraceAccepted
CHECK_DEADLOCK FALSE
