--------------------------- MODULE WSServerCommon ---------------------------
(***************************************************************************)
(* WebSocket subscription server (execution/subscription): the part of the *)
(* protocol ACCEPTORS that graphql-transport-ws and graphql-ws share.       *)
(*                                                                         *)
(* An acceptor is a deterministic monitor  m' = Step(m, e)  over the        *)
(* interleaved log of                                                       *)
(*   in(sym)      a client message was handed to the server                 *)
(*   rd           the server asks for the next client message (= it has     *)
(*                finished reacting to the previous one)                    *)
(*   out(t,id)    the server wrote a protocol message                        *)
(*   close(code)  the server closed the connection with a close frame       *)
(*   exec(id,k)   the engine started an execution of operation id           *)
(*                (incarnation k = index of the subscribe message)          *)
(*   eng(id,k,w)  the executor produced w \in {data,result,fin,error}       *)
(*   engdone(id,k) the engine finished dealing with that (it executes the   *)
(*                operation again / returned the executor to the pool)      *)
(*   eof, exit, wedge, panic, done                                          *)
(* The state is a record: connection opened|acked|closed(code), per          *)
(* operation id none|active|terminal, the reply the last client message      *)
(* obliges the server to give before it reads on (pend) and the replies it   *)
(* merely allows (popt), the outputs an engine event obliges (owe).          *)
(* A rejected event sets m.bad (sticky) and m.cls = the property it breaks:  *)
(*   OutputAllowed  NoStartBeforeInit  OneTerminal  NothingAfterTerminal     *)
(*   NeverWedged    CloseCode (part of OutputAllowed: prescribed 44xx)       *)
(***************************************************************************)
EXTENDS Integers, Sequences, FiniteSets, TLC

OpIds == {"1", "2", "P", ""}          \* "" = subscribe without an id (if the server starts it at all)

NoOp == [st |-> "none", stop |-> FALSE, cause |-> "", inc |-> 0, kind |-> "", owe |-> <<>>, optn |-> {}]

InitMon(p) ==
  [proto |-> p,
   conn  |-> "opened",                \* opened | acked | closed
   cc    |-> -1,                      \* close code (-1 none, -2 client went away)
   hs    |-> "start",                 \* start | reading | busy | exited   (the connection handler)
   pend  |-> "none",                  \* none | ack | pong | close : mandatory reply to the message being handled
   pcodes |-> {},                     \* pend = close: the prescribed code(s)
   popt  |-> {},                      \* optional replies to the message being handled, [t, id]
   op    |-> [i \in OpIds |-> NoOp],
   last  |-> "none",                  \* last environment event (for the finding key)
   ctx   |-> "",                      \* state of the operation that event refers to (for the finding key)
   rerr  |-> "off",                   \* off | armed | disarming : a transport read error was reported and the server's
                                      \* read-error time-out may still fire (it is disarmed by the next good read, but a
                                      \* time-out that fires at that very moment ends the handler after that message)
   broken |-> FALSE,                  \* the transport is broken for good: every read fails from now on
   wif   |-> FALSE,                   \* the transport has taken a message but the write call has not returned ("hold")
   bad   |-> "",
   cls   |-> "",
   det   |-> ""]

Reject(m, cls, why, det) == [m EXCEPT !.bad = why, !.cls = cls, !.det = det]

Opt(t, id) == [t |-> t, id |-> id]
Owe(t, n)  == [t |-> t, n |-> n]

St(m, id) == IF id \in OpIds THEN m.op[id].st ELSE "none"
\* how the client sees the operation an input refers to
Ctx(m, id) == IF id \in OpIds
              THEN m.op[id].st \o "/" \o m.op[id].cause \o (IF m.op[id].stop THEN "/stopped" ELSE "") \o "/" \o m.op[id].kind
                   \o (IF m.wif THEN "/write-in-flight" ELSE "")
              ELSE "none//"

\* "sub1dq" / "sub2ds": the SAME document `query Q {..} subscription S {..}`, selected by operationName Q (id 1) / S (id 2)
SubSyms  == {"sub1q", "sub1s", "sub2q", "sub2s", "subPq", "missingid", "sub1dq", "sub2ds"}
\* "subbad" = subscribe/start for id "1" whose payload cannot be deserialized (missing, string, array, number, null,
\* non-string query); "initrej" = connection_init with a payload the InitFunc refuses; "readerr" = the transport
\* reports a read error instead of a message
CompSyms == {"comp1", "comp2", "comp9"}
SubId(sym)  == CASE sym \in {"sub1q", "sub1s", "sub1dq"} -> "1" [] sym \in {"sub2q", "sub2s", "sub2ds"} -> "2" [] sym = "subPq" -> "P" [] OTHER -> ""
SubKind(sym) == IF sym \in {"sub1s", "sub2s", "sub2ds"} THEN "s" ELSE "q"
CompId(sym) == CASE sym = "comp1" -> "1" [] sym = "comp2" -> "2" [] OTHER -> "9"

\* every client message / read error: the handler is busy with it; a good message disarms the read-error time-out
Busy(m0, sym, ctx) ==
  [m0 EXCEPT !.hs = "busy", !.popt = {}, !.last = "in." \o sym, !.ctx = ctx,
             !.rerr = IF sym = "readerr" THEN "armed" ELSE IF m0.rerr = "armed" THEN "disarming" ELSE m0.rerr]
InCtx(m0, sym) == IF sym \in SubSyms THEN Ctx(m0, SubId(sym))
                  ELSE IF sym \in CompSyms THEN Ctx(m0, CompId(sym))
                  ELSE IF sym = "subbad" THEN Ctx(m0, "1") ELSE ""

\* a subscribe/start that the protocol lets through: a new incarnation of the operation
Activate(m, id, kind, k) ==
  [m EXCEPT !.op[id] = [st |-> "active", stop |-> FALSE, cause |-> "", inc |-> k, kind |-> kind, owe |-> <<>>, optn |-> {}]]

\* client complete/stop
ClientStop(m, id) ==
  CASE St(m, id) = "active" -> [m EXCEPT !.op[id].stop = TRUE]
    [] St(m, id) = "none"   -> [m EXCEPT !.popt = m.popt \cup {Opt("complete", id)}]   \* echo for an id that never ran: tolerated
    [] OTHER                -> m                                           \* terminal: nothing may be sent for it

\* the handler may (must, see "wedge") give up a transport that keeps failing: after persistent read errors, or when
\* the read-error time-out that a single read error armed fires before the next good read disarmed it
GaveUp(m) == m.broken \/ m.rerr # "off"

\* ---- per-operation outputs: data (next / data), error, complete -------------------------------
OutData(m, e) ==
  LET id == e.id IN
  CASE id = ""               -> Reject(m, "OutputAllowed", "message-without-id", e.a)
    [] St(m, id) = "none"    -> Reject(m, "OutputAllowed", "unknown-id", e.a)
    \* the payload belongs to an operation that was started later than the one this id stands for: one operation's
    \* data went out under another operation's id
    [] id \in OpIds /\ e.k > m.op[id].inc -> Reject(m, "NothingAfterTerminal", "data-of-another-operation", m.op[id].st)
    [] St(m, id) = "terminal" -> Reject(m, "NothingAfterTerminal", "after-terminal", m.op[id].cause)
    [] OTHER ->
       LET o == m.op[id] IN
       IF e.k # o.inc THEN Reject(m, "NothingAfterTerminal", "stale-incarnation", e.a)
       ELSE IF o.owe # <<>> /\ Head(o.owe) = Owe("next", e.n)
            THEN [m EXCEPT !.op[id].owe = Tail(o.owe)]
       ELSE IF e.n \in o.optn THEN [m EXCEPT !.op[id].optn = o.optn \ {e.n}]
            ELSE Reject(m, "OutputAllowed", "unsolicited-data", e.a)

\* (graphql-ws refuses a start for an active id with error(id): on the wire that reply looks like the
\* operation's own error.  The owed error is matched first, the optional reply second; a log in which the
\* refusal and the operation's own error are in flight at the same time is inherently ambiguous - the
\* sequential harness never produces one and MC_WSServer excludes that overlap.)
OutError(m, e) ==
  LET id == e.id
      owed == id \in OpIds /\ id # "" /\ m.op[id].st = "active" /\ m.op[id].owe # <<>> /\ Head(m.op[id].owe).t = "error"
  IN
  CASE owed -> [m EXCEPT !.op[id].st = "terminal", !.op[id].cause = "error", !.op[id].owe = <<>>]
    [] Opt("error", id) \in m.popt -> [m EXCEPT !.popt = m.popt \ {Opt("error", id)}]
    [] id = ""               -> Reject(m, "OutputAllowed", "message-without-id", e.a)
    [] St(m, id) = "none"    -> Reject(m, "OutputAllowed", "unknown-id", e.a)
    [] St(m, id) = "terminal" -> Reject(m, "OneTerminal", "after-terminal", m.op[id].cause)
    [] OTHER -> Reject(m, "OutputAllowed", "unsolicited-error", e.a)

OutComplete(m, e) ==
  LET id == e.id IN
  CASE Opt("complete", id) \in m.popt -> [m EXCEPT !.popt = m.popt \ {Opt("complete", id)}]
    [] id = ""               -> Reject(m, "OutputAllowed", "message-without-id", e.a)
    [] St(m, id) = "none"    -> Reject(m, "OutputAllowed", "unknown-id", e.a)
    [] St(m, id) = "terminal" -> Reject(m, "OneTerminal", "after-terminal", m.op[id].cause)
    [] OTHER ->
       LET o == m.op[id] IN
       IF o.owe # <<>> /\ Head(o.owe).t = "complete"
       THEN [m EXCEPT !.op[id].st = "terminal", !.op[id].cause = "complete", !.op[id].owe = <<>>]
       ELSE IF o.stop
            THEN [m EXCEPT !.op[id].st = "terminal", !.op[id].cause = "echo", !.op[id].owe = <<>>]
            ELSE Reject(m, "OutputAllowed", "unsolicited-complete", e.a)

\* ---- connection level ------------------------------------------------------------------------
OutAck(m, e) ==
  IF m.pend = "ack" THEN [m EXCEPT !.conn = "acked", !.pend = "none"]
  ELSE IF Opt("ack", "") \in m.popt THEN [m EXCEPT !.popt = m.popt \ {Opt("ack", "")}]
  ELSE Reject(m, "OutputAllowed", "unsolicited-ack", e.a)

\* The init timeout (4408) runs on its own timer: it may fire at any moment while the connection was never
\* acknowledged, also while the handler is busy with a message (whatever that message obliged is moot then).
Close(m, e) ==
  IF e.code = 0 /\ GaveUp(m) THEN [m EXCEPT !.conn = "closed", !.cc = 0, !.pend = "none"]   \* gave up: socket closed without a frame
  ELSE IF e.code = 4408 /\ m.proto = "tws" /\ m.conn = "opened"       \* also while a (slow) init is being handled
       THEN [m EXCEPT !.conn = "closed", !.cc = e.code, !.pend = "none"]
  ELSE IF m.pend = "close" /\ e.code \in m.pcodes THEN [m EXCEPT !.conn = "closed", !.cc = e.code, !.pend = "none"]
  ELSE IF m.pend = "close" THEN Reject(m, "CloseCode", "wrong-close-code", ToString(e.code))
  ELSE IF Opt("close" \o ToString(e.code), "") \in m.popt THEN [m EXCEPT !.conn = "closed", !.cc = e.code]
  ELSE Reject(m, "CloseCode", "close-not-allowed", ToString(e.code))

Rd(m) ==
  CASE m.hs \notin {"busy", "start"} -> Reject(m, "Harness", "rd-while-not-busy", m.hs)
    [] m.conn = "closed"  -> [m EXCEPT !.hs = "reading", !.popt = {}, !.rerr = IF m.rerr = "disarming" THEN "off" ELSE m.rerr]
    [] m.pend = "close"   -> Reject(m, "CloseCode", "missing-close", m.last)
    [] m.pend # "none"    -> Reject(m, "NeverWedged", "unanswered", m.pend)
    [] OTHER              -> [m EXCEPT !.hs = "reading", !.popt = {}, !.rerr = IF m.rerr = "disarming" THEN "off" ELSE m.rerr]

Exit(m) ==
  IF m.conn = "closed" \/ GaveUp(m) THEN [m EXCEPT !.hs = "exited"]
  ELSE Reject(m, "NeverWedged", "handler-exited-on-open-connection", m.last)

Eof(m) ==
  IF m.hs # "reading" THEN Reject(m, "Harness", "eof-while-not-reading", m.hs)
  ELSE IF m.conn = "closed" THEN m ELSE [m EXCEPT !.conn = "closed", !.cc = -2]

\* ---- engine ----------------------------------------------------------------------------------
\* an execution that belongs to no accepted subscribe: the operation was started although the
\* protocol did not allow it (graphql-transport-ws: before a successful connection_init)
Exec(m, e) ==
  IF e.id \notin OpIds THEN Reject(m, "Harness", "exec-of-unknown-op", e.id)
  ELSE IF m.op[e.id].st = "none" \/ m.op[e.id].inc < e.k
       THEN Reject(m, "NoStartBeforeInit", "operation-started-without-accepted-subscribe", m.conn)
       \* the operation the client selected (by operationName) is the one that runs: a subscription is executed as a
       \* subscription, a query as a query (e.a = the type the server's executor reports)
       ELSE IF m.op[e.id].inc = e.k /\ e.a \in {"q", "s"} /\ e.a # m.op[e.id].kind
       THEN Reject(m, "OneTerminal", "operation-executed-as-wrong-type", e.a)
       ELSE m

Live(m, id, k) == id \in OpIds /\ m.op[id].st = "active" /\ m.op[id].inc = k /\ m.conn # "closed" /\ m.hs # "exited"

Eng(m, e) ==
  LET m1 == [m EXCEPT !.last = "eng." \o e.a, !.ctx = IF e.id = "" THEN "op=<none>"
                                                     ELSE IF e.id \in OpIds /\ m.op[e.id].inc # e.k THEN "op=stale" ELSE "op=id"] IN
  IF ~Live(m, e.id, e.k) THEN m1
  ELSE IF e.code = 1 /\ ~m.op[e.id].stop /\ ~GaveUp(m)
       \* the operation's context is cancelled although neither the client stopped it nor the connection ended
       \* (nor is the server giving up a failing transport - its read-error time-out cancels everything before the
       \* handler, blocked in a read, gets to exit): the server has silently given up an operation that never got
       \* its terminal message
       THEN Reject(m1, "OneTerminal", "operation-cancelled-without-terminal", e.a)
  ELSE [m1 EXCEPT !.op[e.id].owe =
          CASE e.a = "data"   -> <<Owe("next", e.n)>>
            [] e.a = "result" -> <<Owe("next", e.n), Owe("complete", 0)>>
            [] e.a = "error"  -> <<Owe("error", 0)>>
            [] OTHER          -> <<>>,
          \* "qflush": a query flushes a chunk before its result (incremental delivery). The engine has no channel for it:
          \* the chunk may be sent as a data message of THIS query or dropped - never under another id.
          !.op[e.id].optn = IF e.a = "qflush" THEN m.op[e.id].optn \cup {e.n} ELSE m.op[e.id].optn]

\* the engine has finished dealing with the event: what the event owed must have been sent, unless
\* the client stopped the operation meanwhile (then the server may drop it)
EngDone(m, e) ==
  IF Live(m, e.id, e.k) /\ m.op[e.id].owe # <<>>
  THEN IF m.op[e.id].stop THEN [m EXCEPT !.op[e.id].owe = <<>>]
       ELSE Reject(m, "OneTerminal", "missing-output", Head(m.op[e.id].owe).t)
  ELSE m

\* ---- the named properties (as predicates on the monitor state) ------------------------------------
OutputAllowedP(m)        == m.cls \notin {"OutputAllowed", "CloseCode"}
NoStartBeforeInitP(m)    == m.cls # "NoStartBeforeInit"
OneTerminalP(m)          == m.cls # "OneTerminal"
NothingAfterTerminalP(m) == m.cls # "NothingAfterTerminal"
NeverWedgedP(m)          == m.cls \notin {"NeverWedged", "NoPanic"}
=============================================================================
