CONSTANTS
  NS = 2
  MaxEvents = 0
  MaxTerm = 1
  MaxSrcTerm = 1
  MaxHB = 0
  UseD = FALSE
  StartModes <- StartAll
  FixD5 = TRUE
  FixInit = TRUE
  FixDetach = TRUE
  FixUpdater = TRUE
  CfgOK <- CfgSame
  Features <- FeatNone
SPECIFICATION MCSpec
VIEW View
INVARIANTS TypeOK NoWriteAfterClose ClosedOnce WriterExclusive OrderedExact SharedIffSameKey StartOncePerLivePeriod NoStaleInit NoStaleDetach NoStaleUpdater NoLateInit Quiescent CancelledWhenDone RegistryConsistent

