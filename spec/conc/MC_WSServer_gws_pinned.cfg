CONSTANTS
  Proto = "gws"
  Impl = "pinned"
  Echo = TRUE
  MaxLen = 6
  Fixes = {}
  MaxIn = 3
  MaxEng = 2
SPECIFICATION Spec
INVARIANTS NothingAfterTerminal
