----------------------------- MODULE SFS_IndInv -----------------------------
(***************************************************************************)
(* Unbounded-N safety argument for SingleFlightSubgraph (C11), repaired    *)
(* protocol (Fixed = TRUE).  Companion of SFI_IndInv.tla.                  *)
(*                                                                         *)
(* This module EXTENDS SingleFlightSubgraph: Init, Next, every action and  *)
(* the six safety properties are the ones TLC checks for N <= 3 and the    *)
(* trace validator replays - nothing is copied or re-stated.               *)
(*                                                                         *)
(* It defines the inductive invariant IndInv and states the theorems.      *)
(* The machine-checked TLAPS proofs (arbitrary N \in Nat) are in           *)
(* SFS_IndInv_proofs.tla; this module has no TLAPS dependency, so TLC can  *)
(* check IndInv as an ordinary invariant (SFS_IndInv_3.cfg).               *)
(* Re-run everything: spec/conc/check_sfi_indinv.sh                        *)
(***************************************************************************)
EXTENDS SingleFlightSubgraph

\* The only assumptions.  N is ANY natural number (N = 0 is the empty system).
ASSUME ConstAssump == N \in Nat /\ MaxCancels \in Nat /\ Fixed = TRUE

PCs == {"start", "loadedL", "loadedF", "wokeD", "wokeC", "loading", "finDeleted", "finClosed", "returned"}
Outs == {"none", "solo", "otherdata"}
Kinds == {"none", "data", "uperr", "ctxerr"}

TypeInv ==
  /\ cfg \in [key: [Req -> Keys], elig: [Req -> BOOLEAN], work: [Keys -> {"ok", "err"}]]
  /\ table \in [Keys -> Req \cup {None}]
  /\ loaded \in [Req -> BOOLEAN]
  /\ pubk \in [Req -> Kinds]
  /\ pc \in [Req -> PCs]
  /\ mine \in [Req -> Req \cup {None}]
  /\ lead \in [Req -> BOOLEAN]
  /\ res \in [Req -> Kinds]
  /\ cancelled \in [Req -> BOOLEAN]
  /\ out \in [Req -> Outs]
  /\ panicked \in BOOLEAN
  /\ ncancel \in Nat

\* what Transparent allows request r to return
GoodOut(r, v) == v = "solo" \/ (cancelled[r] /\ v = "otherdata")

\* a fetch result kind k produced by request r itself (its own data source call)
GoodKind(r, k) ==
  /\ k # "none"
  /\ k = "uperr" => Work(r) = "err"
  /\ k = "ctxerr" => cancelled[r]

FollowerPcs == {"loadedF", "wokeD", "wokeC"}
LeaderPcs   == {"loadedL", "finDeleted", "finClosed"}

ReqInv(r) ==
  \* ---- who leads what
  /\ lead[r] <=> mine[r] = r
  /\ mine[r] # None => cfg.elig[r] /\ cfg.elig[mine[r]] /\ Key(mine[r]) = Key(r)
  /\ pc[r] = "start" => mine[r] = None
  /\ pc[r] \in FollowerPcs => mine[r] # None /\ mine[r] # r
  /\ pc[r] \in LeaderPcs => mine[r] = r
  /\ pc[r] = "loading" => mine[r] = None \/ mine[r] = r
  \* ---- life cycle of the item created by r (item id = r)
  /\ mine[r] # r => ~loaded[r] /\ pubk[r] = "none"
  /\ pc[r] \in {"loadedL", "loading"} => ~loaded[r] /\ pubk[r] = "none"
  /\ pc[r] = "finDeleted" => ~loaded[r] /\ pubk[r] = res[r]
  /\ pc[r] = "finClosed" => loaded[r]
  /\ loaded[r] => pubk[r] # "none"                     \* response / error written before the close
  /\ pubk[r] = "uperr" => Work(r) = "err"
  /\ pubk[r] = "ctxerr" => cancelled[r]                \* a context error in the item is the LEADER's cancellation
  \* ---- what r's own fetch ended with / what r returns
  /\ pc[r] \in {"finDeleted", "finClosed"} => GoodKind(r, res[r])
  /\ pc[r] = "returned" => GoodOut(r, out[r])
  \* ---- followers
  /\ pc[r] = "wokeD" => loaded[mine[r]]
  /\ pc[r] = "wokeC" => cancelled[r]
  /\ (pc[r] = "returned" /\ mine[r] # None /\ mine[r] # r /\ ~cancelled[r]) => loaded[mine[r]]

TableInv ==
  \A k \in Keys : table[k] # None =>
      /\ mine[table[k]] = table[k]
      /\ pc[table[k]] \in {"loadedL", "loading"}
      /\ Key(table[k]) = k
      /\ cfg.elig[table[k]]

IndInv ==
  /\ TypeInv
  /\ ~panicked
  /\ \A r \in Req : ReqInv(r)
  /\ TableInv

Safety == NoPanic /\ Transparent /\ NoForeignCancel /\ SharedOnlyIfSameKey /\ NoTornBuffer /\ LeaderOwnsEntry

\* Init of SingleFlightSubgraph restricts cfg to the symmetry-reduced set Configs.  The invariant needs
\* only the TYPE of cfg, so the result also holds from InitAny (no symmetry argument).
CfgType == [key: [Req -> Keys], elig: [Req -> BOOLEAN], work: [Keys -> {"ok", "err"}]]
InitAny ==
  /\ cfg \in CfgType
  /\ table = [k \in Keys |-> None]
  /\ loaded = [e \in Req |-> FALSE]
  /\ pubk = [e \in Req |-> "none"]
  /\ pc = [r \in Req |-> "start"]
  /\ mine = [r \in Req |-> None]
  /\ lead = [r \in Req |-> FALSE]
  /\ res = [r \in Req |-> "none"]
  /\ cancelled = [r \in Req |-> FALSE]
  /\ out = [r \in Req |-> "none"]
  /\ panicked = FALSE
  /\ ncancel = 0
SpecAny == InitAny /\ [][Next]_vars

-----------------------------------------------------------------------------
(* Theorems.  Stated here without proof (and without names, so that nothing *)
(* can cite them as facts); proved, under the same statements, in           *)
(* SFS_IndInv_proofs.tla: InitIndInv, InitAnyIndInv, IndInvNext,            *)
(* IndInvSafety, SpecIndInv, SpecSafety, SpecAnySafety.                     *)
THEOREM Init => IndInv
THEOREM InitAny => IndInv
THEOREM IndInv /\ [Next]_vars => IndInv'
THEOREM IndInv => Safety
THEOREM Spec => []IndInv
THEOREM Spec => []Safety
THEOREM SpecAny => []Safety
=============================================================================
