--------------------------- MODULE SFI_IndInv_neg ---------------------------
(***************************************************************************)
(* Negative control for SFI_IndInv_proofs (run by check_sfi_indinv.sh      *)
(* --neg).  The two request-level step obligations that depend on the      *)
(* repair are stated twice: WITH the fact Fixed = TRUE (must be proved) and *)
(* WITHOUT it (must be rejected: for Fixed = FALSE the step is false - the  *)
(* pinned protocol lets a follower fall through to the leader path of a     *)
(* foreign entry, TLC exhibits the double close with MC_SFI_3_pinned.cfg).  *)
(* Expected tlapm outcome: exactly 2 obligations fail (the *_NoFix ones).   *)
(* "Not provable" is weaker than "false"; the falsity itself is TLC's job.  *)
(***************************************************************************)
EXTENDS SFI_IndInv_proofs

LEMMA AfterWokeNothing_Fix ==
  ASSUME IndInv, NEW r \in Req, AfterWokeNothing(r)
  PROVE  \A q \in Req : ReqInv(q)'
  BY NoneNotReq, FixedTrue, SMTT(10) DEF IndInv, TypeInv, ReqInv, TableInv, AfterWokeNothing, LoadOrStore, PCs, Outs,
     Contents, FollowerPcs, LeaderPcs, OpenPcs, GoodOut, Solo, Key, Rendered

LEMMA AfterWokeNothing_NoFix ==
  ASSUME IndInv, NEW r \in Req, AfterWokeNothing(r)
  PROVE  \A q \in Req : ReqInv(q)'
  BY NoneNotReq, SMTT(10) DEF IndInv, TypeInv, ReqInv, TableInv, AfterWokeNothing, LoadOrStore, PCs, Outs,
     Contents, FollowerPcs, LeaderPcs, OpenPcs, GoodOut, Solo, Key, Rendered

LEMMA EndWork_Fix ==
  ASSUME IndInv, NEW r \in Req, EndWork(r)
  PROVE  \A q \in Req : ReqInv(q)'
  BY NoneNotReq, FixedTrue, SMTT(10) DEF IndInv, TypeInv, ReqInv, TableInv, EndWork, LoadOrStore, PCs, Outs,
     Contents, FollowerPcs, LeaderPcs, OpenPcs, GoodOut, Solo, Key, Rendered

LEMMA EndWork_NoFix ==
  ASSUME IndInv, NEW r \in Req, EndWork(r)
  PROVE  \A q \in Req : ReqInv(q)'
  BY NoneNotReq, SMTT(10) DEF IndInv, TypeInv, ReqInv, TableInv, EndWork, LoadOrStore, PCs, Outs,
     Contents, FollowerPcs, LeaderPcs, OpenPcs, GoodOut, Solo, Key, Rendered
=============================================================================
