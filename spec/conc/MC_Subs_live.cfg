CONSTANTS
  NS = 2
  MaxEvents = 0
  MaxTerm = 1
  MaxSrcTerm = 1
  MaxHB = 0
  UseD = FALSE
  StartModes <- StartOK
  FixD5 = TRUE
  FixInit = TRUE
  FixDetach = TRUE
  FixUpdater = TRUE
  CfgOK <- CfgOne
  Features <- FeatNone
SPECIFICATION MCLive
VIEW View
INVARIANTS TypeOK
PROPERTIES NoWedge ShutdownCompletes DetachedGetsCancelled
