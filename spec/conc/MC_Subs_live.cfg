CONSTANTS
  NS = 2
  MaxEvents = 0
  MaxTerm = 1
  MaxSrcTerm = 1
  MaxHB = 0
  UseD = FALSE
  StartModes <- StartOK
  FixD5 = TRUE
  FixD6 = TRUE
  CfgOK <- CfgOne
SPECIFICATION MCLive
VIEW View
INVARIANTS TypeOK
PROPERTIES NoWedge ShutdownCompletes DetachedGetsCancelled
