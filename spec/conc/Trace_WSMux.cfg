CONSTANTS
  N = 3
  NK = 2
  MaxConn = 3
  MaxFrames = 99
  MaxCancels = 99
  Fixed = FALSE
SPECIFICATION TraceSpec
CONSTRAINT HighWater
INVARIANTS TypeOK Routed TerminalLocal NothingAfterTerminal SharedOnlyIfSameKey NoLeak NoStall
POSTCONDITION TraceAccepted
CHECK_DEADLOCK FALSE
