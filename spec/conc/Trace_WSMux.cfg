CONSTANTS
  N = 3
  NK = 2
  MaxConn = 5
  MaxFrames = 99
  MaxCancels = 99
  Fixes = {}
  CfgSet <- Configs
SPECIFICATION TraceSpec
CONSTRAINT HighWater
INVARIANTS TypeOK Routed TerminalLocal NothingAfterTerminal SharedOnlyIfSameKey NoLeak NoStall
POSTCONDITION TraceAccepted
CHECK_DEADLOCK FALSE
