CONSTANTS
  Proto = "gws"
  Impl = "pinned"
  Echo = TRUE
  MaxLen = 6
  Fixes = {}
  Syms = {"init", "initrej", "terminate", "ping", "sub1q", "sub1s", "sub2q", "subbad", "comp1", "comp9", "malformed", "missingid", "readerr"}
  EngWhats = {"data", "fin", "error", "result"}
  Extras = TRUE
  MaxIn = 3
  MaxEng = 2
  PreInit = FALSE
SPECIFICATION GenSpec
CONSTRAINT GenConstraint
CHECK_DEADLOCK FALSE
