CONSTANTS
  Proto = "gws"
  Impl = "pinned"
  Echo = TRUE
  MaxLen = 6
  Fixes = {}
  MaxIn = 3
  MaxEng = 2
  PreInit = FALSE
SPECIFICATION GenSpec
CONSTRAINT GenConstraint
CHECK_DEADLOCK FALSE
