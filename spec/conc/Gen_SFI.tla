------------------------------ MODULE Gen_SFI ------------------------------
(* Generator: every behaviour of SingleFlightInbound as a schedule for the   *)
(* gate scheduler.  hist makes every distinct prefix a distinct state, so    *)
(* BFS enumerates all behaviours; -simulate samples them.                    *)
EXTENDS SingleFlightInbound, Json
VARIABLE hist
GenInit == Init /\ hist = <<>>
GenNext == \E r \in Req : \E a \in ActNames : Step(r, a) /\ hist' = Append(hist, [r |-> r, act |-> a])
GenSpec == GenInit /\ [][GenNext]_<<vars, hist>>
\* printed once per terminal state (all returned): configuration + schedule + outcome the spec predicts
Emit == IF AllReturned
        THEN PrintT(ToJson([key |-> cfg.key, elig |-> cfg.elig, work |-> cfg.work, steps |-> hist, out |-> out]))
        ELSE TRUE
\* interesting configurations only: at least two eligible requests share key 1
Interesting == \E r, q \in Req : r # q /\ cfg.key[r] = cfg.key[q] /\ cfg.elig[r] /\ cfg.elig[q]
GenConstraint == Emit
=============================================================================
