CONSTANTS
  N = 3
  MaxFrames = 99
  MaxCancels = 99
SPECIFICATION TraceSpec
CONSTRAINT HighWater
INVARIANTS SRouted SNothingAfterTerminal SIsolated SNoLeak
POSTCONDITION TraceAccepted
CHECK_DEADLOCK FALSE
