----------------------------- MODULE Trace_SFI -----------------------------
(* Trace validation: the event stream recorded from the real code            *)
(* (harness/cmd/sf, hooks sfi.* in resolve, harness-side gate ds.load) must  *)
(* be a behaviour of SingleFlightInbound; every invariant of the module is   *)
(* evaluated in every state of every trace.  One event = one spec action.    *)
(* Traces are concatenated; a "reset" event starts the next one and carries   *)
(* its configuration.                                                        *)
EXTENDS SingleFlightInbound, Json, TLCExt, IOUtils
TraceLog == ndJsonDeserialize(IOEnv.TRACE)
VARIABLE l
tvars == <<vars, l>>
Ev == TraceLog[l]
IsEvent(e) == l <= Len(TraceLog) /\ Ev.ev = e /\ l' = l + 1

TraceInit ==
  /\ l = 1
  /\ TLCSet(1, 0)
  /\ Init
  /\ cfg = [key |-> [r \in Req |-> 1], elig |-> [r \in Req |-> TRUE], work |-> [k \in Keys |-> "ok"]]

\* a new trace may only start when every participant of the previous one returned
T_Reset ==
  /\ IsEvent("reset")
  /\ (l = 1 \/ AllReturned)
  /\ cfg' = [key |-> [r \in Req |-> Ev.key[r]], elig |-> [r \in Req |-> Ev.elig[r]], work |-> [k \in Keys |-> Ev.work[k]]]
  /\ table' = [k \in Keys |-> None]
  /\ done' = [e \in Req |-> FALSE]
  /\ pub' = [e \in Req |-> "none"]
  /\ pubc' = [e \in Req |-> "none"]
  /\ followers' = [e \in Req |-> 0]
  /\ pc' = [r \in Req |-> "start"]
  /\ mine' = [r \in Req |-> None]
  /\ lead' = [r \in Req |-> FALSE]
  /\ content' = [r \in Req |-> "none"]
  /\ cancelled' = [r \in Req |-> FALSE]
  /\ out' = [r \in Req |-> "none"]
  /\ panicked' = FALSE
  /\ ncancel' = 0

T_End == IsEvent("end") /\ AllReturned /\ UNCHANGED vars

T_Loaded == /\ IsEvent("sfi.loaded")
            /\ (Arrive(Ev.r) \/ AfterWokeNothing(Ev.r))
            /\ pc'[Ev.r] = IF Ev.b = 1 THEN "loadedF" ELSE "loadedL"

T_DsLoad == /\ IsEvent("ds.load")
            /\ (BeginWork(Ev.r) \/ Arrive(Ev.r) \/ AfterWokeNothing(Ev.r))
            /\ pc'[Ev.r] = "loading"

T_Registered == IsEvent("sfi.registered") /\ Register(Ev.r)

T_Woke == /\ IsEvent("sfi.woke")
          /\ IF Ev.b = 0 THEN WakeDone(Ev.r) ELSE WakeCtx(Ev.r)

T_FinDeleted == /\ IsEvent("sfi.fin.deleted")
                /\ EndWork(Ev.r)
                /\ pc'[Ev.r] = CASE Ev.b = 0 -> "finOkDeleted" [] Ev.b = 1 -> "finErrDeleted" [] OTHER -> "finAbDeleted"

T_FinChecked == /\ IsEvent("sfi.fin.checked")
                /\ FinCheck(Ev.r)
                /\ (pub'[mine[Ev.r]] = "data") <=> (Ev.b = 1)

T_FinClosed == /\ IsEvent("sfi.fin.closed")
               /\ FinClose(Ev.r)
               /\ pc'[Ev.r] = "finClosed"

T_Return == /\ IsEvent("return")
            /\ \/ Return(Ev.r)
               \/ AfterWokeCtx(Ev.r)
               \/ AfterWokeErr(Ev.r)
               \/ AfterWokeData(Ev.r)
               \/ (EndWork(Ev.r) /\ mine[Ev.r] = None)
               \/ (FinClose(Ev.r) /\ panicked')
            /\ pc'[Ev.r] = "returned"
            /\ out'[Ev.r] = Ev.out

T_Cancel == IsEvent("cancel") /\ Cancel(Ev.r)

TraceNext == T_Reset \/ T_End \/ T_Loaded \/ T_DsLoad \/ T_Registered \/ T_Woke \/ T_FinDeleted
             \/ T_FinChecked \/ T_FinClosed \/ T_Return \/ T_Cancel

TraceSpec == TraceInit /\ [][TraceNext]_tvars

\* high-water mark of consumed lines (robust against branching)
HighWater == TLCSet(1, IF l > TLCGet(1) THEN l ELSE TLCGet(1))
TraceAccepted ==
  IF TLCGet(1) = Len(TraceLog) + 1 THEN TRUE
  ELSE /\ PrintT(<<"TRACE_STUCK_AT_LINE", TLCGet(1)>>)
       /\ FALSE
=============================================================================
