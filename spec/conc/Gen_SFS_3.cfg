CONSTANTS
  N = 3
  Fixed = TRUE
  MaxCancels = 2
SPECIFICATION GenSpec
CONSTRAINT GenConstraint
CHECK_DEADLOCK FALSE
