CONSTANTS
  N = 3
  MaxFrames = 3
  MaxCancels = 3
  MaxSteps = 11
SPECIFICATION GenSpec
CONSTRAINT GenConstraint
CHECK_DEADLOCK FALSE
