CONSTANTS
  N = 2
  NK = 2
  MaxConn = 2
  MaxFrames = 2
  MaxCancels = 2
  Fixes = {}
  CfgSet <- ConfigsX
  MaxSteps = 7
SPECIFICATION GenSpec
CONSTRAINT GenConstraint
CHECK_DEADLOCK FALSE
