CONSTANTS
  Proto = "gws"
  Impl = "ref"
  Echo = TRUE
  MaxLen = 8
  Fixes = {}
  MaxIn = 3
  MaxEng = 3
SPECIFICATION Spec
INVARIANTS Accepted OutputAllowed NoStartBeforeInit OneTerminal NothingAfterTerminal NeverWedged Tracks Released
PROPERTIES Answered
