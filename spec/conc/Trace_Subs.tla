----------------------------- MODULE Trace_Subs -----------------------------
(* Trace validation: the event stream recorded from the real resolver            *)
(* (harness/cmd/subs: verif hooks sub.x trig.x shutdown.x in resolve.go, writer   *)
(* calls w.x, harness markers h.x) must be a behaviour of Subscriptions, one       *)
(* event = one action of the actor that logged it, with the logged fields; all     *)
(* invariants of C12 / C13 are evaluated in every state of every trace.            *)
(* Traces are concatenated: "reset" carries the configuration of the next one,     *)
(* "end" carries what the harness measured at quiescence (registry sizes from      *)
(* VerifRegistrySizes, Reporter sums, Start contexts not cancelled).               *)
EXTENDS Subscriptions, Json, TLCExt, IOUtils

CONSTANTS Soft,   \* TRUE: report every rejected trace (PrintT) and go on with the next one; FALSE: strict (INVARIANTS + POSTCONDITION)
          Prop    \* "C12" | "C13": which properties the soft pass judges

TraceLog == ndJsonDeserialize(IOEnv.TRACE)

VARIABLES dead,   \* soft mode: the current trace was rejected, its remaining lines are skipped
          l,      \* next line
          tov,    \* the writer observed two overlapping calls
          tbad,   \* a flushed message was not the solo response of that event for that subscriber / foreign key
          tdl     \* Source.Start saw a trigger context that carries a deadline (the creator's request deadline leaked into the shared context)
tvars == <<vars, l, tov, tbad, tdl, dead>>

Ev == TraceLog[l]
Act(e) == <<e.k, e.i, e.j>>

WriterExclusiveT == WriterExclusive /\ ~tov
OrderedExactT == OrderedExact /\ ~tbad
\* the trigger context is detached from the request context of the subscriber that happened to create it
DetachedContext == ~tdl

Failed ==
  IF Prop = "C12"
  THEN {n \in {"NoWriteAfterClose", "ClosedOnce", "WriterExclusiveT", "OrderedExactT", "RegistryConsistent"} :
          ~CASE n = "NoWriteAfterClose" -> NoWriteAfterClose [] n = "ClosedOnce" -> ClosedOnce [] n = "WriterExclusiveT" -> WriterExclusiveT
             [] n = "OrderedExactT" -> OrderedExactT [] n = "RegistryConsistent" -> RegistryConsistent}
  ELSE {n \in {"SharedIffSameKey", "StartOncePerLivePeriod", "NoStaleInit", "NoStaleDetach", "NoStaleUpdater", "NoLateInit",
               "Quiescent", "CancelledWhenDone", "RegistryConsistent", "DetachedContext"} :
          ~CASE n = "SharedIffSameKey" -> SharedIffSameKey [] n = "StartOncePerLivePeriod" -> StartOncePerLivePeriod
             [] n = "NoStaleInit" -> NoStaleInit [] n = "NoStaleDetach" -> NoStaleDetach [] n = "NoStaleUpdater" -> NoStaleUpdater
             [] n = "NoLateInit" -> NoLateInit [] n = "Quiescent" -> Quiescent [] n = "CancelledWhenDone" -> CancelledWhenDone
             [] n = "RegistryConsistent" -> RegistryConsistent [] n = "DetachedContext" -> DetachedContext}
Bad == Failed # {}
\* printed once per rejected trace: in the first state in which a property is false
Judge == IF Soft /\ ~dead /\ Bad THEN PrintT(<<"INV", Failed, l>>) ELSE TRUE

StartState ==
  /\ g' = InitG /\ o' = InitO
  /\ ac' = [a \in Actors |->
             CASE a[1] = "c" -> [Local0 EXCEPT !.pc = "c.idle0"]
               [] a[1] = "s" -> [Local0 EXCEPT !.pc = "s.idle"]
               [] a[1] = "d" -> [Local0 EXCEPT !.pc = IF UseD THEN "s.idle" ELSE "s.end"]
               [] a[1] = "env" -> [Local0 EXCEPT !.pc = "env"]
               [] a[1] = "x" -> [Local0 EXCEPT !.pc = IF cfg'.sync /\ a[2] = 1 THEN "x.idle" ELSE "x.end"]
               [] OTHER -> Local0]
  /\ lab' = [a |-> NoActor, n |-> "reset", x |-> 0, y |-> 0, z |-> 0]

TraceInit ==
  /\ l = 1 /\ tov = FALSE /\ tbad = FALSE /\ tdl = FALSE /\ dead = FALSE
  /\ TLCSet(1, 0)
  /\ cfg = [key |-> [s \in Subs |-> 1], filt |-> [s \in Subs |-> "all"], conn |-> [s \in Subs |-> 1], start |-> [i \in Inst |-> "ok"], fetch |-> AllFalse,
            rerr |-> AllFalse, hooks |-> FALSE, hookfail |-> AllFalse, sync |-> FALSE]
  /\ g = InitG /\ o = InitO
  /\ ac = [a \in Actors |-> Local0]
  /\ lab = [a |-> NoActor, n |-> "init", x |-> 0, y |-> 0, z |-> 0]

T_Reset ==
  /\ l <= Len(TraceLog) /\ Ev.ev = "reset" /\ l' = l + 1
  /\ cfg' = [key |-> [s \in Subs |-> Ev.key[s]], filt |-> [s \in Subs |-> Ev.filt[s]],
             conn |-> [s \in Subs |-> Ev.conn[s]], start |-> [i \in Inst |-> Ev.start[i]], fetch |-> [s \in Subs |-> Ev.fetch[s]],
             rerr |-> [s \in Subs |-> Ev.rerr[s]], hooks |-> Ev.hooks, hookfail |-> [s \in Subs |-> Ev.hookfail[s]], sync |-> Ev.sync]
  /\ StartState
  /\ tov' = FALSE /\ tbad' = FALSE /\ tdl' = FALSE /\ dead' = FALSE

\* what the harness measured when everything had returned must be what the specification says is left
T_End ==
  /\ ~dead /\ ~(Soft /\ Bad)
  /\ l <= Len(TraceLog) /\ Ev.ev = "end" /\ l' = l + 1
  /\ Quiet
  /\ Ev.wedged = 0 /\ Ev.panic = 0
  /\ Ev.trig = Cardinality({k \in Keys : g.reg[k] # 0})
  /\ Ev.subs = Cardinality(g.byid)
  /\ Ev.conns = Cardinality({Conn(s) : s \in g.byid})
  /\ Ev.sinc = o.subInc /\ Ev.sdec = o.subDec /\ Ev.tinc = o.trigInc /\ Ev.tdec = o.trigDec
  /\ Ev.uncancelled = Cardinality({i \in Inst : o.nstart[i] > 0 /\ ~g.tctx[i]})
  /\ UNCHANGED <<vars, tov, tbad, tdl, dead>>

T_Step ==
  /\ ~dead /\ ~(Soft /\ Bad)
  /\ l <= Len(TraceLog) /\ Ev.ev \notin {"reset", "end"} /\ l' = l + 1
  /\ Act(Ev) \in Actors
  /\ Micro(Act(Ev))
  /\ lab'.n = Ev.ev /\ lab'.x = Ev.x /\ lab'.y = Ev.y /\ lab'.z = Ev.z
  /\ tov' = (tov \/ Ev.ov = 1)
  /\ tbad' = (tbad \/ (Ev.ev = "w.flush" /\ Ev.c = 0))
  /\ tdl' = (tdl \/ (Ev.ev = "h.start" /\ Ev.c = 0))
  /\ UNCHANGED dead

\* ---- soft mode -------------------------------------------------------------------------------------
\* a rejected trace (property false in the current state / event not enabled) is abandoned: its lines are skipped
T_Skip ==
  /\ Soft /\ (dead \/ Bad)
  /\ l <= Len(TraceLog) /\ Ev.ev # "reset" /\ l' = l + 1
  /\ dead' = TRUE
  /\ UNCHANGED <<vars, tov, tbad, tdl>>
T_Stuck ==
  /\ Soft /\ ~dead /\ ~Bad
  /\ l <= Len(TraceLog) /\ Ev.ev # "reset"
  /\ ~ENABLED (T_Step \/ T_End)
  /\ PrintT(<<"STUCK", Ev.ev, l>>)
  /\ l' = l + 1 /\ dead' = TRUE
  /\ UNCHANGED <<vars, tov, tbad, tdl>>

TraceNext == T_Reset \/ T_End \/ T_Step \/ T_Skip \/ T_Stuck
TraceSpec == TraceInit /\ [][TraceNext]_tvars

HighWater == TLCSet(1, IF l > TLCGet(1) THEN l ELSE TLCGet(1))
TraceAccepted ==
  IF TLCGet(1) = Len(TraceLog) + 1 THEN TRUE
  ELSE /\ PrintT(<<"TRACE_STUCK_AT_LINE", TLCGet(1)>>)
       /\ FALSE
TraceView == <<cfg, g, o, ac, l, tov, tbad, tdl, dead>>
CfgAll(c) == TRUE
FeatNone == {}
FeatFetch == {"fetch"}
FeatErr == {"ferr", "rerr"}
FeatHooks == {"hooks"}
FeatAll == {"fetch", "ferr", "rerr", "hooks", "sync"}
FeatSync == {"sync"}
TraceTolerant == TRUE
StartAll == {"ok", "fail", "ctx"}
=============================================================================
