------------------------- MODULE SFI_IndInv_proofs -------------------------
(***************************************************************************)
(* TLAPS proofs for SFI_IndInv: for EVERY N \in Nat (and every MaxCancels  *)
(* \in Nat), the repaired single-flight protocol for inbound requests       *)
(* (SingleFlightInbound with Fixed = TRUE) satisfies                        *)
(*   NoPanic, LeaderOwnsEntry, NoForeignCancel, Transparent,                *)
(*   SharedOnlyIfSameKey, NoTornBuffer                                      *)
(* in every reachable state.                                                *)
(*                                                                          *)
(*   InitIndInv / InitAnyIndInv   Init => IndInv   (InitAny: any cfg)       *)
(*   IndInvNext                   IndInv /\ [Next]_vars => IndInv'          *)
(*                                one <1>k step per action of the spec,     *)
(*                                each split into the 4 conjuncts of IndInv *)
(*   IndInvSafety                 IndInv => Safety                          *)
(*   SpecIndInv, SpecSafety, SpecAnySafety    (PTL)                         *)
(*                                                                          *)
(* No step is OMITTED, no proof is missing.  Check:                         *)
(*   spec/conc/check_sfi_indinv.sh     (tlapm, back ends SMT(z3)/Zenon/     *)
(*                                      Isabelle/PTL(ls4); ~400 obligations)*)
(*                                                                          *)
(* Proof-engineering note: Req, Keys and None stay UNEXPANDED everywhere    *)
(* except in NoneNotReq - the argument never looks inside 1..N, which is    *)
(* also why it is independent of N (expanding them makes z3 time out).      *)
(* The step proofs are generated from one template (same shape for every    *)
(* action); they are spelled out so that a failure names action + conjunct. *)
(***************************************************************************)
EXTENDS SFI_IndInv, TLAPS

\* the facts about the acting request that the type / table / panic parts of the step need
Facts(r) ==
  /\ pc[r] \in FollowerPcs => mine[r] \in Req /\ mine[r] # r /\ cfg.elig[r]
  /\ pc[r] \in LeaderPcs => mine[r] = r
  /\ pc[r] = "loading" => mine[r] = None \/ mine[r] = r
  /\ pc[r] \in OpenPcs \cup {"finOkChecked"} => ~done[r]

LEMMA NextCases ==
  ASSUME Next
  PROVE \E r \in Req : \/ Arrive(r) \/ BeginWork(r) \/ Register(r) \/ WakeDone(r) \/ WakeCtx(r)
                       \/ AfterWokeCtx(r) \/ AfterWokeErr(r) \/ AfterWokeData(r) \/ AfterWokeNothing(r)
                       \/ EndWork(r) \/ FinCheck(r) \/ FinClose(r) \/ Return(r) \/ Cancel(r)
  BY DEF Next, Step, ActNames

\* the only arithmetic fact the argument needs: the "no entry" marker is not a request id
LEMMA NoneNotReq == None \notin Req
  BY ConstAssump DEF None, Req

LEMMA FixedTrue == Fixed = TRUE
  BY ConstAssump

THEOREM InitIndInv == Init => IndInv
  BY NoneNotReq DEF Init, IndInv, TypeInv, ReqInv, TableInv, Configs, PCs, Outs, Contents,
     FollowerPcs, LeaderPcs, OpenPcs, GoodOut, Solo, Key

THEOREM InitAnyIndInv == InitAny => IndInv
  BY NoneNotReq DEF InitAny, CfgType, IndInv, TypeInv, ReqInv, TableInv, PCs, Outs, Contents,
     FollowerPcs, LeaderPcs, OpenPcs, GoodOut, Solo, Key

THEOREM IndInvSafety == IndInv => Safety
  BY NoneNotReq DEF Safety, IndInv, TypeInv, ReqInv, TableInv, PCs, Outs, Contents,
     FollowerPcs, LeaderPcs, OpenPcs, GoodOut, Solo, Key,
     NoPanic, LeaderOwnsEntry, NoForeignCancel, Transparent, SharedOnlyIfSameKey, NoTornBuffer

THEOREM IndInvNext == IndInv /\ [Next]_vars => IndInv'
<1> SUFFICES ASSUME IndInv, [Next]_vars PROVE IndInv'
  OBVIOUS
<1> USE NoneNotReq, FixedTrue
<1>1. ASSUME NEW r \in Req, Arrive(r) PROVE IndInv'
  <2>a. TypeInv /\ ~panicked /\ TableInv /\ ReqInv(r)
    BY DEF IndInv
  <2>b. Facts(r)
    BY <2>a DEF Facts, TypeInv, ReqInv, FollowerPcs, LeaderPcs, OpenPcs
  <2>c. Key(r) \in Keys /\ Rendered(r) \in {"upstream", "otherdata", "solo"}
    BY <2>a DEF TypeInv, Key, Rendered
  <2>1. TypeInv'
    BY <1>1, <2>a, <2>b, <2>c DEF Facts, TypeInv, Arrive, LoadOrStore, PCs, Outs, Contents, FollowerPcs, LeaderPcs, OpenPcs
  <2>2. ~panicked'
    BY <1>1, <2>a, <2>b DEF Facts, Arrive, LoadOrStore, LeaderPcs, OpenPcs
  <2>3. \A q \in Req : ReqInv(q)'
    BY <1>1 DEF IndInv, TypeInv, ReqInv, TableInv, Arrive, LoadOrStore, PCs, Outs, Contents, FollowerPcs, LeaderPcs, OpenPcs, GoodOut, Solo, Key, Rendered
  <2>4. TableInv'
    BY <1>1, <2>a, <2>b DEF Facts, TypeInv, TableInv, Arrive, LoadOrStore, Key, FollowerPcs, LeaderPcs, OpenPcs
  <2> QED BY <2>1, <2>2, <2>3, <2>4 DEF IndInv
<1>2. ASSUME NEW r \in Req, BeginWork(r) PROVE IndInv'
  <2>a. TypeInv /\ ~panicked /\ TableInv /\ ReqInv(r)
    BY DEF IndInv
  <2>b. Facts(r)
    BY <2>a DEF Facts, TypeInv, ReqInv, FollowerPcs, LeaderPcs, OpenPcs
  <2>c. Key(r) \in Keys /\ Rendered(r) \in {"upstream", "otherdata", "solo"}
    BY <2>a DEF TypeInv, Key, Rendered
  <2>1. TypeInv'
    BY <1>2, <2>a, <2>b, <2>c DEF Facts, TypeInv, BeginWork, LoadOrStore, PCs, Outs, Contents, FollowerPcs, LeaderPcs, OpenPcs
  <2>2. ~panicked'
    BY <1>2, <2>a, <2>b DEF Facts, BeginWork, LoadOrStore, LeaderPcs, OpenPcs
  <2>3. \A q \in Req : ReqInv(q)'
    BY <1>2 DEF IndInv, TypeInv, ReqInv, TableInv, BeginWork, LoadOrStore, PCs, Outs, Contents, FollowerPcs, LeaderPcs, OpenPcs, GoodOut, Solo, Key, Rendered
  <2>4. TableInv'
    BY <1>2, <2>a, <2>b DEF Facts, TypeInv, TableInv, BeginWork, LoadOrStore, Key, FollowerPcs, LeaderPcs, OpenPcs
  <2> QED BY <2>1, <2>2, <2>3, <2>4 DEF IndInv
<1>3. ASSUME NEW r \in Req, Register(r) PROVE IndInv'
  <2>a. TypeInv /\ ~panicked /\ TableInv /\ ReqInv(r)
    BY DEF IndInv
  <2>b. Facts(r)
    BY <2>a DEF Facts, TypeInv, ReqInv, FollowerPcs, LeaderPcs, OpenPcs
  <2>c. Key(r) \in Keys /\ Rendered(r) \in {"upstream", "otherdata", "solo"}
    BY <2>a DEF TypeInv, Key, Rendered
  <2>1. TypeInv'
    BY <1>3, <2>a, <2>b, <2>c DEF Facts, TypeInv, Register, LoadOrStore, PCs, Outs, Contents, FollowerPcs, LeaderPcs, OpenPcs
  <2>2. ~panicked'
    BY <1>3, <2>a, <2>b DEF Facts, Register, LoadOrStore, LeaderPcs, OpenPcs
  <2>3. \A q \in Req : ReqInv(q)'
    BY <1>3 DEF IndInv, TypeInv, ReqInv, TableInv, Register, LoadOrStore, PCs, Outs, Contents, FollowerPcs, LeaderPcs, OpenPcs, GoodOut, Solo, Key, Rendered
  <2>4. TableInv'
    BY <1>3, <2>a, <2>b DEF Facts, TypeInv, TableInv, Register, LoadOrStore, Key, FollowerPcs, LeaderPcs, OpenPcs
  <2> QED BY <2>1, <2>2, <2>3, <2>4 DEF IndInv
<1>4. ASSUME NEW r \in Req, WakeDone(r) PROVE IndInv'
  <2>a. TypeInv /\ ~panicked /\ TableInv /\ ReqInv(r)
    BY DEF IndInv
  <2>b. Facts(r)
    BY <2>a DEF Facts, TypeInv, ReqInv, FollowerPcs, LeaderPcs, OpenPcs
  <2>c. Key(r) \in Keys /\ Rendered(r) \in {"upstream", "otherdata", "solo"}
    BY <2>a DEF TypeInv, Key, Rendered
  <2>1. TypeInv'
    BY <1>4, <2>a, <2>b, <2>c DEF Facts, TypeInv, WakeDone, LoadOrStore, PCs, Outs, Contents, FollowerPcs, LeaderPcs, OpenPcs
  <2>2. ~panicked'
    BY <1>4, <2>a, <2>b DEF Facts, WakeDone, LoadOrStore, LeaderPcs, OpenPcs
  <2>3. \A q \in Req : ReqInv(q)'
    BY <1>4 DEF IndInv, TypeInv, ReqInv, TableInv, WakeDone, LoadOrStore, PCs, Outs, Contents, FollowerPcs, LeaderPcs, OpenPcs, GoodOut, Solo, Key, Rendered
  <2>4. TableInv'
    BY <1>4, <2>a, <2>b DEF Facts, TypeInv, TableInv, WakeDone, LoadOrStore, Key, FollowerPcs, LeaderPcs, OpenPcs
  <2> QED BY <2>1, <2>2, <2>3, <2>4 DEF IndInv
<1>5. ASSUME NEW r \in Req, WakeCtx(r) PROVE IndInv'
  <2>a. TypeInv /\ ~panicked /\ TableInv /\ ReqInv(r)
    BY DEF IndInv
  <2>b. Facts(r)
    BY <2>a DEF Facts, TypeInv, ReqInv, FollowerPcs, LeaderPcs, OpenPcs
  <2>c. Key(r) \in Keys /\ Rendered(r) \in {"upstream", "otherdata", "solo"}
    BY <2>a DEF TypeInv, Key, Rendered
  <2>1. TypeInv'
    BY <1>5, <2>a, <2>b, <2>c DEF Facts, TypeInv, WakeCtx, LoadOrStore, PCs, Outs, Contents, FollowerPcs, LeaderPcs, OpenPcs
  <2>2. ~panicked'
    BY <1>5, <2>a, <2>b DEF Facts, WakeCtx, LoadOrStore, LeaderPcs, OpenPcs
  <2>3. \A q \in Req : ReqInv(q)'
    BY <1>5 DEF IndInv, TypeInv, ReqInv, TableInv, WakeCtx, LoadOrStore, PCs, Outs, Contents, FollowerPcs, LeaderPcs, OpenPcs, GoodOut, Solo, Key, Rendered
  <2>4. TableInv'
    BY <1>5, <2>a, <2>b DEF Facts, TypeInv, TableInv, WakeCtx, LoadOrStore, Key, FollowerPcs, LeaderPcs, OpenPcs
  <2> QED BY <2>1, <2>2, <2>3, <2>4 DEF IndInv
<1>6. ASSUME NEW r \in Req, AfterWokeCtx(r) PROVE IndInv'
  <2>a. TypeInv /\ ~panicked /\ TableInv /\ ReqInv(r)
    BY DEF IndInv
  <2>b. Facts(r)
    BY <2>a DEF Facts, TypeInv, ReqInv, FollowerPcs, LeaderPcs, OpenPcs
  <2>c. Key(r) \in Keys /\ Rendered(r) \in {"upstream", "otherdata", "solo"}
    BY <2>a DEF TypeInv, Key, Rendered
  <2>1. TypeInv'
    BY <1>6, <2>a, <2>b, <2>c DEF Facts, TypeInv, AfterWokeCtx, LoadOrStore, PCs, Outs, Contents, FollowerPcs, LeaderPcs, OpenPcs
  <2>2. ~panicked'
    BY <1>6, <2>a, <2>b DEF Facts, AfterWokeCtx, LoadOrStore, LeaderPcs, OpenPcs
  <2>3. \A q \in Req : ReqInv(q)'
    BY <1>6 DEF IndInv, TypeInv, ReqInv, TableInv, AfterWokeCtx, LoadOrStore, PCs, Outs, Contents, FollowerPcs, LeaderPcs, OpenPcs, GoodOut, Solo, Key, Rendered
  <2>4. TableInv'
    BY <1>6, <2>a, <2>b DEF Facts, TypeInv, TableInv, AfterWokeCtx, LoadOrStore, Key, FollowerPcs, LeaderPcs, OpenPcs
  <2> QED BY <2>1, <2>2, <2>3, <2>4 DEF IndInv
<1>7. ASSUME NEW r \in Req, AfterWokeErr(r) PROVE IndInv'
  <2>a. TypeInv /\ ~panicked /\ TableInv /\ ReqInv(r)
    BY DEF IndInv
  <2>b. Facts(r)
    BY <2>a DEF Facts, TypeInv, ReqInv, FollowerPcs, LeaderPcs, OpenPcs
  <2>c. Key(r) \in Keys /\ Rendered(r) \in {"upstream", "otherdata", "solo"}
    BY <2>a DEF TypeInv, Key, Rendered
  <2>1. TypeInv'
    BY <1>7, <2>a, <2>b, <2>c DEF Facts, TypeInv, AfterWokeErr, LoadOrStore, PCs, Outs, Contents, FollowerPcs, LeaderPcs, OpenPcs
  <2>2. ~panicked'
    BY <1>7, <2>a, <2>b DEF Facts, AfterWokeErr, LoadOrStore, LeaderPcs, OpenPcs
  <2>3. \A q \in Req : ReqInv(q)'
    BY <1>7 DEF IndInv, TypeInv, ReqInv, TableInv, AfterWokeErr, LoadOrStore, PCs, Outs, Contents, FollowerPcs, LeaderPcs, OpenPcs, GoodOut, Solo, Key, Rendered
  <2>4. TableInv'
    BY <1>7, <2>a, <2>b DEF Facts, TypeInv, TableInv, AfterWokeErr, LoadOrStore, Key, FollowerPcs, LeaderPcs, OpenPcs
  <2> QED BY <2>1, <2>2, <2>3, <2>4 DEF IndInv
<1>8. ASSUME NEW r \in Req, AfterWokeData(r) PROVE IndInv'
  <2>a. TypeInv /\ ~panicked /\ TableInv /\ ReqInv(r)
    BY DEF IndInv
  <2>b. Facts(r)
    BY <2>a DEF Facts, TypeInv, ReqInv, FollowerPcs, LeaderPcs, OpenPcs
  <2>c. Key(r) \in Keys /\ Rendered(r) \in {"upstream", "otherdata", "solo"}
    BY <2>a DEF TypeInv, Key, Rendered
  <2>1. TypeInv'
    BY <1>8, <2>a, <2>b, <2>c DEF Facts, TypeInv, AfterWokeData, LoadOrStore, PCs, Outs, Contents, FollowerPcs, LeaderPcs, OpenPcs
  <2>2. ~panicked'
    BY <1>8, <2>a, <2>b DEF Facts, AfterWokeData, LoadOrStore, LeaderPcs, OpenPcs
  <2>3. \A q \in Req : ReqInv(q)'
    BY <1>8 DEF IndInv, TypeInv, ReqInv, TableInv, AfterWokeData, LoadOrStore, PCs, Outs, Contents, FollowerPcs, LeaderPcs, OpenPcs, GoodOut, Solo, Key, Rendered
  <2>4. TableInv'
    BY <1>8, <2>a, <2>b DEF Facts, TypeInv, TableInv, AfterWokeData, LoadOrStore, Key, FollowerPcs, LeaderPcs, OpenPcs
  <2> QED BY <2>1, <2>2, <2>3, <2>4 DEF IndInv
<1>9. ASSUME NEW r \in Req, AfterWokeNothing(r) PROVE IndInv'
  <2>a. TypeInv /\ ~panicked /\ TableInv /\ ReqInv(r)
    BY DEF IndInv
  <2>b. Facts(r)
    BY <2>a DEF Facts, TypeInv, ReqInv, FollowerPcs, LeaderPcs, OpenPcs
  <2>c. Key(r) \in Keys /\ Rendered(r) \in {"upstream", "otherdata", "solo"}
    BY <2>a DEF TypeInv, Key, Rendered
  <2>1. TypeInv'
    BY <1>9, <2>a, <2>b, <2>c DEF Facts, TypeInv, AfterWokeNothing, LoadOrStore, PCs, Outs, Contents, FollowerPcs, LeaderPcs, OpenPcs
  <2>2. ~panicked'
    BY <1>9, <2>a, <2>b DEF Facts, AfterWokeNothing, LoadOrStore, LeaderPcs, OpenPcs
  <2>3. \A q \in Req : ReqInv(q)'
    BY <1>9 DEF IndInv, TypeInv, ReqInv, TableInv, AfterWokeNothing, LoadOrStore, PCs, Outs, Contents, FollowerPcs, LeaderPcs, OpenPcs, GoodOut, Solo, Key, Rendered
  <2>4. TableInv'
    BY <1>9, <2>a, <2>b DEF Facts, TypeInv, TableInv, AfterWokeNothing, LoadOrStore, Key, FollowerPcs, LeaderPcs, OpenPcs
  <2> QED BY <2>1, <2>2, <2>3, <2>4 DEF IndInv
<1>10. ASSUME NEW r \in Req, EndWork(r) PROVE IndInv'
  <2>a. TypeInv /\ ~panicked /\ TableInv /\ ReqInv(r)
    BY DEF IndInv
  <2>b. Facts(r)
    BY <2>a DEF Facts, TypeInv, ReqInv, FollowerPcs, LeaderPcs, OpenPcs
  <2>c. Key(r) \in Keys /\ Rendered(r) \in {"upstream", "otherdata", "solo"}
    BY <2>a DEF TypeInv, Key, Rendered
  <2>1. TypeInv'
    BY <1>10, <2>a, <2>b, <2>c DEF Facts, TypeInv, EndWork, LoadOrStore, PCs, Outs, Contents, FollowerPcs, LeaderPcs, OpenPcs
  <2>2. ~panicked'
    BY <1>10, <2>a, <2>b DEF Facts, EndWork, LoadOrStore, LeaderPcs, OpenPcs
  <2>3. \A q \in Req : ReqInv(q)'
    BY <1>10 DEF IndInv, TypeInv, ReqInv, TableInv, EndWork, LoadOrStore, PCs, Outs, Contents, FollowerPcs, LeaderPcs, OpenPcs, GoodOut, Solo, Key, Rendered
  <2>4. TableInv'
    BY <1>10, <2>a, <2>b DEF Facts, TypeInv, TableInv, EndWork, LoadOrStore, Key, FollowerPcs, LeaderPcs, OpenPcs
  <2> QED BY <2>1, <2>2, <2>3, <2>4 DEF IndInv
<1>11. ASSUME NEW r \in Req, FinCheck(r) PROVE IndInv'
  <2>a. TypeInv /\ ~panicked /\ TableInv /\ ReqInv(r)
    BY DEF IndInv
  <2>b. Facts(r)
    BY <2>a DEF Facts, TypeInv, ReqInv, FollowerPcs, LeaderPcs, OpenPcs
  <2>c. Key(r) \in Keys /\ Rendered(r) \in {"upstream", "otherdata", "solo"}
    BY <2>a DEF TypeInv, Key, Rendered
  <2>1. TypeInv'
    BY <1>11, <2>a, <2>b, <2>c DEF Facts, TypeInv, FinCheck, LoadOrStore, PCs, Outs, Contents, FollowerPcs, LeaderPcs, OpenPcs
  <2>2. ~panicked'
    BY <1>11, <2>a, <2>b DEF Facts, FinCheck, LoadOrStore, LeaderPcs, OpenPcs
  <2>3. \A q \in Req : ReqInv(q)'
    BY <1>11 DEF IndInv, TypeInv, ReqInv, TableInv, FinCheck, LoadOrStore, PCs, Outs, Contents, FollowerPcs, LeaderPcs, OpenPcs, GoodOut, Solo, Key, Rendered
  <2>4. TableInv'
    BY <1>11, <2>a, <2>b DEF Facts, TypeInv, TableInv, FinCheck, LoadOrStore, Key, FollowerPcs, LeaderPcs, OpenPcs
  <2> QED BY <2>1, <2>2, <2>3, <2>4 DEF IndInv
<1>12. ASSUME NEW r \in Req, FinClose(r) PROVE IndInv'
  <2>a. TypeInv /\ ~panicked /\ TableInv /\ ReqInv(r)
    BY DEF IndInv
  <2>b. Facts(r)
    BY <2>a DEF Facts, TypeInv, ReqInv, FollowerPcs, LeaderPcs, OpenPcs
  <2>c. Key(r) \in Keys /\ Rendered(r) \in {"upstream", "otherdata", "solo"}
    BY <2>a DEF TypeInv, Key, Rendered
  <2>1. TypeInv'
    BY <1>12, <2>a, <2>b, <2>c DEF Facts, TypeInv, FinClose, LoadOrStore, PCs, Outs, Contents, FollowerPcs, LeaderPcs, OpenPcs
  <2>2. ~panicked'
    BY <1>12, <2>a, <2>b DEF Facts, FinClose, LoadOrStore, LeaderPcs, OpenPcs
  <2>3. \A q \in Req : ReqInv(q)'
    BY <1>12 DEF IndInv, TypeInv, ReqInv, TableInv, FinClose, LoadOrStore, PCs, Outs, Contents, FollowerPcs, LeaderPcs, OpenPcs, GoodOut, Solo, Key, Rendered
  <2>4. TableInv'
    BY <1>12, <2>a, <2>b DEF Facts, TypeInv, TableInv, FinClose, LoadOrStore, Key, FollowerPcs, LeaderPcs, OpenPcs
  <2> QED BY <2>1, <2>2, <2>3, <2>4 DEF IndInv
<1>13. ASSUME NEW r \in Req, Return(r) PROVE IndInv'
  <2>a. TypeInv /\ ~panicked /\ TableInv /\ ReqInv(r)
    BY DEF IndInv
  <2>b. Facts(r)
    BY <2>a DEF Facts, TypeInv, ReqInv, FollowerPcs, LeaderPcs, OpenPcs
  <2>c. Key(r) \in Keys /\ Rendered(r) \in {"upstream", "otherdata", "solo"}
    BY <2>a DEF TypeInv, Key, Rendered
  <2>1. TypeInv'
    BY <1>13, <2>a, <2>b, <2>c DEF Facts, TypeInv, Return, LoadOrStore, PCs, Outs, Contents, FollowerPcs, LeaderPcs, OpenPcs
  <2>2. ~panicked'
    BY <1>13, <2>a, <2>b DEF Facts, Return, LoadOrStore, LeaderPcs, OpenPcs
  <2>3. \A q \in Req : ReqInv(q)'
    BY <1>13 DEF IndInv, TypeInv, ReqInv, TableInv, Return, LoadOrStore, PCs, Outs, Contents, FollowerPcs, LeaderPcs, OpenPcs, GoodOut, Solo, Key, Rendered
  <2>4. TableInv'
    BY <1>13, <2>a, <2>b DEF Facts, TypeInv, TableInv, Return, LoadOrStore, Key, FollowerPcs, LeaderPcs, OpenPcs
  <2> QED BY <2>1, <2>2, <2>3, <2>4 DEF IndInv
<1>14. ASSUME NEW r \in Req, Cancel(r) PROVE IndInv'
  <2>a. TypeInv /\ ~panicked /\ TableInv /\ ReqInv(r)
    BY DEF IndInv
  <2>b. Facts(r)
    BY <2>a DEF Facts, TypeInv, ReqInv, FollowerPcs, LeaderPcs, OpenPcs
  <2>c. Key(r) \in Keys /\ Rendered(r) \in {"upstream", "otherdata", "solo"}
    BY <2>a DEF TypeInv, Key, Rendered
  <2>1. TypeInv'
    BY <1>14, <2>a, <2>b, <2>c DEF Facts, TypeInv, Cancel, LoadOrStore, PCs, Outs, Contents, FollowerPcs, LeaderPcs, OpenPcs
  <2>2. ~panicked'
    BY <1>14, <2>a, <2>b DEF Facts, Cancel, LoadOrStore, LeaderPcs, OpenPcs
  <2>3. \A q \in Req : ReqInv(q)'
    BY <1>14 DEF IndInv, TypeInv, ReqInv, TableInv, Cancel, LoadOrStore, PCs, Outs, Contents, FollowerPcs, LeaderPcs, OpenPcs, GoodOut, Solo, Key, Rendered
  <2>4. TableInv'
    BY <1>14, <2>a, <2>b DEF Facts, TypeInv, TableInv, Cancel, LoadOrStore, Key, FollowerPcs, LeaderPcs, OpenPcs
  <2> QED BY <2>1, <2>2, <2>3, <2>4 DEF IndInv
<1>15. CASE UNCHANGED vars
  BY <1>15 DEF IndInv, TypeInv, ReqInv, TableInv, vars, GoodOut, Solo, Key
<1> QED
  BY NextCases, <1>1, <1>2, <1>3, <1>4, <1>5, <1>6, <1>7, <1>8, <1>9, <1>10, <1>11, <1>12, <1>13, <1>14, <1>15

THEOREM SpecIndInv == Spec => []IndInv
  BY InitIndInv, IndInvNext, PTL DEF Spec

THEOREM SpecSafety == Spec => []Safety
  BY SpecIndInv, IndInvSafety, PTL

THEOREM SpecAnySafety == SpecAny => []Safety
  BY InitAnyIndInv, IndInvNext, IndInvSafety, PTL DEF SpecAny
=============================================================================
