CONSTANTS
  NS = 2
  MaxEvents = 3
  MaxTerm = 99
  MaxSrcTerm = 99
  MaxHB = 99
  UseD = TRUE
  StartModes <- StartAll
  FixD5 = FALSE
  FixD6 = FALSE
  CfgOK <- CfgAll
  Soft = TRUE
  Prop = "C13"
SPECIFICATION TraceSpec
CONSTRAINT HighWater
CONSTRAINT Judge
VIEW TraceView
POSTCONDITION TraceAccepted
CHECK_DEADLOCK FALSE
