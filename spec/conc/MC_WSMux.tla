------------------------------ MODULE MC_WSMux ------------------------------
EXTENDS WSMux
\* properties every model of the code must have (as it is, and repaired)
Safe == TypeOK /\ Routed /\ TerminalLocal /\ NothingAfterTerminal /\ SharedOnlyIfSameKey /\ NoLeak /\ NoStall

\* "slow upstream": the server acts only when the client side has nothing left to do, callers act at any time.
\* (Spec = everything interleaves with everything; SpecQ is what makes three subscribers tractable.)
SrvEnv ==
  \/ \E c \in Conn : SrvUpgrade(c) \/ SrvReject(c) \/ SrvAck(c) \/ SrvInitFail(c) \/ SrvClose(c, 0) \/ SrvMute(c)
                     \/ SrvHoldClose(c) \/ SrvRelease(c)
  \/ \E c \in Conn, s \in Subs, k \in Kinds : SrvSend(c, s, k, IF k = "next" THEN "d" ELSE "-", FALSE, None)
  \/ \E c \in Conn, s \in Subs : SrvSend(c, s, "next", "d", TRUE, None)
  \/ \E c \in Conn, s, t \in Subs : SrvSend(c, s, "next", "d", FALSE, t)
NextQ == \/ \E s \in Subs : Call(s) \/ Cancel(s)
         \/ Quiescent /\ SrvEnv
         \/ \E s \in Subs : InternalSub(s)
         \/ \E c \in Conn : InternalConn(c) \/ IdleFire(c) \/ PingSpurious(c)
SpecQ == Init /\ [][NextQ]_vars
=============================================================================
