CONSTANTS
  N = 3
  Fixed = FALSE
  MaxCancels = 1
SPECIFICATION MCSpec
INVARIANTS NoPanic NoForeignCancel
