---------------------------- MODULE Trace_SSEMux ----------------------------
(* Trace validation for the SSE part of C18 (see Trace_WSMux for the method).  *)
(* Every server-side event carries the subscriber whose request it concerns    *)
(* (the server reads it from the GraphQL request body / query parameter), so   *)
(* "one request per subscription, nothing shared" is checked by T_SrvReq: a    *)
(* request is accepted only for a subscriber that has exactly one call open.   *)
EXTENDS SSEMux, Json, TLCExt, IOUtils
TraceLog == TLCGet(2)
VARIABLES l, tid, rets, reqs
tvars == <<svars, l, tid, rets, reqs>>
Ev == TraceLog[l]
IsEvent(e) == l <= Len(TraceLog) /\ Ev.ev = e /\ l' = l + 1
Keep == UNCHANGED <<tid, rets, reqs>>
Same == UNCHANGED svars

TraceInit ==
  /\ l = 1 /\ TLCSet(1, 0) /\ TLCSet(2, ndJsonDeserialize(IOEnv.TRACE))
  /\ SInit /\ tid = "none" /\ rets = {} /\ reqs = {}

T_Reset ==
  /\ IsEvent("reset")
  /\ IF l = 1 THEN TRUE ELSE TraceLog[l - 1].ev = "end"
  /\ st' = [s \in Subs |-> StInit]
  /\ down' = [s \in Subs |-> <<>>] /\ hlog' = [s \in Subs |-> <<>>] /\ sent' = [s \in Subs |-> <<>>]
  /\ nframes' = 0 /\ ncancel' = 0
  /\ tid' = Ev.id /\ rets' = {} /\ reqs' = {}

T_Call == IsEvent("call") /\ Ev.s \in Subs /\ SCall(Ev.s) /\ Keep
T_Cancel ==
  /\ IsEvent("cancel") /\ Ev.s \in Subs /\ ~st[Ev.s].ctxc
  /\ st' = [st EXCEPT ![Ev.s].ctxc = TRUE]
  /\ UNCHANGED <<down, hlog, sent, nframes, ncancel>> /\ Keep
T_CancelDone == IsEvent("cancel.done") /\ Same /\ Keep
T_Ret ==
  /\ IsEvent("ret") /\ Ev.s \in Subs /\ Ev.s \notin rets
  /\ IF Ev.x = "ok" THEN st[Ev.s].pc = "streaming" ELSE st[Ev.s].pc = "failed" /\ (Ev.x = "fail" \/ st[Ev.s].err = Ev.x)
  /\ rets' = rets \cup {Ev.s} /\ Same /\ UNCHANGED <<tid, reqs>>
T_Handler ==
  /\ IsEvent("h") /\ Ev.s \in Subs
  /\ IF Ev.k = "connerr" THEN SReadErr(Ev.s)
     ELSE /\ SDispatch(Ev.s) /\ Head(down[Ev.s]).k = Ev.k
          /\ Ev.k = "complete" \/ (Head(down[Ev.s]).n = Ev.n /\ Ev.id = Ev.s)
          /\ Ev.k # "next" \/ Ev.v = "d"       \* the payload as sent: data only, naming this frame
  /\ Keep
T_Unsub == IsEvent("unsub") /\ Ev.s \in Subs /\ st[Ev.s].unsub /\ Same /\ Keep

\* exactly one request per Subscribe call
T_SrvReq ==
  /\ IsEvent("srv.req") /\ Ev.s \in Subs /\ Ev.s \notin reqs /\ st[Ev.s].pc # "idle"
  /\ reqs' = reqs \cup {Ev.s} /\ Same /\ UNCHANGED <<tid, rets>>
T_SrvRespond == IsEvent("srv.upgrade") /\ Ev.s \in reqs /\ SrvRespond(Ev.s) /\ Keep
T_SrvReject  == IsEvent("srv.reject") /\ Ev.s \in reqs /\ SrvRejectS(Ev.s) /\ Keep
T_SrvClose   == IsEvent("srv.close") /\ Ev.s \in reqs /\ SrvEnd(Ev.s) /\ Keep
T_SrvSend    == /\ IsEvent("srv.send") /\ Ev.s \in reqs /\ Ev.k \in Kinds /\ Ev.n = Len(sent[Ev.s]) + 1
                /\ SrvEvent(Ev.s, Ev.k) /\ Keep
T_SrvGone ==
  /\ IsEvent("srv.gone") /\ Ev.s \in reqs
  /\ IF Ev.x = "server" THEN st[Ev.s].srv \in {"closed", "rejected"} ELSE ClientGone(Ev.s) \/ st[Ev.s].srv = "closed"
  /\ Same /\ Keep

Returned == \A s \in Subs : st[s].pc \in {"streaming", "failed"} => s \in rets
T_Quiet == IsEvent("quiet") /\ SQuiescent /\ Returned /\ Same /\ Keep
T_Stats == IsEvent("stats") /\ Ev.n = 0 /\ Cardinality({s \in Subs : st[s].inmap}) = Ev.m /\ Same /\ Keep
T_SrvOpen ==
  /\ IsEvent("srv.open")
  /\ Cardinality({s \in reqs : st[s].srv \in {"gate", "streaming"} /\ ~ClientGone(s)}) = Ev.n
  /\ Same /\ Keep
T_IdleWait == IsEvent("idlewait") /\ Same /\ Keep
T_End == IsEvent("end") /\ SQuiescent /\ Returned /\ Same /\ Keep

Silent ==
  /\ \E s \in Subs : RespOk(s) \/ RespRejected(s) \/ RespCtx(s) \/ SReadErrDecide(s) \/ SReadQuiet(s) \/ ReqCancel(s) \/ Unsub(s)
  /\ l <= Len(TraceLog)
  /\ UNCHANGED <<l, tid, rets, reqs>>

TraceNext ==
  \/ T_Reset \/ T_Call \/ T_Cancel \/ T_CancelDone \/ T_Ret \/ T_Handler \/ T_Unsub
  \/ T_SrvReq \/ T_SrvRespond \/ T_SrvReject \/ T_SrvClose \/ T_SrvSend \/ T_SrvGone
  \/ T_Quiet \/ T_Stats \/ T_SrvOpen \/ T_IdleWait \/ T_End \/ Silent
TraceSpec == TraceInit /\ [][TraceNext]_tvars

HighWater == TLCSet(1, IF l > TLCGet(1) THEN l ELSE TLCGet(1))
TraceAccepted ==
  IF TLCGet(1) = Len(TraceLog) + 1 THEN TRUE
  ELSE /\ PrintT(<<"TRACE_STUCK_AT_LINE", TLCGet(1)>>)
       /\ FALSE
=============================================================================
