CONSTANTS
  N = 2
  MaxFrames = 2
  MaxCancels = 2
  MaxSteps = 7
SPECIFICATION GenSpec
CONSTRAINT GenConstraint
CHECK_DEADLOCK FALSE
