CONSTANTS
  Proto = "tws"
  Impl = "pinned"
  Echo = TRUE
  MaxLen = 8
  Fixes = {}
  MaxIn = 4
  MaxEng = 2
  PreInit = FALSE
SPECIFICATION GenSpec
CONSTRAINT GenConstraint
CHECK_DEADLOCK FALSE
