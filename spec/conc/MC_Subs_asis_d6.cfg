CONSTANTS
  NS = 2
  MaxEvents = 0
  MaxTerm = 1
  MaxSrcTerm = 1
  MaxHB = 0
  UseD = FALSE
  StartModes <- StartAll
  FixD5 = TRUE
  FixInit = FALSE
  FixDetach = FALSE
  FixUpdater = FALSE
  CfgOK <- CfgOne
  Features <- FeatNone
SPECIFICATION MCSpec
VIEW View
INVARIANTS TypeOK ClosedOnce RegistryConsistent SharedIffSameKey StartOncePerLivePeriod NoStaleInit NoStaleDetach NoStaleUpdater NoLateInit

