CONSTANTS
  Proto = "gws"
  Impl = "ref"
  Echo = TRUE
  MaxLen = 6
  Fixes = {}
  MaxIn = 3
  MaxEng = 2
SPECIFICATION Spec
INVARIANTS Accepted OutputAllowed NoStartBeforeInit OneTerminal NothingAfterTerminal NeverWedged Tracks Released
PROPERTIES Answered
