----------------------------- MODULE Gen_WSMux -----------------------------
(* Generator: behaviours of WSMux as schedules for harness/cmd/wsmux.        *)
(* A schedule is the sequence of ENVIRONMENT actions (Subscribe calls,        *)
(* context cancellations, server gate releases, scripted frames, drops, idle  *)
(* waits); the harness performs one, lets the real code run until nothing     *)
(* moves any more, then performs the next.  Accordingly environment actions   *)
(* are taken in quiescent states only, internal actions run in between in     *)
(* any order, and idle timers fire only in an explicit IdleWait step.         *)
(* hist makes every distinct prefix a distinct state: BFS enumerates all      *)
(* schedules up to MaxSteps, -simulate samples them.                          *)
EXTENDS WSMux, Json
CONSTANT MaxSteps
VARIABLE hist
gvars == <<vars, hist>>

Act(a, s, c, k, v, sc, sp) == [a |-> a, s |-> s, c |-> c, k |-> k, v |-> v, sc |-> sc, sp |-> sp]
Log(a, s, c, k) == hist' = Append(hist, Act(a, s, c, k, "-", FALSE, 0))
\* consecutive next frames carry different top-level field sets (errors, then plain data, then extensions, ...)
GenV(k) == IF k = "next" THEN <<"de", "d", "dx">>[(nframes % 3) + 1] ELSE "-"
\* the upstream closes with a close frame (code 4400) in the idle = zero configurations, by dropping TCP otherwise
GenCode == IF cfg.idle = "zero" THEN 4400 ELSE 0

\* all idle timers that are pending expire (the harness sleeps idle + slack)
IdleWait ==
  /\ \E c \in Conn : conn[c].timers > 0
  /\ conn' = [c \in Conn |->
                IF conn[c].timers = 0 THEN conn[c]
                ELSE IF NoSubs(c) THEN [ShutRec(conn[c], "idle", {}) EXCEPT !.timers = 0]
                ELSE [conn[c] EXCEPT !.timers = 0]]
  /\ UNCHANGED <<cfg, sub, subs, dialing, conns, down, hlog, sent, nconn, nframes, ncancel>>

GenEnv ==
  \/ \E s \in Subs : /\ \A q \in 1..(s - 1) : sub[q].pc # "idle"      \* subscribers are started in index order
                     /\ Call(s) /\ Log("Call", s, 0, "")
  \/ \E s \in Subs : Cancel(s) /\ Log("Cancel", s, 0, "")
  \/ \E c \in Conn : \/ SrvUpgrade(c) /\ Log("Upgrade", 0, c, "")
                     \/ SrvReject(c) /\ Log("Reject", 0, c, "")
                     \/ SrvAck(c) /\ Log("Ack", 0, c, "")
                     \/ SrvInitFail(c) /\ Log("InitFail", 0, c, "")
                     \/ SrvClose(c, GenCode) /\ Log("Close", 0, c, IF GenCode = 0 THEN "" ELSE "4400")
                     \/ SrvMute(c) /\ Log("Mute", 0, c, "")
                     \/ SrvHoldClose(c) /\ Log("HoldClose", 0, c, "")
                     \/ SrvRelease(c) /\ Log("Release", 0, c, "")
  \/ \E c \in Conn, s \in Subs, k \in Kinds :
        SrvSend(c, s, k, GenV(k), FALSE, None) /\ hist' = Append(hist, Act("Send", s, c, k, GenV(k), FALSE, 0))
  \* re-entrant handlers: the receiver cancels itself / subscribes an idle subscriber of its option tuple (re-use certain)
  \/ \E c \in Conn, s \in Subs :
        SrvSend(c, s, "next", GenV("next"), TRUE, None) /\ hist' = Append(hist, Act("Send", s, c, "next", GenV("next"), TRUE, 0))
  \/ \E c \in Conn, s, t \in Subs :
        /\ conns[Key(s)] = c /\ ~conn[c].closed
        /\ SrvSend(c, s, "next", GenV("next"), FALSE, t) /\ hist' = Append(hist, Act("Send", s, c, "next", GenV("next"), FALSE, t))
  \/ IdleWait /\ Log("IdleWait", 0, 0, "")

GenInit == Init /\ hist = <<>>
GenNext ==
  \/ /\ \/ \E s \in Subs : InternalSub(s)
        \/ \E c \in Conn : InternalConn(c)
     /\ UNCHANGED hist
  \/ Quiescent /\ Len(hist) < MaxSteps /\ GenEnv
GenSpec == GenInit /\ [][GenNext]_gvars

\* one schedule per quiescent state: configuration, environment steps, and what the spec predicts at that point
Emit ==
  IF Quiescent /\ Len(hist) > 0
  THEN PrintT(ToJson([key |-> cfg.key, idle |-> cfg.idle, bad |-> cfg.bad, ping |-> cfg.ping, hold |-> cfg.hold, reent |-> cfg.reent, steps |-> hist,
                      dialler |-> [c \in Conn |-> conn[c].dialler],
                      reach |-> [c \in Conn |-> conn[c].srv # "none"],   \* the dial reaches the server (not pre-cancelled)
                      exp |-> [s \in Subs |-> [pc |-> sub[s].pc, err |-> sub[s].err, blame |-> sub[s].blame, h |-> hlog[s]]]]))
  ELSE TRUE
GenConstraint == Emit
=============================================================================
