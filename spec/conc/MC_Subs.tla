------------------------------- MODULE MC_Subs -------------------------------
(* Model checking of Subscriptions: all interleavings at event grain.          *)
EXTENDS Subscriptions
Terminating == AllRest /\ UNCHANGED vars
\* partial-order reduction: an action that touches nothing but its actor's own control state (a marker event)
\* commutes with every action of every other actor and is invisible to the properties, so it is taken first
LocalPCs == {"h.spawned", "h.fail", "c.added", "c.ret", "un.call", "u.spawned", "u.locked", "u.fin", "g.spawned", "g.fin", "sh.spawned", "sh.fin"}
IsLocal(a) == ac[a].pc \in LocalPCs \/ (ac[a].pc = "td" /\ ac[a].cq # {})
PorNext == IF \E a \in Actors : IsLocal(a)
           THEN Micro(CHOOSE a \in Actors : IsLocal(a))
           ELSE Next
MCNext == PorNext \/ Terminating
FullNext == Next \/ Terminating
FullSpec == Init /\ [][FullNext]_vars
MCSpec == Init /\ [][MCNext]_vars
\* liveness: with weak fairness of the code under test (not of the environment's commands) every goroutine
\* comes to rest and, once the resolver context is cancelled, the registry empties
MCLive == MCSpec /\ \A a \in Actors : WF_vars(Internal(a))
NoWedge == \A a \in Actors : []<>AtRest(a)
ShutdownCompletes == g.rctx ~> Quiet
DetachedGetsCancelled == \A i \in Inst : (g.created[i] /\ \A k \in Keys : g.reg[k] # i) ~> g.tctx[i]
\* lab is the label of the incoming transition: not part of the state
View == <<cfg, g, o, ac>>
\* the explicit blocking predicate agrees with ENABLED
BlockedOK == \A a \in Actors : (~AtRest(a)) => (Blocked(a) <=> ~ENABLED Micro(a))
NoFetch(c) == c.fetch = [s \in Subs |-> FALSE]
CfgAll(c) == TRUE
CfgSync(c) == c.sync /\ c.key = [s \in Subs |-> 1] /\ c.filt = [s \in Subs |-> "all"] /\ c.conn = [s \in Subs |-> s]
CfgHooks(c) == c.hooks /\ c.key = [s \in Subs |-> 1] /\ c.filt = [s \in Subs |-> "all"] /\ c.conn = [s \in Subs |-> s] /\ c.fetch = AllFalse /\ c.rerr = AllFalse
CfgErr(c) == c.key = [s \in Subs |-> 1] /\ c.conn = [s \in Subs |-> s] /\ c.fetch = AllFalse /\ c.filt[1] = "all" /\ c.rerr[1] = FALSE
             /\ (c.filt[2] = "err" \/ c.rerr[2]) /\ c.filt[2] # "odd"
FeatNone == {}
FeatFetch == {"fetch"}
FeatErr == {"ferr", "rerr"}
FeatHooks == {"hooks"}
FeatAll == {"fetch", "ferr", "rerr", "hooks", "sync"}
FeatSync == {"sync"}
\* both subscribers of one trigger resolve a nested fetch per event
CfgFetch(c) == c.key = [s \in Subs |-> 1] /\ c.filt = [s \in Subs |-> "all"] /\ c.conn = [s \in Subs |-> s] /\ c.fetch = [s \in Subs |-> TRUE]
\* both subscribers on one trigger, own connections / different triggers on one connection
CfgSame(c) == NoFetch(c) /\ c.key = [s \in Subs |-> 1] /\ c.filt[1] = "all" /\ c.conn = [s \in Subs |-> s]
CfgDiff(c) == NoFetch(c) /\ c.key = [s \in Subs |-> s] /\ c.filt[1] = "all" /\ c.filt[2] = "all" /\ c.conn = [s \in Subs |-> 1]
CfgOne(c) == NoFetch(c) /\ c.key = [s \in Subs |-> 1] /\ c.filt = [s \in Subs |-> "all"] /\ c.conn = [s \in Subs |-> s]
StartOK == {"ok"}
StartAll == {"ok", "fail", "ctx"}
=============================================================================
