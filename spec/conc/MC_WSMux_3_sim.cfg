CONSTANTS
  N = 3
  NK = 2
  MaxConn = 3
  MaxFrames = 3
  MaxCancels = 3
  Fixes = {}
  CfgSet <- ConfigsX
SPECIFICATION Spec
INVARIANTS TypeOK Routed TerminalLocal NothingAfterTerminal SharedOnlyIfSameKey NoLeak NoStall
CHECK_DEADLOCK FALSE
