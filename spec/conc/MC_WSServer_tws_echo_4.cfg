CONSTANTS
  Proto = "tws"
  Impl = "ref"
  Echo = TRUE
  MaxLen = 8
  Fixes = {}
  MaxIn = 4
  MaxEng = 3
SPECIFICATION Spec
INVARIANTS Accepted OutputAllowed NoStartBeforeInit OneTerminal NothingAfterTerminal NeverWedged Tracks Released
PROPERTIES Answered
