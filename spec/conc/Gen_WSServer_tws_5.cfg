CONSTANTS
  Proto = "tws"
  Impl = "pinned"
  Echo = TRUE
  MaxLen = 8
  Fixes = {}
  Syms = {"init", "initrej", "terminate", "ping", "pong", "sub1q", "sub1s", "sub2q", "subbad", "comp1", "comp9", "unknown", "malformed", "missingid", "binary", "readerr"}
  EngWhats = {"data", "fin", "error", "result"}
  Extras = TRUE
  MaxIn = 5
  MaxEng = 3
  PreInit = TRUE
SPECIFICATION GenSpec
CONSTRAINT GenConstraint
CHECK_DEADLOCK FALSE
