CONSTANTS
  Proto = "tws"
  Impl = "pinned"
  Echo = TRUE
  MaxLen = 8
  Fixes = {}
  MaxIn = 5
  MaxEng = 3
  PreInit = TRUE
SPECIFICATION GenSpec
CONSTRAINT GenConstraint
CHECK_DEADLOCK FALSE
