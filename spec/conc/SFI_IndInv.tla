----------------------------- MODULE SFI_IndInv -----------------------------
(***************************************************************************)
(* Unbounded-N safety argument for SingleFlightInbound (C11), repaired     *)
(* protocol (Fixed = TRUE).                                                *)
(*                                                                         *)
(* This module EXTENDS SingleFlightInbound: Init, Next, every action and   *)
(* the six safety properties are the ones TLC checks for N <= 3 and the    *)
(* trace validator replays - nothing is copied or re-stated.               *)
(*                                                                         *)
(* It defines the inductive invariant IndInv and states the theorems.      *)
(* The machine-checked TLAPS proofs (arbitrary N \in Nat) are in           *)
(* SFI_IndInv_proofs.tla; this module has no TLAPS dependency, so TLC can  *)
(* check IndInv as an ordinary invariant (SFI_IndInv_3.cfg).               *)
(* Re-run everything: spec/conc/check_sfi_indinv.sh                        *)
(***************************************************************************)
EXTENDS SingleFlightInbound

\* The only assumptions.  N is ANY natural number (N = 0 is the empty system).
ASSUME ConstAssump == N \in Nat /\ MaxCancels \in Nat /\ Fixed = TRUE

PCs == {"start", "loadedL", "loadedF", "registered", "wokeD", "wokeC", "loading",
        "finOkDeleted", "finErrDeleted", "finAbDeleted", "finOkChecked", "finClosed", "returned"}
Outs == {"none", "solo", "upstream", "ctx", "otherdata", "panic"}
Contents == {"none", "solo", "otherdata", "upstream"}

TypeInv ==
  /\ cfg \in [key: [Req -> Keys], elig: [Req -> BOOLEAN], work: [Keys -> {"ok", "err"}]]
  /\ table \in [Keys -> Req \cup {None}]
  /\ done \in [Req -> BOOLEAN]
  /\ pub \in [Req -> {"none", "data", "err"}]
  /\ pubc \in [Req -> Contents]
  /\ followers \in [Req -> Nat]
  /\ pc \in [Req -> PCs]
  /\ mine \in [Req -> Req \cup {None}]
  /\ lead \in [Req -> BOOLEAN]
  /\ content \in [Req -> Contents]
  /\ cancelled \in [Req -> BOOLEAN]
  /\ out \in [Req -> Outs]
  /\ panicked \in BOOLEAN
  /\ ncancel \in Nat

\* what Transparent allows request r to return
GoodOut(r, v) == v = Solo(r) \/ (cancelled[r] /\ v \in {"ctx", "otherdata"})

FollowerPcs == {"loadedF", "registered", "wokeD", "wokeC"}
LeaderPcs   == {"loadedL", "finOkDeleted", "finErrDeleted", "finAbDeleted", "finOkChecked", "finClosed"}
OpenPcs     == {"loadedL", "loading", "finOkDeleted", "finErrDeleted", "finAbDeleted"}

ReqInv(r) ==
  \* ---- who leads what
  /\ lead[r] <=> mine[r] = r
  /\ mine[r] # None => cfg.elig[r] /\ cfg.elig[mine[r]] /\ Key(mine[r]) = Key(r)
  /\ pc[r] = "start" => mine[r] = None
  /\ pc[r] \in FollowerPcs => mine[r] # None /\ mine[r] # r
  /\ pc[r] \in LeaderPcs => mine[r] = r
  /\ pc[r] = "loading" => mine[r] = None \/ mine[r] = r
  \* ---- life cycle of the entry created by r (entry id = r)
  /\ mine[r] # r => ~done[r] /\ pub[r] = "none"
  /\ pc[r] \in OpenPcs => ~done[r] /\ pub[r] = "none"
  /\ pc[r] = "finOkChecked" => ~done[r] /\ pub[r] # "err"
  /\ pc[r] = "finClosed" => done[r]
  /\ pub[r] = "data" => pubc[r] = "solo" /\ cfg.work[Key(r)] = "ok"
  /\ pub[r] = "err" => cfg.work[Key(r)] = "err"
  \* ---- what r rendered / is about to return
  /\ pc[r] \in {"finOkDeleted", "finOkChecked"} => content[r] = "solo" /\ cfg.work[Key(r)] = "ok"
  /\ pc[r] = "finErrDeleted" => content[r] = "upstream" /\ cfg.work[Key(r)] = "err"
  /\ pc[r] = "finAbDeleted" => content[r] = "otherdata" /\ cancelled[r]
  /\ pc[r] = "finClosed" => GoodOut(r, content[r])
  /\ pc[r] = "returned" => GoodOut(r, out[r])
  \* ---- followers
  /\ pc[r] = "wokeD" => done[mine[r]]
  /\ pc[r] = "wokeC" => cancelled[r]
  /\ (pc[r] = "returned" /\ mine[r] # None /\ mine[r] # r /\ out[r] \in {"solo", "otherdata"})
        => pub[mine[r]] = "data" /\ done[mine[r]]

TableInv ==
  \A k \in Keys : table[k] # None =>
      /\ mine[table[k]] = table[k]
      /\ pc[table[k]] \in {"loadedL", "loading"}
      /\ Key(table[k]) = k
      /\ cfg.elig[table[k]]

IndInv ==
  /\ TypeInv
  /\ ~panicked
  /\ \A r \in Req : ReqInv(r)
  /\ TableInv

Safety == NoPanic /\ LeaderOwnsEntry /\ NoForeignCancel /\ Transparent /\ SharedOnlyIfSameKey /\ NoTornBuffer

\* Init of SingleFlightInbound restricts cfg to the symmetry-reduced set Configs (key[r] <= r, dense
\* keys, unused keys succeed).  The invariant needs only the TYPE of cfg, so the result also holds
\* from InitAny: every assignment of keys / eligibility / upstream outcomes, no symmetry argument.
CfgType == [key: [Req -> Keys], elig: [Req -> BOOLEAN], work: [Keys -> {"ok", "err"}]]
InitAny ==
  /\ cfg \in CfgType
  /\ table = [k \in Keys |-> None]
  /\ done = [e \in Req |-> FALSE]
  /\ pub = [e \in Req |-> "none"]
  /\ pubc = [e \in Req |-> "none"]
  /\ followers = [e \in Req |-> 0]
  /\ pc = [r \in Req |-> "start"]
  /\ mine = [r \in Req |-> None]
  /\ lead = [r \in Req |-> FALSE]
  /\ content = [r \in Req |-> "none"]
  /\ cancelled = [r \in Req |-> FALSE]
  /\ out = [r \in Req |-> "none"]
  /\ panicked = FALSE
  /\ ncancel = 0
SpecAny == InitAny /\ [][Next]_vars

-----------------------------------------------------------------------------
(* Theorems.  Stated here without proof (and without names, so that nothing *)
(* can cite them as facts); proved, under the same statements, in           *)
(* SFI_IndInv_proofs.tla: InitIndInv, InitAnyIndInv, IndInvNext,            *)
(* IndInvSafety, SpecIndInv, SpecSafety, SpecAnySafety.                     *)
THEOREM Init => IndInv
THEOREM InitAny => IndInv
THEOREM IndInv /\ [Next]_vars => IndInv'
THEOREM IndInv => Safety
THEOREM Spec => []IndInv
THEOREM Spec => []Safety
THEOREM SpecAny => []Safety
=============================================================================
