#!/bin/bash
# Re-runs the unbounded-N safety arguments for both single-flight protocols of C11, see design.d/C11-proof.md:
#   SFI = SingleFlightInbound  (SFI_IndInv.tla, SFI_IndInv_proofs.tla, SFI_IndInv_neg.tla, SFI_IndInv_3.cfg)
#   SFS = SingleFlightSubgraph (SFS_IndInv.tla, SFS_IndInv_proofs.tla, SFS_IndInv_neg.tla, SFS_IndInv_3.cfg)
# For each of the two:
#   1. TLC   : IndInv (and the six safety properties) hold in every reachable state for N = 3
#              (sanity: the invariant is not vacuous / not too strong on the reachable states).
#   2. TLAPS : <X>_IndInv_proofs.tla from an EMPTY fingerprint cache - Init => IndInv,
#              IndInv /\ [Next]_vars => IndInv', IndInv => Safety, Spec => []Safety for arbitrary N \in Nat;
#              tlapm --summary must report no missing / omitted proof.
#   3. (--neg) negative control: the step obligations that depend on the repair, WITHOUT the fact
#              Fixed = TRUE, must be rejected (<X>_IndInv_neg.tla: exactly the 2 *_NoFix lemmas fail).
#
# Exit 0 iff every part succeeded; prints "All <n> obligations proved" per module and a final "RESULT: PASS".
# Runs in a scratch copy (the tools litter), removes it afterwards.
# Usage: check_sfi_indinv.sh [--neg] [sfi|sfs]      (default: both protocols)
# Tunables: THREADS (default 8), STRETCH (tlapm timeout multiplier, default 3 - the box is shared),
#           KEEP=1 keeps the scratch dir.
# Measured (load average 50-65): SFI TLC 6-19 s + tlapm 75 s, SFS TLC 7 s + tlapm 41 s; --neg adds 40 s each;
#           whole script with --neg about 4 min.
set -u
HERE="$(cd "$(dirname "$0")" && pwd)"
THREADS="${THREADS:-8}"
STRETCH="${STRETCH:-3}"
NEG=0
WHICH="sfi sfs"
for a in "$@"; do
  case "$a" in
    --neg) NEG=1 ;;
    sfi|SFI) WHICH="sfi" ;;
    sfs|SFS) WHICH="sfs" ;;
    *) echo "usage: $0 [--neg] [sfi|sfs]"; exit 2 ;;
  esac
done

S="$(mktemp -d /tmp/sfi-indinv.XXXXXX)"
cleanup() { [ "${KEEP:-0}" = "1" ] && echo "scratch kept: $S" || rm -rf "$S"; }
trap cleanup EXIT
cp "$HERE/SingleFlightInbound.tla" "$HERE/SingleFlightSubgraph.tla" \
   "$HERE"/SFI_IndInv*.tla "$HERE"/SFS_IndInv*.tla "$HERE/SFI_IndInv_3.cfg" "$HERE/SFS_IndInv_3.cfg" "$S/" || exit 2
cd "$S" || exit 2
rc=0
total=0
parts=""

# check_one <PREFIX> <base module> <what the negative control drops>
check_one() {
  local P="$1" BASE="$2" NEGWHAT="$3" t0 trc n

  echo "== $P 1. TLC: IndInv + Safety are invariants of $BASE, N = 3, Fixed = TRUE"
  t0=$(date +%s)
  timeout 300 tlc -workers "$THREADS" -metadir "$S/md-$P" -config "${P}_IndInv_3.cfg" "${P}_IndInv.tla" > "tlc-$P.log" 2>&1
  grep -E "states generated|No error has been found|Error:|is violated|Assumption" "tlc-$P.log" | tail -2
  if grep -q "Model checking completed. No error has been found." "tlc-$P.log"; then
    echo "   TLC OK ($(( $(date +%s) - t0 )) s)"
  else
    echo "   TLC FAILED (see below)"; tail -30 "tlc-$P.log"; rc=1
  fi

  echo "== $P 2. TLAPS: ${P}_IndInv_proofs, arbitrary N (empty cache, threads=$THREADS, stretch=$STRETCH)"
  t0=$(date +%s)
  timeout 400 tlapm --threads "$THREADS" --stretch "$STRETCH" --cleanfp --cache-dir "$S/cache-$P" \
          "${P}_IndInv_proofs.tla" > "tlapm-$P.log" 2>&1
  trc=$?
  grep -E "obligations? (proved|failed)" "tlapm-$P.log"
  if [ $trc -eq 0 ] && grep -Eq "All [0-9]+ obligations? proved" "tlapm-$P.log"; then
    n=$(grep -Eo "All [0-9]+ obligations? proved" "tlapm-$P.log" | grep -Eo "[0-9]+" | head -1)
    total=$((total + n)); parts="$parts $P=$n"
    echo "   TLAPS OK ($(( $(date +%s) - t0 )) s)"
    # no proof may be missing or omitted (tlapm --summary lists missing_proofs_count / omitted_proofs_count if any)
    timeout 120 tlapm --summary --cache-dir "$S/cache-$P" "${P}_IndInv_proofs.tla" > "summary-$P.log" 2>&1
    grep -E "obligations_count|missing_proofs_count|omitted_proofs_count" "summary-$P.log" | head -3
    if ! grep -q "obligations_count" "summary-$P.log" || grep -Eq "missing_proof|omitted_proof" "summary-$P.log"; then
      echo "   but the proof is incomplete (missing / omitted steps)"; rc=1
    else
      echo "   no missing / omitted proof steps"
    fi
  else
    echo "   TLAPS FAILED (rc=$trc); unproved obligations at:"
    grep -A1 "^File" "tlapm-$P.log" | grep -B1 "ERROR" | grep "^File" | head -20
    rc=1
  fi

  if [ $NEG -eq 1 ]; then
    echo "== $P 3. negative control: $NEGWHAT without Fixed = TRUE must NOT be provable"
    t0=$(date +%s)
    timeout 300 tlapm --threads "$THREADS" --stretch "$STRETCH" --cleanfp --cache-dir "$S/cache-neg-$P" \
            "${P}_IndInv_neg.tla" > "neg-$P.log" 2>&1
    grep -E "obligations? (proved|failed)" "neg-$P.log" | sed 's/^/   (negative control) /'
    # the failed obligations must be exactly the two BY lines that do not cite FixedTrue
    local bad=0 nfail=0 l
    for l in $(grep -A1 "^File" "neg-$P.log" | grep -B1 "ERROR" | grep "^File" | grep -v "line 1, character 1 to" | sed 's/.*line \([0-9]*\),.*/\1/'); do
      nfail=$((nfail+1))
      sed -n "${l}p" "${P}_IndInv_neg.tla" | grep -q "BY NoneNotReq, SMTT" || bad=1
    done
    if [ $nfail -eq 2 ] && [ $bad -eq 0 ] && grep -Eq "2/[0-9]+ obligations failed" "neg-$P.log"; then
      echo "   negative control OK: both *_NoFix obligations rejected, their *_Fix twins proved ($(( $(date +%s) - t0 )) s)"
    else
      echo "   negative control FAILED (expected exactly the 2 *_NoFix obligations to fail)"; rc=1
    fi
  fi
}

for w in $WHICH; do
  case "$w" in
    sfi) check_one SFI SingleFlightInbound  "step for AfterWokeNothing / EndWork" ;;
    sfs) check_one SFS SingleFlightSubgraph "step for AfterWokeShared (request invariant and its NoForeignCancel consequence)" ;;
  esac
done

echo "TOTAL: $total proof obligations discharged (${parts# })"
[ $rc -eq 0 ] && echo "RESULT: PASS" || echo "RESULT: FAIL"
exit $rc
