#!/bin/bash
# Re-runs the unbounded-N safety argument for SingleFlightInbound (C11), see design.d/C11-proof.md.
#
#   1. TLC   : IndInv (and the six safety properties) hold in every reachable state for N = 3
#              (sanity: the invariant is not vacuous / not too strong on the reachable states).
#   2. TLAPS : SFI_IndInv_proofs.tla from an EMPTY fingerprint cache - Init => IndInv,
#              IndInv /\ [Next]_vars => IndInv', IndInv => Safety, Spec => []Safety for arbitrary N \in Nat.
#   3. (--neg) negative control: the same step proof WITHOUT the assumption Fixed = TRUE must fail
#              (SFI_IndInv_neg.tla; the pinned protocol is not safe, so the step must not be provable).
#
# Exit 0 iff every part succeeded.  Runs in a scratch copy (the tools litter), removes it afterwards.
# Tunables: THREADS (default 8), STRETCH (tlapm timeout multiplier, default 3 - the box is shared),
#           KEEP=1 keeps the scratch dir.   Measured: TLC 6 s, tlapm 80 s (load average 65), total < 2 min.
set -u
HERE="$(cd "$(dirname "$0")" && pwd)"
THREADS="${THREADS:-8}"
STRETCH="${STRETCH:-3}"
NEG=0
[ "${1:-}" = "--neg" ] && NEG=1

S="$(mktemp -d /tmp/sfi-indinv.XXXXXX)"
cleanup() { [ "${KEEP:-0}" = "1" ] && echo "scratch kept: $S" || rm -rf "$S"; }
trap cleanup EXIT
cp "$HERE/SingleFlightInbound.tla" "$HERE/SFI_IndInv.tla" "$HERE/SFI_IndInv_proofs.tla" \
   "$HERE/SFI_IndInv_neg.tla" "$HERE/SFI_IndInv_3.cfg" "$S/" || exit 2
cd "$S" || exit 2
rc=0

echo "== 1. TLC: IndInv + Safety are invariants of SingleFlightInbound, N = 3, Fixed = TRUE"
t0=$(date +%s)
timeout 300 tlc -workers "$THREADS" -metadir "$S/md" -config SFI_IndInv_3.cfg SFI_IndInv.tla > tlc.log 2>&1
grep -E "states generated|No error has been found|Error:|is violated|Assumption" tlc.log | tail -4
if grep -q "Model checking completed. No error has been found." tlc.log; then
  echo "   TLC OK ($(( $(date +%s) - t0 )) s)"
else
  echo "   TLC FAILED (see below)"; tail -30 tlc.log; rc=1
fi

echo "== 2. TLAPS: inductive invariant for arbitrary N (empty cache, threads=$THREADS, stretch=$STRETCH)"
t0=$(date +%s)
timeout 540 tlapm --threads "$THREADS" --stretch "$STRETCH" --cleanfp --cache-dir "$S/cache" \
        SFI_IndInv_proofs.tla > tlapm.log 2>&1
trc=$?
grep -E "obligations? (proved|failed)" tlapm.log
if [ $trc -eq 0 ] && grep -Eq "All [0-9]+ obligations? proved" tlapm.log; then
  echo "   TLAPS OK ($(( $(date +%s) - t0 )) s)"
  # no proof may be missing or omitted (tlapm --summary lists missing_proofs_count / omitted_proofs_count if any)
  timeout 120 tlapm --summary --cache-dir "$S/cache" SFI_IndInv_proofs.tla > summary.log 2>&1
  grep -E "obligations_count|missing_proofs_count|omitted_proofs_count" summary.log | head -3
  if ! grep -q "obligations_count" summary.log || grep -Eq "missing_proof|omitted_proof" summary.log; then
    echo "   but the proof is incomplete (missing / omitted steps)"; rc=1
  else
    echo "   no missing / omitted proof steps"
  fi
else
  echo "   TLAPS FAILED (rc=$trc); unproved obligations at:"
  grep -A1 "^File" tlapm.log | grep -B1 "ERROR" | grep "^File" | head -20
  rc=1
fi

if [ $NEG -eq 1 ]; then
  echo "== 3. negative control: step for AfterWokeNothing / EndWork without Fixed = TRUE must NOT be provable"
  t0=$(date +%s)
  timeout 300 tlapm --threads "$THREADS" --stretch "$STRETCH" --cleanfp --cache-dir "$S/cache-neg" \
          SFI_IndInv_neg.tla > neg.log 2>&1
  grep -E "obligations? (proved|failed)" neg.log
  # the failed obligations must be exactly the two BY lines that do not cite FixedTrue
  bad=0; nfail=0
  for l in $(grep -A1 "^File" neg.log | grep -B1 "ERROR" | grep "^File" | grep -v "line 1, character 1 to" | sed 's/.*line \([0-9]*\),.*/\1/'); do
    nfail=$((nfail+1))
    sed -n "${l}p" SFI_IndInv_neg.tla | grep -q "BY NoneNotReq, SMTT" || bad=1
  done
  if [ $nfail -eq 2 ] && [ $bad -eq 0 ] && grep -Eq "2/[0-9]+ obligations failed" neg.log; then
    echo "   negative control OK: both obligations rejected ($(( $(date +%s) - t0 )) s)"
  else
    echo "   negative control FAILED (expected exactly the 2 marked obligations to fail)"; rc=1
  fi
fi

[ $rc -eq 0 ] && echo "RESULT: PASS" || echo "RESULT: FAIL"
exit $rc
