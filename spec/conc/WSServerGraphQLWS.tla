------------------------- MODULE WSServerGraphQLWS -------------------------
(***************************************************************************)
(* Acceptor for the legacy graphql-ws (subscriptions-transport-ws) server  *)
(*   execution/subscription/websocket/protocol_graphql_ws.go               *)
(*                                                                         *)
(* Server messages: connection_ack, connection_error, ka, data, error,     *)
(* complete.  The statement prescribes no close codes here; what it does   *)
(* prescribe is the per-operation discipline (data* then exactly one of    *)
(* error/complete, silence afterwards), replies the protocol knows, and    *)
(* that nothing crashes or wedges.  Left open: the first connection_init   *)
(* must be acknowledged (or refused with connection_error), later ones may *)
(* be; anything the protocol does not know (ping, pong, unknown types,      *)
(* malformed or binary payloads) may be answered by connection_error - or  *)
(* by an id-less error, which is what the code sends for a JSON syntax      *)
(* error - or ignored; a start for an active id may be refused with         *)
(* error(id) without ending the running operation; start is not tied to a   *)
(* preceding init.                                                          *)
(***************************************************************************)
EXTENDS WSServerCommon

GwsIn(m0, e) ==
  LET sym == e.a
      m   == Busy(m0, sym, InCtx(m0, sym))
      err == {Opt("connerr", ""), Opt("error", "")}
  IN
  IF m0.hs # "reading" \/ m0.conn = "closed" THEN Reject(m0, "Harness", "input-while-not-reading", m0.hs)
  ELSE
  CASE sym \in {"init", "initslow"} ->
         IF m.conn = "opened" THEN [m EXCEPT !.pend = "ack"]
         ELSE [m EXCEPT !.popt = m.popt \cup {Opt("ack", ""), Opt("connerr", "")}]
    [] sym \in {"ping", "pong", "unknown", "malformed", "binary"} -> [m EXCEPT !.popt = m.popt \cup err]
    \* a refused init: connection_error, never an ack (and so no keep-alive); the server terminates what is running
    \* on the connection - those operations end without a terminal message, nothing is owed for them any more
    \* connection_terminate: the client is done with the connection. The server ends what is running (no terminal
    \* messages are owed any more) and may close the socket (normal closure or plain TCP close); the code keeps it open.
    [] sym = "terminate" ->
         [m EXCEPT !.popt = m.popt \cup {Opt("close1000", ""), Opt("close0", "")},
                   !.op = [i \in OpIds |-> IF m.op[i].st = "active" THEN [m.op[i] EXCEPT !.stop = TRUE] ELSE m.op[i]]]
    [] sym = "initrej" ->
         [m EXCEPT !.popt = m.popt \cup {Opt("connerr", "")},
                   !.op = [i \in OpIds |-> IF m.op[i].st = "active" THEN [m.op[i] EXCEPT !.stop = TRUE] ELSE m.op[i]]]
    \* a start whose payload cannot be deserialized starts nothing; it may be refused
    [] sym = "subbad" -> [m EXCEPT !.popt = m.popt \cup err \cup {Opt("error", "1")}]
    \* one connection_error per transport read error at most
    [] sym = "readerr" -> [m EXCEPT !.popt = {Opt("connerr", "")}]
    [] sym = "missingid" -> [Activate(m, "", "q", e.k) EXCEPT !.popt = m.popt \cup err]
    [] sym \in SubSyms ->
         LET id == SubId(sym) IN
         IF m.op[id].st = "active" /\ ~m.op[id].stop THEN [m EXCEPT !.popt = m.popt \cup {Opt("error", id), Opt("connerr", "")}]
         ELSE Activate(m, id, SubKind(sym), e.k)
    [] sym \in CompSyms -> ClientStop(m, CompId(sym))
    [] OTHER -> Reject(m, "Harness", "unknown-symbol", sym)

GwsOut(m, e) ==
  IF m.conn = "closed" THEN Reject(m, "OutputAllowed", "output-after-close", e.a)
  ELSE
  CASE e.a = "connection_ack" -> OutAck(m, e)
    [] e.a = "connection_error" ->
         IF m.pend = "ack" THEN [m EXCEPT !.pend = "none"]            \* the init was refused
         ELSE IF Opt("connerr", "") \in m.popt THEN m
         ELSE Reject(m, "OutputAllowed", "unsolicited-connection-error", e.a)
    [] e.a = "wsctl"    -> m
    [] e.a = "ka"       -> IF m.conn = "acked" THEN m ELSE Reject(m, "OutputAllowed", "keep-alive-before-ack", e.a)
    [] e.a = "data"     -> OutData(m, e)
    [] e.a = "error"    -> OutError(m, e)
    [] e.a = "complete" -> OutComplete(m, e)
    [] OTHER -> Reject(m, "OutputAllowed", "message-type-not-in-protocol", e.a)

\* the legacy protocol has no close codes: the server never closes by itself in the modelled alphabet
GwsStep(m, e) ==
  IF m.bad # "" THEN m
  ELSE
  CASE e.ev = "in"      -> GwsIn(m, e)
    [] e.ev = "out"     -> GwsOut(m, e)
    [] e.ev = "close"   -> IF m.conn # "closed" /\ ((e.code = 0 /\ GaveUp(m)) \/ Opt("close" \o ToString(e.code), "") \in m.popt)
                           THEN Close(m, e)
                           ELSE Reject(m, "CloseCode", "close-not-allowed", ToString(e.code))
    [] e.ev = "rd"      -> Rd(m)
    [] e.ev = "exit"    -> Exit(m)
    [] e.ev = "eof"     -> Eof(m)
    [] e.ev = "exec"    -> Exec(m, e)
    [] e.ev = "eng"     -> Eng(m, e)
    [] e.ev = "engdone" -> EngDone(m, e)
    [] e.ev = "wedge"   -> Reject(m, "NeverWedged", "wedged", e.a)
    [] e.ev = "panic"   -> Reject(m, "NoPanic", "panic", e.a)
    [] e.ev = "done"    -> m
    [] e.ev = "broken"  -> [m EXCEPT !.broken = TRUE]
    [] e.ev \in {"initgo", "tick"} -> m
    [] e.ev = "hold"    -> [m EXCEPT !.wif = TRUE]
    [] e.ev = "unhold"  -> [m EXCEPT !.wif = FALSE]
    [] OTHER            -> Reject(m, "Harness", "unknown-event", e.ev)
=============================================================================
