CONSTANTS
  NS = 2
  MaxEvents = 3
  MaxTerm = 99
  MaxSrcTerm = 99
  MaxHB = 99
  UseD = TRUE
  StartModes <- StartAll
  FixD5 = FALSE
  FixD6 = FALSE
  CfgOK <- CfgAll
  Soft = FALSE
  Prop = "C12"
SPECIFICATION TraceSpec
CONSTRAINT HighWater
VIEW TraceView
INVARIANTS NoWriteAfterClose ClosedOnce WriterExclusiveT OrderedExactT RegistryConsistent
POSTCONDITION TraceAccepted
CHECK_DEADLOCK FALSE
