------------------------ MODULE WSServerTransportWS ------------------------
(***************************************************************************)
(* Acceptor for the graphql-transport-ws server                            *)
(*   execution/subscription/websocket/protocol_graphql_transport_ws.go     *)
(*   execution/subscription/handler.go, engine.go                          *)
(*                                                                         *)
(* Given the client's input and the engine's events, which server outputs  *)
(* are allowed.  Only what property C19 states is demanded:                *)
(*   connection_ack is the reply to the first connection_init;             *)
(*   pong is the reply to ping (or a heartbeat after the ack);             *)
(*   a second init            => close 4429                                *)
(*   an unknown message type  => close 4400                                *)
(*   subscribe before the ack => close 4401, no operation starts           *)
(*   subscribe with an id that is active => close 4409                     *)
(*   no init in time          => close 4408                                *)
(*   next/error/complete(id) only for an active id, in the order the       *)
(*   engine produced them; error/complete make the id terminal; nothing    *)
(*   for a terminal id until a new subscribe re-uses it.                   *)
(* Not prescribed by the statement and therefore left open: malformed JSON *)
(* / binary payload / subscribe without id may be answered by close 4400   *)
(* or ignored; a client complete may be echoed by the server's complete    *)
(* (which then is the terminal message of the id), also for an id that     *)
(* never ran.                                                              *)
(***************************************************************************)
EXTENDS WSServerCommon

TwsIn(m0, e) ==
  LET sym == e.a
      m   == Busy(m0, sym, InCtx(m0, sym))
  IN
  IF m0.hs # "reading" \/ m0.conn = "closed" THEN Reject(m0, "Harness", "input-while-not-reading", m0.hs)
  ELSE
  \* "initslow" = a connection_init whose InitFunc takes its time (the handler is busy until "initgo")
  CASE sym \in {"init", "initslow"} ->
         IF m.conn = "opened" THEN [m EXCEPT !.pend = "ack"]
         ELSE [m EXCEPT !.pend = "close", !.pcodes = {4429}]
    \* connection_terminate belongs to the legacy protocol: an unknown type here
    \* a refused init: never acknowledged; the server may close (4401 as the code does, 4403, 4400) - if it does not,
    \* the connection simply stays un-acknowledged.  On an acknowledged connection it is a second init all the same.
    [] sym = "initrej" ->
         IF m.conn = "opened" THEN [m EXCEPT !.popt = {Opt("close4401", ""), Opt("close4403", ""), Opt("close4400", "")}]
         ELSE [m EXCEPT !.pend = "close", !.pcodes = {4429}]
    \* a subscribe before the ack is closed with 4401 whatever its payload looks like; after the ack an
    \* undeserializable payload may be refused (4400, error(id) for a free id) or ignored - no operation starts
    [] sym = "subbad" ->
         IF m.conn # "acked" THEN [m EXCEPT !.pend = "close", !.pcodes = {4401}]
         ELSE [m EXCEPT !.popt = {Opt("close4400", "")} \cup
                                 (IF m.op["1"].st = "active" THEN {Opt("close4409", "")} ELSE {Opt("error", "1")})]
    \* a transport read error is not a message: nothing is sent for it
    [] sym = "readerr" -> m
    [] sym = "ping" -> [m EXCEPT !.pend = "pong"]
    [] sym = "pong" -> m
    [] sym = "missingid" ->
         IF m.conn # "acked" THEN [m EXCEPT !.pend = "close", !.pcodes = {4400, 4401}]
         ELSE IF m.op[""].st = "active" /\ ~m.op[""].stop
              THEN [m EXCEPT !.popt = {Opt("close4400", ""), Opt("close4409", "")}]
              ELSE [Activate(m, "", "q", e.k) EXCEPT !.popt = {Opt("close4400", "")}]
    [] sym \in SubSyms ->
         LET id == SubId(sym) IN
         IF m.conn # "acked" THEN [m EXCEPT !.pend = "close", !.pcodes = {4401}]
         ELSE IF m.op[id].st = "active" /\ ~m.op[id].stop THEN [m EXCEPT !.pend = "close", !.pcodes = {4409}]
         ELSE Activate(m, id, SubKind(sym), e.k)
    [] sym \in CompSyms -> ClientStop(m, CompId(sym))
    [] sym \in {"unknown", "terminate"} -> [m EXCEPT !.pend = "close", !.pcodes = {4400}]
    [] sym \in {"malformed", "binary"} -> [m EXCEPT !.popt = {Opt("close4400", "")}]
    [] OTHER -> Reject(m, "Harness", "unknown-symbol", sym)

TwsOut(m, e) ==
  IF m.conn = "closed" THEN Reject(m, "OutputAllowed", "output-after-close", e.a)
  ELSE
  CASE e.a = "connection_ack" -> OutAck(m, e)
    [] e.a = "pong" ->
         IF e.code = 1 /\ m.conn = "acked" THEN m                 \* heartbeat (its own payload), not a reply
         ELSE IF m.pend = "pong" THEN [m EXCEPT !.pend = "none"]
         ELSE Reject(m, "OutputAllowed", "unsolicited-pong", e.a)
    [] e.a = "ping"     -> m                                       \* the server may ping at any time
    [] e.a = "wsctl"    -> m                                       \* WebSocket control frame (pong for a client ping frame)
    [] e.a = "next"     -> OutData(m, e)
    [] e.a = "error"    -> OutError(m, e)
    [] e.a = "complete" -> OutComplete(m, e)
    [] OTHER -> Reject(m, "OutputAllowed", "message-type-not-in-protocol", e.a)

TwsStep(m, e) ==
  IF m.bad # "" THEN m
  ELSE
  CASE e.ev = "in"      -> TwsIn(m, e)
    [] e.ev = "out"     -> TwsOut(m, e)
    [] e.ev = "close"   -> IF m.conn = "closed" THEN Reject(m, "OutputAllowed", "close-after-close", ToString(e.code))
                           ELSE Close(m, e)
    [] e.ev = "rd"      -> Rd(m)
    [] e.ev = "exit"    -> Exit(m)
    [] e.ev = "eof"     -> Eof(m)
    [] e.ev = "exec"    -> Exec(m, e)
    [] e.ev = "eng"     -> Eng(m, e)
    [] e.ev = "engdone" -> EngDone(m, e)
    [] e.ev = "wedge"   -> Reject(m, "NeverWedged", "wedged", e.a)
    [] e.ev = "panic"   -> Reject(m, "NoPanic", "panic", e.a)
    [] e.ev = "done"    -> m
    [] e.ev = "broken"  -> [m EXCEPT !.broken = TRUE]
    [] e.ev \in {"initgo", "tick"} -> m          \* the slow InitFunc returns / a keep-alive interval has passed
    [] e.ev = "hold"    -> [m EXCEPT !.wif = TRUE]
    [] e.ev = "unhold"  -> [m EXCEPT !.wif = FALSE]
    [] OTHER            -> Reject(m, "Harness", "unknown-event", e.ev)
=============================================================================
