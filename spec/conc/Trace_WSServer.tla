--------------------------- MODULE Trace_WSServer ---------------------------
(* Trace validation for C19: the interleaved log of client inputs, server     *)
(* outputs (messages, close frames and codes) and engine events recorded by   *)
(* harness/cmd/wsserver from the real server is run through the protocol      *)
(* acceptors WSServerTransportWS / WSServerGraphQLWS.  The acceptors are       *)
(* deterministic, so one log line = one TLC step.  Traces are concatenated:    *)
(* "reset" starts a trace (and names the protocol), "done" ends it and prints  *)
(* the verdict of the acceptor for that trace: the violated property (cls),    *)
(* the reason (bad), the offending line.                                       *)
EXTENDS WSServerTransportWS, WSServerGraphQLWS, Json, TLCExt, IOUtils
TraceLog == ndJsonDeserialize(IOEnv.TRACE)
VARIABLES l, mon, cid, bl
tvars == <<l, mon, cid, bl>>

Step(m, e) == IF m.proto = "tws" THEN TwsStep(m, e) ELSE GwsStep(m, e)

Verdict(m, b) ==
  [id |-> cid, bad |-> m.bad, cls |-> m.cls, det |-> m.det, last |-> m.last, ctx |-> m.ctx, line |-> b,
   OutputAllowed |-> OutputAllowedP(m), NoStartBeforeInit |-> NoStartBeforeInitP(m), OneTerminal |-> OneTerminalP(m),
   NothingAfterTerminal |-> NothingAfterTerminalP(m), NeverWedged |-> NeverWedgedP(m),
   complete |-> m.hs = "exited"]

TraceInit ==
  /\ l = 1
  /\ mon = InitMon("tws")
  /\ cid = ""
  /\ bl = 0
  /\ TLCSet(1, 0)

TraceNext ==
  /\ l <= Len(TraceLog)
  /\ l' = l + 1
  /\ LET e == TraceLog[l] IN
     CASE e.ev = "reset" -> mon' = InitMon(e.a) /\ cid' = e.id /\ bl' = 0
       [] e.ev = "done"  -> /\ PrintT(ToJson(Verdict(mon, bl)))
                            /\ UNCHANGED <<mon, cid, bl>>
       [] e.ev = "end"   -> UNCHANGED <<mon, cid, bl>>
       [] OTHER -> /\ mon' = Step(mon, e)
                   /\ cid' = cid
                   /\ bl' = IF mon.bad = "" /\ mon'.bad # "" THEN l ELSE bl

TraceSpec == TraceInit /\ [][TraceNext]_tvars

HighWater == TLCSet(1, IF l > TLCGet(1) THEN l ELSE TLCGet(1))
TraceAccepted ==
  IF TLCGet(1) = Len(TraceLog) + 1 THEN TRUE
  ELSE /\ PrintT(<<"TRACE_STUCK_AT_LINE", TLCGet(1)>>)
       /\ FALSE
\* the log itself is well-formed (a harness problem otherwise, never a verdict about the code)
HarnessOK == mon.cls # "Harness"
=============================================================================
